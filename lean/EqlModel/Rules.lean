/-
  EqlModel.Rules — rule trees: construction (rule.py) and evaluation (conclusion_selector.py,
  conclusion.py), layer L1.

    refinement()                               ↦ RTree.refineAt
    alternative() / alternative_or_next        ↦ RTree.altAt  (climb while the node heads the left
                                                 operand of a selector, after fix af71dba; re-link of
                                                 the wrapped operand, fix c43f6ae)
    `with rule_mode(q): Add(..); with refinement(..): ..` ↦ buildKids / buildRule over the surface
                                                 program (blocks in written order)
    ExceptIf._evaluate__                       ↦ evalR (.exceptIf)
    Alternative._evaluate__ (ElseIf + update_conclusion) ↦ evalR (.alternative)
    Entity._evaluate_ applying the root's conclusions, Add._evaluate__ ↦ ruleRows

  A leaf is a branch's condition (the AND-chain of its conditions) with the conclusion attached to
  it (`Add(views, T(..))`, identified by a tag); leaves carry the identity of the node object
  (`id`) because the construction functions find "the current node" on the expression stack.
-/
import EqlModel.Eval
import EqlModel.Spec

namespace Eql
variable {V : Type}

inductive RTree (V : Type) where
  | leaf (id : Nat) (c : Cond V) (tag : Nat)
  | exceptIf (l r : RTree V)
  | alternative (l r : RTree V)
  deriving Inhabited

inductive Kind where
  | ref | alt
  deriving DecidableEq, Repr

/-- The surface program below a node: its nested blocks in written order (first child / next
    sibling): `cons kind conds tag (blocks inside it) (blocks after it)`. -/
inductive SRule (V : Type) where
  | nil
  | cons (kind : Kind) (c : Cond V) (tag : Nat) (inner : SRule V) (rest : SRule V)
  deriving Inhabited

namespace RTree

/-- `refinement()`: the current node is replaced, in place, by `ExceptIf(current, new_branch)`. -/
def refineAt (cur : Nat) (new : RTree V) : RTree V → RTree V
  | .leaf i c t => if i = cur then .exceptIf (.leaf i c t) new else .leaf i c t
  | .exceptIf l r => .exceptIf (refineAt cur new l) (refineAt cur new r)
  | .alternative l r => .alternative (refineAt cur new l) (refineAt cur new r)

inductive Status where
  | notFound | done | climbing
  deriving DecidableEq

/-- `alternative()`: from the current node, climb while it heads the LEFT operand of a selector,
    then replace that sub-tree `T` by `Alternative(T, new_branch)`. -/
def altGo (cur : Nat) (new : RTree V) : RTree V → RTree V × Status
  | .leaf i c t => if i = cur then (.leaf i c t, .climbing) else (.leaf i c t, .notFound)
  | .exceptIf l r =>
      match altGo cur new l with
      | (_, .climbing) => (.exceptIf l r, .climbing)
      | (l', .done) => (.exceptIf l' r, .done)
      | (_, .notFound) =>
        match altGo cur new r with
        | (_, .climbing) => (.exceptIf l (.alternative r new), .done)
        | (r', .done) => (.exceptIf l r', .done)
        | (_, .notFound) => (.exceptIf l r, .notFound)
  | .alternative l r =>
      match altGo cur new l with
      | (_, .climbing) => (.alternative l r, .climbing)
      | (l', .done) => (.alternative l' r, .done)
      | (_, .notFound) =>
        match altGo cur new r with
        | (_, .climbing) => (.alternative l (.alternative r new), .done)
        | (r', .done) => (.alternative l r', .done)
        | (_, .notFound) => (.alternative l r, .notFound)

def altAt (cur : Nat) (new : RTree V) (t : RTree V) : RTree V :=
  match altGo cur new t with
  | (t', .climbing) => .alternative t' new
  | (t', _) => t'

end RTree

/-- Number of blocks of a surface program (each block's leaf gets the next identity). -/
def SRule.size : SRule V → Nat
  | .nil => 0
  | .cons _ _ _ inner rest => 1 + inner.size + rest.size

/-- Run the blocks written inside the node `cur`: each creates a leaf (identity `next`), attaches it
    to `cur`, then runs its own inner blocks. -/
def buildKids (cur : Nat) : SRule V → RTree V → Nat → RTree V × Nat
  | .nil, t, next => (t, next)
  | .cons kind c tag inner rest, t, next =>
      let leaf := RTree.leaf next c tag
      let t1 := match kind with
        | .ref => RTree.refineAt cur leaf t
        | .alt => RTree.altAt cur leaf t
      let r := buildKids next inner t1 (next + 1)
      buildKids cur rest r.1 r.2

/-- The whole rule: base conditions `c0` with conclusion `tag0` and the blocks written under it. -/
def buildRule (c0 : Cond V) (tag0 : Nat) (kids : SRule V) : RTree V :=
  (buildKids 0 kids (.leaf 0 c0 tag0) 1).1

/-- Evaluate a rule tree: outputs are (binding, is_false, selected conclusion). -/
def evalR (W : World V) (D : VarId → List V) : RTree V → Bnd V → Bool → List (Bnd V × Bool × Option Nat)
  | .leaf _ c tag, β, ywf =>
      (evalCond W D c β ywf).map fun p => (p.1, p.2, if p.2 then none else some tag)
  | .exceptIf l r, β, ywf =>
      (evalR W D l β ywf).flatMap fun p =>
        if p.2.1 then (if ywf then [(p.1, true, none)] else [])
        else
          let rs := evalR W D r p.1 false
          if rs.isEmpty then [(p.1, false, p.2.2)]
          else rs.map fun q => (q.1, false, q.2.2)
  | .alternative l r, β, ywf =>
      let ls := evalR W D l β true
      if ls.isEmpty then evalR W D r β ywf
      else ls.flatMap fun p =>
        if p.2.1 then evalR W D r p.1 ywf else [(p.1, false, p.2.2)]

/-- `infer(entity(views, ...))` over a rule tree: one row (tag, values of the conclusion's argument
    expressions under the binding) per true output that selected a conclusion. -/
def ruleRows (W : World V) (D : VarId → List V) (t : RTree V) (args : List (Term V)) : List (Nat × List V) :=
  (evalR W D t [] false).flatMap fun p =>
    match p.2.2 with
    | some tag => if p.2.1 then [] else (evalArgs W D args p.1).map fun q => (tag, q.2)
    | none => []

/-! ### Reference: ripple-down rules on the surface program -/

/-- The conclusion ripple-down rules prescribe for the blocks of one kind written inside a node:
    the first block (in written order) that fires; a block fires when its conditions hold — then
    its conclusion is the first of its refinements that fires, else its own — or else when one of
    its alternatives fires. -/
def fireKids (W : World V) (α : Asg V) (m : Kind) : SRule V → Option Nat
  | .nil => none
  | .cons kind c tag inner rest =>
      let here : Option Nat :=
        if kind = m then
          (if denote W α c then some ((fireKids W α .ref inner).getD tag) else fireKids W α .alt inner)
        else none
      match here with
      | some x => some x
      | none => fireKids W α m rest

def fireRule (W : World V) (α : Asg V) (c0 : Cond V) (tag0 : Nat) (kids : SRule V) : Option Nat :=
  if denote W α c0 then some ((fireKids W α .ref kids).getD tag0) else fireKids W α .alt kids

/-! ### Denotation of a constructed rule tree -/

def RTree.holds (W : World V) (α : Asg V) : RTree V → Bool
  | .leaf _ c _ => denote W α c
  | .exceptIf l _ => l.holds W α
  | .alternative l r => l.holds W α || r.holds W α

def RTree.concl (W : World V) (α : Asg V) : RTree V → Option Nat
  | .leaf _ c tag => if denote W α c then some tag else none
  | .exceptIf l r => if l.holds W α then (if r.holds W α then r.concl W α else l.concl W α) else none
  | .alternative l r => if l.holds W α then l.concl W α else r.concl W α

end Eql
