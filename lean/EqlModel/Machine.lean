/-
  EqlModel.Machine — layer L2: the evaluator WITH its mutable per-node state: result caches
  (`IndexedCache` per operator) and duplicate-tracking sets (`SeenSet` per node, parent and truth).

  Transliteration (symbolic.py), eager in the order the generators run when they are consumed to
  the end (every per-node piece of state is touched by its own node only, so for evaluations that
  run to completion the eager order and the lazy order produce the same states and outputs;
  evaluations that stop early end in the reset/clear of `_reset_after_evaluation_`, C04):
    _required_variables_from_child_ (SymbolicExpression / ResultQuantifier / QueryObjectDescriptor /
        BinaryOperator / OR overrides)                         ↦ ReqFn, reqLeftOfAnd, reqOfOr…
    _is_duplicate_output_                                       ↦ isDup
    BinaryOperator.update_cache / yield_final_output_from_cache ↦ updCache / fromCache
    Comparator / AND / ElseIf ._evaluate__ (caching branches)   ↦ evalM
    An.evaluate … _reset_cache_ (de-dup sets reset, caches kept) ↦ resetDedup
  Cache keys are variable ids in DECLARATION order (`rank`), values are object identities (`toKey`).
-/
import EqlModel.Eval
import EqlModel.Cache
import EqlModel.Lemmas.Cond

namespace Eql.Machine
open Eql

variable {V : Type}

structure Params (V : Type) where
  /-- position of a variable in declaration order (= order of the Python `_id_`s) -/
  rank : VarId → Nat
  /-- object identity (`HashedValue.id_`) -/
  toKey : V → Nat
  ofKey : Nat → V

abbrev Path := List Nat

structure NodeSt where
  cache  : Cache.Cache Nat Bool := { keys := [] }
  rcache : Cache.Cache Nat Bool := { keys := [] }
  seenT  : Cache.SeenSet Nat := {}
  seenF  : Cache.SeenSet Nat := {}

abbrev St := List (Path × NodeSt)

def getNode (st : St) (π : Path) : NodeSt := (st.lookup π).getD {}

def setNode (st : St) (π : Path) (n : NodeSt) : St :=
  (π, n) :: st.filter (fun p => p.1 != π)

/-- `parent._required_variables_from_child_(self, when_true)` as seen from a node. -/
abbrev ReqFn := Option Bool → List VarId

def insertSorted (P : Params V) (v : VarId) : List VarId → List VarId
  | [] => [v]
  | w :: ws => if P.rank v ≤ P.rank w then v :: w :: ws else w :: insertSorted P v ws

/-- `sorted(ids)` of the distinct variables (cache key order). -/
def keyList (P : Params V) (vars : List VarId) : List Nat :=
  ((vars.eraseDups).foldr (insertSorted P) []).map P.rank

/-- A binding as a cache assignment over the given key variables. -/
def toAsg (P : Params V) (vars : List VarId) (β : Bnd V) : Cache.Asg Nat :=
  (vars.eraseDups).filterMap fun v => (β.lookup v).map fun a => (P.rank v, P.toKey a)

/-- Merge a retrieved assignment back into a binding (`result = copy(assignment)` + cached keys). -/
def fromAsg (P : Params V) (vars : List VarId) (a : Cache.Asg Nat) (β : Bnd V) : Bnd V :=
  (vars.eraseDups).foldl (fun acc v =>
    match acc.lookup v, a.lookup (P.rank v) with
    | none, some k => (v, P.ofKey k) :: acc
    | _, _ => acc) β

/-- `_is_duplicate_output_`: required variables from the parent, per-truth seen set. -/
def isDup (P : Params V) (req : ReqFn) (isFalse : Bool) (out : Bnd V) (n : NodeSt) : Bool × NodeSt :=
  let required := req (some (!isFalse))
  if required.isEmpty then (false, n)
  else
    let ro := toAsg P required out
    if ro.isEmpty then (false, n)
    else
      let seen := if isFalse then n.seenF else n.seenT
      let r := seen.check ro
      if r.1 then (true, if isFalse then { n with seenF := r.2 } else { n with seenT := r.2 })
      else
        let s2 := r.2.add ro
        (false, if isFalse then { n with seenF := s2 } else { n with seenT := s2 })

/-- `yield_final_output_from_cache`. -/
def fromCache (P : Params V) (req : ReqFn) (vars : List VarId) (c : Cache.Cache Nat Bool) (β : Bnd V)
    (n : NodeSt) : List (Bnd V × Bool) × NodeSt :=
  (c.retrieve (toAsg P vars β)).foldl (fun (acc : List (Bnd V × Bool) × NodeSt) r =>
    let out := fromAsg P vars r.1 β
    if r.2 then
      let d := isDup P req true out acc.2
      if d.1 then (acc.1, d.2) else (acc.1 ++ [(out, true)], d.2)
    else (acc.1 ++ [(out, false)], acc.2)) ([], n)

def mkCache (P : Params V) (vars : List VarId) (c : Cache.Cache Nat Bool) : Cache.Cache Nat Bool :=
  if c.keys.isEmpty && c.trie.isEmptyNode && c.flat.isEmpty then { c with keys := keyList P vars } else c

/-- `BinaryOperator._required_variables_from_child_` for the LEFT / RIGHT child of an AND. -/
def reqLeftOfAnd (rightVars : List VarId) (req : ReqFn) : ReqFn := fun wt =>
  match wt with
  -- a TRUE output of the left operand does not decide the conjunction: what the parent needs when the conjunction turns
  -- out false is needed as well (repair R35)
  | some true => rightVars ++ req (some true) ++ req (some false)
  | _ => rightVars ++ req wt
def reqRightOfAnd (req : ReqFn) : ReqFn := fun wt => req wt

/-- `OR._required_variables_from_child_` for the LEFT / RIGHT child of an ElseIf. -/
def reqLeftOfOr (rightVars : List VarId) (req : ReqFn) : ReqFn := fun wt =>
  match wt.map (!·) with
  | some false => req (some true)              -- when_false = False: only needed when I am true
  | _ => rightVars ++ req none                 -- when_false True or None
def reqRightOfOr (req : ReqFn) : ReqFn := fun wt => req wt

/-- One left value of an AND (`AND._evaluate__`'s loop body); `evalR` evaluates the right operand. -/
def andStep (P : Params V) (caching : Bool) (π : Path) (req : ReqFn) (ywf : Bool) (rvars : List VarId)
    (evalR : Bnd V → St → List (Bnd V × Bool) × St)
    (acc : List (Bnd V × Bool) × St) (lv : Bnd V × Bool) : List (Bnd V × Bool) × St :=
  let n0 := getNode acc.2 π
  let n := { n0 with rcache := mkCache P rvars n0.rcache }
  if ywf && lv.2 then
    -- a false left value is forwarded unless it is a duplicate
    let d := isDup P req true lv.1 n
    if d.1 then (acc.1, setNode acc.2 π d.2) else (acc.1 ++ [(lv.1, true)], setNode acc.2 π d.2)
  else
    let chk := if caching then n.rcache.check (toAsg P rvars lv.1) else (false, n.rcache)
    let n1 := { n with rcache := chk.2 }
    if chk.1 then
      let fc := fromCache P req rvars n1.rcache lv.1 n1
      (acc.1 ++ fc.1, setNode acc.2 π fc.2)
    else
      let st1 := setNode acc.2 π n1
      let rr := evalR lv.1 st1
      let n2 := getNode rr.2 π
      let c2 := if caching then rr.1.foldl (fun c p => c.insert (toAsg P rvars p.1) p.2) n2.rcache else n2.rcache
      (acc.1 ++ rr.1, setNode rr.2 π { n2 with rcache := c2 })

/-- One right value under a false left value of an ElseIf: true right outputs are dropped when they are
    duplicates; every kept output is cached. -/
def orInner (P : Params V) (caching : Bool) (π : Path) (req : ReqFn) (ywf : Bool) (rvars : List VarId)
    (a2 : List (Bnd V × Bool) × St) (rv : Bnd V × Bool) : List (Bnd V × Bool) × St :=
  let nn := getNode a2.2 π
  if rv.2 && !ywf then a2
  else
    let d := if !rv.2 then isDup P req false rv.1 nn else (false, nn)
    if d.1 then (a2.1, setNode a2.2 π d.2)
    else
      let c2 := if caching then d.2.rcache.insert (toAsg P rvars rv.1) rv.2 else d.2.rcache
      (a2.1 ++ [rv], setNode a2.2 π { d.2 with rcache := c2 })

/-- One left value of an ElseIf (`ElseIf._evaluate__`'s loop body). -/
def orStep (P : Params V) (caching : Bool) (π : Path) (req : ReqFn) (ywf : Bool) (rvars : List VarId)
    (evalR : Bnd V → St → List (Bnd V × Bool) × St)
    (acc : List (Bnd V × Bool) × St) (lv : Bnd V × Bool) : List (Bnd V × Bool) × St :=
  if lv.2 then
    let n0 := getNode acc.2 π
    let n := { n0 with rcache := mkCache P rvars n0.rcache }
    let chk := if caching then n.rcache.check (toAsg P rvars lv.1) else (false, n.rcache)
    let n1 := { n with rcache := chk.2 }
    if chk.1 then
      let fc := fromCache P req rvars n1.rcache lv.1 n1
      (acc.1 ++ fc.1, setNode acc.2 π fc.2)
    else
      let st1 := setNode acc.2 π n1
      let rr := evalR lv.1 st1
      rr.1.foldl (orInner P caching π req ywf rvars) (acc.1, rr.2)
  else (acc.1 ++ [(lv.1, false)], acc.2)

variable (W : World V) (D : VarId → List V) (P : Params V) (caching : Bool)

/-- Evaluate a condition with its state.  Returns the outputs in order and the new state. -/
def evalM : Cond V → Path → ReqFn → Bnd V → Bool → St → List (Bnd V × Bool) × St
  | .cmp op l r, π, req, β, ywf, st =>
      let vars := l.vars ++ r.vars
      let n0 := getNode st π
      let n := { n0 with cache := mkCache P vars n0.cache }
      -- if is_caching_enabled(): if self._cache_.check(sources): yield from cache; return
      let chk := if caching then n.cache.check (toAsg P vars β) else (false, n.cache)
      let n1 := { n with cache := chk.2 }
      if chk.1 then
        let r := fromCache P req vars n1.cache β n1
        (r.1, setNode st π r.2)
      else
        let raw := evalCond W D (.cmp op l r) β ywf
        -- every yielded output is inserted under its key variables with output = is_false
        let c2 := if caching then raw.foldl (fun c p => c.insert (toAsg P vars p.1) p.2) n1.cache else n1.cache
        (raw, setNode st π { n1 with cache := c2 })
  | .truth inv t, _, _, β, ywf, st => (evalCond W D (.truth inv t) β ywf, st)
  | .pred inv name args, _, _, β, ywf, st => (evalCond W D (.pred inv name args) β ywf, st)
  | .and l r, π, req, β, ywf, st =>
      let lr := evalM l (0 :: π) (reqLeftOfAnd r.vars req) β ywf st
      lr.1.foldl (andStep P caching π req ywf r.vars
        (fun b s => evalM r (1 :: π) (reqRightOfAnd req) b ywf s)) ([], lr.2)
  | .elseIf l r, π, req, β, ywf, st =>
      let lr := evalM l (0 :: π) (reqLeftOfOr r.vars req) β true st
      if lr.1.isEmpty then
        -- the left branch produced nothing at all: evaluate the right branch against the sources
        let rr := evalM r (1 :: π) (reqRightOfOr req) β ywf lr.2
        let n0 := getNode rr.2 π
        let n := { n0 with rcache := mkCache P r.vars n0.rcache }
        let c2 := if caching then rr.1.foldl (fun c p => c.insert (toAsg P r.vars p.1) p.2) n.rcache else n.rcache
        (rr.1, setNode rr.2 π { n with rcache := c2 })
      else
        lr.1.foldl (orStep P caching π req ywf r.vars
          (fun b s => evalM r (1 :: π) (reqRightOfOr req) b ywf s)) ([], lr.2)
  | .sub sel c, π, req, β, ywf, st =>
      -- An(Entity(sel, c)) in condition position: required variables of the child also include the selected ones
      let cr := evalM c (0 :: π) (fun wt => req wt ++ sel.flatMap Term.binds) β ywf st
      (cr.1.flatMap fun p => (evalArgs W D sel p.1).map fun q => (q.1, p.2), cr.2)

/-- `_reset_cache_` after an evaluation: the duplicate-tracking sets are reset, the caches stay. -/
def resetDedup (st : St) : St := st.map fun p => (p.1, { p.2 with seenT := {}, seenF := {} })

/-- One `an(...).evaluate()` run to completion: rows and the state left behind. -/
def rowsM (q : Query V) (st : St) : List (List V) × St :=
  -- `required_vars.update(self.selected_variables)`: the selected expressions themselves count, so the id a selected
  -- Flatten node binds is part of the duplicate key, next to the variables
  let selVars := q.sel.flatMap Term.binds
  let outs := match q.cond with
    | none => ([([], false)], st)
    | some c => evalM W D P caching c [] (fun _ => selVars) [] false st
  (outs.1.flatMap fun p => if p.2 then [] else (evalArgs W D q.sel p.1).map (·.2), resetDedup outs.2)

end Eql.Machine
