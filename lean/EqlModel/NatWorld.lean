/-
  A tiny concrete world over `Nat` (attributes are the identity, comparisons are the natural ones)
  used to state kernel-checked witnesses (`decide`) and non-vacuity examples.
-/
import EqlModel.Basic

namespace Eql

def natWorld : World Nat where
  attr := fun _ v => v
  index := fun v _ => v
  call := fun _ _ v => v
  cmp := fun op a b => match op with
    | .eq => a == b
    | .ne => a != b
    | .lt => decide (a < b)
    | .le => decide (a ≤ b)
    | .gt => decide (a > b)
    | .ge => decide (a ≥ b)
    | .contains => a == b
    | .notContains => a != b
  truthy := fun v => v != 0
  items := fun v => [v]
  isInst := fun _ _ => true
  fn := fun _ args => args.headD 0
  mkList := fun l => l.headD 0

end Eql
