/-
  EqlModel.Cache — `SeenSet` and `IndexedCache` (cache_data.py), transliterated.

    SeenSet.add / check / clear                     ↦ SeenSet.add / check / clear
    IndexedCache.insert                             ↦ Cache.insert  (trie: Trie.insert, mkPath)
    IndexedCache.retrieve + _yield_result           ↦ Cache.retrieve (Trie.retr)
    IndexedCache.check / clear                      ↦ Cache.check / clear

  The nested dictionaries are a first-child / next-sibling tree (`Trie`), so a node's children
  keep their insertion order exactly like a Python dict and every function is structurally
  recursive (on the key list or on the trie).  `Key.all` is the `All` wildcard sentinel.
-/
namespace Eql.Cache

/-- A trie edge label: a concrete value or the `All` wildcard. -/
inductive Key (A : Type) where
  | val (a : A)
  | all
  deriving DecidableEq, Repr

/-- A dictionary node is a sibling list `cons k child rest`; `nil` is the empty dictionary;
    `leaf o` is a stored output (only below the last key). -/
inductive Trie (A O : Type) where
  | leaf (o : O)
  | nil
  | cons (k : Key A) (child : Trie A O) (rest : Trie A O)
  deriving Repr

variable {A O : Type} [DecidableEq A]

/-- A partial assignment of the cache keys (`dict`), keys are natural numbers. -/
abbrev Asg (A : Type) := List (Nat × A)

def Asg.get (a : Asg A) (k : Nat) : Option A := a.lookup k

namespace Trie

/-- `dict.items()` of a node. -/
def children : Trie A O → List (Key A × Trie A O)
  | .cons k c rest => (k, c) :: children rest
  | _ => []

/-- `dict.get(key)`. -/
def child? (key : Key A) : Trie A O → Option (Trie A O)
  | .cons k c rest => if k = key then some c else child? key rest
  | _ => none

/-- A fresh chain of dictionaries for a path, ending in the output. -/
def mkPath (o : O) : List (Key A) → Trie A O
  | [] => .leaf o
  | k :: ks => .cons k (mkPath o ks) .nil

/-- `IndexedCache.insert`'s walk: follow / create one child per key, overwrite the leaf. -/
def insert (o : O) : Trie A O → List (Key A) → Trie A O
  | .cons k c rest, p :: ps =>
      if k = p then .cons k (insert o c ps) rest else .cons k c (insert o rest (p :: ps))
  | _, path => mkPath o path

/-- All stored entries `(path, output)`, in dictionary order. -/
def toEntries : Trie A O → List (List (Key A) × O)
  | .leaf o => [([], o)]
  | .nil => []
  | .cons k c rest => (toEntries c).map (fun e => (k :: e.1, e.2)) ++ toEntries rest

def isEmptyNode : Trie A O → Bool
  | .nil => true
  | _ => false

/-- `IndexedCache.retrieve`: `res` is the accumulated `result` dictionary (newest first). -/
def retr (asg : Asg A) : List Nat → Trie A O → Asg A → List (Asg A × O)
  | [], t, res =>
      match t with
      | .leaf o => [(res, o)]
      | _ => []
  | k :: ks, t, res =>
      match t with
      | .leaf o => [(res, o)]
      | .nil => []
      | node =>
        match asg.get k with
        | some a =>
            match child? (.val a) node with
            | some c => retr asg ks c res
            | none =>
              match child? .all node with
              | some c => retr asg ks c res
              | none => []
        | none =>
            match child? .all node with
            | some c => retr asg ks c res
            | none => (children node).flatMap fun kc =>
                match kc.1 with
                | .val b => retr asg ks kc.2 ((k, b) :: res)
                | .all => retr asg ks kc.2 res

end Trie

/-- `SeenSet`. -/
structure SeenSet (A : Type) where
  seen : List (Asg A) := []
  allSeen : Bool := false

namespace SeenSet

def add (s : SeenSet A) (a : Asg A) : SeenSet A :=
  if s.allSeen then s
  else { seen := s.seen ++ [a], allSeen := a.isEmpty }

/-- Is the constraint `c` contained in the assignment `a`? -/
def covers (c a : Asg A) : Bool :=
  c.all fun kv => a.get kv.1 == some kv.2

/-- `SeenSet.check`: returns the answer and the (possibly poisoned) new state. -/
def check (s : SeenSet A) (a : Asg A) : Bool × SeenSet A :=
  if s.allSeen then (true, s)
  else if a.isEmpty then (false, { seen := s.seen ++ [a], allSeen := true })
  else (s.seen.any fun c => covers c a, s)

end SeenSet

/-- `IndexedCache`: sorted keys, seen set, trie, flat store. -/
structure Cache (A O : Type) where
  keys : List Nat
  seen : SeenSet A := {}
  trie : Trie A O := .nil
  flat : List O := []

namespace Cache

def path (keys : List Nat) (a : Asg A) : List (Key A) :=
  keys.map fun k => match a.get k with
    | some v => .val v
    | none => .all

def insert (c : Cache A O) (a : Asg A) (o : O) : Cache A O :=
  if a.isEmpty then { c with flat := c.flat ++ [o] }
  else { c with seen := c.seen.add a, trie := Trie.insert o c.trie (path c.keys a) }

def check (c : Cache A O) (a : Asg A) : Bool × Cache A O :=
  let a' := a.filter fun kv => c.keys.contains kv.1
  let r := c.seen.check a'
  (r.1, { c with seen := r.2 })

/-- `IndexedCache.check` as repaired by R34: a cache WITHOUT keys (the result cache of a comparison between
    constants) never claims to cover a lookup; with at least one key it is `check`. -/
def checkK (c : Cache A O) (a : Asg A) : Bool × Cache A O :=
  if c.keys.isEmpty then (false, c) else c.check a

def retrieve (c : Cache A O) (a : Asg A) : List (Asg A × O) :=
  if c.trie.isEmptyNode then [] else Trie.retr a c.keys c.trie a

def clear (c : Cache A O) : Cache A O :=
  { c with seen := {}, trie := .nil, flat := [] }

end Cache

end Eql.Cache
