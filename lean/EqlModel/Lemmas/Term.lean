/-
  Helper lemmas: evaluation of value-position expressions (`evalTerm`, `evalArgs`) against the
  specification (`termVal`, `termsVal`).
-/
import EqlModel.Eval
import EqlModel.Spec
import EqlModel.Lemmas.Ext

namespace Eql
variable {V : Type}

/-- No `Flatten` node inside the term. -/
def Term.noFlat : Term V → Bool
  | .var _ => true
  | .lit _ => true
  | .attr _ t => t.noFlat
  | .index _ t => t.noFlat
  | .call _ _ t => t.noFlat
  | .flatten _ _ => false
  | .concat _ _ => false

def Terms.noFlat : List (Term V) → Bool
  | [] => true
  | t :: ts => t.noFlat && Terms.noFlat ts

/-- Every bound value lies in the domain of its variable. -/
def BOk (D : VarId → List V) (β : Bnd V) : Prop := ∀ v a, β.lookup v = some a → a ∈ D v

theorem bok_nil (D : VarId → List V) : BOk D ([] : Bnd V) := by
  intro v a h; simp [List.lookup] at h

theorem bok_cons {D : VarId → List V} {β : Bnd V} {v : VarId} {o : V}
    (h : BOk D β) (ho : o ∈ D v) : BOk D ((v, o) :: β) := by
  intro w a hw
  by_cases e : w = v
  · subst e; rw [lookup_cons_self] at hw; cases hw; exact ho
  · rw [lookup_cons_ne β o e] at hw; exact h w a hw

section
variable (W : World V) (D : VarId → List V)

/-- Soundness of term evaluation: an output extends the input binding and carries the value the
    term has under every assignment that extends the output. -/
theorem term_sound : ∀ (t : Term V), t.noFlat = true → ∀ (β β' : Bnd V) (a : V),
    (β', a) ∈ evalTerm W D t β → ∀ α, Ext β' α → Ext β α ∧ termVal W α t = a := by
  intro t
  induction t with
  | var v =>
    intro _ β β' a h α hα
    simp only [evalTerm] at h
    cases hl : β.lookup v with
    | some b =>
      rw [hl] at h
      simp at h
      obtain ⟨h1, h2⟩ := h
      subst h1
      exact ⟨hα, by rw [h2]; exact hα v b hl⟩
    | none =>
      rw [hl] at h
      simp only [List.mem_map] at h
      obtain ⟨o, _, ho⟩ := h
      cases ho
      have := (ext_cons_fresh hl).1 hα
      exact ⟨this.2, this.1⟩
  | lit c =>
    intro _ β β' a h α hα
    simp [evalTerm] at h
    obtain ⟨rfl, rfl⟩ := h
    exact ⟨hα, rfl⟩
  | attr n t ih =>
    intro hf β β' a h α hα
    simp only [evalTerm, List.mem_map] at h
    obtain ⟨p, hp, he⟩ := h
    cases he
    have := ih hf β p.1 p.2 hp α hα
    exact ⟨this.1, by simp [termVal, this.2]⟩
  | index k t ih =>
    intro hf β β' a h α hα
    simp only [evalTerm, List.mem_map] at h
    obtain ⟨p, hp, he⟩ := h
    cases he
    have := ih hf β p.1 p.2 hp α hα
    exact ⟨this.1, by simp [termVal, this.2]⟩
  | call m args t ih =>
    intro hf β β' a h α hα
    simp only [evalTerm, List.mem_map] at h
    obtain ⟨p, hp, he⟩ := h
    cases he
    have := ih hf β p.1 p.2 hp α hα
    exact ⟨this.1, by simp [termVal, this.2]⟩
  | flatten id t _ =>
    intro hf; simp [Term.noFlat] at hf
  | concat id t _ =>
    intro hf; simp [Term.noFlat] at hf

/-- Outputs of term evaluation keep every bound value inside its domain. -/
theorem term_bok : ∀ (t : Term V), t.noFlat = true → ∀ (β β' : Bnd V) (a : V),
    BOk D β → (β', a) ∈ evalTerm W D t β → BOk D β' := by
  intro t
  induction t with
  | var v =>
    intro _ β β' a hb h
    simp only [evalTerm] at h
    cases hl : β.lookup v with
    | some b => rw [hl] at h; simp at h; obtain ⟨rfl, _⟩ := h; exact hb
    | none =>
      rw [hl] at h
      simp only [List.mem_map] at h
      obtain ⟨o, ho, he⟩ := h
      cases he
      exact bok_cons hb ho
  | lit c => intro _ β β' a hb h; simp [evalTerm] at h; obtain ⟨rfl, _⟩ := h; exact hb
  | attr n t ih =>
    intro hf β β' a hb h
    simp only [evalTerm, List.mem_map] at h
    obtain ⟨p, hp, he⟩ := h; cases he; exact ih hf β p.1 p.2 hb hp
  | index k t ih =>
    intro hf β β' a hb h
    simp only [evalTerm, List.mem_map] at h
    obtain ⟨p, hp, he⟩ := h; cases he; exact ih hf β p.1 p.2 hb hp
  | call m args t ih =>
    intro hf β β' a hb h
    simp only [evalTerm, List.mem_map] at h
    obtain ⟨p, hp, he⟩ := h; cases he; exact ih hf β p.1 p.2 hb hp
  | flatten id t _ => intro hf; simp [Term.noFlat] at hf
  | concat id t _ => intro hf; simp [Term.noFlat] at hf

/-- Completeness of term evaluation: every assignment that extends the input binding and keeps the
    term's variables inside their domains extends one of the outputs. -/
theorem term_complete : ∀ (t : Term V), t.noFlat = true → ∀ (β : Bnd V) (α : Asg V),
    Ext β α → (∀ v ∈ t.vars, α v ∈ D v) → ∃ p ∈ evalTerm W D t β, Ext p.1 α := by
  intro t
  induction t with
  | var v =>
    intro _ β α hα hd
    simp only [evalTerm]
    cases hl : β.lookup v with
    | some b => exact ⟨(β, b), by simp, hα⟩
    | none =>
      refine ⟨((v, α v) :: β, α v), ?_, ?_⟩
      · simp only [List.mem_map]
        exact ⟨α v, hd v (by simp [Term.vars]), rfl⟩
      · exact (ext_cons_fresh hl).2 ⟨rfl, hα⟩
  | lit c => intro _ β α hα _; exact ⟨(β, c), by simp [evalTerm], hα⟩
  | attr n t ih =>
    intro hf β α hα hd
    obtain ⟨p, hp, he⟩ := ih hf β α hα hd
    exact ⟨(p.1, W.attr n p.2), by simp only [evalTerm, List.mem_map]; exact ⟨p, hp, rfl⟩, he⟩
  | index k t ih =>
    intro hf β α hα hd
    obtain ⟨p, hp, he⟩ := ih hf β α hα hd
    exact ⟨(p.1, W.index p.2 k), by simp only [evalTerm, List.mem_map]; exact ⟨p, hp, rfl⟩, he⟩
  | call m args t ih =>
    intro hf β α hα hd
    obtain ⟨p, hp, he⟩ := ih hf β α hα hd
    exact ⟨(p.1, W.call m args p.2), by simp only [evalTerm, List.mem_map]; exact ⟨p, hp, rfl⟩, he⟩
  | flatten id t _ => intro hf; simp [Term.noFlat] at hf
  | concat id t _ => intro hf; simp [Term.noFlat] at hf

/-- A term all of whose variables are bound evaluates to exactly one output: the unchanged binding
    with the term's value. -/
theorem term_closed : ∀ (t : Term V), t.noFlat = true → ∀ (β : Bnd V) (α : Asg V),
    Ext β α → (∀ v ∈ t.vars, bound β v = true) → evalTerm W D t β = [(β, termVal W α t)] := by
  intro t
  induction t with
  | var v =>
    intro _ β α hα hb
    have := hb v (by simp [Term.vars])
    obtain ⟨a, ha⟩ := bound_iff.1 this
    simp [evalTerm, ha, termVal, hα v a ha]
  | lit c => intro _ β α _ _; simp [evalTerm, termVal]
  | attr n t ih => intro hf β α hα hb; simp [evalTerm, termVal, ih hf β α hα hb]
  | index k t ih => intro hf β α hα hb; simp [evalTerm, termVal, ih hf β α hα hb]
  | call m args t ih => intro hf β α hα hb; simp [evalTerm, termVal, ih hf β α hα hb]
  | flatten id t _ => intro hf; simp [Term.noFlat] at hf
  | concat id t _ => intro hf; simp [Term.noFlat] at hf

/-- Same, with the agreement only required on the variables of the term. -/
theorem term_closed_on : ∀ (t : Term V), t.noFlat = true → ∀ (β : Bnd V) (α : Asg V),
    (∀ v ∈ t.vars, β.lookup v = some (α v)) → evalTerm W D t β = [(β, termVal W α t)] := by
  intro t
  induction t with
  | var v =>
    intro _ β α hb
    have := hb v (by simp [Term.vars])
    simp [evalTerm, this, termVal]
  | lit c => intro _ β α _; simp [evalTerm, termVal]
  | attr n t ih => intro hf β α hb; simp [evalTerm, termVal, ih hf β α hb]
  | index k t ih => intro hf β α hb; simp [evalTerm, termVal, ih hf β α hb]
  | call m args t ih => intro hf β α hb; simp [evalTerm, termVal, ih hf β α hb]
  | flatten id t _ => intro hf; simp [Term.noFlat] at hf
  | concat id t _ => intro hf; simp [Term.noFlat] at hf

/-- The value of a term depends only on the values of its variables. -/
theorem termVal_congr : ∀ (t : Term V), t.noFlat = true → ∀ (α α' : Asg V),
    (∀ v ∈ t.vars, α v = α' v) → termVal W α t = termVal W α' t := by
  intro t
  induction t with
  | var v => intro _ α α' h; simpa [termVal] using h v (by simp [Term.vars])
  | lit c => intro _ α α' _; rfl
  | attr n t ih => intro hf α α' h; simp [termVal, ih hf α α' h]
  | index k t ih => intro hf α α' h; simp [termVal, ih hf α α' h]
  | call m args t ih => intro hf α α' h; simp [termVal, ih hf α α' h]
  | flatten id t _ => intro hf; simp [Term.noFlat] at hf
  | concat id t _ => intro hf; simp [Term.noFlat] at hf

/-- A single-variable term over an unbound variable enumerates the domain in order. -/
theorem term_dist (x : VarId) : ∀ (t : Term V), t.noFlat = true → (∀ v ∈ t.vars, v = x) →
    t.vars ≠ [] →
    evalTerm W D t [] = (D x).map fun o => ([(x, o)], termVal W (constAsg o) t) := by
  intro t
  induction t with
  | var v =>
    intro _ hv _
    have : v = x := hv v (by simp [Term.vars])
    subst this
    simp [evalTerm, List.lookup, termVal, constAsg]
  | lit c => intro _ _ hne; simp [Term.vars] at hne
  | attr n t ih =>
    intro hf hv hne
    simp only [evalTerm, ih hf hv hne, List.map_map, termVal]
    rfl
  | index k t ih =>
    intro hf hv hne
    simp only [evalTerm, ih hf hv hne, List.map_map, termVal]
    rfl
  | call m args t ih =>
    intro hf hv hne
    simp only [evalTerm, ih hf hv hne, List.map_map, termVal]
    rfl
  | flatten id t _ => intro hf; simp [Term.noFlat] at hf
  | concat id t _ => intro hf; simp [Term.noFlat] at hf

/-- `term_dist` under ANY binding that leaves the term's variable unbound: the outer bindings are
    carried along unchanged and do not influence the values. -/
theorem term_dist_frame (x : VarId) (β : Bnd V) (hβ : β.lookup x = none) :
    ∀ (t : Term V), t.noFlat = true → (∀ v ∈ t.vars, v = x) → t.vars ≠ [] →
    evalTerm W D t β = (D x).map fun o => ((x, o) :: β, termVal W (constAsg o) t) := by
  intro t
  induction t with
  | var v =>
    intro _ hv _
    have : v = x := hv v (by simp [Term.vars])
    subst this
    simp [evalTerm, hβ, termVal, constAsg]
  | lit c => intro _ _ hne; simp [Term.vars] at hne
  | attr n t ih =>
    intro hf hv hne
    simp only [evalTerm, ih hf hv hne, List.map_map, termVal]
    rfl
  | index k t ih =>
    intro hf hv hne
    simp only [evalTerm, ih hf hv hne, List.map_map, termVal]
    rfl
  | call m args t ih =>
    intro hf hv hne
    simp only [evalTerm, ih hf hv hne, List.map_map, termVal]
    rfl
  | flatten id t _ => intro hf; simp [Term.noFlat] at hf
  | concat id t _ => intro hf; simp [Term.noFlat] at hf

end

end Eql
