/-
  Definitions used to STATE the cache theorems (agreement of a stored path with a lookup, merged
  binding, prefix-uniformity, shape invariant); also printed by the driver as the reference.
-/
import EqlModel.Cache

namespace Eql.Cache
variable {A O : Type} [DecidableEq A]

open Trie

/-- Does a stored path agree with the lookup on every key they share? -/
def agree (asg : Asg A) : List Nat → List (Key A) → Bool
  | [], [] => true
  | [], _ :: _ => false
  | _ :: _, [] => false
  | k :: ks, .val b :: p => (match asg.get k with | some a => decide (a = b) | none => true) && agree asg ks p
  | _ :: ks, .all :: p => agree asg ks p

/-- The stored binding merged into the lookup (accumulated in `res`, newest first). -/
def image (asg : Asg A) : List Nat → List (Key A) → Asg A → Asg A
  | [], _, res => res
  | _ :: _, [], res => res
  | k :: ks, .val b :: p, res =>
      image asg ks p (match asg.get k with | some _ => res | none => (k, b) :: res)
  | _ :: ks, .all :: p, res => image asg ks p res

/-- All sibling keys of a dictionary are wildcards (`wild = true`) / concrete (`wild = false`). -/
def kindOk (wild : Bool) : Trie A O → Bool
  | .cons k _ rest => (match k with | .all => wild | .val _ => !wild) && kindOk wild rest
  | _ => true

def kindAny (t : Trie A O) : Bool := kindOk true t || kindOk false t

/-- Every dictionary strictly below `t` is of one kind. -/
def uniformBelow : Trie A O → Bool
  | .cons _ c rest => (kindAny c && uniformBelow c) && uniformBelow rest
  | _ => true

/-- **Prefix-uniform**: at every trie node the children are either all concrete or a single
    wildcard (the stored bindings agree on whether the next key is bound). -/
def Uniform (t : Trie A O) : Bool := kindAny t && uniformBelow t

/-- Shape invariant: a dictionary of depth `n` (every path has `n` keys) with distinct sibling keys. -/
def WS : Nat → Trie A O → Prop
  | 0, .leaf _ => True
  | _ + 1, .nil => True
  | n + 1, .cons k c rest => WS n c ∧ WS (n + 1) rest ∧ child? k rest = none
  | _, _ => False


end Eql.Cache
