/-
  Helper lemmas: which variables an output binds (support), and the unconditional
  "outputs extend their input" lemma used by the disjointness argument.
-/
import EqlModel.Lemmas.Cond

namespace Eql
variable {V : Type}
variable (W : World V) (D : VarId → List V)

theorem bound_cons {β : Bnd V} {v w : VarId} {o : V} :
    bound ((v, o) :: β) w = true ↔ (w = v ∨ bound β w = true) := by
  by_cases e : w = v
  · subst e; simp [bound, lookup_cons_self]
  · simp [bound, lookup_cons_ne β o e, e]

/-- Term outputs bind all variables of the term, keep what was bound, bind nothing else. -/
theorem term_supp : ∀ (t : Term V), t.noFlat = true → ∀ (β β' : Bnd V) (a : V),
    (β', a) ∈ evalTerm W D t β →
    ∀ w, bound β' w = true ↔ (bound β w = true ∨ w ∈ t.vars) := by
  intro t
  induction t with
  | var v =>
    intro _ β β' a h w
    simp only [evalTerm] at h
    cases hl : β.lookup v with
    | some b =>
      rw [hl] at h; simp at h; obtain ⟨h1, _⟩ := h; subst h1
      simp only [Term.vars, List.mem_singleton]
      constructor
      · intro h; exact Or.inl h
      · rintro (h | h)
        · exact h
        · subst h; simp [bound, hl]
    | none =>
      rw [hl] at h
      simp only [List.mem_map] at h
      obtain ⟨o, _, he⟩ := h
      cases he
      rw [bound_cons]
      simp only [Term.vars, List.mem_singleton]
      constructor
      · rintro (h | h); exact Or.inr h; exact Or.inl h
      · rintro (h | h); exact Or.inr h; exact Or.inl h
  | lit c =>
    intro _ β β' a h w
    simp [evalTerm] at h; obtain ⟨h1, _⟩ := h; subst h1; simp [Term.vars]
  | attr n t ih =>
    intro hf β β' a h w
    simp only [evalTerm, List.mem_map] at h
    obtain ⟨p, hp, he⟩ := h; cases he; exact ih hf β p.1 p.2 hp w
  | index k t ih =>
    intro hf β β' a h w
    simp only [evalTerm, List.mem_map] at h
    obtain ⟨p, hp, he⟩ := h; cases he; exact ih hf β p.1 p.2 hp w
  | call m args t ih =>
    intro hf β β' a h w
    simp only [evalTerm, List.mem_map] at h
    obtain ⟨p, hp, he⟩ := h; cases he; exact ih hf β p.1 p.2 hp w
  | flatten id t _ => intro hf; simp [Term.noFlat] at hf
  | concat id t _ => intro hf; simp [Term.noFlat] at hf

theorem args_supp : ∀ (ts : List (Term V)), Terms.noFlat ts = true → ∀ (β β' : Bnd V) (as : List V),
    (β', as) ∈ evalArgs W D ts β →
    ∀ w, bound β' w = true ↔ (bound β w = true ∨ w ∈ Terms.vars ts) := by
  intro ts
  induction ts with
  | nil =>
    intro _ β β' as h w
    simp [evalArgs] at h; obtain ⟨h1, _⟩ := h; subst h1; simp [Terms.vars]
  | cons t ts ih =>
    intro hf β β' as h w
    simp only [Terms.noFlat, Bool.and_eq_true] at hf
    simp only [evalArgs, List.mem_flatMap, List.mem_map] at h
    obtain ⟨p, hp, q, hq, he⟩ := h
    cases he
    rw [ih hf.2 p.1 q.1 q.2 hq w, term_supp W D t hf.1 β p.1 p.2 hp w]
    simp only [Terms.vars, List.mem_append]
    constructor
    · rintro ((h | h) | h)
      · exact Or.inl h
      · exact Or.inr (Or.inl h)
      · exact Or.inr (Or.inr h)
    · rintro (h | h | h)
      · exact Or.inl (Or.inl h)
      · exact Or.inl (Or.inr h)
      · exact Or.inr h

/-- Condition outputs only bind variables of the condition (on top of what was bound). -/
theorem cond_supp : ∀ (c : Cond V), c.noFlat = true → ∀ (β β' : Bnd V) (f ywf : Bool),
    (β', f) ∈ evalCond W D c β ywf →
    (∀ w, bound β' w = true → (bound β w = true ∨ w ∈ c.vars)) ∧
    (∀ w, bound β w = true → bound β' w = true) := by
  intro c
  induction c with
  | cmp op l r =>
    intro hf β β' f ywf h
    simp only [Cond.noFlat, Bool.and_eq_true] at hf
    simp only [evalCond] at h
    split at h
    · simp only [List.mem_flatMap] at h
      obtain ⟨p1, hp1, p2, hp2, h3⟩ := h
      split at h3 <;> simp at h3
      obtain ⟨h31, _⟩ := h3; subst h31
      have a1 := term_supp W D r hf.2 β p1.1 p1.2 hp1
      have a2 := term_supp W D l hf.1 p1.1 p2.1 p2.2 hp2
      constructor
      · intro w hw
        rcases (a2 w).1 hw with h | h
        · rcases (a1 w).1 h with h | h
          · exact Or.inl h
          · exact Or.inr (by simp [Cond.vars, h])
        · exact Or.inr (by simp [Cond.vars, h])
      · intro w hw; exact (a2 w).2 (Or.inl ((a1 w).2 (Or.inl hw)))
    · simp only [List.mem_flatMap] at h
      obtain ⟨p1, hp1, p2, hp2, h3⟩ := h
      split at h3 <;> simp at h3
      obtain ⟨h31, _⟩ := h3; subst h31
      have a1 := term_supp W D l hf.1 β p1.1 p1.2 hp1
      have a2 := term_supp W D r hf.2 p1.1 p2.1 p2.2 hp2
      constructor
      · intro w hw
        rcases (a2 w).1 hw with h | h
        · rcases (a1 w).1 h with h | h
          · exact Or.inl h
          · exact Or.inr (by simp [Cond.vars, h])
        · exact Or.inr (by simp [Cond.vars, h])
      · intro w hw; exact (a2 w).2 (Or.inl ((a1 w).2 (Or.inl hw)))
  | truth inv t =>
    intro hf β β' f ywf h
    simp only [Cond.noFlat] at hf
    simp only [evalCond, List.mem_flatMap] at h
    obtain ⟨p, hp, h3⟩ := h
    split at h3 <;> simp at h3
    obtain ⟨h31, _⟩ := h3; subst h31
    have a1 := term_supp W D t hf β p.1 p.2 hp
    exact ⟨fun w hw => by simpa [Cond.vars] using (a1 w).1 hw, fun w hw => (a1 w).2 (Or.inl hw)⟩
  | pred inv n args =>
    intro hf β β' f ywf h
    simp only [Cond.noFlat] at hf
    simp only [evalCond, List.mem_flatMap] at h
    obtain ⟨p, hp, h3⟩ := h
    split at h3 <;> simp at h3
    obtain ⟨h31, _⟩ := h3; subst h31
    have a1 := args_supp W D args hf β p.1 p.2 hp
    exact ⟨fun w hw => by simpa [Cond.vars] using (a1 w).1 hw, fun w hw => (a1 w).2 (Or.inl hw)⟩
  | and l r ihl ihr =>
    intro hf β β' f ywf h
    simp only [Cond.noFlat, Bool.and_eq_true] at hf
    simp only [evalCond, List.mem_flatMap] at h
    obtain ⟨p, hp, h3⟩ := h
    have a1 := ihl hf.1 β p.1 p.2 ywf hp
    split at h3
    · simp at h3; obtain ⟨h31, _⟩ := h3; subst h31
      exact ⟨fun w hw => (a1.1 w hw).imp id (fun h => by simp [Cond.vars, h]), a1.2⟩
    · have a2 := ihr hf.2 p.1 β' f ywf h3
      constructor
      · intro w hw
        rcases a2.1 w hw with h | h
        · exact (a1.1 w h).imp id (fun h => by simp [Cond.vars, h])
        · exact Or.inr (by simp [Cond.vars, h])
      · intro w hw; exact a2.2 w (a1.2 w hw)
  | elseIf l r ihl ihr =>
    intro hf β β' f ywf h
    simp only [Cond.noFlat, Bool.and_eq_true] at hf
    simp only [evalCond] at h
    split at h
    · have a2 := ihr hf.2 β β' f ywf h
      exact ⟨fun w hw => (a2.1 w hw).imp id (fun h => by simp [Cond.vars, h]), a2.2⟩
    · simp only [List.mem_flatMap] at h
      obtain ⟨p, hp, h3⟩ := h
      have a1 := ihl hf.1 β p.1 p.2 true hp
      split at h3
      · have a2 := ihr hf.2 p.1 β' f ywf h3
        constructor
        · intro w hw
          rcases a2.1 w hw with h | h
          · exact (a1.1 w h).imp id (fun h => by simp [Cond.vars, h])
          · exact Or.inr (by simp [Cond.vars, h])
        · intro w hw; exact a2.2 w (a1.2 w hw)
      · simp at h3; obtain ⟨h31, _⟩ := h3; subst h31
        exact ⟨fun w hw => (a1.1 w hw).imp id (fun h => by simp [Cond.vars, h]), a1.2⟩
  | sub sel c ih =>
    intro hf β β' f ywf h
    simp only [Cond.noFlat, Bool.and_eq_true] at hf
    simp only [evalCond, List.mem_flatMap, List.mem_map] at h
    obtain ⟨p, hp, q, hq, he⟩ := h
    cases he
    have a1 := ih hf.1 β p.1 p.2 ywf hp
    have a2 := args_supp W D sel hf.2 p.1 q.1 q.2 hq
    constructor
    · intro w hw
      rcases (a2 w).1 hw with h | h
      · exact (a1.1 w h).imp id (fun h => by simp [Cond.vars, h])
      · exact Or.inr (by simp [Cond.vars, h])
    · intro w hw; exact (a2 w).2 (Or.inl (a1.2 w hw))

/-- Unconditionally, an assignment that extends an output extends the input. -/
theorem cond_ext : ∀ (c : Cond V), c.noFlat = true → ∀ (β β' : Bnd V) (f ywf : Bool),
    (β', f) ∈ evalCond W D c β ywf → ∀ α, Ext β' α → Ext β α := by
  intro c
  induction c with
  | cmp op l r =>
    intro hf β β' f ywf h α hα
    simp only [Cond.noFlat, Bool.and_eq_true] at hf
    simp only [evalCond] at h
    split at h
    · simp only [List.mem_flatMap] at h
      obtain ⟨p1, hp1, p2, hp2, h3⟩ := h
      split at h3 <;> simp at h3
      obtain ⟨h31, _⟩ := h3; subst h31
      exact (term_sound W D r hf.2 β p1.1 p1.2 hp1 α (term_sound W D l hf.1 p1.1 p2.1 p2.2 hp2 α hα).1).1
    · simp only [List.mem_flatMap] at h
      obtain ⟨p1, hp1, p2, hp2, h3⟩ := h
      split at h3 <;> simp at h3
      obtain ⟨h31, _⟩ := h3; subst h31
      exact (term_sound W D l hf.1 β p1.1 p1.2 hp1 α (term_sound W D r hf.2 p1.1 p2.1 p2.2 hp2 α hα).1).1
  | truth inv t =>
    intro hf β β' f ywf h α hα
    simp only [Cond.noFlat] at hf
    simp only [evalCond, List.mem_flatMap] at h
    obtain ⟨p, hp, h3⟩ := h
    split at h3 <;> simp at h3
    obtain ⟨h31, _⟩ := h3; subst h31
    exact (term_sound W D t hf β p.1 p.2 hp α hα).1
  | pred inv n args =>
    intro hf β β' f ywf h α hα
    simp only [Cond.noFlat] at hf
    simp only [evalCond, List.mem_flatMap] at h
    obtain ⟨p, hp, h3⟩ := h
    split at h3 <;> simp at h3
    obtain ⟨h31, _⟩ := h3; subst h31
    exact (args_sound W D args hf β p.1 p.2 hp α hα).1
  | and l r ihl ihr =>
    intro hf β β' f ywf h α hα
    simp only [Cond.noFlat, Bool.and_eq_true] at hf
    simp only [evalCond, List.mem_flatMap] at h
    obtain ⟨p, hp, h3⟩ := h
    split at h3
    · simp at h3; obtain ⟨h31, _⟩ := h3; subst h31
      exact ihl hf.1 β p.1 p.2 ywf hp α hα
    · exact ihl hf.1 β p.1 p.2 ywf hp α (ihr hf.2 p.1 β' f ywf h3 α hα)
  | elseIf l r ihl ihr =>
    intro hf β β' f ywf h α hα
    simp only [Cond.noFlat, Bool.and_eq_true] at hf
    simp only [evalCond] at h
    split at h
    · exact ihr hf.2 β β' f ywf h α hα
    · simp only [List.mem_flatMap] at h
      obtain ⟨p, hp, h3⟩ := h
      split at h3
      · exact ihl hf.1 β p.1 p.2 true hp α (ihr hf.2 p.1 β' f ywf h3 α hα)
      · simp at h3; obtain ⟨h31, _⟩ := h3; subst h31
        exact ihl hf.1 β p.1 p.2 true hp α hα
  | sub sel c ih =>
    intro hf β β' f ywf h α hα
    simp only [Cond.noFlat, Bool.and_eq_true] at hf
    simp only [evalCond, List.mem_flatMap, List.mem_map] at h
    obtain ⟨p, hp, q, hq, he⟩ := h
    cases he
    exact ih hf.1 β p.1 p.2 ywf hp α (args_sound W D sel hf.2 p.1 q.1 q.2 hq α hα).1

end Eql
