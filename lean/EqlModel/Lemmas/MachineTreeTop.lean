/-
  L2 with the result cache ENABLED, single-variable queries: ANY and/or tree evaluated the way a query
  evaluates it (`x` unbound at the root).  The left-most leaf enumerates the domain (under the flag its
  position gives it), every other node is consulted with `x` bound (`MachineTree.lean`).

    TSpecY, cmp_top_y   the left-most comparison under either flag: first pass computed and stored
                        (false outputs too when they are asked for), later passes served from the
                        poisoned cache - false outputs through the duplicate check, which they pass
    nodeFold            the loop of an AND / ElseIf node over the left values of all objects
    top_ok_y            induction over the left spine of the tree
-/
import EqlModel.Lemmas.MachineTree

namespace Eql.Machine
open Eql
variable {V : Type}
variable (P : Params V) (x : VarId)
variable (W : World V) (D : VarId → List V)

/-- The objects a node yields an output for under the flag `y`. -/
def yObjs (y : Bool) (H : V → Bool) : List V := (D x).filter fun o => H o || y

theorem flatMap_singleOut_y (c : Cond V) (y : Bool) :
    (D x).flatMap (singleOut W c x y) =
      (yObjs x D y (Hc W c)).map fun o => (([(x, o)] : Bnd V), !Hc W c o) := by
  unfold yObjs
  induction D x with
  | nil => rfl
  | cons o os ih =>
    simp only [List.flatMap_cons, List.filter_cons, ih, singleOut, closedOut, Hc]
    rcases Bool.eq_false_or_eq_true (denote W (constAsg o) c) with h | h <;> cases y <;> simp [h]

/-- A cache consulted with `x` UNBOUND by a node evaluated under the flag `y`: untouched, or - after one
    complete pass - poisoned and holding, in domain order, the output of every object that has one. -/
def TSpecY (c : Cache.Cache Nat Bool) (y : Bool) (H : V → Bool) : Prop :=
  (c.keys = [] ∧ c.trie = .nil ∧ c.flat = [] ∧ c.seen.seen = [] ∧ c.seen.allSeen = false) ∨
  (c.flat = [] ∧ c.seen.allSeen = true ∧
    Cache.One c (P.rank x) ((yObjs x D y H).map fun o => (P.toKey o, !H o)))

theorem fold_insert_top_y {vars : List VarId} (hv : OnlyX x vars) (g : V → Bool) :
    ∀ (L : List V) (c : Cache.Cache Nat Bool) (E0 : List (Nat × Bool)),
      Cache.One c (P.rank x) E0 → c.seen.allSeen = true → c.flat = [] →
      (L.map P.toKey).Nodup → (∀ o ∈ L, E0.lookup (P.toKey o) = none) →
      let c' := (L.map fun o => (([(x, o)] : Bnd V), g o)).foldl
        (fun c p => c.insert (toAsg P vars p.1) p.2) c
      Cache.One c' (P.rank x) (E0 ++ L.map fun o => (P.toKey o, g o)) ∧ c'.seen.allSeen = true ∧ c'.flat = [] := by
  intro L
  induction L with
  | nil => intro c E0 h1 h2 h3 _ _; simpa using ⟨h1, h2, h3⟩
  | cons o os ih =>
    intro c E0 h1 h2 h3 hnd hfresh
    simp only [List.map_cons, List.nodup_cons] at hnd
    obtain ⟨i1, i2, i3⟩ := Cache.insert_one h1 (P.toKey o) (g o)
    rw [Cache.upd_fresh E0 _ _ (hfresh o List.mem_cons_self)] at i1
    have hall : (c.insert [(P.rank x, P.toKey o)] (g o)).seen.allSeen = true := by
      rw [i2]; simp [Cache.SeenSet.add, h2]
    have := ih (c.insert [(P.rank x, P.toKey o)] (g o)) (E0 ++ [(P.toKey o, g o)]) i1 hall (by rw [i3]; exact h3)
      hnd.2 (by
        intro o' ho'
        have hne : P.toKey o' ≠ P.toKey o := by
          intro e; apply hnd.1; rw [← e]; exact List.mem_map.2 ⟨o', ho', rfl⟩
        have hb : (P.toKey o' == P.toKey o) = false := by simp [hne]
        rw [List.lookup_append]
        simp [hfresh o' (List.mem_cons_of_mem _ ho'), List.lookup, hb])
    simpa [List.foldl_cons, toAsg_single P x hv, List.append_assoc] using this

variable [BEq V]

/-- Serving the unbound lookup from the poisoned cache: one output per stored object, in order; the false
    ones pass the duplicate check because the node is fine for every object of the list, and stays fine
    for the later ones. -/
theorem fromCache_top_fold (hk : KeyOk P x D) (hinj : Function.Injective P.rank) {vars : List VarId}
    (hv : OnlyX x vars) (req : ReqFn) (g : V → Bool) :
    ∀ (L : List V), L.Nodup → (∀ o ∈ L, o ∈ D x) → ∀ (acc : List (Bnd V × Bool)) (n : NodeSt),
      (∀ o ∈ L, NodeOk P n [(x, o)]) →
      ∃ n', (L.map fun o => (([(P.rank x, P.toKey o)] : Cache.Asg Nat), g o)).foldl
          (fun (a : List (Bnd V × Bool) × NodeSt) r =>
            let out := fromAsg P vars r.1 ([] : Bnd V)
            if r.2 then
              let d := isDup P req true out a.2
              if d.1 then (a.1, d.2) else (a.1 ++ [(out, true)], d.2)
            else (a.1 ++ [(out, false)], a.2)) (acc, n) =
        (acc ++ L.map fun o => (([(x, o)] : Bnd V), g o), n') ∧ n'.cache = n.cache ∧ n'.rcache = n.rcache := by
  intro L
  induction L with
  | nil => intro _ _ acc n _; exact ⟨n, by simp, rfl, rfl⟩
  | cons o os ih =>
    intro hnd hL acc n hn
    rw [List.nodup_cons] at hnd
    have ho := hL o List.mem_cons_self
    have hout : fromAsg P vars [(P.rank x, P.toKey o)] ([] : Bnd V) = [(x, o)] := by
      rw [fromAsg_unbound P x hv, hk.inv o ho]
    simp only [List.map_cons, List.foldl_cons, hout]
    cases hg : g o with
    | false =>
      simp only [Bool.false_eq_true, if_false]
      obtain ⟨n', h1, h2, h3⟩ := ih hnd.2 (fun o' ho' => hL o' (List.mem_cons_of_mem _ ho')) (acc ++ [([(x, o)], false)]) n
        (fun o' ho' => hn o' (List.mem_cons_of_mem _ ho'))
      exact ⟨n', by rw [h1]; simp, h2, h3⟩
    | true =>
      obtain ⟨d1, d2, d3, d4⟩ := isDup_fresh P hinj req true [(x, o)] n (hn o List.mem_cons_self)
      simp only [if_true, d1, Bool.false_eq_true, if_false]
      have hn' : ∀ o' ∈ os, NodeOk P (isDup P req true [(x, o)] n).2 [(x, o')] := by
        intro o' ho'
        have hne : o ≠ o' := fun e => hnd.1 (e ▸ ho')
        exact d4 _ (hn o' (List.mem_cons_of_mem _ ho'))
          (fun hne' => clashC_single P x _ o _ (clash_objs P x D hk o o' ho (hL o' (List.mem_cons_of_mem _ ho')) hne) hne')
      obtain ⟨n', h1, h2, h3⟩ := ih hnd.2 (fun o' ho' => hL o' (List.mem_cons_of_mem _ ho')) (acc ++ [([(x, o)], true)]) _ hn'
      exact ⟨n', by rw [h1]; simp, by rw [h2, d2], by rw [h3, d3]⟩

/-- A comparison node consulted with `x` unbound (the left-most leaf), under either flag. -/
theorem cmp_top_y [Inhabited V] (hk : KeyOk P x D) (hinj : Function.Injective P.rank) (op : CmpOp) (l r : Term V)
    (hv : OnlyX x (l.vars ++ r.vars)) (hf : (Cond.cmp op l r).noFlat = true) (hs : Cond.single x (.cmp op l r))
    (y : Bool) (π : Path) (req : ReqFn) (st : St)
    (hspec : TSpecY P x D (getNode st π).cache y (Hc W (.cmp op l r)))
    (hn : ∀ o ∈ D x, NodeOk P (getNode st π) [(x, o)]) :
    ∃ n', evalM W D P true (.cmp op l r) π req [] y st =
        ((D x).flatMap (singleOut W (.cmp op l r) x y), setNode st π n') ∧
      TSpecY P x D n'.cache y (Hc W (.cmp op l r)) ∧ n'.rcache = (getNode st π).rcache := by
  have hraw := cond_dist W D x (.cmp op l r) hf hs y
  have hsubD : ∀ o ∈ yObjs x D y (Hc W (.cmp op l r)), o ∈ D x := fun o ho => (List.mem_filter.1 ho).1
  have hndL : (yObjs x D y (Hc W (.cmp op l r))).Nodup := hk.nodup.filter _
  rcases hspec with ⟨h1, h2, h3, h4, h5⟩ | ⟨h3, hall, hone⟩
  · -- first pass: everything is computed and stored
    have hmk : mkCache P (l.vars ++ r.vars) (getNode st π).cache =
        { (getNode st π).cache with keys := [P.rank x] } := by
      simp [mkCache, h1, h2, h3, Cache.Trie.isEmptyNode, keyList_onlyX P x hv]
    have hseen0 : (getNode st π).cache.seen = { seen := [], allSeen := false } := by
      cases hs0 : (getNode st π).cache.seen with
      | mk s a => rw [hs0] at h4 h5; simp at h4 h5; simp [h4, h5]
    let c1 : Cache.Cache Nat Bool :=
      { (getNode st π).cache with keys := [P.rank x], seen := { seen := [[]], allSeen := true } }
    have hone1 : Cache.One c1 (P.rank x) [] := ⟨rfl, by simp [c1, h2, Cache.ofList]⟩
    have hkeys : ((yObjs x D y (Hc W (.cmp op l r))).map P.toKey).Nodup := by
      rw [List.nodup_iff_pairwise_ne, List.pairwise_map]
      have := hndL
      rw [List.nodup_iff_pairwise_ne] at this
      refine List.Pairwise.imp_of_mem ?_ this
      intro a b ha hb hne e
      exact hne (hk.inj a (hsubD a ha) b (hsubD b hb) e)
    obtain ⟨f1, f2, f3⟩ := fold_insert_top_y P x hv (fun o => !Hc W (.cmp op l r) o) _ c1 [] hone1 rfl
      (by simp [c1, h3]) hkeys (by simp)
    refine ⟨{ getNode st π with cache := (List.foldl (fun c p => c.insert (toAsg P (l.vars ++ r.vars) p.1) p.2) c1
        ((yObjs x D y (Hc W (.cmp op l r))).map fun o => (([(x, o)] : Bnd V), !Hc W (.cmp op l r) o))) }, ?_,
      Or.inr ⟨f3, f2, by simpa using f1⟩, rfl⟩
    simp only [evalM, toAsg_nil, hmk, Cache.Cache.check, List.filter_nil, Cache.SeenSet.check, hseen0,
      Bool.false_eq_true, if_false, if_true, List.isEmpty_nil, List.nil_append, hraw, flatMap_singleOut_y]
    rfl
  · -- later passes: served from the cache
    have hmk : mkCache P (l.vars ++ r.vars) (getNode st π).cache = (getNode st π).cache := by
      simp [mkCache, hone.keys]
    have hret := Cache.retrieve_free hone
    obtain ⟨n', hfold, hc1, hc2⟩ := fromCache_top_fold P x D hk hinj hv req (fun o => !Hc W (.cmp op l r) o)
      (yObjs x D y (Hc W (.cmp op l r))) hndL hsubD []
      { getNode st π with cache := (getNode st π).cache }
      (fun o ho => nodeOk_congr P rfl rfl (hn o (hsubD o ho)))
    refine ⟨n', ?_, ?_, hc2⟩
    · simp only [evalM, toAsg_nil, hmk, Cache.Cache.check, List.filter_nil, Cache.SeenSet.check, hall, if_true,
        fromCache, hret, List.map_map, flatMap_singleOut_y]
      have hfun : ((fun p : Nat × Bool => (([(P.rank x, p.1)] : Cache.Asg Nat), p.2)) ∘
          fun o => (P.toKey o, !Hc W (.cmp op l r) o)) =
          (fun o => (([(P.rank x, P.toKey o)] : Cache.Asg Nat), !Hc W (.cmp op l r) o)) := by
        funext o; rfl
      rw [hfun, hfold]
      simp
    · rw [hc1]; exact Or.inr ⟨h3, hall, hone⟩

/-! ### The left spine -/

/-- The caches of a tree evaluated with `x` unbound: its left-most leaf is consulted unbound, every right
    operand bound. -/
def TopInv : Cond V → Path → Bool → St → Prop
  | .cmp op l r, π, y, st => TSpecY P x D (getNode st π).cache y (Hc W (.cmp op l r))
  | .and l r, π, y, st =>
      BSpecY P x D (getNode st π).rcache y (Hc W r) ∧ TopInv l (0 :: π) y st ∧ SInv P x W D r (1 :: π) y st
  | .elseIf l r, π, y, st =>
      BSpecY P x D (getNode st π).rcache y (Hc W r) ∧ TopInv l (0 :: π) true st ∧ SInv P x W D r (1 :: π) y st
  | .sub _ c, π, y, st => TopInv c (0 :: π) y st
  | _, _, _, _ => True

omit [BEq V] in
theorem topInv_frame : ∀ (c : Cond V) (π : Path) (y : Bool) (st st' : St),
    (∀ π', InSub π π' → getNode st' π' = getNode st π') → TopInv P x W D c π y st → TopInv P x W D c π y st' := by
  intro c
  induction c with
  | cmp op l r => intro π y st st' h hc; simp only [TopInv] at *; rw [h π (inSub_refl π)]; exact hc
  | truth _ _ => intro _ _ _ _ _ _; trivial
  | pred _ _ _ => intro _ _ _ _ _ _; trivial
  | and l r ihl _ =>
    intro π y st st' h hc
    simp only [TopInv] at *
    exact ⟨by rw [h π (inSub_refl π)]; exact hc.1, ihl _ _ _ _ (fun π' hp => h π' (inSub_child hp)) hc.2.1,
      sinv_frame P x W D r _ _ _ _ (fun π' hp => h π' (inSub_child hp)) hc.2.2⟩
  | elseIf l r ihl _ =>
    intro π y st st' h hc
    simp only [TopInv] at *
    exact ⟨by rw [h π (inSub_refl π)]; exact hc.1, ihl _ _ _ _ (fun π' hp => h π' (inSub_child hp)) hc.2.1,
      sinv_frame P x W D r _ _ _ _ (fun π' hp => h π' (inSub_child hp)) hc.2.2⟩
  | sub _ c ih =>
    intro π y st st' h hc
    simp only [TopInv] at *
    exact ih _ _ _ _ (fun π' hp => h π' (inSub_child hp)) hc

theorem topInv_reset : ∀ (c : Cond V) (π : Path) (y : Bool) (st : St),
    TopInv P x W D c π y st → TopInv P x W D c π y (resetDedup st) := by
  intro c
  induction c with
  | cmp op l r => intro π y st h; simp only [TopInv, getNode_resetDedup] at *; exact h
  | truth _ _ => intro _ _ _ _; trivial
  | pred _ _ _ => intro _ _ _ _; trivial
  | and l r ihl _ =>
    intro π y st h
    simp only [TopInv, getNode_resetDedup] at *
    exact ⟨h.1, ihl _ _ _ h.2.1, sinv_reset P x W D r _ _ _ h.2.2⟩
  | elseIf l r ihl _ =>
    intro π y st h
    simp only [TopInv, getNode_resetDedup] at *
    exact ⟨h.1, ihl _ _ _ h.2.1, sinv_reset P x W D r _ _ _ h.2.2⟩
  | sub _ c ih => intro π y st h; simp only [TopInv] at *; exact ih _ _ _ h

theorem topInv_nil : ∀ (c : Cond V) (π : Path) (y : Bool), TopInv P x W D c π y ([] : St) := by
  intro c
  induction c with
  | cmp op l r => intro π y; simp only [TopInv]; exact Or.inl (by simp [getNode])
  | truth _ _ => intro _ _; trivial
  | pred _ _ _ => intro _ _; trivial
  | and l r ihl _ => intro π y; simp only [TopInv]; exact ⟨Or.inl (by simp [getNode]), ihl _ _, sinv_nil P x W D r _ _⟩
  | elseIf l r ihl _ => intro π y; simp only [TopInv]; exact ⟨Or.inl (by simp [getNode]), ihl _ _, sinv_nil P x W D r _ _⟩
  | sub _ c ih => intro π y; simp only [TopInv]; exact ih _ _

/-- The loop of an AND / ElseIf node over the left values of the (pairwise different) objects `L`. -/
theorem nodeFold (hk : KeyOk P x D) (π : Path) (y : Bool) (r : Cond V)
    (step : List (Bnd V × Bool) × St → Bnd V × Bool → List (Bnd V × Bool) × St)
    (g : V → Bool) (outF : V → List (Bnd V × Bool))
    (hstep : ∀ o ∈ D x, ∀ acc : List (Bnd V × Bool) × St,
      BSpecY P x D (getNode acc.2 π).rcache y (Hc W r) → SInv P x W D r (1 :: π) y acc.2 →
      InvOn P acc.2 (RegR π) [(x, o)] →
      (step acc ([(x, o)], g o)).1 = acc.1 ++ outF o ∧
      BSpecY P x D (getNode (step acc ([(x, o)], g o)).2 π).rcache y (Hc W r) ∧
      SInv P x W D r (1 :: π) y (step acc ([(x, o)], g o)).2 ∧
      FrameOn acc.2 (step acc ([(x, o)], g o)).2 (RegR π) ∧
      ∀ β₂ : Bnd V, InvOn P acc.2 (RegR π) β₂ → Clash P.toKey [(x, o)] β₂ →
        InvOn P (step acc ([(x, o)], g o)).2 (RegR π) β₂) :
    ∀ (L : List V), L.Nodup → (∀ o ∈ L, o ∈ D x) → ∀ (acc : List (Bnd V × Bool) × St),
      BSpecY P x D (getNode acc.2 π).rcache y (Hc W r) → SInv P x W D r (1 :: π) y acc.2 →
      (∀ o ∈ L, InvOn P acc.2 (RegR π) [(x, o)]) →
      ((L.map fun o => (([(x, o)] : Bnd V), g o)).foldl step acc).1 = acc.1 ++ L.flatMap outF ∧
      BSpecY P x D (getNode ((L.map fun o => (([(x, o)] : Bnd V), g o)).foldl step acc).2 π).rcache y (Hc W r) ∧
      SInv P x W D r (1 :: π) y ((L.map fun o => (([(x, o)] : Bnd V), g o)).foldl step acc).2 ∧
      FrameOn acc.2 ((L.map fun o => (([(x, o)] : Bnd V), g o)).foldl step acc).2 (RegR π) := by
  intro L
  induction L with
  | nil => intro _ _ acc h1 h2 _; exact ⟨by simp, h1, h2, frameOn_refl _ _⟩
  | cons o os ih =>
    intro hnd hL acc h1 h2 h3
    rw [List.nodup_cons] at hnd
    have ho := hL o List.mem_cons_self
    obtain ⟨a1, a2, a3, a4, a5⟩ := hstep o ho acc h1 h2 (h3 o List.mem_cons_self)
    have h3' : ∀ o' ∈ os, InvOn P (step acc ([(x, o)], g o)).2 (RegR π) [(x, o')] := by
      intro o' ho'
      have hne : o ≠ o' := fun e => hnd.1 (e ▸ ho')
      exact a5 _ (h3 o' (List.mem_cons_of_mem _ ho'))
        (clash_objs P x D hk o o' ho (hL o' (List.mem_cons_of_mem _ ho')) hne)
    obtain ⟨i1, i2, i3, i4⟩ := ih hnd.2 (fun o' ho' => hL o' (List.mem_cons_of_mem _ ho')) _ a2 a3 h3'
    simp only [List.map_cons, List.foldl_cons, List.flatMap_cons]
    refine ⟨?_, i2, i3, frameOn_trans a4 i4⟩
    rw [i1, a1]
    simp [List.append_assoc]

omit [BEq V] in
theorem flatMap_and_y (l r : Cond V) (y : Bool) :
    (yObjs x D y (Hc W l)).flatMap (fun o =>
        if (y && !Hc W l o) = true then [(([(x, o)] : Bnd V), true)] else singleOut W r x y o) =
      (D x).flatMap (singleOut W (.and l r) x y) := by
  unfold yObjs
  induction D x with
  | nil => rfl
  | cons o os ih =>
    rw [List.flatMap_cons, ← ih, List.filter_cons, singleOut_and]
    rcases Bool.eq_false_or_eq_true (Hc W l o) with h | h <;> cases y <;> simp [h]

omit [BEq V] in
theorem flatMap_or_y (l r : Cond V) (y : Bool) :
    (yObjs x D true (Hc W l)).flatMap (fun o =>
        if (!Hc W l o) = true then singleOut W r x y o else [(([(x, o)] : Bnd V), false)]) =
      (D x).flatMap (singleOut W (.elseIf l r) x y) := by
  unfold yObjs
  induction D x with
  | nil => rfl
  | cons o os ih =>
    rw [List.flatMap_cons, ← ih, List.filter_cons, singleOut_or]
    rcases Bool.eq_false_or_eq_true (Hc W l o) with h | h <;> simp [h]

/-- **Top position, any and/or tree.**  The tree evaluated with `x` unbound, result cache enabled, every
    node of it fine (duplicate tracking) for every object of the non-empty domain: the L1 outputs over
    the whole domain, in order. -/
theorem top_ok_y [Inhabited V] (hk : KeyOk P x D) (hinj : Function.Injective P.rank) (hD : D x ≠ []) :
    ∀ (c : Cond V), Cond.tree c = true → Cond.single x c → c.noFlat = true →
    ∀ (π : Path) (y : Bool) (req : ReqFn) (s : St), TopInv P x W D c π y s →
      (∀ o ∈ D x, InvOn P s (InSub π) [(x, o)]) →
      (evalM W D P true c π req [] y s).1 = (D x).flatMap (singleOut W c x y) ∧
      TopInv P x W D c π y (evalM W D P true c π req [] y s).2 ∧
      FrameOn s (evalM W D P true c π req [] y s).2 (InSub π) := by
  intro c
  induction c with
  | cmp op l r =>
    intro _ hs hf π y req s hinv hdd
    obtain ⟨n', he, hts, _⟩ := cmp_top_y P x W D hk hinj op l r (onlyX_of_single_cmp x hs) hf hs y π req s hinv
      (fun o ho => hdd o ho π (inSub_refl π))
    rw [he]
    refine ⟨rfl, ?_, frameOn_setNode _ _ _ _ (inSub_refl π)⟩
    simp only [TopInv, getNode_setNode_self]
    exact hts
  | truth inv t =>
    intro _ hs hf π y req s _ _
    simp only [evalM]
    exact ⟨cond_dist W D x _ hf hs y, trivial, frameOn_refl _ _⟩
  | pred inv n args =>
    intro _ hs hf π y req s _ _
    simp only [evalM]
    exact ⟨cond_dist W D x _ hf hs y, trivial, frameOn_refl _ _⟩
  | and l r ihl _ =>
    intro hc hs hf π y req s hinv hdd
    simp only [Cond.tree, Bool.and_eq_true] at hc
    simp only [Cond.noFlat, Bool.and_eq_true] at hf
    simp only [TopInv] at hinv
    have hv := onlyX_of_single_tree x r hc.2 hs.2
    obtain ⟨l1, l2, l3⟩ := ihl hc.1 hs.1 hf.1 (0 :: π) y (reqLeftOfAnd r.vars req) s hinv.2.1
      (fun o ho => invOn_sub P (hdd o ho) (fun π' h => inSub_child h))
    have hπ0 : ¬ InSub (0 :: π) π := not_inSub_child_self 0 π
    have hd01 : ∀ π', InSub (1 :: π) π' → ¬ InSub (0 :: π) π' :=
      fun π' h hc' => inSub_children_disjoint (by decide) hc' h
    have hspec : BSpecY P x D (getNode (evalM W D P true l (0 :: π) (reqLeftOfAnd r.vars req) [] y s).2 π).rcache
        y (Hc W r) := by rw [l3 π hπ0]; exact hinv.1
    have hinvr : SInv P x W D r (1 :: π) y (evalM W D P true l (0 :: π) (reqLeftOfAnd r.vars req) [] y s).2 :=
      sinv_frame P x W D r _ _ _ _ (same_of_frame l3 _ hd01) hinv.2.2
    have hsubD : ∀ o ∈ yObjs x D y (Hc W l), o ∈ D x := fun o ho => (List.mem_filter.1 ho).1
    have hddR : ∀ o ∈ yObjs x D y (Hc W l),
        InvOn P (evalM W D P true l (0 :: π) (reqLeftOfAnd r.vars req) [] y s).2 (RegR π) [(x, o)] :=
      fun o ho => invOn_frame P (invOn_sub P (hdd o (hsubD o ho)) (regR_sub π)) l3
        (fun π' h => regR_not_left π π' h)
    obtain ⟨f1, f2, f3, f4⟩ := nodeFold P x W D hk π y r
      (andStep P true π req y r.vars (fun b s' => evalM W D P true r (1 :: π) (reqRightOfAnd req) b y s'))
      (fun o => !Hc W l o)
      (fun o => if (y && !Hc W l o) = true then [(([(x, o)] : Bnd V), true)] else singleOut W r x y o)
      (fun o ho acc a1 a2 a3 => andStep_y P x W D hk hinj π req y r hv _ o ho
        (bound_ok_y P x W D hk hinj r hc.2 hs.2 hf.2 (1 :: π) y (reqRightOfAnd req) o ho) acc (!Hc W l o) a1 a2 a3)
      (yObjs x D y (Hc W l)) (hk.nodup.filter _) hsubD
      ([], (evalM W D P true l (0 :: π) (reqLeftOfAnd r.vars req) [] y s).2) hspec hinvr hddR
    have hl1 : (evalM W D P true l (0 :: π) (reqLeftOfAnd r.vars req) [] y s).1 =
        (yObjs x D y (Hc W l)).map fun o => ([(x, o)], !Hc W l o) := by
      rw [l1, flatMap_singleOut_y]
    simp only [evalM, hl1]
    refine ⟨?_, ?_, ?_⟩
    · rw [f1, List.nil_append, flatMap_and_y]
    · simp only [TopInv]
      exact ⟨f2, topInv_frame P x W D l _ _ _ _ (same_of_frame f4 _ (fun π' h hr => regR_not_left π π' hr h)) l2, f3⟩
    · exact frameOn_trans (frameOn_sub l3 (fun π' h => inSub_child h)) (frameOn_sub f4 (regR_sub π))
  | elseIf l r ihl _ =>
    intro hc hs hf π y req s hinv hdd
    simp only [Cond.tree, Bool.and_eq_true] at hc
    simp only [Cond.noFlat, Bool.and_eq_true] at hf
    simp only [TopInv] at hinv
    have hv := onlyX_of_single_tree x r hc.2 hs.2
    obtain ⟨l1, l2, l3⟩ := ihl hc.1 hs.1 hf.1 (0 :: π) true (reqLeftOfOr r.vars req) s hinv.2.1
      (fun o ho => invOn_sub P (hdd o ho) (fun π' h => inSub_child h))
    have hπ0 : ¬ InSub (0 :: π) π := not_inSub_child_self 0 π
    have hd01 : ∀ π', InSub (1 :: π) π' → ¬ InSub (0 :: π) π' :=
      fun π' h hc' => inSub_children_disjoint (by decide) hc' h
    have hspec : BSpecY P x D (getNode (evalM W D P true l (0 :: π) (reqLeftOfOr r.vars req) [] true s).2 π).rcache
        y (Hc W r) := by rw [l3 π hπ0]; exact hinv.1
    have hinvr : SInv P x W D r (1 :: π) y (evalM W D P true l (0 :: π) (reqLeftOfOr r.vars req) [] true s).2 :=
      sinv_frame P x W D r _ _ _ _ (same_of_frame l3 _ hd01) hinv.2.2
    have hsubD : ∀ o ∈ yObjs x D true (Hc W l), o ∈ D x := fun o ho => (List.mem_filter.1 ho).1
    have hddR : ∀ o ∈ yObjs x D true (Hc W l),
        InvOn P (evalM W D P true l (0 :: π) (reqLeftOfOr r.vars req) [] true s).2 (RegR π) [(x, o)] :=
      fun o ho => invOn_frame P (invOn_sub P (hdd o (hsubD o ho)) (regR_sub π)) l3
        (fun π' h => regR_not_left π π' h)
    obtain ⟨f1, f2, f3, f4⟩ := nodeFold P x W D hk π y r
      (orStep P true π req y r.vars (fun b s' => evalM W D P true r (1 :: π) (reqRightOfOr req) b y s'))
      (fun o => !Hc W l o)
      (fun o => if (!Hc W l o) = true then singleOut W r x y o else [(([(x, o)] : Bnd V), false)])
      (fun o ho acc a1 a2 a3 => orStep_y P x W D hk hinj π req y r hv _ o ho
        (bound_ok_y P x W D hk hinj r hc.2 hs.2 hf.2 (1 :: π) y (reqRightOfOr req) o ho) acc (!Hc W l o) a1 a2 a3)
      (yObjs x D true (Hc W l)) (hk.nodup.filter _) hsubD
      ([], (evalM W D P true l (0 :: π) (reqLeftOfOr r.vars req) [] true s).2) hspec hinvr hddR
    have hl1 : (evalM W D P true l (0 :: π) (reqLeftOfOr r.vars req) [] true s).1 =
        (yObjs x D true (Hc W l)).map fun o => ([(x, o)], !Hc W l o) := by
      rw [l1, flatMap_singleOut_y]
    have hne : ((yObjs x D true (Hc W l)).map fun o => (([(x, o)] : Bnd V), !Hc W l o)).isEmpty = false := by
      have : yObjs x D true (Hc W l) = D x := by
        unfold yObjs; apply List.filter_eq_self.2; intro a _; simp
      rw [this]
      cases hDx : D x with
      | nil => exact absurd hDx hD
      | cons a as => rfl
    simp only [evalM, hl1, hne, Bool.false_eq_true, if_false]
    refine ⟨?_, ?_, ?_⟩
    · rw [f1, List.nil_append, flatMap_or_y]
    · simp only [TopInv]
      exact ⟨f2, topInv_frame P x W D l _ _ _ _ (same_of_frame f4 _ (fun π' h hr => regR_not_left π π' hr h)) l2, f3⟩
    · exact frameOn_trans (frameOn_sub l3 (fun π' h => inSub_child h)) (frameOn_sub f4 (regR_sub π))
  | sub sel c ih =>
    -- a sub-query in condition position: its condition over the domain, then its selected expressions (all bound)
    intro hc hs hf π y req s hinv hdd
    simp only [Cond.tree] at hc
    simp only [Cond.noFlat, Bool.and_eq_true] at hf
    simp only [TopInv] at hinv
    obtain ⟨c1, c2, c3⟩ := ih hc hs.1 hf.1 (0 :: π) y (fun wt => req wt ++ sel.flatMap Term.binds) s hinv
      (fun o ho => invOn_sub P (hdd o ho) (fun π' h => inSub_child h))
    refine ⟨?_, by simp only [TopInv]; exact c2, frameOn_sub c3 (fun π' h => inSub_child h)⟩
    simp only [evalM, c1]
    rw [List.flatMap_assoc]
    apply flatMap_congr_mem'
    intro o _
    have hargs : evalArgs W D sel [(x, o)] = [([(x, o)], termsVal W (constAsg o) sel)] :=
      args_closed W D sel hf.2 [(x, o)] (constAsg o) (ext_single x o)
        (fun v hv => by rw [hs.2 v hv]; exact bound_single x o)
    simp only [singleOut, closedOut, denote]
    by_cases hy : (denote W (constAsg o) c || y) = true
    · simp [hy, hargs]
    · simp [hy]

/-- **Result caching is transparent for single-variable queries.**  For ANY condition of one variable -
    conjunctions, disjunctions and sub-queries in condition position over comparisons, truth tests and
    predicates (negations pushed to the leaves, as `not_` builds them) -, over a non-empty domain of distinct
    objects: one evaluation of
    `an(entity/set_of(sel, c))` by the stateful machine with the result cache ENABLED, from any state whose
    caches meet their specification and whose duplicate tracking sets are clean (the fresh state; the state
    any number of earlier evaluations left behind), yields exactly the rows of the L1 evaluation, in order -
    and leaves such a state. -/
theorem rowsM_on_any_tree [Inhabited V] (hk : KeyOk P x D) (hinj : Function.Injective P.rank) (hD : D x ≠ [])
    (q : Query V) (c : Cond V) (hq : q.cond = some c) (hc : Cond.tree c = true) (hs : Cond.single x c)
    (hf : c.noFlat = true) (st : St) (hst : TopInv P x W D c [] false st) (hclean : DedupClean st) :
    (rowsM W D P true q st).1 = rows W D q ∧ TopInv P x W D c [] false (rowsM W D P true q st).2 ∧
      DedupClean (rowsM W D P true q st).2 := by
  obtain ⟨h1, h2, _⟩ := top_ok_y P x W D hk hinj hD c hc hs hf [] false (fun _ => q.sel.flatMap Term.binds) st hst
    (fun o _ => invOn_of_clean P hclean _ _)
  refine ⟨?_, ?_, ?_⟩
  · simp only [rowsM, rows, hq, h1, cond_dist W D x c hf hs false]
    apply flatMap_congr_mem'
    intro p hp
    have hp2 : p.2 = false := by
      simp only [List.mem_flatMap] at hp
      obtain ⟨o, _, hpo⟩ := hp
      rw [singleOut_eq] at hpo
      split at hpo
      · simp at hpo; rw [hpo]
      · simp at hpo
    simp [hp2]
  · simp only [rowsM, hq]
    exact topInv_reset P x W D c _ _ _ h2
  · simp only [rowsM, hq]
    exact dedupClean_reset _

/-- … hence every one of any number of consecutive evaluations of the same query object does. -/
theorem rowsM_on_any_tree_iter [Inhabited V] (hk : KeyOk P x D) (hinj : Function.Injective P.rank) (hD : D x ≠ [])
    (q : Query V) (c : Cond V) (hq : q.cond = some c) (hc : Cond.tree c = true) (hs : Cond.single x c)
    (hf : c.noFlat = true) :
    ∀ (n : Nat) (st : St), TopInv P x W D c [] false st → DedupClean st →
      (rowsM W D P true q (afterEvalsOn P W D q n st)).1 = rows W D q := by
  intro n
  induction n with
  | zero =>
    intro st hst hcl
    exact (rowsM_on_any_tree P x W D hk hinj hD q c hq hc hs hf st hst hcl).1
  | succ n ih =>
    intro st hst hcl
    simp only [afterEvalsOn]
    obtain ⟨_, a, b⟩ := rowsM_on_any_tree P x W D hk hinj hD q c hq hc hs hf st hst hcl
    exact ih _ a b

end Eql.Machine
