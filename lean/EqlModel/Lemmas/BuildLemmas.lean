/-
  Helper lemmas about `build`/`neg`: they keep the variables and the flatten-freeness of a
  condition.
-/
import EqlModel.Build
import EqlModel.Lemmas.Cond

namespace Eql
variable {V : Type}

def SCond.vars : SCond V → List VarId
  | .cmp _ l r => l.vars ++ r.vars
  | .in_ i c => i.vars ++ c.vars
  | .contains c i => c.vars ++ i.vars
  | .truth t => t.vars
  | .pred _ args => Terms.vars args
  | .and2 l r => l.vars ++ r.vars
  | .or2 l r => l.vars ++ r.vars
  | .not c => c.vars
  | .sub sel c => c.vars ++ Terms.vars sel

def SCond.noFlat : SCond V → Bool
  | .cmp _ l r => l.noFlat && r.noFlat
  | .in_ i c => i.noFlat && c.noFlat
  | .contains c i => c.noFlat && i.noFlat
  | .truth t => t.noFlat
  | .pred _ args => Terms.noFlat args
  | .and2 l r => l.noFlat && r.noFlat
  | .or2 l r => l.noFlat && r.noFlat
  | .not c => c.noFlat
  | .sub sel c => c.noFlat && Terms.noFlat sel

theorem neg_noFlat : ∀ (c : Cond V), (neg c).noFlat = c.noFlat := by
  intro c
  induction c with
  | cmp op l r => simp [neg, Cond.noFlat]
  | truth inv t => simp [neg, Cond.noFlat]
  | pred inv n args => simp [neg, Cond.noFlat]
  | and l r ihl ihr => simp [neg, Gen.notAndBuildsElseIf, Cond.noFlat, ihl, ihr]
  | elseIf l r ihl ihr => simp [neg, Gen.notOrBuildsAnd, Cond.noFlat, ihl, ihr]
  | sub sel c ih => simp [neg, Cond.noFlat, ih]

theorem neg_vars : ∀ (c : Cond V), (neg c).vars = c.vars := by
  intro c
  induction c with
  | cmp op l r => simp [neg, Cond.vars]
  | truth inv t => simp [neg, Cond.vars]
  | pred inv n args => simp [neg, Cond.vars]
  | and l r ihl ihr => simp [neg, Gen.notAndBuildsElseIf, Cond.vars, ihl, ihr]
  | elseIf l r ihl ihr => simp [neg, Gen.notOrBuildsAnd, Cond.vars, ihl, ihr]
  | sub sel c ih => simp [neg, Cond.vars, ih]

theorem build_noFlat : ∀ (c : SCond V), (build c).noFlat = c.noFlat := by
  intro c
  induction c with
  | cmp op l r =>
    simp only [build, buildCmp, SCond.noFlat]
    split <;> cases op <;> simp [Gen.dunder, SurfOp.mirror, Cond.noFlat, Bool.and_comm]
  | in_ i c => simp [build, buildIn, Gen.inCmp, SCond.noFlat, Cond.noFlat, Bool.and_comm]
  | contains c i =>
    simp [build, buildContains, buildIn, Gen.inCmp, Gen.containsDelegatesSwapped, SCond.noFlat, Cond.noFlat]
  | truth t => simp [build, SCond.noFlat, Cond.noFlat]
  | pred n args => simp [build, SCond.noFlat, Cond.noFlat]
  | and2 l r ihl ihr => simp [build, SCond.noFlat, Cond.noFlat, ihl, ihr]
  | or2 l r ihl ihr => simp [build, SCond.noFlat, Cond.noFlat, ihl, ihr]
  | not c ih => simp [build, SCond.noFlat, neg_noFlat, ih]
  | sub sel c ih => simp [build, SCond.noFlat, Cond.noFlat, ih]

/-- `build` keeps the set of variables. -/
theorem build_vars_mem : ∀ (c : SCond V) (v : VarId), v ∈ (build c).vars ↔ v ∈ c.vars := by
  intro c
  induction c with
  | cmp op l r =>
    intro v
    simp only [build, buildCmp, SCond.vars]
    split <;> cases op <;> simp [Gen.dunder, SurfOp.mirror, Cond.vars, or_comm]
  | in_ i c => intro v; simp [build, buildIn, Gen.inCmp, SCond.vars, Cond.vars, or_comm]
  | contains c i =>
    intro v
    simp [build, buildContains, buildIn, Gen.inCmp, Gen.containsDelegatesSwapped, SCond.vars, Cond.vars]
  | truth t => intro v; simp [build, SCond.vars, Cond.vars]
  | pred n args => intro v; simp [build, SCond.vars, Cond.vars]
  | and2 l r ihl ihr => intro v; simp [build, SCond.vars, Cond.vars, ihl v, ihr v]
  | or2 l r ihl ihr => intro v; simp [build, SCond.vars, Cond.vars, ihl v, ihr v]
  | not c ih => intro v; simp [build, SCond.vars, neg_vars, ih v]
  | sub sel c ih => intro v; simp [build, SCond.vars, Cond.vars, ih v]

end Eql
