/-
  L2 ↔ L1 for the conjunctive fragment with the result cache disabled.

  For a condition built from comparisons, truth tests, predicates and `and_` only, evaluated the way
  a query evaluates it (yield_when_false = false), the machine with its mutable state - duplicate
  tracking sets, caches (unused when caching is disabled) - produces exactly the outputs of the L1
  evaluation, in the same order, whatever state it starts from: no duplicate check is reached in this
  fragment, so the state never influences an output.
-/
import EqlModel.Machine
import EqlModel.Lemmas.Cond

namespace Eql.Machine
open Eql
variable {V : Type} [BEq V]

/-- Comparisons, truth tests, predicates and conjunctions only. -/
def Cond.conj : Cond V → Bool
  | .cmp _ _ _ => true
  | .truth _ _ => true
  | .pred _ _ _ => true
  | .and l r => Cond.conj l && Cond.conj r
  | .elseIf _ _ => false
  | .sub _ _ => false

variable (W : World V) (D : VarId → List V) (P : Params V)

theorem foldl_fst_flatMap {α β σ : Type} (step : List β × σ → α → List β × σ) (g : α → List β)
    (h : ∀ acc a, (step acc a).1 = acc.1 ++ g a) :
    ∀ (xs : List α) (acc : List β × σ), (xs.foldl step acc).1 = acc.1 ++ xs.flatMap g := by
  intro xs
  induction xs with
  | nil => intro acc; simp
  | cons x xs ih =>
    intro acc
    simp only [List.foldl_cons, List.flatMap_cons]
    rw [ih, h, List.append_assoc]

theorem evalM_conj_off : ∀ (c : Cond V), Cond.conj c = true → ∀ (π : Path) (req : ReqFn) (β : Bnd V) (st : St),
    (evalM W D P false c π req β false st).1 = evalCond W D c β false := by
  intro c
  induction c with
  | cmp op l r => intro _ π req β st; simp [evalM]
  | truth inv t => intro _ π req β st; simp [evalM]
  | pred inv n args => intro _ π req β st; simp [evalM]
  | and l r ihl ihr =>
    intro hc π req β st
    simp only [Cond.conj, Bool.and_eq_true] at hc
    simp only [evalM]
    rw [evalCond]
    have hl := ihl hc.1 (0 :: π) (reqLeftOfAnd r.vars req) β st
    -- the fold over the left outputs appends, for each true left output, the outputs of the right operand
    generalize hlr : evalM W D P false l (0 :: π) (reqLeftOfAnd r.vars req) β false st = lr at hl
    rw [← hl]
    rw [foldl_fst_flatMap _ (fun lv => evalCond W D r lv.1 false)]
    · simp
    · intro acc lv
      simp only [andStep, Bool.false_and, Bool.false_eq_true, if_false, ihr hc.2]
  | elseIf l r _ _ => intro hc; simp [Cond.conj] at hc
  | sub sel c _ => intro hc; simp [Cond.conj] at hc

theorem flatMap_congr_mem' {γ δ : Type} (l : List γ) (f g : γ → List δ) (h : ∀ a ∈ l, f a = g a) :
    l.flatMap f = l.flatMap g := by
  induction l with
  | nil => rfl
  | cons a as ih =>
    simp only [List.flatMap_cons]
    rw [h a List.mem_cons_self, ih (fun b hb => h b (List.mem_cons_of_mem _ hb))]

/-- **L2 = L1 on conjunctive queries, caching disabled.**  One evaluation of `an(set_of(sel, c))` by the
    stateful machine, from ANY state (so also the second, third, … evaluation of the same query
    object), yields exactly the rows of the L1 evaluation, in the same order. -/
theorem rowsM_conj_off (q : Query V) (c : Cond V) (hq : q.cond = some c) (hc : Cond.conj c = true)
    (hf : c.noFlat = true) (st : St) :
    (rowsM W D P false q st).1 = rows W D q := by
  simp only [rowsM, rows, hq, evalM_conj_off W D P c hc]
  apply flatMap_congr_mem'
  intro p hp
  have := ((cond_sound_complete W D c hf).1 [] p.1 p.2 false hp).1 rfl
  simp [this]

theorem rowsM_nocond (q : Query V) (hq : q.cond = none) (st : St) :
    (rowsM W D P false q st).1 = rows W D q := by
  simp [rowsM, rows, hq]

end Eql.Machine
