/-
  L2 with the result cache ENABLED, single-variable queries: the keys, lookups and merges of a cache
  whose only key is the query variable.
-/
import EqlModel.Machine
import EqlModel.Lemmas.CacheOne
import EqlModel.Lemmas.Closed
import EqlModel.Lemmas.MachineState
import EqlModel.Lemmas.MachineConj
import EqlModel.Lemmas.MachineNoDup

namespace Eql.Machine
open Eql
variable {V : Type}
variable (P : Params V) (x : VarId)

/-- The variable list mentions `x` and only `x`. -/
def OnlyX (vars : List VarId) : Prop := vars ≠ [] ∧ ∀ v ∈ vars, v = x

theorem eraseDups_onlyX {vars : List VarId} (h : OnlyX x vars) : vars.eraseDups = [x] := by
  obtain ⟨hne, hall⟩ := h
  cases vars with
  | nil => exact absurd rfl hne
  | cons v rest =>
    have hv : v = x := hall v List.mem_cons_self
    subst hv
    rw [List.eraseDups_cons]
    have : rest.filter (fun b => !b == v) = [] := by
      rw [List.filter_eq_nil_iff]
      intro a ha
      have := hall a (List.mem_cons_of_mem _ ha)
      simp [this]
    rw [this]; rfl

theorem keyList_onlyX {vars : List VarId} (h : OnlyX x vars) : keyList P vars = [P.rank x] := by
  simp [keyList, eraseDups_onlyX x h, insertSorted]

theorem toAsg_nil (vars : List VarId) : toAsg P vars ([] : Bnd V) = [] := by
  simp [toAsg, List.lookup]

theorem toAsg_single {vars : List VarId} (h : OnlyX x vars) (o : V) :
    toAsg P vars [(x, o)] = [(P.rank x, P.toKey o)] := by
  simp [toAsg, eraseDups_onlyX x h, List.lookup]

theorem fromAsg_unbound {vars : List VarId} (h : OnlyX x vars) (v : Nat) :
    fromAsg P vars [(P.rank x, v)] ([] : Bnd V) = [(x, P.ofKey v)] := by
  simp [fromAsg, eraseDups_onlyX x h, List.lookup]

theorem fromAsg_bound {vars : List VarId} (h : OnlyX x vars) (a : Cache.Asg Nat) (o : V) :
    fromAsg P vars a [(x, o)] = [(x, o)] := by
  simp [fromAsg, eraseDups_onlyX x h, List.lookup]

theorem covers_single (k v w : Nat) : Cache.SeenSet.covers [(k, v)] [(k, w)] = (w == v) := by
  simp [Cache.SeenSet.covers, Cache.Asg.get, List.lookup]

variable (W : World V) (D : VarId → List V)

/-- Object identities: `ofKey` inverts `toKey` on the domain of `x`, and `toKey` is injective there. -/
structure KeyOk : Prop where
  inv : ∀ o ∈ D x, P.ofKey (P.toKey o) = o
  inj : ∀ o ∈ D x, ∀ o' ∈ D x, P.toKey o = P.toKey o' → o = o'
  nodup : (D x).Nodup

/-- A cache that is only consulted with `x` bound, for the truth function `H` of its node: not
    poisoned; every stored pair is `(identity of an object with H true) ↦ is_false = False`; the
    coverage set lists exactly the stored identities. -/
structure NB (c : Cache.Cache Nat Bool) (H : V → Bool) : Prop where
  flat : c.flat = []
  notAll : c.seen.allSeen = false
  body : ∃ E : List (Nat × Bool), Cache.One c (P.rank x) E ∧
    (∀ p ∈ E, p.2 = false ∧ ∃ o ∈ D x, p.1 = P.toKey o ∧ H o = true) ∧
    (∀ a, a ∈ c.seen.seen ↔ ∃ p ∈ E, a = [(P.rank x, p.1)])

/-- … or still untouched (`mkCache` gives it its key at first use). -/
def BSpec (c : Cache.Cache Nat Bool) (H : V → Bool) : Prop :=
  (c.keys = [] ∧ c.trie = .nil ∧ c.flat = [] ∧ c.seen.seen = [] ∧ c.seen.allSeen = false) ∨ NB P x D c H

theorem nb_mkCache {vars : List VarId} (hv : OnlyX x vars) {c : Cache.Cache Nat Bool} {H : V → Bool}
    (h : BSpec P x D c H) : NB P x D (mkCache P vars c) H := by
  rcases h with ⟨h1, h2, h3, h4, h5⟩ | h
  · have : mkCache P vars c = { c with keys := [P.rank x] } := by
      simp [mkCache, h1, h2, h3, Cache.Trie.isEmptyNode, keyList_onlyX P x hv]
    rw [this]
    refine ⟨h3, h5, [], ⟨rfl, by simp [h2, Cache.ofList]⟩, by simp, by simp [h4]⟩
  · have : mkCache P vars c = c := by
      obtain ⟨E, hone, _, _⟩ := h.body
      simp [mkCache, hone.keys]
    rw [this]; exact h

theorem mem_of_lookup {α β : Type} [BEq α] [LawfulBEq α] (E : List (α × β)) (w : α) (f : β)
    (h : E.lookup w = some f) : (w, f) ∈ E := by
  induction E with
  | nil => simp [List.lookup] at h
  | cons q rest ih =>
    obtain ⟨a, b⟩ := q
    by_cases e : w = a
    · subst e; simp [List.lookup] at h; subst h; exact List.mem_cons_self
    · have : (w == a) = false := by simp [e]
      simp only [List.lookup, this] at h
      exact List.mem_cons_of_mem _ (ih h)

/-- Coverage of the lookup that binds `x` to `o`: exactly when `o`'s identity is stored. -/
theorem nb_check {c : Cache.Cache Nat Bool} (hna : c.seen.allSeen = false) (E : List (Nat × Bool))
    (hone : Cache.One c (P.rank x) E) (hseen : ∀ a, a ∈ c.seen.seen ↔ ∃ p ∈ E, a = [(P.rank x, p.1)]) (w : Nat) :
    c.check [(P.rank x, w)] = ((E.lookup w).isSome, c) := by
  have hfil : ([(P.rank x, w)] : Cache.Asg Nat).filter (fun kv => c.keys.contains kv.1) = [(P.rank x, w)] := by
    simp [hone.keys]
  simp only [Cache.Cache.check, hfil, Cache.SeenSet.check, hna, Bool.false_eq_true, if_false, List.isEmpty_cons]
  congr 1
  rw [Bool.eq_iff_iff, List.any_eq_true]
  constructor
  · rintro ⟨a, ha, hcov⟩
    obtain ⟨p, hp, rfl⟩ := (hseen a).1 ha
    rw [covers_single] at hcov
    have : w = p.1 := by simpa using hcov
    subst this
    cases hl : E.lookup p.1 with
    | some f => rfl
    | none =>
      exfalso
      have := List.lookup_eq_none_iff.1 hl p hp
      simp at this
  · intro hl
    cases hl' : E.lookup w with
    | none => rw [hl'] at hl; cases hl
    | some f =>
      exact ⟨[(P.rank x, w)], (hseen _).2 ⟨(w, f), mem_of_lookup E w f hl', rfl⟩, by rw [covers_single]; simp⟩

variable [BEq V]

/-- A comparison node consulted with `x` bound to `o`: the L1 output; the node keeps its specification. -/
theorem cmp_bound (hk : KeyOk P x D) (op : CmpOp) (l r : Term V) (hv : OnlyX x (l.vars ++ r.vars))
    (hf : (Cond.cmp op l r).noFlat = true) (hs : Cond.single x (.cmp op l r)) (o : V) (ho : o ∈ D x)
    (π : Path) (req : ReqFn) (st : St)
    (hspec : BSpec P x D (getNode st π).cache (fun o => denote W (constAsg o) (.cmp op l r))) :
    ∃ c', evalM W D P true (.cmp op l r) π req [(x, o)] false st =
        (singleOut W (.cmp op l r) x false o, setNode st π { getNode st π with cache := c' }) ∧
      NB P x D c' (fun o => denote W (constAsg o) (.cmp op l r)) := by
  have hnb := nb_mkCache P x D hv hspec
  obtain ⟨E, hone, hE, hseen0⟩ := hnb.body
  have hchk := nb_check P x hnb.notAll E hone hseen0 (P.toKey o)
  have hraw := cond_at W D x (.cmp op l r) hf hs false o
  cases hl : E.lookup (P.toKey o) with
  | some f =>
    -- covered: the stored output is served
    have hm := mem_of_lookup E _ f hl
    obtain ⟨hf0, o', ho', hkey, hH⟩ := hE _ hm
    simp only at hf0 hkey
    have : o' = o := hk.inj o' ho' o ho hkey.symm
    subst this
    refine ⟨mkCache P (l.vars ++ r.vars) (getNode st π).cache, ?_, hnb⟩
    simp only [evalM, toAsg_single P x hv, hchk, hl, Option.isSome_some, if_true, fromCache,
      Cache.retrieve_bound hone, List.foldl_cons, List.foldl_nil, hf0, Bool.false_eq_true, if_false,
      fromAsg_bound P x hv, List.nil_append]
    simp [singleOut, closedOut, hH]
  | none =>
    -- not covered: evaluated, and stored when true
    rcases Bool.eq_false_or_eq_true (denote W (constAsg o) (.cmp op l r)) with hH | hH
    · obtain ⟨hins1, hins2, hins3⟩ := Cache.insert_one hone (P.toKey o) false
      refine ⟨(mkCache P (l.vars ++ r.vars) (getNode st π).cache).insert [(P.rank x, P.toKey o)] false, ?_, ?_⟩
      · simp only [evalM, toAsg_single P x hv, hchk, hl, Option.isSome_none, Bool.false_eq_true, if_false, hraw,
          singleOut, closedOut, hH, Bool.true_or, if_true, Bool.not_true, List.foldl_cons, List.foldl_nil]
      · refine ⟨by rw [hins3]; exact hnb.flat, ?_, Cache.upd E (P.toKey o) false, hins1, ?_, ?_⟩
        · rw [hins2]; simp [Cache.SeenSet.add, hnb.notAll]
        · intro p hp
          rw [Cache.upd_fresh E _ _ hl, List.mem_append, List.mem_singleton] at hp
          rcases hp with hp | hp
          · exact hE p hp
          · subst hp; exact ⟨rfl, o, ho, rfl, hH⟩
        · intro a
          rw [hins2, Cache.upd_fresh E _ _ hl]
          simp only [Cache.SeenSet.add, hnb.notAll, Bool.false_eq_true, if_false, List.mem_append, List.mem_singleton,
            hseen0 a]
          constructor
          · rintro (⟨p, hp, rfl⟩ | rfl)
            · exact ⟨p, Or.inl hp, rfl⟩
            · exact ⟨_, Or.inr rfl, rfl⟩
          · rintro ⟨p, hp | hp, rfl⟩
            · exact Or.inl ⟨p, hp, rfl⟩
            · subst hp; exact Or.inr rfl
    · refine ⟨mkCache P (l.vars ++ r.vars) (getNode st π).cache, ?_, hnb⟩
      simp only [evalM, toAsg_single P x hv, hchk, hl, Option.isSome_none, Bool.false_eq_true, if_false, if_true, hraw,
        singleOut, closedOut, hH, Bool.false_or, List.foldl_nil]

/-- The outputs of a single-variable condition over the whole domain, as a filter. -/
theorem flatMap_singleOut (c : Cond V) :
    (D x).flatMap (singleOut W c x false) =
      ((D x).filter fun o => denote W (constAsg o) c).map fun o => ([(x, o)], false) := by
  induction D x with
  | nil => rfl
  | cons o os ih =>
    simp only [List.flatMap_cons, List.filter_cons, ih, singleOut, closedOut, Bool.or_false]
    cases denote W (constAsg o) c <;> simp

/-- Serving a lookup from a cache all of whose retrieved outputs are `is_false = False`: no duplicate
    check is involved, the node is untouched. -/
theorem fromCache_allFalse (req : ReqFn) (vars : List VarId) (c : Cache.Cache Nat Bool) (β : Bnd V) (n : NodeSt)
    (h : ∀ r ∈ c.retrieve (toAsg P vars β), r.2 = false) :
    fromCache P req vars c β n = ((c.retrieve (toAsg P vars β)).map fun r => (fromAsg P vars r.1 β, false), n) := by
  unfold fromCache
  generalize c.retrieve (toAsg P vars β) = L at h
  have gen : ∀ (L : List (Cache.Asg Nat × Bool)) (acc : List (Bnd V × Bool)), (∀ r ∈ L, r.2 = false) →
      L.foldl (fun (acc : List (Bnd V × Bool) × NodeSt) r =>
        if r.2 = true then
          if (isDup P req true (fromAsg P vars r.1 β) acc.2).1 = true then (acc.1, (isDup P req true (fromAsg P vars r.1 β) acc.2).2)
          else (acc.1 ++ [(fromAsg P vars r.1 β, true)], (isDup P req true (fromAsg P vars r.1 β) acc.2).2)
        else (acc.1 ++ [(fromAsg P vars r.1 β, false)], acc.2)) (acc, n) =
        (acc ++ L.map fun r => (fromAsg P vars r.1 β, false), n) := by
    intro L
    induction L with
    | nil => intro acc _; simp
    | cons r rest ih =>
      intro acc hr
      have h1 := hr r List.mem_cons_self
      simp only [List.foldl_cons, h1, Bool.false_eq_true, if_false]
      rw [ih _ (fun r' hr' => hr r' (List.mem_cons_of_mem _ hr'))]
      simp
  simpa using gen L [] h

/-- Folding `upd` over fresh, pairwise different keys appends them in order. -/
theorem fold_upd_fresh : ∀ (L : List Nat) (E : List (Nat × Bool)), L.Nodup → (∀ v ∈ L, E.lookup v = none) →
    L.foldl (fun E v => Cache.upd E v false) E = E ++ L.map fun v => (v, false) := by
  intro L
  induction L with
  | nil => intro E _ _; simp
  | cons v rest ih =>
    intro E hnd hfresh
    rw [List.nodup_cons] at hnd
    simp only [List.foldl_cons, List.map_cons]
    rw [Cache.upd_fresh E v false (hfresh v List.mem_cons_self)]
    rw [ih _ hnd.2]
    · simp
    · intro w hw
      have hne : w ≠ v := fun e => hnd.1 (e ▸ hw)
      rw [List.lookup_append]
      have hb : (w == v) = false := by simp [hne]
      simp [hfresh w (List.mem_cons_of_mem _ hw), List.lookup, hb]

/-- A cache that is consulted with `x` UNBOUND (the left-most comparison of the query): untouched, or -
    after one complete pass - poisoned ("everything seen") and holding exactly the objects of the domain
    for which the node is true, in domain order. -/
def TSpec (c : Cache.Cache Nat Bool) (H : V → Bool) : Prop :=
  (c.keys = [] ∧ c.trie = .nil ∧ c.flat = [] ∧ c.seen.seen = [] ∧ c.seen.allSeen = false) ∨
  (c.flat = [] ∧ c.seen.allSeen = true ∧
    Cache.One c (P.rank x) (((D x).filter H).map fun o => (P.toKey o, false)))

theorem fold_insert_top {vars : List VarId} (hv : OnlyX x vars) :
    ∀ (L : List V) (c : Cache.Cache Nat Bool) (E0 : List (Nat × Bool)),
      Cache.One c (P.rank x) E0 → c.seen.allSeen = true → c.flat = [] →
      (L.map P.toKey).Nodup → (∀ o ∈ L, E0.lookup (P.toKey o) = none) →
      let c' := (L.map fun o => (([(x, o)] : Bnd V), false)).foldl
        (fun c p => c.insert (toAsg P vars p.1) p.2) c
      Cache.One c' (P.rank x) (E0 ++ L.map fun o => (P.toKey o, false)) ∧ c'.seen.allSeen = true ∧ c'.flat = [] := by
  intro L
  induction L with
  | nil => intro c E0 h1 h2 h3 _ _; simpa using ⟨h1, h2, h3⟩
  | cons o os ih =>
    intro c E0 h1 h2 h3 hnd hfresh
    simp only [List.map_cons, List.nodup_cons] at hnd
    obtain ⟨i1, i2, i3⟩ := Cache.insert_one h1 (P.toKey o) false
    rw [Cache.upd_fresh E0 _ _ (hfresh o List.mem_cons_self)] at i1
    have hall : (c.insert [(P.rank x, P.toKey o)] false).seen.allSeen = true := by
      rw [i2]; simp [Cache.SeenSet.add, h2]
    have := ih (c.insert [(P.rank x, P.toKey o)] false) (E0 ++ [(P.toKey o, false)]) i1 hall (by rw [i3]; exact h3)
      hnd.2 (by
        intro o' ho'
        have hne : P.toKey o' ≠ P.toKey o := by
          intro e; apply hnd.1; rw [← e]; exact List.mem_map.2 ⟨o', ho', rfl⟩
        have hb : (P.toKey o' == P.toKey o) = false := by simp [hne]
        rw [List.lookup_append]
        simp [hfresh o' (List.mem_cons_of_mem _ ho'), List.lookup, hb])
    simpa [List.foldl_cons, toAsg_single P x hv, List.append_assoc] using this

/-- A comparison node consulted with `x` unbound (the left-most leaf): it yields the L1 outputs over
    the whole domain - computing and storing them the first time, serving them from the cache afterwards. -/
theorem cmp_top [Inhabited V] (hk : KeyOk P x D) (op : CmpOp) (l r : Term V) (hv : OnlyX x (l.vars ++ r.vars))
    (hf : (Cond.cmp op l r).noFlat = true) (hs : Cond.single x (.cmp op l r))
    (π : Path) (req : ReqFn) (st : St)
    (hspec : TSpec P x D (getNode st π).cache (fun o => denote W (constAsg o) (.cmp op l r))) :
    ∃ c', evalM W D P true (.cmp op l r) π req [] false st =
        ((D x).flatMap (singleOut W (.cmp op l r) x false), setNode st π { getNode st π with cache := c' }) ∧
      TSpec P x D c' (fun o => denote W (constAsg o) (.cmp op l r)) := by
  have hraw := cond_dist W D x (.cmp op l r) hf hs false
  rcases hspec with ⟨h1, h2, h3, h4, h5⟩ | ⟨h3, hall, hone⟩
  · -- first pass: everything is computed and stored
    have hmk : mkCache P (l.vars ++ r.vars) (getNode st π).cache =
        { (getNode st π).cache with keys := [P.rank x] } := by
      simp [mkCache, h1, h2, h3, Cache.Trie.isEmptyNode, keyList_onlyX P x hv]
    have hseen0 : (getNode st π).cache.seen = { seen := [], allSeen := false } := by
      cases hs0 : (getNode st π).cache.seen with
      | mk s a => rw [hs0] at h4 h5; simp at h4 h5; simp [h4, h5]
    let c1 : Cache.Cache Nat Bool :=
      { (getNode st π).cache with keys := [P.rank x], seen := { seen := [[]], allSeen := true } }
    have hone1 : Cache.One c1 (P.rank x) [] := ⟨rfl, by simp [c1, h2, Cache.ofList]⟩
    have hkeys : ((((D x).filter fun o => denote W (constAsg o) (.cmp op l r))).map P.toKey).Nodup := by
      have hsub : (((D x).filter fun o => denote W (constAsg o) (.cmp op l r))).Nodup := hk.nodup.filter _
      rw [List.nodup_iff_pairwise_ne, List.pairwise_map]
      rw [List.nodup_iff_pairwise_ne] at hsub
      refine List.Pairwise.imp_of_mem ?_ hsub
      intro a b ha hb hne e
      exact hne (hk.inj a (List.mem_filter.1 ha).1 b (List.mem_filter.1 hb).1 e)
    obtain ⟨f1, f2, f3⟩ := fold_insert_top P x hv _ c1 [] hone1 rfl (by simp [c1, h3]) hkeys (by simp)
    refine ⟨_, ?_, Or.inr ⟨f3, f2, by simpa using f1⟩⟩
    simp only [evalM, toAsg_nil, hmk, Cache.Cache.check, List.filter_nil, Cache.SeenSet.check, hseen0,
      Bool.false_eq_true, if_false, if_true, List.isEmpty_nil, List.nil_append, hraw, flatMap_singleOut]
    rfl
  · -- later passes: served from the cache
    have hmk : mkCache P (l.vars ++ r.vars) (getNode st π).cache = (getNode st π).cache := by
      simp [mkCache, hone.keys]
    have hret := Cache.retrieve_free hone
    have hflags : ∀ e ∈ (getNode st π).cache.retrieve (toAsg P (l.vars ++ r.vars) ([] : Bnd V)), e.2 = false := by
      intro e he
      rw [toAsg_nil, hret] at he
      simp only [List.map_map, List.mem_map] at he
      obtain ⟨o, _, rfl⟩ := he
      rfl
    refine ⟨(getNode st π).cache, ?_, Or.inr ⟨h3, hall, hone⟩⟩
    simp only [evalM, toAsg_nil, hmk, Cache.Cache.check, List.filter_nil, Cache.SeenSet.check, hall, if_true]
    rw [fromCache_allFalse P req _ _ _ _ (by simpa [toAsg_nil] using hflags)]
    simp only [toAsg_nil, hret, List.map_map, flatMap_singleOut]
    congr 1
    · apply List.map_congr_left
      intro o ho
      simp [Function.comp, fromAsg_unbound P x hv, hk.inv o (List.mem_filter.1 ho).1]

/-- Storing the L1 outputs of a node for the object `o` (one true output, or none) keeps the cache's
    specification, when `o` is not stored yet. -/
theorem nb_store {vars : List VarId} (hv : OnlyX x vars) {c : Cache.Cache Nat Bool} {H : V → Bool}
    (h : NB P x D c H) (o : V) (ho : o ∈ D x)
    (hfresh : ∀ E, Cache.One c (P.rank x) E → E.lookup (P.toKey o) = none) :
    NB P x D ((if H o = true then [(([(x, o)] : Bnd V), false)] else []).foldl
      (fun c p => c.insert (toAsg P vars p.1) p.2) c) H := by
  rcases Bool.eq_false_or_eq_true (H o) with hH | hH
  · obtain ⟨E, hone, hE, hseen⟩ := h.body
    have hl := hfresh E hone
    obtain ⟨i1, i2, i3⟩ := Cache.insert_one hone (P.toKey o) false
    simp only [hH, if_true, List.foldl_cons, List.foldl_nil, toAsg_single P x hv]
    refine ⟨by rw [i3]; exact h.flat, ?_, Cache.upd E (P.toKey o) false, i1, ?_, ?_⟩
    · rw [i2]; simp [Cache.SeenSet.add, h.notAll]
    · intro p hp
      rw [Cache.upd_fresh E _ _ hl, List.mem_append, List.mem_singleton] at hp
      rcases hp with hp | hp
      · exact hE p hp
      · subst hp; exact ⟨rfl, o, ho, rfl, hH⟩
    · intro a
      rw [i2, Cache.upd_fresh E _ _ hl]
      simp only [Cache.SeenSet.add, h.notAll, Bool.false_eq_true, if_false, List.mem_append, List.mem_singleton,
        hseen a]
      constructor
      · rintro (⟨p, hp, rfl⟩ | rfl)
        · exact ⟨p, Or.inl hp, rfl⟩
        · exact ⟨_, Or.inr rfl, rfl⟩
      · rintro ⟨p, hp | hp, rfl⟩
        · exact Or.inl ⟨p, hp, rfl⟩
        · subst hp; exact Or.inr rfl
  · simp only [hH, Bool.false_eq_true, if_false, List.foldl_nil]; exact h

/-- The L1 outputs of a single-variable condition for one object. -/
theorem singleOut_eq (c : Cond V) (o : V) :
    singleOut W c x false o = if denote W (constAsg o) c = true then [(([(x, o)] : Bnd V), false)] else [] := by
  simp only [singleOut, closedOut, Bool.or_false]
  cases denote W (constAsg o) c <;> simp

/-- Serving the lookup `x ↦ o` from a cache that covers it: the stored output is the L1 output. -/
theorem nb_hit (hk : KeyOk P x D) {vars : List VarId} (hv : OnlyX x vars) (req : ReqFn) {c : Cache.Cache Nat Bool}
    (cnd : Cond V) (E : List (Nat × Bool)) (hone : Cache.One c (P.rank x) E)
    (hE : ∀ p ∈ E, p.2 = false ∧ ∃ o ∈ D x, p.1 = P.toKey o ∧ denote W (constAsg o) cnd = true)
    (o : V) (ho : o ∈ D x) (f : Bool) (hl : E.lookup (P.toKey o) = some f) (n : NodeSt) :
    fromCache P req vars c [(x, o)] n = (singleOut W cnd x false o, n) := by
  have hm := mem_of_lookup E _ f hl
  obtain ⟨hf0, o', ho', hkey, hH⟩ := hE _ hm
  simp only at hf0 hkey
  have : o' = o := hk.inj o' ho' o ho hkey.symm
  subst this
  rw [fromCache_allFalse P req vars c _ n]
  · rw [toAsg_single P x hv, Cache.retrieve_bound hone, hl]
    simp [fromAsg_bound P x hv, singleOut_eq, hH]
  · intro e he
    rw [toAsg_single P x hv, Cache.retrieve_bound hone, hl] at he
    simp at he; rw [he]; exact hf0

/-- Truth of a condition for `x ↦ o`. -/
def Hc (c : Cond V) : V → Bool := fun o => denote W (constAsg o) c

/-- The caches of a conjunctive condition all of whose nodes are consulted with `x` bound. -/
def CInvB : Cond V → Path → St → Prop
  | .cmp op l r, π, st => BSpec P x D (getNode st π).cache (Hc W (.cmp op l r))
  | .and l r, π, st => BSpec P x D (getNode st π).rcache (Hc W r) ∧ CInvB l (0 :: π) st ∧ CInvB r (1 :: π) st
  | _, _, _ => True

/-- … and of one whose left-most leaf is consulted with `x` unbound. -/
def CInvT : Cond V → Path → St → Prop
  | .cmp op l r, π, st => TSpec P x D (getNode st π).cache (Hc W (.cmp op l r))
  | .and l r, π, st => BSpec P x D (getNode st π).rcache (Hc W r) ∧ CInvT l (0 :: π) st ∧ CInvB P x W D r (1 :: π) st
  | _, _, _ => True

theorem cinvB_frame : ∀ (c : Cond V) (π : Path) (st st' : St),
    (∀ π', InSub π π' → getNode st' π' = getNode st π') → CInvB P x W D c π st → CInvB P x W D c π st' := by
  intro c
  induction c with
  | cmp op l r => intro π st st' h hc; simp only [CInvB] at *; rw [h π (inSub_refl π)]; exact hc
  | truth _ _ => intro _ _ _ _ _; trivial
  | pred _ _ _ => intro _ _ _ _ _; trivial
  | and l r ihl ihr =>
    intro π st st' h hc
    simp only [CInvB] at *
    refine ⟨by rw [h π (inSub_refl π)]; exact hc.1, ihl _ _ _ (fun π' hp => h π' (inSub_child hp)) hc.2.1,
      ihr _ _ _ (fun π' hp => h π' (inSub_child hp)) hc.2.2⟩
  | elseIf _ _ _ _ => intro _ _ _ _ _; trivial
  | sub _ _ _ => intro _ _ _ _ _; trivial

theorem cinvT_frame : ∀ (c : Cond V) (π : Path) (st st' : St),
    (∀ π', InSub π π' → getNode st' π' = getNode st π') → CInvT P x W D c π st → CInvT P x W D c π st' := by
  intro c
  induction c with
  | cmp op l r => intro π st st' h hc; simp only [CInvT] at *; rw [h π (inSub_refl π)]; exact hc
  | truth _ _ => intro _ _ _ _ _; trivial
  | pred _ _ _ => intro _ _ _ _ _; trivial
  | and l r ihl _ =>
    intro π st st' h hc
    simp only [CInvT] at *
    refine ⟨by rw [h π (inSub_refl π)]; exact hc.1, ihl _ _ _ (fun π' hp => h π' (inSub_child hp)) hc.2.1,
      cinvB_frame P x W D r _ _ _ (fun π' hp => h π' (inSub_child hp)) hc.2.2⟩
  | elseIf _ _ _ _ => intro _ _ _ _ _; trivial
  | sub _ _ _ => intro _ _ _ _ _; trivial

/-- A change confined to a region disjoint from the sub-tree of `π` leaves the sub-tree's nodes alone. -/
theorem same_of_frame {st st' : St} {R : Path → Prop} (hf : FrameOn st st' R) (π : Path)
    (hd : ∀ π', InSub π π' → ¬ R π') : ∀ π', InSub π π' → getNode st' π' = getNode st π' :=
  fun π' hp => hf π' (hd π' hp)

/-- What the evaluation of a right operand with `x` bound has to deliver (induction hypothesis). -/
def BoundOk (cnd : Cond V) (ρ : Path) (ev : Bnd V → St → List (Bnd V × Bool) × St) : Prop :=
  ∀ o ∈ D x, ∀ s, CInvB P x W D cnd ρ s →
    (ev [(x, o)] s).1 = singleOut W cnd x false o ∧ CInvB P x W D cnd ρ (ev [(x, o)] s).2 ∧
    FrameOn s (ev [(x, o)] s).2 (InSub ρ)

/-- One true left value `x ↦ o` of an AND with the result cache enabled: the right operand's outputs
    are appended - computed and stored, or served from the AND's cache. -/
theorem andStep_one (hk : KeyOk P x D) (π : Path) (req : ReqFn) (r : Cond V) (hv : OnlyX x r.vars)
    (evalR : Bnd V → St → List (Bnd V × Bool) × St) (hR : BoundOk P x W D r (1 :: π) evalR)
    (acc : List (Bnd V × Bool) × St) (o : V) (ho : o ∈ D x)
    (hspec : BSpec P x D (getNode acc.2 π).rcache (Hc W r)) (hinv : CInvB P x W D r (1 :: π) acc.2) :
    (andStep P true π req false r.vars evalR acc ([(x, o)], false)).1 = acc.1 ++ singleOut W r x false o ∧
    BSpec P x D (getNode (andStep P true π req false r.vars evalR acc ([(x, o)], false)).2 π).rcache (Hc W r) ∧
    CInvB P x W D r (1 :: π) (andStep P true π req false r.vars evalR acc ([(x, o)], false)).2 ∧
    FrameOn acc.2 (andStep P true π req false r.vars evalR acc ([(x, o)], false)).2
      (fun π' => π' = π ∨ InSub (1 :: π) π') := by
  have hnb := nb_mkCache P x D hv hspec
  obtain ⟨E, hone, hE, hseen0⟩ := hnb.body
  have hchk := nb_check P x hnb.notAll E hone hseen0 (P.toKey o)
  have hπ1 : ¬ InSub (1 :: π) π := not_inSub_child_self 1 π
  have hRπ : (fun π' => π' = π ∨ InSub (1 :: π) π') π := Or.inl rfl
  cases hl : E.lookup (P.toKey o) with
  | some f =>
    have hfc := nb_hit P x W D hk hv req r E hone hE o ho f hl
    simp only [andStep, Bool.false_and, Bool.false_eq_true, if_false, if_true, toAsg_single P x hv, hchk, hl,
      Option.isSome_some, hfc]
    refine ⟨trivial, ?_, ?_, frameOn_setNode _ _ _ _ hRπ⟩
    · rw [getNode_setNode_self]; exact Or.inr hnb
    · exact cinvB_frame P x W D r _ _ _ (fun π' hp => getNode_setNode_ne _ _ _ _ (by
        intro e; subst e; exact hπ1 hp)) hinv
  | none =>
    -- the right operand is evaluated under the state in which the node carries its (keyed) cache
    have hinv1 : CInvB P x W D r (1 :: π)
        (setNode acc.2 π { getNode acc.2 π with rcache := mkCache P r.vars (getNode acc.2 π).rcache }) :=
      cinvB_frame P x W D r _ _ _ (fun π' hp => getNode_setNode_ne _ _ _ _ (by
        intro e; subst e; exact hπ1 hp)) hinv
    obtain ⟨r1, r2, r3⟩ := hR o ho _ hinv1
    have hnode : getNode (evalR [(x, o)] (setNode acc.2 π
        { getNode acc.2 π with rcache := mkCache P r.vars (getNode acc.2 π).rcache })).2 π =
        { getNode acc.2 π with rcache := mkCache P r.vars (getNode acc.2 π).rcache } := by
      rw [r3 π hπ1, getNode_setNode_self]
    have hstore := nb_store P x D hv hnb o ho (fun E' hone' => by
      rw [Cache.one_unique hone hone']; exact hl)
    simp only [andStep, Bool.false_and, Bool.false_eq_true, if_false, if_true, toAsg_single P x hv, hchk, hl,
      Option.isSome_none, r1, hnode]
    refine ⟨trivial, ?_, ?_, ?_⟩
    · rw [getNode_setNode_self]
      rw [singleOut_eq]
      exact Or.inr hstore
    · exact cinvB_frame P x W D r _ _ _ (fun π' hp => getNode_setNode_ne _ _ _ _ (by
        intro e; subst e; exact hπ1 hp)) r2
    · refine frameOn_trans (frameOn_setNode _ _ _ _ hRπ) (frameOn_trans (frameOn_sub r3 (fun π' h => Or.inr h)) ?_)
      exact frameOn_setNode _ _ _ _ hRπ

theorem onlyX_of_single_cmp {op : CmpOp} {l r : Term V} (hs : Cond.single x (.cmp op l r)) :
    OnlyX x (l.vars ++ r.vars) := by
  refine ⟨?_, hs.1⟩
  intro e
  rcases hs.2 with h | h
  · exact h (List.append_eq_nil_iff.1 e).1
  · exact h (List.append_eq_nil_iff.1 e).2

theorem onlyX_of_single : ∀ (c : Cond V), Cond.conj c = true → Cond.single x c → OnlyX x c.vars := by
  intro c
  induction c with
  | cmp op l r => intro _ hs; simpa [Cond.vars] using onlyX_of_single_cmp x hs
  | truth inv t => intro _ hs; exact ⟨by simpa [Cond.vars] using hs.2, by simpa [Cond.vars] using hs.1⟩
  | pred inv n args => intro _ hs; exact ⟨by simpa [Cond.vars] using hs.2, by simpa [Cond.vars] using hs.1⟩
  | and l r ihl ihr =>
    intro hc hs
    simp only [Cond.conj, Bool.and_eq_true] at hc
    obtain ⟨l1, l2⟩ := ihl hc.1 hs.1
    obtain ⟨_, r2⟩ := ihr hc.2 hs.2
    refine ⟨?_, ?_⟩
    · simp only [Cond.vars]; intro e; exact l1 (List.append_eq_nil_iff.1 e).1
    · intro v hv
      simp only [Cond.vars, List.mem_append] at hv
      rcases hv with hv | hv
      · exact l2 v hv
      · exact r2 v hv
  | elseIf _ _ _ _ => intro hc; simp [Cond.conj] at hc
  | sub _ _ _ => intro hc; simp [Cond.conj] at hc

/-- **Bound position.** A conjunctive single-variable condition evaluated with `x` bound, result cache
    enabled: the L1 outputs, whatever the caches hold (within their specification). -/
theorem bound_ok (hk : KeyOk P x D) : ∀ (c : Cond V), Cond.conj c = true → Cond.single x c → c.noFlat = true →
    ∀ (π : Path) (req : ReqFn), BoundOk P x W D c π (fun b s => evalM W D P true c π req b false s) := by
  intro c
  induction c with
  | cmp op l r =>
    intro _ hs hf π req o ho s hinv
    obtain ⟨c', he, hnb⟩ := cmp_bound P x W D hk op l r (onlyX_of_single_cmp x hs) hf hs o ho π req s hinv
    simp only [he]
    refine ⟨trivial, ?_, frameOn_setNode _ _ _ _ (inSub_refl π)⟩
    simp only [CInvB, getNode_setNode_self]
    exact Or.inr hnb
  | truth inv t =>
    intro _ hs hf π req o ho s _
    simp only [evalM]
    exact ⟨cond_at W D x _ hf hs false o, trivial, frameOn_refl _ _⟩
  | pred inv n args =>
    intro _ hs hf π req o ho s _
    simp only [evalM]
    exact ⟨cond_at W D x _ hf hs false o, trivial, frameOn_refl _ _⟩
  | and l r ihl ihr =>
    intro hc hs hf π req o ho s hinv
    simp only [Cond.conj, Bool.and_eq_true] at hc
    simp only [Cond.noFlat, Bool.and_eq_true] at hf
    simp only [CInvB] at hinv
    obtain ⟨l1, l2, l3⟩ := ihl hc.1 hs.1 hf.1 (0 :: π) (reqLeftOfAnd r.vars req) o ho s hinv.2.1
    simp only at l1 l2 l3
    have hπ0 : ¬ InSub (0 :: π) π := not_inSub_child_self 0 π
    have hd01 : ∀ π', InSub (1 :: π) π' → ¬ InSub (0 :: π) π' :=
      fun π' h hc' => inSub_children_disjoint (by decide) hc' h
    have hspec : BSpec P x D (getNode (evalM W D P true l (0 :: π) (reqLeftOfAnd r.vars req) [(x, o)] false s).2 π).rcache
        (Hc W r) := by rw [l3 π hπ0]; exact hinv.1
    have hinvr : CInvB P x W D r (1 :: π) (evalM W D P true l (0 :: π) (reqLeftOfAnd r.vars req) [(x, o)] false s).2 :=
      cinvB_frame P x W D r _ _ _ (same_of_frame l3 _ hd01) hinv.2.2
    have hR : BoundOk P x W D r (1 :: π) (fun b s => evalM W D P true r (1 :: π) (reqRightOfAnd req) b false s) :=
      ihr hc.2 hs.2 hf.2 (1 :: π) _
    simp only [evalM, l1]
    rcases Bool.eq_false_or_eq_true (denote W (constAsg o) l) with hl | hl
    · -- the left operand holds: one step of the loop
      obtain ⟨a1, a2, a3, a4⟩ := andStep_one P x W D hk π req r (onlyX_of_single x r hc.2 hs.2) _ hR
        ([], (evalM W D P true l (0 :: π) (reqLeftOfAnd r.vars req) [(x, o)] false s).2) o ho hspec hinvr
      have hd0R : ∀ π', InSub (0 :: π) π' → ¬ (π' = π ∨ InSub (1 :: π) π') := by
        intro π' h hc'
        rcases hc' with e | e
        · subst e; exact hπ0 h
        · exact inSub_children_disjoint (by decide) h e
      simp only [singleOut_eq, hl, if_true, List.foldl_cons, List.foldl_nil]
      refine ⟨?_, ?_, ?_⟩
      · rw [a1]; simp [singleOut_eq, denote, hl]
      · simp only [CInvB]
        exact ⟨a2, cinvB_frame P x W D l _ _ _ (same_of_frame a4 _ hd0R) l2, a3⟩
      · refine frameOn_trans (frameOn_sub l3 (fun π' h => inSub_child h)) (frameOn_sub a4 ?_)
        intro π' h
        rcases h with e | e
        · subst e; exact inSub_refl _
        · exact inSub_child e
    · -- the left operand fails: nothing is yielded, the right operand is not consulted
      simp only [singleOut_eq, hl, Bool.false_eq_true, if_false, List.foldl_nil]
      refine ⟨by simp [denote, hl], ?_, frameOn_sub l3 (fun π' h => inSub_child h)⟩
      simp only [CInvB]
      exact ⟨hspec, l2, hinvr⟩
  | elseIf _ _ _ _ => intro hc; simp [Cond.conj] at hc
  | sub _ _ _ => intro hc; simp [Cond.conj] at hc

/-- The loop of an AND over the true left values `x ↦ o` for the objects `L`. -/
theorem andFold_one (hk : KeyOk P x D) (π : Path) (req : ReqFn) (r : Cond V) (hv : OnlyX x r.vars)
    (evalR : Bnd V → St → List (Bnd V × Bool) × St) (hR : BoundOk P x W D r (1 :: π) evalR) :
    ∀ (L : List V), (∀ o ∈ L, o ∈ D x) → ∀ (acc : List (Bnd V × Bool) × St),
      BSpec P x D (getNode acc.2 π).rcache (Hc W r) → CInvB P x W D r (1 :: π) acc.2 →
      ((L.map fun o => (([(x, o)] : Bnd V), false)).foldl (andStep P true π req false r.vars evalR) acc).1 =
          acc.1 ++ L.flatMap (singleOut W r x false) ∧
      BSpec P x D (getNode ((L.map fun o => (([(x, o)] : Bnd V), false)).foldl
          (andStep P true π req false r.vars evalR) acc).2 π).rcache (Hc W r) ∧
      CInvB P x W D r (1 :: π) ((L.map fun o => (([(x, o)] : Bnd V), false)).foldl
          (andStep P true π req false r.vars evalR) acc).2 ∧
      FrameOn acc.2 ((L.map fun o => (([(x, o)] : Bnd V), false)).foldl
          (andStep P true π req false r.vars evalR) acc).2 (fun π' => π' = π ∨ InSub (1 :: π) π') := by
  intro L
  induction L with
  | nil => intro _ acc h1 h2; exact ⟨by simp, h1, h2, frameOn_refl _ _⟩
  | cons o os ih =>
    intro hL acc h1 h2
    obtain ⟨a1, a2, a3, a4⟩ := andStep_one P x W D hk π req r hv evalR hR acc o (hL o List.mem_cons_self) h1 h2
    obtain ⟨i1, i2, i3, i4⟩ := ih (fun o' ho' => hL o' (List.mem_cons_of_mem _ ho')) _ a2 a3
    simp only [List.map_cons, List.foldl_cons, List.flatMap_cons]
    exact ⟨by rw [i1, a1, List.append_assoc], i2, i3, frameOn_trans a4 i4⟩

theorem flatMap_and (l r : Cond V) :
    ((D x).filter fun o => denote W (constAsg o) l).flatMap (singleOut W r x false) =
      (D x).flatMap (singleOut W (.and l r) x false) := by
  induction D x with
  | nil => rfl
  | cons o os ih =>
    simp only [List.filter_cons, List.flatMap_cons, singleOut_eq, denote]
    rcases Bool.eq_false_or_eq_true (denote W (constAsg o) l) with hl | hl
    · simp only [hl, if_true, List.flatMap_cons, Bool.true_and]
      rw [ih]; simp [singleOut_eq]
    · simp only [hl, Bool.false_eq_true, if_false, Bool.false_and, List.nil_append]
      exact ih

/-- **Top position.** A conjunctive single-variable condition evaluated with `x` unbound (the way a query
    evaluates it), result cache enabled: the L1 outputs over the whole domain, in order - computed and
    stored on the first pass, served from the caches on later passes. -/
theorem top_ok [Inhabited V] (hk : KeyOk P x D) : ∀ (c : Cond V), Cond.conj c = true → Cond.single x c →
    c.noFlat = true → ∀ (π : Path) (req : ReqFn) (s : St), CInvT P x W D c π s →
      (evalM W D P true c π req [] false s).1 = (D x).flatMap (singleOut W c x false) ∧
      CInvT P x W D c π (evalM W D P true c π req [] false s).2 ∧
      FrameOn s (evalM W D P true c π req [] false s).2 (InSub π) := by
  intro c
  induction c with
  | cmp op l r =>
    intro _ hs hf π req s hinv
    obtain ⟨c', he, hts⟩ := cmp_top P x W D hk op l r (onlyX_of_single_cmp x hs) hf hs π req s hinv
    simp only [he]
    refine ⟨trivial, ?_, frameOn_setNode _ _ _ _ (inSub_refl π)⟩
    simp only [CInvT, getNode_setNode_self]
    exact hts
  | truth inv t =>
    intro _ hs hf π req s _
    simp only [evalM]
    exact ⟨cond_dist W D x _ hf hs false, trivial, frameOn_refl _ _⟩
  | pred inv n args =>
    intro _ hs hf π req s _
    simp only [evalM]
    exact ⟨cond_dist W D x _ hf hs false, trivial, frameOn_refl _ _⟩
  | and l r ihl _ =>
    intro hc hs hf π req s hinv
    simp only [Cond.conj, Bool.and_eq_true] at hc
    simp only [Cond.noFlat, Bool.and_eq_true] at hf
    simp only [CInvT] at hinv
    obtain ⟨l1, l2, l3⟩ := ihl hc.1 hs.1 hf.1 (0 :: π) (reqLeftOfAnd r.vars req) s hinv.2.1
    have hπ0 : ¬ InSub (0 :: π) π := not_inSub_child_self 0 π
    have hd01 : ∀ π', InSub (1 :: π) π' → ¬ InSub (0 :: π) π' :=
      fun π' h hc' => inSub_children_disjoint (by decide) hc' h
    have hspec : BSpec P x D (getNode (evalM W D P true l (0 :: π) (reqLeftOfAnd r.vars req) [] false s).2 π).rcache
        (Hc W r) := by rw [l3 π hπ0]; exact hinv.1
    have hinvr : CInvB P x W D r (1 :: π) (evalM W D P true l (0 :: π) (reqLeftOfAnd r.vars req) [] false s).2 :=
      cinvB_frame P x W D r _ _ _ (same_of_frame l3 _ hd01) hinv.2.2
    have hR : BoundOk P x W D r (1 :: π) (fun b s => evalM W D P true r (1 :: π) (reqRightOfAnd req) b false s) :=
      bound_ok P x W D hk r hc.2 hs.2 hf.2 (1 :: π) _
    obtain ⟨f1, f2, f3, f4⟩ := andFold_one P x W D hk π req r (onlyX_of_single x r hc.2 hs.2) _ hR
      ((D x).filter fun o => denote W (constAsg o) l) (fun o ho => (List.mem_filter.1 ho).1)
      ([], (evalM W D P true l (0 :: π) (reqLeftOfAnd r.vars req) [] false s).2) hspec hinvr
    have hd0R : ∀ π', InSub (0 :: π) π' → ¬ (π' = π ∨ InSub (1 :: π) π') := by
      intro π' h hc'
      rcases hc' with e | e
      · subst e; exact hπ0 h
      · exact inSub_children_disjoint (by decide) h e
    have hl1 : (evalM W D P true l (0 :: π) (reqLeftOfAnd r.vars req) [] false s).1 =
        ((D x).filter fun o => denote W (constAsg o) l).map fun o => ([(x, o)], false) := by
      rw [l1, flatMap_singleOut]
    simp only [evalM, hl1]
    refine ⟨?_, ?_, ?_⟩
    · rw [f1, List.nil_append, flatMap_and]
    · simp only [CInvT]
      exact ⟨f2, cinvT_frame P x W D l _ _ _ (same_of_frame f4 _ hd0R) l2, f3⟩
    · refine frameOn_trans (frameOn_sub l3 (fun π' h => inSub_child h)) (frameOn_sub f4 ?_)
      intro π' h
      rcases h with e | e
      · subst e; exact inSub_refl _
      · exact inSub_child e
  | elseIf _ _ _ _ => intro hc; simp [Cond.conj] at hc
  | sub _ _ _ => intro hc; simp [Cond.conj] at hc

theorem getNode_resetDedup (st : St) (π : Path) :
    getNode (resetDedup st) π = { getNode st π with seenT := {}, seenF := {} } := by
  simp only [getNode, lookup_resetDedup]
  cases List.lookup π st <;> rfl

theorem cinvB_reset : ∀ (c : Cond V) (π : Path) (st : St), CInvB P x W D c π st → CInvB P x W D c π (resetDedup st) := by
  intro c
  induction c with
  | cmp op l r => intro π st h; simp only [CInvB, getNode_resetDedup] at *; exact h
  | truth _ _ => intro _ _ _; trivial
  | pred _ _ _ => intro _ _ _; trivial
  | and l r ihl ihr =>
    intro π st h
    simp only [CInvB, getNode_resetDedup] at *
    exact ⟨h.1, ihl _ _ h.2.1, ihr _ _ h.2.2⟩
  | elseIf _ _ _ _ => intro _ _ _; trivial
  | sub _ _ _ => intro _ _ _; trivial

theorem cinvT_reset : ∀ (c : Cond V) (π : Path) (st : St), CInvT P x W D c π st → CInvT P x W D c π (resetDedup st) := by
  intro c
  induction c with
  | cmp op l r => intro π st h; simp only [CInvT, getNode_resetDedup] at *; exact h
  | truth _ _ => intro _ _ _; trivial
  | pred _ _ _ => intro _ _ _; trivial
  | and l r ihl _ =>
    intro π st h
    simp only [CInvT, getNode_resetDedup] at *
    exact ⟨h.1, ihl _ _ h.2.1, cinvB_reset P x W D r _ _ h.2.2⟩
  | elseIf _ _ _ _ => intro _ _ _; trivial
  | sub _ _ _ => intro _ _ _; trivial

theorem cinvB_nil : ∀ (c : Cond V) (π : Path), CInvB P x W D c π ([] : St) := by
  intro c
  induction c with
  | cmp op l r => intro π; simp only [CInvB]; exact Or.inl (by simp [getNode])
  | truth _ _ => intro _; trivial
  | pred _ _ _ => intro _; trivial
  | and l r ihl ihr => intro π; simp only [CInvB]; exact ⟨Or.inl (by simp [getNode]), ihl _, ihr _⟩
  | elseIf _ _ _ _ => intro _; trivial
  | sub _ _ _ => intro _; trivial

theorem cinvT_nil : ∀ (c : Cond V) (π : Path), CInvT P x W D c π ([] : St) := by
  intro c
  induction c with
  | cmp op l r => intro π; simp only [CInvT]; exact Or.inl (by simp [getNode])
  | truth _ _ => intro _; trivial
  | pred _ _ _ => intro _; trivial
  | and l r ihl _ => intro π; simp only [CInvT]; exact ⟨Or.inl (by simp [getNode]), ihl _, cinvB_nil P x W D r _⟩
  | elseIf _ _ _ _ => intro _; trivial
  | sub _ _ _ => intro _; trivial

/-- **Result caching is transparent for conjunctive single-variable queries.**  One evaluation of
    `an(entity/set_of(sel, c))` by the stateful machine with the result cache ENABLED, from any state
    whose caches meet their specification (the fresh state; the state any number of earlier evaluations
    left behind), yields exactly the rows of the L1 evaluation, in order - and leaves such a state. -/
theorem rowsM_on_single [Inhabited V] (hk : KeyOk P x D) (q : Query V) (c : Cond V) (hq : q.cond = some c)
    (hc : Cond.conj c = true) (hs : Cond.single x c) (hf : c.noFlat = true) (st : St)
    (hst : CInvT P x W D c [] st) :
    (rowsM W D P true q st).1 = rows W D q ∧ CInvT P x W D c [] (rowsM W D P true q st).2 := by
  obtain ⟨h1, h2, _⟩ := top_ok P x W D hk c hc hs hf [] (fun _ => q.sel.flatMap Term.binds) st hst
  refine ⟨?_, ?_⟩
  · simp only [rowsM, rows, hq, h1, cond_dist W D x c hf hs false]
    apply flatMap_congr_mem'
    intro p hp
    have hp2 : p.2 = false := by
      simp only [List.mem_flatMap] at hp
      obtain ⟨o, _, hpo⟩ := hp
      rw [singleOut_eq] at hpo
      split at hpo
      · simp at hpo; rw [hpo]
      · simp at hpo
    simp [hp2]
  · simp only [rowsM, hq]
    exact cinvT_reset P x W D c _ _ h2

/-- The state after `n` consecutive evaluations with the cache enabled. -/
def afterEvalsOn (q : Query V) : Nat → St → St
  | 0, s => s
  | n + 1, s => afterEvalsOn q n (rowsM W D P true q s).2

theorem rowsM_on_single_iter [Inhabited V] (hk : KeyOk P x D) (q : Query V) (c : Cond V) (hq : q.cond = some c)
    (hc : Cond.conj c = true) (hs : Cond.single x c) (hf : c.noFlat = true) :
    ∀ (n : Nat) (st : St), CInvT P x W D c [] st →
      (rowsM W D P true q (afterEvalsOn P W D q n st)).1 = rows W D q := by
  intro n
  induction n with
  | zero => intro st hst; exact (rowsM_on_single P x W D hk q c hq hc hs hf st hst).1
  | succ n ih =>
    intro st hst
    simp only [afterEvalsOn]
    exact ih _ (rowsM_on_single P x W D hk q c hq hc hs hf st hst).2

end Eql.Machine
