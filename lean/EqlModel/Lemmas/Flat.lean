/-
  Soundness and completeness of the L1 evaluator WITH `flatten` (UNNEST) nodes.

  The lemmas of Term/Args/Cond carry the hypothesis `noFlat`.  Here a flatten node `flatten id t` is part of
  the language: an assignment also gives every flatten node the element it stands for, and it is
  admissible (`TermOk` / `CondOk`, Spec.lean) when every variable takes a value of its domain AND every
  flatten node an element of the collection its operand denotes under the same assignment - "one row
  per inner element, correlated with its parent".
    Term.okF / Cond.okF     no `concatenate`; a flatten id is not bound inside its own operand
    term_sound_f, term_complete_f, args_*_f, cond_sound_complete_f
-/
import EqlModel.Lemmas.Support

namespace Eql
variable {V : Type}

def Term.okF : Term V → Bool
  | .var _ => true
  | .lit _ => true
  | .attr _ t => t.okF
  | .index _ t => t.okF
  | .call _ _ t => t.okF
  | .flatten id t => t.okF && !t.binds.contains id
  | .concat _ _ => false

def Terms.okF : List (Term V) → Bool
  | [] => true
  | t :: ts => t.okF && Terms.okF ts

def Cond.okF : Cond V → Bool
  | .cmp _ l r => l.okF && r.okF
  | .truth _ t => t.okF
  | .pred _ _ args => Terms.okF args
  | .and l r => Cond.okF l && Cond.okF r
  | .elseIf l r => Cond.okF l && Cond.okF r
  | .sub sel c => Cond.okF c && Terms.okF sel

variable (W : World V) (D : VarId → List V)

theorem ext_cons {β : Bnd V} {v : VarId} {o : V} {α : Asg V} (h1 : α v = o) (h2 : Ext β α) :
    Ext ((v, o) :: β) α := by
  intro w a hw
  by_cases e : w = v
  · subst e; rw [lookup_cons_self] at hw; cases hw; exact h1
  · rw [lookup_cons_ne β o e] at hw; exact h2 w a hw

/-- Term outputs bind nothing but what was bound and the ids the term binds. -/
theorem term_binds_f : ∀ (t : Term V), t.okF = true → ∀ (β β' : Bnd V) (a : V),
    (β', a) ∈ evalTerm W D t β → ∀ w, bound β' w = true → (bound β w = true ∨ w ∈ t.binds) := by
  intro t
  induction t with
  | var v =>
    intro _ β β' a h w hw
    simp only [evalTerm] at h
    cases hl : β.lookup v with
    | some b => rw [hl] at h; simp at h; obtain ⟨h1, _⟩ := h; subst h1; exact Or.inl hw
    | none =>
      rw [hl] at h
      simp only [List.mem_map] at h
      obtain ⟨o, _, he⟩ := h
      cases he
      rcases bound_cons.1 hw with e | e
      · subst e; exact Or.inr (by simp [Term.binds])
      · exact Or.inl e
  | lit c => intro _ β β' a h w hw; simp [evalTerm] at h; obtain ⟨h1, _⟩ := h; subst h1; exact Or.inl hw
  | attr n t ih =>
    intro hf β β' a h w hw
    simp only [evalTerm, List.mem_map] at h
    obtain ⟨p, hp, he⟩ := h; cases he; exact ih hf β p.1 p.2 hp w hw
  | index k t ih =>
    intro hf β β' a h w hw
    simp only [evalTerm, List.mem_map] at h
    obtain ⟨p, hp, he⟩ := h; cases he; exact ih hf β p.1 p.2 hp w hw
  | call m args t ih =>
    intro hf β β' a h w hw
    simp only [evalTerm, List.mem_map] at h
    obtain ⟨p, hp, he⟩ := h; cases he; exact ih hf β p.1 p.2 hp w hw
  | flatten id t ih =>
    intro hf β β' a h w hw
    simp only [Term.okF, Bool.and_eq_true] at hf
    simp only [evalTerm] at h
    cases hl : β.lookup id with
    | some b => rw [hl] at h; simp at h; obtain ⟨h1, _⟩ := h; subst h1; exact Or.inl hw
    | none =>
      rw [hl] at h
      simp only [List.mem_flatMap, List.mem_map] at h
      obtain ⟨p, hp, e, _, he⟩ := h
      cases he
      rcases bound_cons.1 hw with e1 | hw'
      · subst e1; exact Or.inr (by simp [Term.binds])
      · rcases ih hf.1 β p.1 p.2 hp w hw' with h1 | h1
        · exact Or.inl h1
        · exact Or.inr (by simp [Term.binds, h1])
  | concat id t _ => intro hf; simp [Term.okF] at hf

/-- Soundness: an output extends the input binding and carries the value the term has under every
    assignment that extends the output (a flatten node's value is the element the assignment gives it). -/
theorem term_sound_f : ∀ (t : Term V), t.okF = true → ∀ (β β' : Bnd V) (a : V),
    (β', a) ∈ evalTerm W D t β → ∀ α, Ext β' α → Ext β α ∧ termVal W α t = a := by
  intro t
  induction t with
  | var v =>
    intro _ β β' a h α hα
    simp only [evalTerm] at h
    cases hl : β.lookup v with
    | some b =>
      rw [hl] at h
      simp at h
      obtain ⟨h1, h2⟩ := h
      subst h1
      exact ⟨hα, by rw [h2]; exact hα v b hl⟩
    | none =>
      rw [hl] at h
      simp only [List.mem_map] at h
      obtain ⟨o, _, ho⟩ := h
      cases ho
      have := (ext_cons_fresh hl).1 hα
      exact ⟨this.2, this.1⟩
  | lit c =>
    intro _ β β' a h α hα
    simp [evalTerm] at h
    obtain ⟨rfl, rfl⟩ := h
    exact ⟨hα, rfl⟩
  | attr n t ih =>
    intro hf β β' a h α hα
    simp only [evalTerm, List.mem_map] at h
    obtain ⟨p, hp, he⟩ := h
    cases he
    have := ih hf β p.1 p.2 hp α hα
    exact ⟨this.1, by simp [termVal, this.2]⟩
  | index k t ih =>
    intro hf β β' a h α hα
    simp only [evalTerm, List.mem_map] at h
    obtain ⟨p, hp, he⟩ := h
    cases he
    have := ih hf β p.1 p.2 hp α hα
    exact ⟨this.1, by simp [termVal, this.2]⟩
  | call m args t ih =>
    intro hf β β' a h α hα
    simp only [evalTerm, List.mem_map] at h
    obtain ⟨p, hp, he⟩ := h
    cases he
    have := ih hf β p.1 p.2 hp α hα
    exact ⟨this.1, by simp [termVal, this.2]⟩
  | flatten id t ih =>
    intro hf β β' a h α hα
    simp only [Term.okF, Bool.and_eq_true] at hf
    simp only [evalTerm] at h
    cases hl : β.lookup id with
    | some b =>
      rw [hl] at h
      simp at h
      obtain ⟨h1, h2⟩ := h
      subst h1
      exact ⟨hα, by simp only [termVal]; rw [h2]; exact hα id b hl⟩
    | none =>
      rw [hl] at h
      simp only [List.mem_flatMap, List.mem_map] at h
      obtain ⟨p, hp, e, _, he⟩ := h
      cases he
      -- the operand's evaluation does not bind the flatten id
      have hfree : p.1.lookup id = none := by
        cases hp1 : p.1.lookup id with
        | none => rfl
        | some b =>
          exfalso
          have hb : bound p.1 id = true := by simp [bound, hp1]
          rcases term_binds_f W D t hf.1 β p.1 p.2 hp id hb with h1 | h1
          · simp [bound, hl] at h1
          · have := hf.2; simp at this; exact this h1
      have hx := (ext_cons_fresh hfree).1 hα
      have := ih hf.1 β p.1 p.2 hp α hx.2
      exact ⟨this.1, by simp [termVal, hx.1]⟩
  | concat id t _ => intro hf; simp [Term.okF] at hf

/-- Completeness: every admissible assignment (variables in their domains, flatten nodes standing for
    elements of what their operands denote) that extends the input extends one of the outputs. -/
theorem term_complete_f : ∀ (t : Term V), t.okF = true → ∀ (β : Bnd V) (α : Asg V),
    Ext β α → TermOk W D α t → ∃ p ∈ evalTerm W D t β, Ext p.1 α := by
  intro t
  induction t with
  | var v =>
    intro _ β α hα hd
    simp only [evalTerm]
    cases hl : β.lookup v with
    | some b => exact ⟨(β, b), by simp, hα⟩
    | none =>
      refine ⟨((v, α v) :: β, α v), ?_, ?_⟩
      · simp only [List.mem_map]
        exact ⟨α v, hd, rfl⟩
      · exact ext_cons rfl hα
  | lit c => intro _ β α hα _; exact ⟨(β, c), by simp [evalTerm], hα⟩
  | attr n t ih =>
    intro hf β α hα hd
    obtain ⟨p, hp, he⟩ := ih hf β α hα hd
    exact ⟨(p.1, W.attr n p.2), by simp only [evalTerm, List.mem_map]; exact ⟨p, hp, rfl⟩, he⟩
  | index k t ih =>
    intro hf β α hα hd
    obtain ⟨p, hp, he⟩ := ih hf β α hα hd
    exact ⟨(p.1, W.index p.2 k), by simp only [evalTerm, List.mem_map]; exact ⟨p, hp, rfl⟩, he⟩
  | call m args t ih =>
    intro hf β α hα hd
    obtain ⟨p, hp, he⟩ := ih hf β α hα hd
    exact ⟨(p.1, W.call m args p.2), by simp only [evalTerm, List.mem_map]; exact ⟨p, hp, rfl⟩, he⟩
  | flatten id t ih =>
    intro hf β α hα hd
    simp only [Term.okF, Bool.and_eq_true] at hf
    simp only [evalTerm]
    cases hl : β.lookup id with
    | some b => exact ⟨(β, b), by simp, hα⟩
    | none =>
      obtain ⟨p, hp, he⟩ := ih hf.1 β α hα hd.1
      have hs := term_sound_f W D t hf.1 β p.1 p.2 hp α he
      refine ⟨((id, α id) :: p.1, α id), ?_, ext_cons rfl he⟩
      simp only [List.mem_flatMap, List.mem_map]
      exact ⟨p, hp, α id, by rw [← hs.2]; exact hd.2, rfl⟩
  | concat id t _ => intro hf; simp [Term.okF] at hf

theorem args_sound_f : ∀ (ts : List (Term V)), Terms.okF ts = true → ∀ (β β' : Bnd V) (as : List V),
    (β', as) ∈ evalArgs W D ts β → ∀ α, Ext β' α → Ext β α ∧ termsVal W α ts = as := by
  intro ts
  induction ts with
  | nil =>
    intro _ β β' as h α hα
    simp [evalArgs] at h
    obtain ⟨h1, h2⟩ := h
    subst h1; subst h2
    exact ⟨hα, rfl⟩
  | cons t ts ih =>
    intro hf β β' as h α hα
    simp only [Terms.okF, Bool.and_eq_true] at hf
    simp only [evalArgs, List.mem_flatMap, List.mem_map] at h
    obtain ⟨p, hp, q, hq, he⟩ := h
    cases he
    have h2 := ih hf.2 p.1 q.1 q.2 hq α hα
    have h1 := term_sound_f W D t hf.1 β p.1 p.2 hp α h2.1
    exact ⟨h1.1, by simp [termsVal, h1.2, h2.2]⟩

theorem args_complete_f : ∀ (ts : List (Term V)), Terms.okF ts = true → ∀ (β : Bnd V) (α : Asg V),
    Ext β α → TermsOk W D α ts → ∃ p ∈ evalArgs W D ts β, Ext p.1 α := by
  intro ts
  induction ts with
  | nil => intro _ β α hα _; exact ⟨(β, []), by simp [evalArgs], hα⟩
  | cons t ts ih =>
    intro hf β α hα hd
    simp only [Terms.okF, Bool.and_eq_true] at hf
    obtain ⟨p, hp, hpe⟩ := term_complete_f W D t hf.1 β α hα hd.1
    obtain ⟨q, hq, hqe⟩ := ih hf.2 p.1 α hpe hd.2
    refine ⟨(q.1, p.2 :: q.2), ?_, hqe⟩
    simp only [evalArgs, List.mem_flatMap, List.mem_map]
    exact ⟨p, hp, q, hq, rfl⟩

/-- Soundness of one output of a condition (with flatten nodes). -/
def CondSoundF (c : Cond V) : Prop :=
  ∀ (β β' : Bnd V) (f ywf : Bool), (β', f) ∈ evalCond W D c β ywf →
    (ywf = false → f = false) ∧
    ∀ α, CondOk W D α c → Ext β' α → Ext β α ∧ denote W α c = !f

/-- Completeness: every admissible assignment is covered by an output. -/
def CondCompleteF (c : Cond V) : Prop :=
  ∀ (β : Bnd V) (α : Asg V) (ywf : Bool), Ext β α → CondOk W D α c →
    (ywf = true ∨ denote W α c = true) → ∃ p ∈ evalCond W D c β ywf, Ext p.1 α

theorem cond_sound_complete_f : ∀ (c : Cond V), Cond.okF c = true →
    CondSoundF W D c ∧ CondCompleteF W D c := by
  intro c
  induction c with
  | cmp op l r =>
    intro hf
    simp only [Cond.okF, Bool.and_eq_true] at hf
    constructor
    · intro β β' f ywf h
      simp only [evalCond] at h
      split at h
      · simp only [List.mem_flatMap] at h
        obtain ⟨p1, hp1, p2, hp2, h3⟩ := h
        split at h3
        · rename_i hc
          simp at h3
          obtain ⟨h31, h32⟩ := h3
          subst h31; subst h32
          constructor
          · intro hy; subst hy; simp at hc; simp [hc]
          · intro α _ hα
            have s2 := term_sound_f W D l hf.1 p1.1 p2.1 p2.2 hp2 α hα
            have s1 := term_sound_f W D r hf.2 β p1.1 p1.2 hp1 α s2.1
            exact ⟨s1.1, by simp [denote, s1.2, s2.2]⟩
        · simp at h3
      · simp only [List.mem_flatMap] at h
        obtain ⟨p1, hp1, p2, hp2, h3⟩ := h
        split at h3
        · rename_i hc
          simp at h3
          obtain ⟨h31, h32⟩ := h3
          subst h31; subst h32
          constructor
          · intro hy; subst hy; simp at hc; simp [hc]
          · intro α _ hα
            have s2 := term_sound_f W D r hf.2 p1.1 p2.1 p2.2 hp2 α hα
            have s1 := term_sound_f W D l hf.1 β p1.1 p1.2 hp1 α s2.1
            exact ⟨s1.1, by simp [denote, s1.2, s2.2]⟩
        · simp at h3
    · intro β α ywf hα hv hy
      have hvl := hv.1
      have hvr := hv.2
      simp only [evalCond]
      split
      · obtain ⟨p1, hp1, e1⟩ := term_complete_f W D r hf.2 β α hα hvr
        obtain ⟨p2, hp2, e2⟩ := term_complete_f W D l hf.1 p1.1 α e1 hvl
        have s2 := term_sound_f W D l hf.1 p1.1 p2.1 p2.2 hp2 α e2
        have s1 := term_sound_f W D r hf.2 β p1.1 p1.2 hp1 α s2.1
        refine ⟨(p2.1, !W.cmp op p2.2 p1.2), ?_, e2⟩
        simp only [List.mem_flatMap]
        refine ⟨p1, hp1, p2, hp2, ?_⟩
        have : (W.cmp op p2.2 p1.2 || ywf) = true := by
          rcases hy with hy | hy
          · simp [hy]
          · simp [denote, s1.2, s2.2] at hy; simp [hy]
        simp [this]
      · obtain ⟨p1, hp1, e1⟩ := term_complete_f W D l hf.1 β α hα hvl
        obtain ⟨p2, hp2, e2⟩ := term_complete_f W D r hf.2 p1.1 α e1 hvr
        have s2 := term_sound_f W D r hf.2 p1.1 p2.1 p2.2 hp2 α e2
        have s1 := term_sound_f W D l hf.1 β p1.1 p1.2 hp1 α s2.1
        refine ⟨(p2.1, !W.cmp op p1.2 p2.2), ?_, e2⟩
        simp only [List.mem_flatMap]
        refine ⟨p1, hp1, p2, hp2, ?_⟩
        have : (W.cmp op p1.2 p2.2 || ywf) = true := by
          rcases hy with hy | hy
          · simp [hy]
          · simp [denote, s1.2, s2.2] at hy; simp [hy]
        simp [this]
  | truth inv t =>
    intro hf
    simp only [Cond.okF] at hf
    constructor
    · intro β β' f ywf h
      simp only [evalCond, List.mem_flatMap] at h
      obtain ⟨p, hp, h3⟩ := h
      split at h3
      · rename_i hc
        simp at h3
        obtain ⟨h31, h32⟩ := h3
        subst h31; subst h32
        constructor
        · intro hy; subst hy; simpa using hc
        · intro α _ hα
          have s := term_sound_f W D t hf β p.1 p.2 hp α hα
          refine ⟨s.1, ?_⟩
          simp only [denote, s.2]
          cases W.truthy p.2 <;> cases inv <;> rfl
      · simp at h3
    · intro β α ywf hα hv hy
      obtain ⟨p, hp, e⟩ := term_complete_f W D t hf β α hα hv
      have s := term_sound_f W D t hf β p.1 p.2 hp α e
      refine ⟨(p.1, W.truthy p.2 == inv), ?_, e⟩
      simp only [evalCond, List.mem_flatMap]
      refine ⟨p, hp, ?_⟩
      have : (!(W.truthy p.2 == inv) || ywf) = true := by
        rcases hy with hy | hy
        · simp [hy]
        · simp only [denote, s.2] at hy
          revert hy
          cases W.truthy p.2 <;> cases inv <;> simp
      simp [this]
  | pred inv n args =>
    intro hf
    simp only [Cond.okF] at hf
    constructor
    · intro β β' f ywf h
      simp only [evalCond, List.mem_flatMap] at h
      obtain ⟨p, hp, h3⟩ := h
      split at h3
      · rename_i hc
        simp at h3
        obtain ⟨h31, h32⟩ := h3
        subst h31; subst h32
        constructor
        · intro hy; subst hy; simpa using hc
        · intro α _ hα
          have s := args_sound_f W D args hf β p.1 p.2 hp α hα
          refine ⟨s.1, ?_⟩
          simp only [denote, s.2]
          cases W.truthy (W.fn n p.2) <;> cases inv <;> rfl
      · simp at h3
    · intro β α ywf hα hv hy
      obtain ⟨p, hp, e⟩ := args_complete_f W D args hf β α hα hv
      have s := args_sound_f W D args hf β p.1 p.2 hp α e
      refine ⟨(p.1, W.truthy (W.fn n p.2) == inv), ?_, e⟩
      simp only [evalCond, List.mem_flatMap]
      refine ⟨p, hp, ?_⟩
      have : (!(W.truthy (W.fn n p.2) == inv) || ywf) = true := by
        rcases hy with hy | hy
        · simp [hy]
        · simp only [denote, s.2] at hy
          revert hy
          cases W.truthy (W.fn n p.2) <;> cases inv <;> simp
      simp [this]
  | and l r ihl ihr =>
    intro hf
    simp only [Cond.okF, Bool.and_eq_true] at hf
    obtain ⟨sl, cl⟩ := ihl hf.1
    obtain ⟨sr, cr⟩ := ihr hf.2
    constructor
    · intro β β' f ywf h
      simp only [evalCond, List.mem_flatMap] at h
      obtain ⟨p, hp, h3⟩ := h
      have s1 := sl β p.1 p.2 ywf hp
      split at h3
      · rename_i hc
        simp at h3
        obtain ⟨h31, h32⟩ := h3
        subst h31; subst h32
        simp only [Bool.and_eq_true] at hc
        constructor
        · intro hy; simp [hy] at hc
        · intro α hv hα
          have := s1.2 α hv.1 hα
          refine ⟨this.1, ?_⟩
          simp [denote, this.2, hc.2]
      · rename_i hc
        have s2 := sr p.1 β' f ywf h3
        constructor
        · exact s2.1
        · intro α hv hα
          have h2 := s2.2 α hv.2 hα
          have h1 := s1.2 α hv.1 h2.1
          refine ⟨h1.1, ?_⟩
          -- the left output was true here
          have hp2 : p.2 = false := by
            cases hy : ywf
            · exact s1.1 hy
            · simp [hy] at hc; exact hc
          simp [denote, h1.2, h2.2, hp2]
    · intro β α ywf hα hv hy
      have hvl := hv.1
      have hvr := hv.2
      simp only [evalCond, List.mem_flatMap]
      rcases hy with hy | hy
      · -- false results requested
        subst hy
        obtain ⟨p, hp, e⟩ := cl β α true hα hvl (Or.inl rfl)
        cases hp2 : p.2
        · obtain ⟨q, hq, e2⟩ := cr p.1 α true e hvr (Or.inl rfl)
          exact ⟨q, ⟨p, hp, by simp [hp2]; exact hq⟩, e2⟩
        · exact ⟨(p.1, true), ⟨p, hp, by simp [hp2]⟩, e⟩
      · simp only [denote, Bool.and_eq_true] at hy
        obtain ⟨p, hp, e⟩ := cl β α ywf hα hvl (Or.inr hy.1)
        have s1 := (sl β p.1 p.2 ywf hp).2 α hvl e
        have hp2 : p.2 = false := by
          have := s1.2; rw [hy.1] at this; cases h : p.2 <;> simp [h] at this ⊢
        obtain ⟨q, hq, e2⟩ := cr p.1 α ywf e hvr (Or.inr hy.2)
        exact ⟨q, ⟨p, hp, by simp [hp2]; exact hq⟩, e2⟩
  | elseIf l r ihl ihr =>
    intro hf
    simp only [Cond.okF, Bool.and_eq_true] at hf
    obtain ⟨sl, cl⟩ := ihl hf.1
    obtain ⟨sr, cr⟩ := ihr hf.2
    constructor
    · intro β β' f ywf h
      simp only [evalCond] at h
      split at h
      · -- the left branch produced nothing at all
        rename_i hemp
        have s2 := sr β β' f ywf h
        constructor
        · exact s2.1
        · intro α hv hα
          have hvl := hv.1
          have h2 := s2.2 α hv.2 hα
          obtain ⟨p, hp, _⟩ := cl β α true h2.1 hvl (Or.inl rfl)
          simp [List.isEmpty_iff] at hemp
          rw [hemp] at hp; cases hp
      · simp only [List.mem_flatMap] at h
        obtain ⟨p, hp, h3⟩ := h
        have s1 := sl β p.1 p.2 true hp
        split at h3
        · rename_i hc
          have s2 := sr p.1 β' f ywf h3
          constructor
          · exact s2.1
          · intro α hv hα
            have h2 := s2.2 α hv.2 hα
            have h1 := s1.2 α hv.1 h2.1
            refine ⟨h1.1, ?_⟩
            simp [denote, h1.2, h2.2, hc]
        · rename_i hc
          simp at h3
          obtain ⟨h31, h32⟩ := h3
          subst h31; subst h32
          constructor
          · intro _; rfl
          · intro α hv hα
            have h1 := s1.2 α hv.1 hα
            refine ⟨h1.1, ?_⟩
            have : p.2 = false := by simpa using hc
            simp [denote, h1.2, this]
    · intro β α ywf hα hv hy
      have hvl := hv.1
      have hvr := hv.2
      obtain ⟨p, hp, e⟩ := cl β α true hα hvl (Or.inl rfl)
      have s1 := (sl β p.1 p.2 true hp).2 α hvl e
      simp only [evalCond]
      have hne : (evalCond W D l β true).isEmpty = false := by
        cases h : evalCond W D l β true with
        | nil => rw [h] at hp; cases hp
        | cons _ _ => rfl
      simp only [hne, Bool.false_eq_true, if_false, List.mem_flatMap]
      cases hp2 : p.2
      · exact ⟨(p.1, false), ⟨p, hp, by simp [hp2]⟩, e⟩
      · have hl : denote W α l = false := by rw [s1.2, hp2]; rfl
        have hy' : ywf = true ∨ denote W α r = true := by
          rcases hy with hy | hy
          · exact Or.inl hy
          · simp [denote, hl] at hy; exact Or.inr hy
        obtain ⟨q, hq, e2⟩ := cr p.1 α ywf e hvr hy'
        exact ⟨q, ⟨p, hp, by simp [hp2]; exact hq⟩, e2⟩
  | sub sel c ih =>
    intro hf
    simp only [Cond.okF, Bool.and_eq_true] at hf
    obtain ⟨sc, cc⟩ := ih hf.1
    constructor
    · intro β β' f ywf h
      simp only [evalCond, List.mem_flatMap, List.mem_map] at h
      obtain ⟨p, hp, q, hq, he⟩ := h
      cases he
      have s1 := sc β p.1 p.2 ywf hp
      constructor
      · exact s1.1
      · intro α hv hα
        have h2 := args_sound_f W D sel hf.2 p.1 q.1 q.2 hq α hα
        have h1 := s1.2 α hv.1 h2.1
        exact ⟨h1.1, by simpa [denote] using h1.2⟩
    · intro β α ywf hα hv hy
      obtain ⟨p, hp, e⟩ := cc β α ywf hα hv.1
        (by simpa [denote] using hy)
      obtain ⟨q, hq, e2⟩ := args_complete_f W D sel hf.2 p.1 α e
        hv.2
      refine ⟨(q.1, p.2), ?_, e2⟩
      simp only [evalCond, List.mem_flatMap, List.mem_map]
      exact ⟨p, hp, q, hq, rfl⟩


end Eql
