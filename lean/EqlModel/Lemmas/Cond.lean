/-
  Helper lemmas: soundness and completeness of `evalCond` against `denote`
  (the engine of C01, C02, C03, C06, C15, C18, C19).
-/
import EqlModel.Lemmas.Args

namespace Eql
variable {V : Type}

def Cond.vars : Cond V → List VarId
  | .cmp _ l r => l.vars ++ r.vars
  | .truth _ t => t.vars
  | .pred _ _ args => Terms.vars args
  | .and l r => l.vars ++ r.vars
  | .elseIf l r => l.vars ++ r.vars
  | .sub sel c => c.vars ++ Terms.vars sel

def Cond.noFlat : Cond V → Bool
  | .cmp _ l r => l.noFlat && r.noFlat
  | .truth _ t => t.noFlat
  | .pred _ _ args => Terms.noFlat args
  | .and l r => l.noFlat && r.noFlat
  | .elseIf l r => l.noFlat && r.noFlat
  | .sub sel c => c.noFlat && Terms.noFlat sel

variable (W : World V) (D : VarId → List V)

/-- Soundness of one output. -/
def CondSound (c : Cond V) : Prop :=
  ∀ (β β' : Bnd V) (f ywf : Bool), (β', f) ∈ evalCond W D c β ywf →
    (ywf = false → f = false) ∧
    ∀ α, (∀ v ∈ c.vars, α v ∈ D v) → Ext β' α → Ext β α ∧ denote W α c = !f

/-- Completeness: every admissible assignment is covered by an output. -/
def CondComplete (c : Cond V) : Prop :=
  ∀ (β : Bnd V) (α : Asg V) (ywf : Bool), Ext β α → (∀ v ∈ c.vars, α v ∈ D v) →
    (ywf = true ∨ denote W α c = true) → ∃ p ∈ evalCond W D c β ywf, Ext p.1 α

/-- Outputs keep bound values inside their domains. -/
def CondBOk (c : Cond V) : Prop :=
  ∀ (β β' : Bnd V) (f ywf : Bool), BOk D β → (β', f) ∈ evalCond W D c β ywf → BOk D β'

theorem cond_bok : ∀ (c : Cond V), c.noFlat = true → CondBOk W D c := by
  intro c
  induction c with
  | cmp op l r =>
    intro hf β β' f ywf hb h
    simp only [Cond.noFlat, Bool.and_eq_true] at hf
    simp only [evalCond] at h
    split at h
    · simp only [List.mem_flatMap] at h
      obtain ⟨p1, hp1, p2, hp2, h3⟩ := h
      have b1 := term_bok W D r hf.2 β p1.1 p1.2 hb hp1
      have b2 := term_bok W D l hf.1 p1.1 p2.1 p2.2 b1 hp2
      split at h3 <;> simp at h3
      obtain ⟨rfl, _⟩ := h3; exact b2
    · simp only [List.mem_flatMap] at h
      obtain ⟨p1, hp1, p2, hp2, h3⟩ := h
      have b1 := term_bok W D l hf.1 β p1.1 p1.2 hb hp1
      have b2 := term_bok W D r hf.2 p1.1 p2.1 p2.2 b1 hp2
      split at h3 <;> simp at h3
      obtain ⟨rfl, _⟩ := h3; exact b2
  | truth inv t =>
    intro hf β β' f ywf hb h
    simp only [Cond.noFlat] at hf
    simp only [evalCond, List.mem_flatMap] at h
    obtain ⟨p, hp, h3⟩ := h
    have b1 := term_bok W D t hf β p.1 p.2 hb hp
    split at h3 <;> simp at h3
    obtain ⟨rfl, _⟩ := h3; exact b1
  | pred inv n args =>
    intro hf β β' f ywf hb h
    simp only [Cond.noFlat] at hf
    simp only [evalCond, List.mem_flatMap] at h
    obtain ⟨p, hp, h3⟩ := h
    have b1 := args_bok W D args hf β p.1 p.2 hb hp
    split at h3 <;> simp at h3
    obtain ⟨rfl, _⟩ := h3; exact b1
  | and l r ihl ihr =>
    intro hf β β' f ywf hb h
    simp only [Cond.noFlat, Bool.and_eq_true] at hf
    simp only [evalCond, List.mem_flatMap] at h
    obtain ⟨p, hp, h3⟩ := h
    have b1 := ihl hf.1 β p.1 p.2 ywf hb hp
    split at h3
    · simp at h3; obtain ⟨rfl, _⟩ := h3; exact b1
    · exact ihr hf.2 p.1 β' f ywf b1 h3
  | elseIf l r ihl ihr =>
    intro hf β β' f ywf hb h
    simp only [Cond.noFlat, Bool.and_eq_true] at hf
    simp only [evalCond] at h
    split at h
    · exact ihr hf.2 β β' f ywf hb h
    · simp only [List.mem_flatMap] at h
      obtain ⟨p, hp, h3⟩ := h
      have b1 := ihl hf.1 β p.1 p.2 true hb hp
      split at h3
      · exact ihr hf.2 p.1 β' f ywf b1 h3
      · simp at h3; obtain ⟨rfl, _⟩ := h3; exact b1
  | sub sel c ih =>
    intro hf β β' f ywf hb h
    simp only [Cond.noFlat, Bool.and_eq_true] at hf
    simp only [evalCond, List.mem_flatMap, List.mem_map] at h
    obtain ⟨p, hp, q, hq, he⟩ := h
    cases he
    exact args_bok W D sel hf.2 p.1 q.1 q.2 (ih hf.1 β p.1 p.2 ywf hb hp) hq

end Eql

namespace Eql
variable {V : Type}
variable (W : World V) (D : VarId → List V)

theorem cond_sound_complete : ∀ (c : Cond V), c.noFlat = true →
    CondSound W D c ∧ CondComplete W D c := by
  intro c
  induction c with
  | cmp op l r =>
    intro hf
    simp only [Cond.noFlat, Bool.and_eq_true] at hf
    constructor
    · intro β β' f ywf h
      simp only [evalCond] at h
      split at h
      · simp only [List.mem_flatMap] at h
        obtain ⟨p1, hp1, p2, hp2, h3⟩ := h
        split at h3
        · rename_i hc
          simp at h3
          obtain ⟨h31, h32⟩ := h3
          subst h31; subst h32
          constructor
          · intro hy; subst hy; simp at hc; simp [hc]
          · intro α _ hα
            have s2 := term_sound W D l hf.1 p1.1 p2.1 p2.2 hp2 α hα
            have s1 := term_sound W D r hf.2 β p1.1 p1.2 hp1 α s2.1
            exact ⟨s1.1, by simp [denote, s1.2, s2.2]⟩
        · simp at h3
      · simp only [List.mem_flatMap] at h
        obtain ⟨p1, hp1, p2, hp2, h3⟩ := h
        split at h3
        · rename_i hc
          simp at h3
          obtain ⟨h31, h32⟩ := h3
          subst h31; subst h32
          constructor
          · intro hy; subst hy; simp at hc; simp [hc]
          · intro α _ hα
            have s2 := term_sound W D r hf.2 p1.1 p2.1 p2.2 hp2 α hα
            have s1 := term_sound W D l hf.1 β p1.1 p1.2 hp1 α s2.1
            exact ⟨s1.1, by simp [denote, s1.2, s2.2]⟩
        · simp at h3
    · intro β α ywf hα hv hy
      have hvl : ∀ v ∈ l.vars, α v ∈ D v := fun v h => hv v (by simp [Cond.vars, h])
      have hvr : ∀ v ∈ r.vars, α v ∈ D v := fun v h => hv v (by simp [Cond.vars, h])
      simp only [evalCond]
      split
      · obtain ⟨p1, hp1, e1⟩ := term_complete W D r hf.2 β α hα hvr
        obtain ⟨p2, hp2, e2⟩ := term_complete W D l hf.1 p1.1 α e1 hvl
        have s2 := term_sound W D l hf.1 p1.1 p2.1 p2.2 hp2 α e2
        have s1 := term_sound W D r hf.2 β p1.1 p1.2 hp1 α s2.1
        refine ⟨(p2.1, !W.cmp op p2.2 p1.2), ?_, e2⟩
        simp only [List.mem_flatMap]
        refine ⟨p1, hp1, p2, hp2, ?_⟩
        have : (W.cmp op p2.2 p1.2 || ywf) = true := by
          rcases hy with hy | hy
          · simp [hy]
          · simp [denote, s1.2, s2.2] at hy; simp [hy]
        simp [this]
      · obtain ⟨p1, hp1, e1⟩ := term_complete W D l hf.1 β α hα hvl
        obtain ⟨p2, hp2, e2⟩ := term_complete W D r hf.2 p1.1 α e1 hvr
        have s2 := term_sound W D r hf.2 p1.1 p2.1 p2.2 hp2 α e2
        have s1 := term_sound W D l hf.1 β p1.1 p1.2 hp1 α s2.1
        refine ⟨(p2.1, !W.cmp op p1.2 p2.2), ?_, e2⟩
        simp only [List.mem_flatMap]
        refine ⟨p1, hp1, p2, hp2, ?_⟩
        have : (W.cmp op p1.2 p2.2 || ywf) = true := by
          rcases hy with hy | hy
          · simp [hy]
          · simp [denote, s1.2, s2.2] at hy; simp [hy]
        simp [this]
  | truth inv t =>
    intro hf
    simp only [Cond.noFlat] at hf
    constructor
    · intro β β' f ywf h
      simp only [evalCond, List.mem_flatMap] at h
      obtain ⟨p, hp, h3⟩ := h
      split at h3
      · rename_i hc
        simp at h3
        obtain ⟨h31, h32⟩ := h3
        subst h31; subst h32
        constructor
        · intro hy; subst hy; simpa using hc
        · intro α _ hα
          have s := term_sound W D t hf β p.1 p.2 hp α hα
          refine ⟨s.1, ?_⟩
          simp only [denote, s.2]
          cases W.truthy p.2 <;> cases inv <;> rfl
      · simp at h3
    · intro β α ywf hα hv hy
      obtain ⟨p, hp, e⟩ := term_complete W D t hf β α hα (fun v h => hv v (by simp [Cond.vars, h]))
      have s := term_sound W D t hf β p.1 p.2 hp α e
      refine ⟨(p.1, W.truthy p.2 == inv), ?_, e⟩
      simp only [evalCond, List.mem_flatMap]
      refine ⟨p, hp, ?_⟩
      have : (!(W.truthy p.2 == inv) || ywf) = true := by
        rcases hy with hy | hy
        · simp [hy]
        · simp only [denote, s.2] at hy
          revert hy
          cases W.truthy p.2 <;> cases inv <;> simp
      simp [this]
  | pred inv n args =>
    intro hf
    simp only [Cond.noFlat] at hf
    constructor
    · intro β β' f ywf h
      simp only [evalCond, List.mem_flatMap] at h
      obtain ⟨p, hp, h3⟩ := h
      split at h3
      · rename_i hc
        simp at h3
        obtain ⟨h31, h32⟩ := h3
        subst h31; subst h32
        constructor
        · intro hy; subst hy; simpa using hc
        · intro α _ hα
          have s := args_sound W D args hf β p.1 p.2 hp α hα
          refine ⟨s.1, ?_⟩
          simp only [denote, s.2]
          cases W.truthy (W.fn n p.2) <;> cases inv <;> rfl
      · simp at h3
    · intro β α ywf hα hv hy
      obtain ⟨p, hp, e⟩ := args_complete W D args hf β α hα (fun v h => hv v (by simp [Cond.vars, h]))
      have s := args_sound W D args hf β p.1 p.2 hp α e
      refine ⟨(p.1, W.truthy (W.fn n p.2) == inv), ?_, e⟩
      simp only [evalCond, List.mem_flatMap]
      refine ⟨p, hp, ?_⟩
      have : (!(W.truthy (W.fn n p.2) == inv) || ywf) = true := by
        rcases hy with hy | hy
        · simp [hy]
        · simp only [denote, s.2] at hy
          revert hy
          cases W.truthy (W.fn n p.2) <;> cases inv <;> simp
      simp [this]
  | and l r ihl ihr =>
    intro hf
    simp only [Cond.noFlat, Bool.and_eq_true] at hf
    obtain ⟨sl, cl⟩ := ihl hf.1
    obtain ⟨sr, cr⟩ := ihr hf.2
    constructor
    · intro β β' f ywf h
      simp only [evalCond, List.mem_flatMap] at h
      obtain ⟨p, hp, h3⟩ := h
      have s1 := sl β p.1 p.2 ywf hp
      split at h3
      · rename_i hc
        simp at h3
        obtain ⟨h31, h32⟩ := h3
        subst h31; subst h32
        simp only [Bool.and_eq_true] at hc
        constructor
        · intro hy; simp [hy] at hc
        · intro α hv hα
          have := s1.2 α (fun v h => hv v (by simp [Cond.vars, h])) hα
          refine ⟨this.1, ?_⟩
          simp [denote, this.2, hc.2]
      · rename_i hc
        have s2 := sr p.1 β' f ywf h3
        constructor
        · exact s2.1
        · intro α hv hα
          have h2 := s2.2 α (fun v h => hv v (by simp [Cond.vars, h])) hα
          have h1 := s1.2 α (fun v h => hv v (by simp [Cond.vars, h])) h2.1
          refine ⟨h1.1, ?_⟩
          -- the left output was true here
          have hp2 : p.2 = false := by
            cases hy : ywf
            · exact s1.1 hy
            · simp [hy] at hc; exact hc
          simp [denote, h1.2, h2.2, hp2]
    · intro β α ywf hα hv hy
      have hvl : ∀ v ∈ l.vars, α v ∈ D v := fun v h => hv v (by simp [Cond.vars, h])
      have hvr : ∀ v ∈ r.vars, α v ∈ D v := fun v h => hv v (by simp [Cond.vars, h])
      simp only [evalCond, List.mem_flatMap]
      rcases hy with hy | hy
      · -- false results requested
        subst hy
        obtain ⟨p, hp, e⟩ := cl β α true hα hvl (Or.inl rfl)
        cases hp2 : p.2
        · obtain ⟨q, hq, e2⟩ := cr p.1 α true e hvr (Or.inl rfl)
          exact ⟨q, ⟨p, hp, by simp [hp2]; exact hq⟩, e2⟩
        · exact ⟨(p.1, true), ⟨p, hp, by simp [hp2]⟩, e⟩
      · simp only [denote, Bool.and_eq_true] at hy
        obtain ⟨p, hp, e⟩ := cl β α ywf hα hvl (Or.inr hy.1)
        have s1 := (sl β p.1 p.2 ywf hp).2 α hvl e
        have hp2 : p.2 = false := by
          have := s1.2; rw [hy.1] at this; cases h : p.2 <;> simp [h] at this ⊢
        obtain ⟨q, hq, e2⟩ := cr p.1 α ywf e hvr (Or.inr hy.2)
        exact ⟨q, ⟨p, hp, by simp [hp2]; exact hq⟩, e2⟩
  | elseIf l r ihl ihr =>
    intro hf
    simp only [Cond.noFlat, Bool.and_eq_true] at hf
    obtain ⟨sl, cl⟩ := ihl hf.1
    obtain ⟨sr, cr⟩ := ihr hf.2
    constructor
    · intro β β' f ywf h
      simp only [evalCond] at h
      split at h
      · -- the left branch produced nothing at all
        rename_i hemp
        have s2 := sr β β' f ywf h
        constructor
        · exact s2.1
        · intro α hv hα
          have hvl : ∀ v ∈ l.vars, α v ∈ D v := fun v h => hv v (by simp [Cond.vars, h])
          have h2 := s2.2 α (fun v h => hv v (by simp [Cond.vars, h])) hα
          obtain ⟨p, hp, _⟩ := cl β α true h2.1 hvl (Or.inl rfl)
          simp [List.isEmpty_iff] at hemp
          rw [hemp] at hp; cases hp
      · simp only [List.mem_flatMap] at h
        obtain ⟨p, hp, h3⟩ := h
        have s1 := sl β p.1 p.2 true hp
        split at h3
        · rename_i hc
          have s2 := sr p.1 β' f ywf h3
          constructor
          · exact s2.1
          · intro α hv hα
            have h2 := s2.2 α (fun v h => hv v (by simp [Cond.vars, h])) hα
            have h1 := s1.2 α (fun v h => hv v (by simp [Cond.vars, h])) h2.1
            refine ⟨h1.1, ?_⟩
            simp [denote, h1.2, h2.2, hc]
        · rename_i hc
          simp at h3
          obtain ⟨h31, h32⟩ := h3
          subst h31; subst h32
          constructor
          · intro _; rfl
          · intro α hv hα
            have h1 := s1.2 α (fun v h => hv v (by simp [Cond.vars, h])) hα
            refine ⟨h1.1, ?_⟩
            have : p.2 = false := by simpa using hc
            simp [denote, h1.2, this]
    · intro β α ywf hα hv hy
      have hvl : ∀ v ∈ l.vars, α v ∈ D v := fun v h => hv v (by simp [Cond.vars, h])
      have hvr : ∀ v ∈ r.vars, α v ∈ D v := fun v h => hv v (by simp [Cond.vars, h])
      obtain ⟨p, hp, e⟩ := cl β α true hα hvl (Or.inl rfl)
      have s1 := (sl β p.1 p.2 true hp).2 α hvl e
      simp only [evalCond]
      have hne : (evalCond W D l β true).isEmpty = false := by
        cases h : evalCond W D l β true with
        | nil => rw [h] at hp; cases hp
        | cons _ _ => rfl
      simp only [hne, Bool.false_eq_true, if_false, List.mem_flatMap]
      cases hp2 : p.2
      · exact ⟨(p.1, false), ⟨p, hp, by simp [hp2]⟩, e⟩
      · have hl : denote W α l = false := by rw [s1.2, hp2]; rfl
        have hy' : ywf = true ∨ denote W α r = true := by
          rcases hy with hy | hy
          · exact Or.inl hy
          · simp [denote, hl] at hy; exact Or.inr hy
        obtain ⟨q, hq, e2⟩ := cr p.1 α ywf e hvr hy'
        exact ⟨q, ⟨p, hp, by simp [hp2]; exact hq⟩, e2⟩
  | sub sel c ih =>
    intro hf
    simp only [Cond.noFlat, Bool.and_eq_true] at hf
    obtain ⟨sc, cc⟩ := ih hf.1
    constructor
    · intro β β' f ywf h
      simp only [evalCond, List.mem_flatMap, List.mem_map] at h
      obtain ⟨p, hp, q, hq, he⟩ := h
      cases he
      have s1 := sc β p.1 p.2 ywf hp
      constructor
      · exact s1.1
      · intro α hv hα
        have h2 := args_sound W D sel hf.2 p.1 q.1 q.2 hq α hα
        have h1 := s1.2 α (fun v h => hv v (by simp [Cond.vars, h])) h2.1
        exact ⟨h1.1, by simpa [denote] using h1.2⟩
    · intro β α ywf hα hv hy
      obtain ⟨p, hp, e⟩ := cc β α ywf hα (fun v h => hv v (by simp [Cond.vars, h]))
        (by simpa [denote] using hy)
      obtain ⟨q, hq, e2⟩ := args_complete W D sel hf.2 p.1 α e
        (fun v h => hv v (by simp [Cond.vars, h]))
      refine ⟨(q.1, p.2), ?_, e2⟩
      simp only [evalCond, List.mem_flatMap, List.mem_map]
      exact ⟨p, hp, q, hq, rfl⟩

end Eql
