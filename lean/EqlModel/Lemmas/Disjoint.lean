/-
  Helper lemmas: the outputs of an evaluation are pairwise incompatible (no assignment extends
  two of them) when the domains list distinct objects — the reason a disjunction emits each row
  once and a fully selected query returns no row twice.
-/
import EqlModel.Lemmas.Support

namespace Eql
variable {V : Type}

/-- Two outputs are incompatible: no total assignment extends both bindings. -/
def Inc {γ : Type} (p q : Bnd V × γ) : Prop := ∀ α, Ext p.1 α → Ext q.1 α → False

theorem inc_mono {γ δ : Type} {p q : Bnd V × γ} {x y : Bnd V × δ}
    (h : Inc p q) (hx : ∀ α, Ext x.1 α → Ext p.1 α) (hy : ∀ α, Ext y.1 α → Ext q.1 α) : Inc x y :=
  fun α ex ey => h α (hx α ex) (hy α ey)

variable (W : World V) (D : VarId → List V)

theorem term_pairwise (hD : ∀ v, (D v).Nodup) : ∀ (t : Term V), t.noFlat = true → ∀ (β : Bnd V),
    (evalTerm W D t β).Pairwise Inc := by
  intro t
  induction t with
  | var v =>
    intro _ β
    simp only [evalTerm]
    cases hl : β.lookup v with
    | some b => exact List.pairwise_singleton _ _
    | none =>
      rw [List.pairwise_map]
      refine List.Pairwise.imp ?_ (List.nodup_iff_pairwise_ne.1 (hD v))
      intro a b hab α ea eb
      have h1 := ea v a (lookup_cons_self β v a)
      have h2 := eb v b (lookup_cons_self β v b)
      exact hab (h1.symm.trans h2)
  | lit c => intro _ β; simp only [evalTerm]; exact List.pairwise_singleton _ _
  | attr n t ih =>
    intro hf β
    simp only [evalTerm, List.pairwise_map]
    exact List.Pairwise.imp (fun h => h) (ih hf β)
  | index k t ih =>
    intro hf β
    simp only [evalTerm, List.pairwise_map]
    exact List.Pairwise.imp (fun h => h) (ih hf β)
  | call m args t ih =>
    intro hf β
    simp only [evalTerm, List.pairwise_map]
    exact List.Pairwise.imp (fun h => h) (ih hf β)
  | flatten id t _ => intro hf; simp [Term.noFlat] at hf
  | concat id t _ => intro hf; simp [Term.noFlat] at hf

theorem args_pairwise (hD : ∀ v, (D v).Nodup) : ∀ (ts : List (Term V)), Terms.noFlat ts = true →
    ∀ (β : Bnd V), (evalArgs W D ts β).Pairwise Inc := by
  intro ts
  induction ts with
  | nil => intro _ β; simp only [evalArgs]; exact List.pairwise_singleton _ _
  | cons t ts ih =>
    intro hf β
    simp only [Terms.noFlat, Bool.and_eq_true] at hf
    simp only [evalArgs, List.pairwise_flatMap]
    constructor
    · intro p _
      rw [List.pairwise_map]
      exact List.Pairwise.imp (fun h => h) (ih hf.2 p.1)
    · refine List.Pairwise.imp_of_mem ?_ (term_pairwise W D hD t hf.1 β)
      intro p p' _ _ hinc x hx y hy
      simp only [List.mem_map] at hx hy
      obtain ⟨q, hq, rfl⟩ := hx
      obtain ⟨q', hq', rfl⟩ := hy
      exact inc_mono hinc
        (fun α e => (args_sound W D ts hf.2 p.1 q.1 q.2 hq α e).1)
        (fun α e => (args_sound W D ts hf.2 p'.1 q'.1 q'.2 hq' α e).1)

private theorem pairwise_ite_single {γ : Type} (R : γ → γ → Prop) (b : Bool) (x : γ) :
    (if b = true then [x] else []).Pairwise R := by
  cases b <;> simp

theorem cond_pairwise (hD : ∀ v, (D v).Nodup) : ∀ (c : Cond V), c.noFlat = true →
    ∀ (β : Bnd V) (ywf : Bool), (evalCond W D c β ywf).Pairwise Inc := by
  intro c
  induction c with
  | cmp op l r =>
    intro hf β ywf
    simp only [Cond.noFlat, Bool.and_eq_true] at hf
    simp only [evalCond]
    split
    · rw [List.pairwise_flatMap]
      constructor
      · intro p1 _
        rw [List.pairwise_flatMap]
        constructor
        · intro p2 _; exact pairwise_ite_single _ _ _
        · refine List.Pairwise.imp_of_mem ?_ (term_pairwise W D hD l hf.1 p1.1)
          intro p2 p2' _ _ hinc x hx y hy
          split at hx <;> simp at hx
          split at hy <;> simp at hy
          subst hx; subst hy
          exact hinc
      · refine List.Pairwise.imp_of_mem ?_ (term_pairwise W D hD r hf.2 β)
        intro p1 p1' _ _ hinc x hx y hy
        simp only [List.mem_flatMap] at hx hy
        obtain ⟨p2, hp2, hx⟩ := hx
        obtain ⟨p2', hp2', hy⟩ := hy
        split at hx <;> simp at hx
        split at hy <;> simp at hy
        subst hx; subst hy
        exact inc_mono hinc
          (fun α e => (term_sound W D l hf.1 p1.1 p2.1 p2.2 hp2 α e).1)
          (fun α e => (term_sound W D l hf.1 p1'.1 p2'.1 p2'.2 hp2' α e).1)
    · rw [List.pairwise_flatMap]
      constructor
      · intro p1 _
        rw [List.pairwise_flatMap]
        constructor
        · intro p2 _; exact pairwise_ite_single _ _ _
        · refine List.Pairwise.imp_of_mem ?_ (term_pairwise W D hD r hf.2 p1.1)
          intro p2 p2' _ _ hinc x hx y hy
          split at hx <;> simp at hx
          split at hy <;> simp at hy
          subst hx; subst hy
          exact hinc
      · refine List.Pairwise.imp_of_mem ?_ (term_pairwise W D hD l hf.1 β)
        intro p1 p1' _ _ hinc x hx y hy
        simp only [List.mem_flatMap] at hx hy
        obtain ⟨p2, hp2, hx⟩ := hx
        obtain ⟨p2', hp2', hy⟩ := hy
        split at hx <;> simp at hx
        split at hy <;> simp at hy
        subst hx; subst hy
        exact inc_mono hinc
          (fun α e => (term_sound W D r hf.2 p1.1 p2.1 p2.2 hp2 α e).1)
          (fun α e => (term_sound W D r hf.2 p1'.1 p2'.1 p2'.2 hp2' α e).1)
  | truth inv t =>
    intro hf β ywf
    simp only [Cond.noFlat] at hf
    simp only [evalCond, List.pairwise_flatMap]
    constructor
    · intro p _; exact pairwise_ite_single _ _ _
    · refine List.Pairwise.imp_of_mem ?_ (term_pairwise W D hD t hf β)
      intro p p' _ _ hinc x hx y hy
      split at hx <;> simp at hx
      split at hy <;> simp at hy
      subst hx; subst hy
      exact hinc
  | pred inv n args =>
    intro hf β ywf
    simp only [Cond.noFlat] at hf
    simp only [evalCond, List.pairwise_flatMap]
    constructor
    · intro p _; exact pairwise_ite_single _ _ _
    · refine List.Pairwise.imp_of_mem ?_ (args_pairwise W D hD args hf β)
      intro p p' _ _ hinc x hx y hy
      split at hx <;> simp at hx
      split at hy <;> simp at hy
      subst hx; subst hy
      exact hinc
  | and l r ihl ihr =>
    intro hf β ywf
    simp only [Cond.noFlat, Bool.and_eq_true] at hf
    simp only [evalCond, List.pairwise_flatMap]
    constructor
    · intro p _
      split
      · exact List.pairwise_singleton _ _
      · exact ihr hf.2 p.1 ywf
    · refine List.Pairwise.imp_of_mem ?_ (ihl hf.1 β ywf)
      intro p p' _ _ hinc x hx y hy
      have ex : ∀ α, Ext x.1 α → Ext p.1 α := by
        intro α e
        split at hx
        · simp at hx; subst hx; exact e
        · exact cond_ext W D r hf.2 p.1 x.1 x.2 ywf hx α e
      have ey : ∀ α, Ext y.1 α → Ext p'.1 α := by
        intro α e
        split at hy
        · simp at hy; subst hy; exact e
        · exact cond_ext W D r hf.2 p'.1 y.1 y.2 ywf hy α e
      exact inc_mono hinc ex ey
  | elseIf l r ihl ihr =>
    intro hf β ywf
    simp only [Cond.noFlat, Bool.and_eq_true] at hf
    simp only [evalCond]
    split
    · exact ihr hf.2 β ywf
    · rw [List.pairwise_flatMap]
      constructor
      · intro p _
        split
        · exact ihr hf.2 p.1 ywf
        · exact List.pairwise_singleton _ _
      · refine List.Pairwise.imp_of_mem ?_ (ihl hf.1 β true)
        intro p p' _ _ hinc x hx y hy
        have ex : ∀ α, Ext x.1 α → Ext p.1 α := by
          intro α e
          split at hx
          · exact cond_ext W D r hf.2 p.1 x.1 x.2 ywf hx α e
          · simp at hx; subst hx; exact e
        have ey : ∀ α, Ext y.1 α → Ext p'.1 α := by
          intro α e
          split at hy
          · exact cond_ext W D r hf.2 p'.1 y.1 y.2 ywf hy α e
          · simp at hy; subst hy; exact e
        exact inc_mono hinc ex ey
  | sub sel c ih =>
    intro hf β ywf
    simp only [Cond.noFlat, Bool.and_eq_true] at hf
    simp only [evalCond, List.pairwise_flatMap]
    constructor
    · intro p _
      rw [List.pairwise_map]
      exact List.Pairwise.imp (fun h => h) (args_pairwise W D hD sel hf.2 p.1)
    · refine List.Pairwise.imp_of_mem ?_ (ih hf.1 β ywf)
      intro p p' _ _ hinc x hx y hy
      simp only [List.mem_map] at hx hy
      obtain ⟨q, hq, rfl⟩ := hx
      obtain ⟨q', hq', rfl⟩ := hy
      exact inc_mono hinc
        (fun α e => (args_sound W D sel hf.2 p.1 q.1 q.2 hq α e).1)
        (fun α e => (args_sound W D sel hf.2 p'.1 q'.1 q'.2 hq' α e).1)

end Eql
