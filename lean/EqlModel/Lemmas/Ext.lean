/-
  Helper lemmas about bindings (`Bnd`), `Ext` and lookups.  Free to change; property theorems
  live in EqlModel/Props.
-/
import EqlModel.Basic

namespace Eql
variable {V : Type}

theorem ext_nil (α : Asg V) : Ext ([] : Bnd V) α := by
  intro v a h; simp [List.lookup] at h

theorem lookup_cons_self (β : Bnd V) (v : VarId) (o : V) :
    List.lookup v ((v, o) :: β) = some o := by
  simp [List.lookup]

theorem lookup_cons_ne (β : Bnd V) {v w : VarId} (o : V) (h : w ≠ v) :
    List.lookup w ((v, o) :: β) = List.lookup w β := by
  have : (w == v) = false := by simp [h]
  simp [List.lookup, this]

/-- Consing a fresh variable: `α` extends the new binding iff it maps the variable to the value
    and extends the old binding. -/
theorem ext_cons_fresh {β : Bnd V} {v : VarId} {o : V} {α : Asg V}
    (hfresh : β.lookup v = none) :
    Ext ((v, o) :: β) α ↔ (α v = o ∧ Ext β α) := by
  constructor
  · intro h
    refine ⟨h v o (lookup_cons_self β v o), ?_⟩
    intro w a hw
    have hne : w ≠ v := by
      intro e; subst e; rw [hfresh] at hw; cases hw
    exact h w a (by rw [lookup_cons_ne β o hne]; exact hw)
  · rintro ⟨hv, hβ⟩ w a hw
    by_cases e : w = v
    · subst e; rw [lookup_cons_self] at hw; cases hw; exact hv
    · rw [lookup_cons_ne β o e] at hw; exact hβ w a hw

theorem bound_iff {β : Bnd V} {v : VarId} : bound β v = true ↔ ∃ a, β.lookup v = some a := by
  unfold bound
  cases h : β.lookup v <;> simp

/-- The assignment that sends every variable to `o`. -/
def constAsg (o : V) : Asg V := fun _ => o

end Eql
