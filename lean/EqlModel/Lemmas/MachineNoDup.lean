/-
  L2, part 3: with the result cache disabled and every bound variable among the required ones, the
  stateful evaluator never drops an output as a duplicate: it yields exactly the outputs of the L1
  evaluation, in order, provided every duplicate constraint stored in the sub-tree it works on clashes
  with its input binding (true of the fresh state, and preserved from one sibling input to the next
  because the outputs of the L1 evaluation pairwise clash).
-/
import EqlModel.Lemmas.MachineState
import EqlModel.Lemmas.MachineConj

namespace Eql.Machine
open Eql
variable {V : Type} [BEq V]
variable (W : World V) (D : VarId → List V) (P : Params V)

theorem clash_symm {key : V → Nat} {β β' : Bnd V} (h : Clash key β β') : Clash key β' β := by
  obtain ⟨v, a, b, h1, h2, h3⟩ := h
  exact ⟨v, b, a, h2, h1, fun e => h3 e.symm⟩

/-- The key recorded for an output clashes with every binding the output clashes with (all of the
    output's variables being among the required ones). -/
theorem clashC_of_clash (required : List VarId) (out β₂ : Bnd V)
    (hreq : ∀ v a, out.lookup v = some a → v ∈ required) (h : Clash P.toKey out β₂) :
    ClashC P (toAsg P required out) β₂ := by
  obtain ⟨v, a, b, h1, h2, h3⟩ := h
  refine ⟨v, b, P.toKey a, h2, ?_, h3⟩
  simp only [toAsg, List.mem_filterMap]
  exact ⟨v, by simpa [List.mem_eraseDups] using hreq v a h1, by simp [h1]⟩

/-- Every variable of `AV` is required, whatever the truth value asked for. -/
def ReqSup (AV : List VarId) (req : ReqFn) : Prop := ∀ wt v, v ∈ AV → v ∈ req wt

/-- The binding binds variables of `AV` only. -/
def BIn (AV : List VarId) (β : Bnd V) : Prop := ∀ v a, β.lookup v = some a → v ∈ AV

/-- The generic loop: inputs that pairwise clash are processed one after the other; each step appends
    its outputs, stays inside the region, and keeps the region fine for whatever clashes with its
    input. -/
theorem fold_good (R : Path → Prop) (g : Bnd V × Bool → List (Bnd V × Bool))
    (step : List (Bnd V × Bool) × St → Bnd V × Bool → List (Bnd V × Bool) × St) :
    ∀ (xs : List (Bnd V × Bool)), xs.Pairwise (fun a b => Clash P.toKey a.1 b.1) →
    (∀ acc x, x ∈ xs → InvOn P acc.2 R x.1 →
        (step acc x).1 = acc.1 ++ g x ∧ FrameOn acc.2 (step acc x).2 R ∧
        ∀ β₂, InvOn P acc.2 R β₂ → Clash P.toKey x.1 β₂ → InvOn P (step acc x).2 R β₂) →
    ∀ acc, (∀ x ∈ xs, InvOn P acc.2 R x.1) →
      (xs.foldl step acc).1 = acc.1 ++ xs.flatMap g ∧ FrameOn acc.2 (xs.foldl step acc).2 R ∧
      ∀ β₂, InvOn P acc.2 R β₂ → (∀ x ∈ xs, Clash P.toKey x.1 β₂) → InvOn P (xs.foldl step acc).2 R β₂ := by
  intro xs
  induction xs with
  | nil => intro _ _ acc _; exact ⟨by simp, frameOn_refl _ _, fun β₂ h _ => h⟩
  | cons x xs ih =>
    intro hp hstep acc hacc
    rw [List.pairwise_cons] at hp
    obtain ⟨h1, h2, h3⟩ := hstep acc x List.mem_cons_self (hacc x List.mem_cons_self)
    have hacc' : ∀ y ∈ xs, InvOn P (step acc x).2 R y.1 :=
      fun y hy => h3 y.1 (hacc y (List.mem_cons_of_mem _ hy)) (hp.1 y hy)
    obtain ⟨i1, i2, i3⟩ := ih hp.2 (fun acc' y hy => hstep acc' y (List.mem_cons_of_mem _ hy)) (step acc x) hacc'
    refine ⟨?_, frameOn_trans h2 i2, ?_⟩
    · simp only [List.foldl_cons, List.flatMap_cons]
      rw [i1, h1, List.append_assoc]
    · intro β₂ hb hall
      simp only [List.foldl_cons]
      exact i3 β₂ (h3 β₂ hb (hall x List.mem_cons_self)) (fun y hy => hall y (List.mem_cons_of_mem _ hy))

/-- What an evaluation step has to deliver: the L1 outputs, a change confined to the sub-tree of `ρ`,
    and a sub-tree that stays fine for every binding that clashes with the input. -/
def EvalOk (ev : St → List (Bnd V × Bool) × St) (outs : List (Bnd V × Bool)) (ρ : Path) (β : Bnd V) : Prop :=
  ∀ st, InvOn P st (InSub ρ) β →
    (ev st).1 = outs ∧ FrameOn st (ev st).2 (InSub ρ) ∧
    ∀ β₂, InvOn P st (InSub ρ) β₂ → Clash P.toKey β β₂ → InvOn P (ev st).2 (InSub ρ) β₂

/-- The part of the state an AND / ElseIf node's loop works on: the node itself and the sub-tree of
    its right operand. -/
def RegR (π : Path) : Path → Prop := fun π' => π' = π ∨ InSub (1 :: π) π'

theorem regR_sub (π : Path) : ∀ π', RegR π π' → InSub π π' := by
  intro π' h
  rcases h with h | h
  · subst h; exact inSub_refl _
  · exact inSub_child h

theorem andStep_ok (AV : List VarId) (hinj : Function.Injective P.rank) (π : Path) (req : ReqFn) (ywf : Bool)
    (rvars : List VarId) (evalR : Bnd V → St → List (Bnd V × Bool) × St) (gR : Bnd V → List (Bnd V × Bool))
    (hreq : ReqSup AV req) (hR : ∀ b, BIn AV b → EvalOk P (evalR b) (gR b) (1 :: π) b)
    (acc : List (Bnd V × Bool) × St) (lv : Bnd V × Bool) (hb : BIn AV lv.1) (hinv : InvOn P acc.2 (RegR π) lv.1) :
    (andStep P false π req ywf rvars evalR acc lv).1 =
        acc.1 ++ (if (ywf && lv.2) = true then [(lv.1, true)] else gR lv.1) ∧
    FrameOn acc.2 (andStep P false π req ywf rvars evalR acc lv).2 (RegR π) ∧
    ∀ β₂, InvOn P acc.2 (RegR π) β₂ → Clash P.toKey lv.1 β₂ →
      InvOn P (andStep P false π req ywf rvars evalR acc lv).2 (RegR π) β₂ := by
  have hπ : RegR π π := Or.inl rfl
  by_cases hy : (ywf && lv.2) = true
  · -- a false left value is forwarded: never a duplicate
    have hn : NodeOk P { getNode acc.2 π with rcache := mkCache P rvars (getNode acc.2 π).rcache } lv.1 :=
      nodeOk_congr P rfl rfl (hinv π hπ)
    obtain ⟨d1, _, _, d4⟩ := isDup_fresh P hinj req true lv.1 _ hn
    simp only [andStep, hy, if_true, d1, Bool.false_eq_true, if_false]
    refine ⟨trivial, frameOn_setNode _ _ _ _ hπ, ?_⟩
    intro β₂ hb2 hc2
    apply invOn_setNode P π _ hb2
    apply d4 β₂ (nodeOk_congr P rfl rfl (hb2 π hπ))
    intro _
    exact clashC_of_clash P _ lv.1 β₂ (fun v a h => hreq _ v (hb v a h)) hc2
  · have hy' : (ywf && lv.2) = false := by simpa using hy
    have hn1 : ∀ b, NodeOk P (getNode acc.2 π) b →
        NodeOk P { getNode acc.2 π with rcache := mkCache P rvars (getNode acc.2 π).rcache } b :=
      fun b h => nodeOk_congr P rfl rfl h
    have hst1 : InvOn P (setNode acc.2 π
        { getNode acc.2 π with rcache := mkCache P rvars (getNode acc.2 π).rcache }) (InSub (1 :: π)) lv.1 :=
      invOn_setNode P π _ (invOn_sub P hinv (fun π' h => Or.inr h)) (hn1 _ (hinv π hπ))
    obtain ⟨r1, r2, r3⟩ := hR lv.1 hb _ hst1
    have hπ1 : ¬ InSub (1 :: π) π := not_inSub_child_self 1 π
    simp only [andStep, hy', Bool.false_eq_true, if_false]
    refine ⟨by rw [r1], ?_, ?_⟩
    · refine frameOn_trans (frameOn_setNode _ _ _ _ hπ) (frameOn_trans (frameOn_sub r2 (fun π' h => Or.inr h)) ?_)
      exact frameOn_setNode _ _ _ _ hπ
    · intro β₂ hb2 hc2
      have h2 : InvOn P (setNode acc.2 π
          { getNode acc.2 π with rcache := mkCache P rvars (getNode acc.2 π).rcache }) (InSub (1 :: π)) β₂ :=
        invOn_setNode P π _ (invOn_sub P hb2 (fun π' h => Or.inr h)) (hn1 _ (hb2 π hπ))
      have h3 := r3 β₂ h2 hc2
      apply invOn_setNode' P π
      · intro π' hπ' hne
        rcases hπ' with e | e
        · exact absurd e hne
        · exact h3 π' e
      · rw [r2 π hπ1, getNode_setNode_self]
        exact nodeOk_congr P rfl rfl (hb2 π hπ)

/-- The node itself. -/
def RegN (π : Path) : Path → Prop := fun π' => π' = π

theorem orInner_ok (AV : List VarId) (hinj : Function.Injective P.rank) (π : Path) (req : ReqFn) (ywf : Bool)
    (rvars : List VarId) (hreq : ReqSup AV req)
    (a2 : List (Bnd V × Bool) × St) (rv : Bnd V × Bool) (hb : BIn AV rv.1)
    (hsound : (rv.2 && !ywf) = false) (hinv : InvOn P a2.2 (RegN π) rv.1) :
    (orInner P false π req ywf rvars a2 rv).1 = a2.1 ++ [rv] ∧
    FrameOn a2.2 (orInner P false π req ywf rvars a2 rv).2 (RegN π) ∧
    ∀ β₂, InvOn P a2.2 (RegN π) β₂ → Clash P.toKey rv.1 β₂ →
      InvOn P (orInner P false π req ywf rvars a2 rv).2 (RegN π) β₂ := by
  have hπ : RegN π π := rfl
  rcases Bool.eq_false_or_eq_true rv.2 with hrv | hrv
  · -- a false right output (only when yield_when_false): kept as it is
    rw [hrv] at hsound
    simp only [orInner, hrv, hsound, Bool.false_eq_true, if_false, Bool.not_true]
    refine ⟨trivial, frameOn_setNode _ _ _ _ hπ, ?_⟩
    intro β₂ hb2 _
    exact invOn_setNode P π _ hb2 (nodeOk_congr P rfl rfl (hb2 π hπ))
  · -- a true right output: passes the duplicate check
    obtain ⟨d1, _, _, d4⟩ := isDup_fresh P hinj req false rv.1 _ (hinv π hπ)
    simp only [orInner, hrv, Bool.false_and, Bool.false_eq_true, if_false, Bool.not_false, if_true, d1]
    refine ⟨trivial, frameOn_setNode _ _ _ _ hπ, ?_⟩
    intro β₂ hb2 hc2
    apply invOn_setNode P π _ hb2
    apply nodeOk_congr P rfl rfl
    apply d4 β₂ (hb2 π hπ)
    intro _
    exact clashC_of_clash P _ rv.1 β₂ (fun v a h => hreq _ v (hb v a h)) hc2

theorem orStep_ok (AV : List VarId) (hinj : Function.Injective P.rank) (π : Path) (req : ReqFn) (ywf : Bool)
    (rvars : List VarId) (evalR : Bnd V → St → List (Bnd V × Bool) × St) (gR : Bnd V → List (Bnd V × Bool))
    (hreq : ReqSup AV req) (hR : ∀ b, BIn AV b → EvalOk P (evalR b) (gR b) (1 :: π) b)
    (hgR : ∀ b, BIn AV b → (∀ y ∈ gR b, Sub b y.1 ∧ BIn AV y.1 ∧ (y.2 && !ywf) = false) ∧
        (gR b).Pairwise (fun a c => Clash P.toKey a.1 c.1))
    (acc : List (Bnd V × Bool) × St) (lv : Bnd V × Bool) (hb : BIn AV lv.1) (hinv : InvOn P acc.2 (RegR π) lv.1) :
    (orStep P false π req ywf rvars evalR acc lv).1 =
        acc.1 ++ (if lv.2 = true then gR lv.1 else [(lv.1, false)]) ∧
    FrameOn acc.2 (orStep P false π req ywf rvars evalR acc lv).2 (RegR π) ∧
    ∀ β₂, InvOn P acc.2 (RegR π) β₂ → Clash P.toKey lv.1 β₂ →
      InvOn P (orStep P false π req ywf rvars evalR acc lv).2 (RegR π) β₂ := by
  have hπ : RegR π π := Or.inl rfl
  rcases Bool.eq_false_or_eq_true lv.2 with hl | hl
  · -- the left operand was false: the right operand decides
    have hn1 : ∀ b, NodeOk P (getNode acc.2 π) b →
        NodeOk P { getNode acc.2 π with rcache := mkCache P rvars (getNode acc.2 π).rcache } b :=
      fun b h => nodeOk_congr P rfl rfl h
    have hst1 : InvOn P (setNode acc.2 π
        { getNode acc.2 π with rcache := mkCache P rvars (getNode acc.2 π).rcache }) (InSub (1 :: π)) lv.1 :=
      invOn_setNode P π _ (invOn_sub P hinv (fun π' h => Or.inr h)) (hn1 _ (hinv π hπ))
    obtain ⟨r1, r2, r3⟩ := hR lv.1 hb _ hst1
    obtain ⟨gy, gp⟩ := hgR lv.1 hb
    have hπ1 : ¬ InSub (1 :: π) π := not_inSub_child_self 1 π
    -- the node itself after the right operand ran: still the node of `acc`
    have hnode : ∀ b, NodeOk P (getNode acc.2 π) b →
        InvOn P (evalR lv.1 (setNode acc.2 π
          { getNode acc.2 π with rcache := mkCache P rvars (getNode acc.2 π).rcache })).2 (RegN π) b := by
      intro b h π' e
      subst e
      rw [r2 π' hπ1, getNode_setNode_self]
      exact hn1 b h
    obtain ⟨f1, f2, f3⟩ := fold_good P (RegN π) (fun rv => [rv]) (orInner P false π req ywf rvars) (gR lv.1) gp
      (fun a2 y hy hi => orInner_ok P AV hinj π req ywf rvars hreq a2 y (gy y hy).2.1 (gy y hy).2.2 hi)
      (acc.1, (evalR lv.1 (setNode acc.2 π
          { getNode acc.2 π with rcache := mkCache P rvars (getNode acc.2 π).rcache })).2)
      (fun y hy => invOn_mono P (hnode lv.1 (hinv π hπ)) (gy y hy).1)
    simp only [orStep, hl, if_true, Bool.false_eq_true, if_false, r1]
    refine ⟨?_, ?_, ?_⟩
    · rw [f1]; simp
    · refine frameOn_trans (frameOn_setNode _ _ _ _ hπ) (frameOn_trans (frameOn_sub r2 (fun π' h => Or.inr h)) ?_)
      exact frameOn_sub f2 (fun π' h => Or.inl h)
    · intro β₂ hb2 hc2
      have h2 : InvOn P (setNode acc.2 π
          { getNode acc.2 π with rcache := mkCache P rvars (getNode acc.2 π).rcache }) (InSub (1 :: π)) β₂ :=
        invOn_setNode P π _ (invOn_sub P hb2 (fun π' h => Or.inr h)) (hn1 _ (hb2 π hπ))
      have h3 := r3 β₂ h2 hc2
      have h4 := f3 β₂ (hnode β₂ (hb2 π hπ)) (fun y hy => clash_mono P.toKey hc2 (gy y hy).1 (sub_refl β₂))
      intro π' hπ'
      rcases hπ' with e | e
      · exact h4 π' e
      · have hne : ¬ RegN π π' := by
          intro e2; rw [e2] at e; exact hπ1 e
        rw [f2 π' hne]; exact h3 π' e
  · -- the left operand was true: its output is the output
    simp only [orStep, hl, Bool.false_eq_true, if_false]
    exact ⟨trivial, frameOn_refl _ _, fun β₂ h _ => h⟩

theorem evalM_off_ok (AV : List VarId) (hinj : Function.Injective P.rank) (hD : KeysNodup P.toKey D) :
    ∀ (c : Cond V), c.noFlat = true → (∀ v ∈ c.vars, v ∈ AV) →
    ∀ (π : Path) (req : ReqFn) (β : Bnd V) (ywf : Bool), ReqSup AV req → BIn AV β →
      EvalOk P (fun st => evalM W D P false c π req β ywf st) (evalCond W D c β ywf) π β := by
  intro c
  induction c with
  | cmp op l r =>
    intro _ _ π req β ywf _ _ st hst
    simp only [evalM, Bool.false_eq_true, if_false]
    refine ⟨trivial, frameOn_setNode _ _ _ _ (inSub_refl π), ?_⟩
    intro β₂ h2 _
    exact invOn_setNode P π _ h2 (nodeOk_congr P rfl rfl (h2 π (inSub_refl π)))
  | truth inv t =>
    intro _ _ π req β ywf _ _ st hst
    simp only [evalM]
    exact ⟨trivial, frameOn_refl _ _, fun β₂ h2 _ => h2⟩
  | pred inv n args =>
    intro _ _ π req β ywf _ _ st hst
    simp only [evalM]
    exact ⟨trivial, frameOn_refl _ _, fun β₂ h2 _ => h2⟩
  | and l r ihl ihr =>
    intro hf hv π req β ywf hreq hb st hst
    simp only [Cond.noFlat, Bool.and_eq_true] at hf
    have hvl : ∀ v ∈ l.vars, v ∈ AV := by intro v hvv; apply hv; simp [Cond.vars, hvv]
    have hvr : ∀ v ∈ r.vars, v ∈ AV := by intro v hvv; apply hv; simp [Cond.vars, hvv]
    have hreql : ReqSup AV (reqLeftOfAnd r.vars req) := by
      intro wt v hvv
      have := hreq wt v hvv
      unfold reqLeftOfAnd
      split
      · simp only [List.mem_append]; exact Or.inl (Or.inr this)
      · exact List.mem_append.2 (Or.inr this)
    obtain ⟨l1, l2, l3⟩ := ihl hf.1 hvl (0 :: π) _ β ywf hreql hb st (invOn_sub P hst (fun π' h => inSub_child h))
    simp only at l1 l2 l3
    have hreqR : ReqSup AV (reqRightOfAnd req) := hreq
    have hR : ∀ b, BIn AV b → EvalOk P (fun s => evalM W D P false r (1 :: π) (reqRightOfAnd req) b ywf s)
        (evalCond W D r b ywf) (1 :: π) b := fun b hbb => ihr hf.2 hvr (1 :: π) _ b ywf hreqR hbb
    -- facts about the left outputs
    have hxs : ∀ x ∈ evalCond W D l β ywf, Sub β x.1 ∧ BIn AV x.1 := by
      intro x hx
      refine ⟨cond_sub W D l hf.1 β x.1 x.2 ywf hx, ?_⟩
      intro v a hva
      rcases (cond_supp W D l hf.1 β x.1 x.2 ywf hx).1 v (bound_iff.2 ⟨a, hva⟩) with h | h
      · obtain ⟨a', ha'⟩ := bound_iff.1 h; exact hb v a' ha'
      · exact hvl v h
    have hpair := cond_pairwise_clash P.toKey W D hD l hf.1 β ywf
    have hdisj : ∀ π', RegR π π' → ¬ InSub (0 :: π) π' := by
      intro π' h hc
      rcases h with h | h
      · subst h; exact not_inSub_child_self 0 _ hc
      · exact inSub_children_disjoint (by decide) hc h
    have hinit : ∀ b, InvOn P st (InSub π) b →
        InvOn P (evalM W D P false l (0 :: π) (reqLeftOfAnd r.vars req) β ywf st).2 (RegR π) b :=
      fun b h => invOn_frame P (invOn_sub P h (regR_sub π)) l2 hdisj
    obtain ⟨f1, f2, f3⟩ := fold_good P (RegR π)
      (fun lv => if (ywf && lv.2) = true then [(lv.1, true)] else evalCond W D r lv.1 ywf)
      (andStep P false π req ywf r.vars (fun b s => evalM W D P false r (1 :: π) (reqRightOfAnd req) b ywf s))
      (evalCond W D l β ywf) hpair
      (fun acc x hx hinv => andStep_ok P AV hinj π req ywf r.vars _ _ hreq hR acc x (hxs x hx).2 hinv)
      ([], (evalM W D P false l (0 :: π) (reqLeftOfAnd r.vars req) β ywf st).2)
      (fun x hx => invOn_mono P (hinit β hst) (hxs x hx).1)
    simp only [evalM, l1]
    refine ⟨?_, ?_, ?_⟩
    · rw [f1]; simp [evalCond]
    · exact frameOn_trans (frameOn_sub l2 (fun π' h => inSub_child h)) (frameOn_sub f2 (regR_sub π))
    · intro β₂ hb2 hc2
      have h0 : InvOn P (evalM W D P false l (0 :: π) (reqLeftOfAnd r.vars req) β ywf st).2 (InSub π) β₂ :=
        invOn_extend P hb2 l2 (l3 β₂ (invOn_sub P hb2 (fun π' h => inSub_child h)) hc2)
      exact invOn_extend P h0 f2 (f3 β₂ (invOn_sub P h0 (regR_sub π))
        (fun x hx => clash_mono P.toKey hc2 (hxs x hx).1 (sub_refl β₂)))
  | elseIf l r ihl ihr =>
    intro hf hv π req β ywf hreq hb st hst
    simp only [Cond.noFlat, Bool.and_eq_true] at hf
    have hvl : ∀ v ∈ l.vars, v ∈ AV := by intro v hvv; apply hv; simp [Cond.vars, hvv]
    have hvr : ∀ v ∈ r.vars, v ∈ AV := by intro v hvv; apply hv; simp [Cond.vars, hvv]
    have hreql : ReqSup AV (reqLeftOfOr r.vars req) := by
      intro wt v hvv
      simp only [reqLeftOfOr]
      split
      · exact hreq _ v hvv
      · exact List.mem_append.2 (Or.inr (hreq _ v hvv))
    obtain ⟨l1, l2, l3⟩ := ihl hf.1 hvl (0 :: π) _ β true hreql hb st (invOn_sub P hst (fun π' h => inSub_child h))
    simp only at l1 l2 l3
    have hreqR : ReqSup AV (reqRightOfOr req) := hreq
    have hR : ∀ b, BIn AV b → EvalOk P (fun s => evalM W D P false r (1 :: π) (reqRightOfOr req) b ywf s)
        (evalCond W D r b ywf) (1 :: π) b := fun b hbb => ihr hf.2 hvr (1 :: π) _ b ywf hreqR hbb
    have hsupp : ∀ (c : Cond V), c.noFlat = true → (∀ v ∈ c.vars, v ∈ AV) → ∀ (b : Bnd V) (y : Bnd V × Bool) (w : Bool),
        BIn AV b → y ∈ evalCond W D c b w → Sub b y.1 ∧ BIn AV y.1 := by
      intro c hfc hvc b y w hbb hy
      refine ⟨cond_sub W D c hfc b y.1 y.2 w hy, ?_⟩
      intro v a hva
      rcases (cond_supp W D c hfc b y.1 y.2 w hy).1 v (bound_iff.2 ⟨a, hva⟩) with h | h
      · obtain ⟨a', ha'⟩ := bound_iff.1 h; exact hbb v a' ha'
      · exact hvc v h
    have hgR : ∀ b, BIn AV b → (∀ y ∈ evalCond W D r b ywf, Sub b y.1 ∧ BIn AV y.1 ∧ (y.2 && !ywf) = false) ∧
        (evalCond W D r b ywf).Pairwise (fun a c => Clash P.toKey a.1 c.1) := by
      intro b hbb
      refine ⟨?_, cond_pairwise_clash P.toKey W D hD r hf.2 b ywf⟩
      intro y hy
      obtain ⟨s1, s2⟩ := hsupp r hf.2 hvr b y ywf hbb hy
      refine ⟨s1, s2, ?_⟩
      rcases Bool.eq_false_or_eq_true ywf with hw | hw
      · simp [hw]
      · have := ((cond_sound_complete W D r hf.2).1 b y.1 y.2 ywf hy).1 hw
        simp [this]
    have hdisj : ∀ π', RegR π π' → ¬ InSub (0 :: π) π' := by
      intro π' h hc
      rcases h with h | h
      · subst h; exact not_inSub_child_self 0 _ hc
      · exact inSub_children_disjoint (by decide) hc h
    have hπ1 : ¬ InSub (1 :: π) π := not_inSub_child_self 1 π
    have hπ0 : ¬ InSub (0 :: π) π := not_inSub_child_self 0 π
    simp only [evalM, l1]
    rw [evalCond]
    by_cases he : (evalCond W D l β true).isEmpty = true
    · -- the left operand produced nothing: the right operand is evaluated against the sources
      simp only [he, if_true, Bool.false_eq_true, if_false]
      have hst1 : InvOn P (evalM W D P false l (0 :: π) (reqLeftOfOr r.vars req) β true st).2 (InSub (1 :: π)) β :=
        invOn_frame P (invOn_sub P hst (fun π' h => inSub_child h)) l2
          (fun π' h hc => inSub_children_disjoint (by decide) hc h)
      obtain ⟨r1, r2, r3⟩ := hR β hb _ hst1
      simp only at r1 r2 r3
      refine ⟨r1, ?_, ?_⟩
      · refine frameOn_trans (frameOn_sub l2 (fun π' h => inSub_child h))
          (frameOn_trans (frameOn_sub r2 (fun π' h => inSub_child h)) ?_)
        exact frameOn_setNode _ _ _ _ (inSub_refl π)
      · intro β₂ hb2 hc2
        have h0 : InvOn P (evalM W D P false l (0 :: π) (reqLeftOfOr r.vars req) β true st).2 (InSub π) β₂ :=
          invOn_extend P hb2 l2 (l3 β₂ (invOn_sub P hb2 (fun π' h => inSub_child h)) hc2)
        have h1 := invOn_extend P h0 r2 (r3 β₂ (invOn_sub P h0 (fun π' h => inSub_child h)) hc2)
        apply invOn_setNode P π _ h1
        exact nodeOk_congr P rfl rfl (h1 π (inSub_refl π))
    · have he' : (evalCond W D l β true).isEmpty = false := by simpa using he
      simp only [he', Bool.false_eq_true, if_false]
      have hpair := cond_pairwise_clash P.toKey W D hD l hf.1 β true
      have hinit : ∀ b, InvOn P st (InSub π) b →
          InvOn P (evalM W D P false l (0 :: π) (reqLeftOfOr r.vars req) β true st).2 (RegR π) b :=
        fun b h => invOn_frame P (invOn_sub P h (regR_sub π)) l2 hdisj
      obtain ⟨f1, f2, f3⟩ := fold_good P (RegR π)
        (fun lv => if lv.2 = true then evalCond W D r lv.1 ywf else [(lv.1, false)])
        (orStep P false π req ywf r.vars (fun b s => evalM W D P false r (1 :: π) (reqRightOfOr req) b ywf s))
        (evalCond W D l β true) hpair
        (fun acc x hx hinv => orStep_ok P AV hinj π req ywf r.vars _ _ hreq hR hgR acc x
          (hsupp l hf.1 hvl β x true hb hx).2 hinv)
        ([], (evalM W D P false l (0 :: π) (reqLeftOfOr r.vars req) β true st).2)
        (fun x hx => invOn_mono P (hinit β hst) (hsupp l hf.1 hvl β x true hb hx).1)
      refine ⟨?_, ?_, ?_⟩
      · rw [f1]; simp
      · exact frameOn_trans (frameOn_sub l2 (fun π' h => inSub_child h)) (frameOn_sub f2 (regR_sub π))
      · intro β₂ hb2 hc2
        have h0 : InvOn P (evalM W D P false l (0 :: π) (reqLeftOfOr r.vars req) β true st).2 (InSub π) β₂ :=
          invOn_extend P hb2 l2 (l3 β₂ (invOn_sub P hb2 (fun π' h => inSub_child h)) hc2)
        exact invOn_extend P h0 f2 (f3 β₂ (invOn_sub P h0 (regR_sub π))
          (fun x hx => clash_mono P.toKey hc2 (hsupp l hf.1 hvl β x true hb hx).1 (sub_refl β₂)))
  | sub sel c ih =>
    intro hf hv π req β ywf hreq hb st hst
    simp only [Cond.noFlat, Bool.and_eq_true] at hf
    have hvc : ∀ v ∈ c.vars, v ∈ AV := by
      intro v hvv; apply hv; simp [Cond.vars, hvv]
    have hreq' : ReqSup AV (fun wt => req wt ++ sel.flatMap Term.binds) := by
      intro wt v hvv; exact List.mem_append.2 (Or.inl (hreq wt v hvv))
    obtain ⟨h1, h2, h3⟩ := ih hf.1 hvc (0 :: π) _ β ywf hreq' hb st (invOn_sub P hst (fun π' h => inSub_child h))
    simp only [evalM, evalCond]
    simp only at h1 h2 h3
    refine ⟨by rw [h1], frameOn_sub h2 (fun π' h => inSub_child h), ?_⟩
    intro β₂ hb2 hc2
    exact invOn_extend P hb2 h2 (h3 β₂ (invOn_sub P hb2 (fun π' h => inSub_child h)) hc2)

/-- Every duplicate-tracking set of the state is empty (the fresh state; the state `_reset_cache_`
    leaves behind after an evaluation). -/
def DedupClean (st : St) : Prop := ∀ π, (getNode st π).seenT = {} ∧ (getNode st π).seenF = {}

theorem dedupClean_nil : DedupClean ([] : St) := by
  intro π; simp [getNode]

theorem lookup_resetDedup (st : St) (π : Path) :
    List.lookup π (resetDedup st) = (List.lookup π st).map fun n => { n with seenT := {}, seenF := {} } := by
  induction st with
  | nil => rfl
  | cons p rest ih =>
    obtain ⟨k, n⟩ := p
    by_cases e : π = k
    · subst e; simp [resetDedup, List.lookup]
    · have : (π == k) = false := by simp [e]
      simp only [resetDedup, List.map_cons, List.lookup, this]
      exact ih

theorem dedupClean_reset (st : St) : DedupClean (resetDedup st) := by
  intro π
  simp only [getNode, lookup_resetDedup]
  cases List.lookup π st <;> simp

theorem invOn_of_clean {st : St} (h : DedupClean st) (R : Path → Prop) (β : Bnd V) : InvOn P st R β := by
  intro π _
  obtain ⟨h1, h2⟩ := h π
  simp [NodeOk, h1, h2]

/-- **L2 = L1 when every variable of the condition is selected, caching disabled.**  One evaluation of
    `an(set_of(sel, c))` by the stateful machine - duplicate tracking active - from any state whose
    duplicate-tracking sets are empty yields exactly the rows of the L1 evaluation, in order: no output
    is ever taken for a duplicate; and it leaves such a state behind. -/
theorem rowsM_off_all_selected (hinj : Function.Injective P.rank) (hD : KeysNodup P.toKey D)
    (q : Query V) (c : Cond V) (hq : q.cond = some c) (hf : c.noFlat = true)
    (hall : ∀ v ∈ c.vars, v ∈ q.sel.flatMap Term.binds) (st : St) (hst : DedupClean st) :
    (rowsM W D P false q st).1 = rows W D q ∧ DedupClean (rowsM W D P false q st).2 := by
  have hreq : ReqSup c.vars (fun _ => q.sel.flatMap Term.binds) := fun _ v hv => hall v hv
  have hb : BIn c.vars ([] : Bnd V) := by intro v a h; simp [List.lookup] at h
  obtain ⟨h1, _, _⟩ := evalM_off_ok W D P c.vars hinj hD c hf (fun v hv => hv) [] _ [] false hreq hb st
    (invOn_of_clean P hst _ _)
  simp only at h1
  refine ⟨?_, ?_⟩
  · simp only [rowsM, rows, hq, h1]
    apply flatMap_congr_mem'
    intro p hp
    have := ((cond_sound_complete W D c hf).1 [] p.1 p.2 false hp).1 rfl
    simp [this]
  · simp only [rowsM, hq]
    exact dedupClean_reset _

/-- The state after `n` consecutive evaluations of the query object. -/
def afterEvals (q : Query V) : Nat → St → St
  | 0, s => s
  | n + 1, s => afterEvals q n (rowsM W D P false q s).2

/-- … hence every one of any number of consecutive evaluations of the same query object does. -/
theorem rowsM_off_all_selected_iter (hinj : Function.Injective P.rank) (hD : KeysNodup P.toKey D)
    (q : Query V) (c : Cond V) (hq : q.cond = some c) (hf : c.noFlat = true)
    (hall : ∀ v ∈ c.vars, v ∈ q.sel.flatMap Term.binds) :
    ∀ (n : Nat) (st : St), DedupClean st →
      (rowsM W D P false q (afterEvals W D P q n st)).1 = rows W D q := by
  intro n
  induction n with
  | zero => intro st hst; exact (rowsM_off_all_selected W D P hinj hD q c hq hf hall st hst).1
  | succ n ih =>
    intro st hst
    simp only [afterEvals]
    exact ih _ (rowsM_off_all_selected W D P hinj hD q c hq hf hall st hst).2

end Eql.Machine
