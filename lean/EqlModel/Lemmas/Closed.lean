/-
  Helper lemmas for C01: a condition all of whose variables are bound yields exactly one output
  (or none), and a single-variable condition over an unbound variable distributes over the domain.
-/
import EqlModel.Lemmas.Cond

namespace Eql
variable {V : Type}
variable (W : World V) (D : VarId → List V)

/-- The one output of a closed condition. -/
def closedOut (β : Bnd V) (d ywf : Bool) : List (Bnd V × Bool) :=
  if d || ywf then [(β, !d)] else []

theorem cond_closed : ∀ (c : Cond V), c.noFlat = true → ∀ (β : Bnd V) (α : Asg V) (ywf : Bool),
    Ext β α → (∀ v ∈ c.vars, bound β v = true) →
    evalCond W D c β ywf = closedOut β (denote W α c) ywf := by
  intro c
  induction c with
  | cmp op l r =>
    intro hf β α ywf hα hb
    simp only [Cond.noFlat, Bool.and_eq_true] at hf
    have hl := term_closed W D l hf.1 β α hα (fun v h => hb v (by simp [Cond.vars, h]))
    have hr := term_closed W D r hf.2 β α hα (fun v h => hb v (by simp [Cond.vars, h]))
    simp only [evalCond]
    split <;> simp [hl, hr, closedOut, denote]
  | truth inv t =>
    intro hf β α ywf hα hb
    simp only [Cond.noFlat] at hf
    have ht := term_closed W D t hf β α hα (fun v h => hb v (by simp [Cond.vars, h]))
    simp only [evalCond, ht, closedOut, denote]
    rcases Bool.eq_false_or_eq_true (W.truthy (termVal W α t)) with h | h <;>
      cases inv <;> cases ywf <;> simp [h]
  | pred inv n args =>
    intro hf β α ywf hα hb
    simp only [Cond.noFlat] at hf
    have ht := args_closed W D args hf β α hα (fun v h => hb v (by simp [Cond.vars, h]))
    simp only [evalCond, ht, closedOut, denote]
    rcases Bool.eq_false_or_eq_true (W.truthy (W.fn n (termsVal W α args))) with h | h <;>
      cases inv <;> cases ywf <;> simp [h]
  | and l r ihl ihr =>
    intro hf β α ywf hα hb
    simp only [Cond.noFlat, Bool.and_eq_true] at hf
    have hl := ihl hf.1 β α ywf hα (fun v h => hb v (by simp [Cond.vars, h]))
    have hr := ihr hf.2 β α ywf hα (fun v h => hb v (by simp [Cond.vars, h]))
    simp only [evalCond, hl, closedOut, denote]
    rcases Bool.eq_false_or_eq_true (denote W α l) with h1 | h1 <;>
      rcases Bool.eq_false_or_eq_true (denote W α r) with h2 | h2 <;>
      cases ywf <;> simp [h1, h2, hr, closedOut]
  | elseIf l r ihl ihr =>
    intro hf β α ywf hα hb
    simp only [Cond.noFlat, Bool.and_eq_true] at hf
    have hl := ihl hf.1 β α true hα (fun v h => hb v (by simp [Cond.vars, h]))
    have hr := ihr hf.2 β α ywf hα (fun v h => hb v (by simp [Cond.vars, h]))
    simp only [evalCond, hl, closedOut, denote]
    rcases Bool.eq_false_or_eq_true (denote W α l) with h1 | h1 <;>
      rcases Bool.eq_false_or_eq_true (denote W α r) with h2 | h2 <;>
      cases ywf <;> simp [h1, h2, hr, closedOut]
  | sub sel c ih =>
    intro hf β α ywf hα hb
    simp only [Cond.noFlat, Bool.and_eq_true] at hf
    have hc := ih hf.1 β α ywf hα (fun v h => hb v (by simp [Cond.vars, h]))
    have hs := args_closed W D sel hf.2 β α hα (fun v h => hb v (by simp [Cond.vars, h]))
    simp only [evalCond, hc, closedOut, denote]
    rcases Bool.eq_false_or_eq_true (denote W α c) with h1 | h1 <;> cases ywf <;> simp [h1, hs]

/-- Every leaf of the condition mentions the variable `x` and no other variable. -/
def Cond.single (x : VarId) : Cond V → Prop
  | .cmp _ l r => (∀ v ∈ l.vars ++ r.vars, v = x) ∧ (l.vars ≠ [] ∨ r.vars ≠ [])
  | .truth _ t => (∀ v ∈ t.vars, v = x) ∧ t.vars ≠ []
  | .pred _ _ args => (∀ v ∈ Terms.vars args, v = x) ∧ Terms.vars args ≠ []
  | .and l r => Cond.single x l ∧ Cond.single x r
  | .elseIf l r => Cond.single x l ∧ Cond.single x r
  | .sub sel c => Cond.single x c ∧ (∀ v ∈ Terms.vars sel, v = x)

theorem single_vars (x : VarId) : ∀ (c : Cond V), Cond.single x c → ∀ v ∈ c.vars, v = x := by
  intro c
  induction c with
  | cmp op l r => intro h v hv; exact h.1 v (by simpa [Cond.vars] using hv)
  | truth inv t => intro h v hv; exact h.1 v (by simpa [Cond.vars] using hv)
  | pred inv n args => intro h v hv; exact h.1 v (by simpa [Cond.vars] using hv)
  | and l r ihl ihr =>
    intro h v hv
    rcases List.mem_append.1 (by simpa [Cond.vars] using hv) with h' | h'
    · exact ihl h.1 v h'
    · exact ihr h.2 v h'
  | elseIf l r ihl ihr =>
    intro h v hv
    rcases List.mem_append.1 (by simpa [Cond.vars] using hv) with h' | h'
    · exact ihl h.1 v h'
    · exact ihr h.2 v h'
  | sub sel c ih =>
    intro h v hv
    rcases List.mem_append.1 (by simpa [Cond.vars] using hv) with h' | h'
    · exact ih h.1 v h'
    · exact h.2 v h'

theorem ext_single (x : VarId) (o : V) : Ext [(x, o)] (constAsg o) := by
  intro v a h
  by_cases e : v = x
  · subst e; simp [List.lookup] at h; simp [constAsg, h]
  · have : (v == x) = false := by simp [e]
    simp [List.lookup, this] at h

theorem bound_single (x : VarId) (o : V) : bound [(x, o)] x = true := by
  simp [bound, List.lookup]

/-- What a single-variable condition yields for the object `o`. -/
def singleOut (c : Cond V) (x : VarId) (ywf : Bool) (o : V) : List (Bnd V × Bool) :=
  closedOut [(x, o)] (denote W (constAsg o) c) ywf

theorem cond_at (x : VarId) (c : Cond V) (hf : c.noFlat = true) (hs : Cond.single x c)
    (ywf : Bool) (o : V) : evalCond W D c [(x, o)] ywf = singleOut W c x ywf o :=
  cond_closed W D c hf [(x, o)] (constAsg o) ywf (ext_single x o)
    (fun v hv => by rw [single_vars x c hs v hv]; exact bound_single x o)

private theorem rightFirst_nil (r : Term V) : rightFirst ([] : Bnd V) r = false := by
  simp [rightFirst, bound, List.lookup]

/-- A term without variables evaluates to its value, whatever the binding. -/
private theorem term_novars (t : Term V) (hf : t.noFlat = true) (hv : t.vars = []) (β : Bnd V)
    (α : Asg V) : evalTerm W D t β = [(β, termVal W α t)] :=
  term_closed_on W D t hf β α (by intro v h; rw [hv] at h; cases h)

/-- Arguments that mention only the unbound variable `x` (and mention it) enumerate the domain. -/
theorem args_dist [Inhabited V] (x : VarId) : ∀ (ts : List (Term V)), Terms.noFlat ts = true →
    (∀ v ∈ Terms.vars ts, v = x) → Terms.vars ts ≠ [] →
    evalArgs W D ts [] = (D x).map fun o => ([(x, o)], termsVal W (constAsg o) ts) := by
  intro ts
  induction ts with
  | nil => intro _ _ hne; simp [Terms.vars] at hne
  | cons t ts ih =>
    intro hf hv hne
    simp only [Terms.noFlat, Bool.and_eq_true] at hf
    have hvt : ∀ v ∈ t.vars, v = x := fun v h => hv v (by simp [Terms.vars, h])
    have hvs : ∀ v ∈ Terms.vars ts, v = x := fun v h => hv v (by simp [Terms.vars, h])
    simp only [evalArgs]
    by_cases ht : t.vars = []
    · have hts : Terms.vars ts ≠ [] := by
        intro h; apply hne; simp [Terms.vars, ht, h]
      rw [term_novars W D t hf.1 ht [] (constAsg default), List.flatMap_singleton, ih hf.2 hvs hts,
        List.map_map]
      apply List.map_congr_left
      intro o _
      have : termVal W (constAsg default) t = termVal W (constAsg o) t :=
        termVal_congr W t hf.1 _ _ (by intro v hv; rw [ht] at hv; cases hv)
      simp [termsVal, this]
    · rw [term_dist W D x t hf.1 hvt ht, List.flatMap_map]
      have : ∀ o, (evalArgs W D ts [(x, o)]).map (fun q => (q.1, termVal W (constAsg o) t :: q.2))
          = [([(x, o)], termsVal W (constAsg o) (t :: ts))] := by
        intro o
        rw [args_closed W D ts hf.2 [(x, o)] (constAsg o) (ext_single x o)
          (fun v hv => by rw [hvs v hv]; exact bound_single x o)]
        simp [termsVal]
      simp only [this]
      induction (D x) with
      | nil => rfl
      | cons o os ih2 => simp [ih2]

theorem flatMap_fun_congr {γ δ : Type} (l : List γ) (f g : γ → List δ) (h : ∀ a, f a = g a) :
    l.flatMap f = l.flatMap g := by
  have : f = g := funext h
  rw [this]

/-- **Distribution.** A single-variable condition over the unbound variable is evaluated once per
    object of the domain, in domain order. -/
theorem cond_dist [Inhabited V] (x : VarId) : ∀ (c : Cond V), c.noFlat = true → Cond.single x c →
    ∀ (ywf : Bool), evalCond W D c [] ywf = (D x).flatMap (singleOut W c x ywf) := by
  intro c
  induction c with
  | cmp op l r =>
    intro hf hs ywf
    simp only [Cond.noFlat, Bool.and_eq_true] at hf
    have hvl : ∀ v ∈ l.vars, v = x := fun v h => hs.1 v (by simp [h])
    have hvr : ∀ v ∈ r.vars, v = x := fun v h => hs.1 v (by simp [h])
    simp only [evalCond, rightFirst_nil, Bool.false_eq_true, if_false]
    by_cases hl : l.vars = []
    · -- the left operand is a plain value: the right one enumerates the domain
      have hr : r.vars ≠ [] := by
        rcases hs.2 with h | h
        · exact absurd hl h
        · exact h
      rw [term_novars W D l hf.1 hl [] (constAsg default), List.flatMap_singleton,
        term_dist W D x r hf.2 hvr hr, List.flatMap_map]
      apply flatMap_fun_congr
      intro o
      have : termVal W (constAsg default) l = termVal W (constAsg o) l :=
        termVal_congr W l hf.1 _ _ (by intro v hv; rw [hl] at hv; cases hv)
      simp [singleOut, closedOut, denote, this]
    · rw [term_dist W D x l hf.1 hvl hl, List.flatMap_map]
      apply flatMap_fun_congr
      intro o
      have hr := term_closed W D r hf.2 [(x, o)] (constAsg o) (ext_single x o)
        (fun v hv => by rw [hvr v hv]; exact bound_single x o)
      simp [hr, singleOut, closedOut, denote]
  | truth inv t =>
    intro hf hs ywf
    simp only [Cond.noFlat] at hf
    simp only [evalCond]
    rw [term_dist W D x t hf hs.1 hs.2, List.flatMap_map]
    apply flatMap_fun_congr
    intro o
    simp only [singleOut, closedOut, denote]
    rcases Bool.eq_false_or_eq_true (W.truthy (termVal W (constAsg o) t)) with h | h <;>
      cases inv <;> cases ywf <;> simp [h]
  | pred inv n args =>
    intro hf hs ywf
    simp only [Cond.noFlat] at hf
    simp only [evalCond]
    rw [args_dist W D x args hf hs.1 hs.2, List.flatMap_map]
    apply flatMap_fun_congr
    intro o
    simp only [singleOut, closedOut, denote]
    rcases Bool.eq_false_or_eq_true (W.truthy (W.fn n (termsVal W (constAsg o) args))) with h | h <;>
      cases inv <;> cases ywf <;> simp [h]
  | and l r ihl ihr =>
    intro hf hs ywf
    simp only [Cond.noFlat, Bool.and_eq_true] at hf
    simp only [evalCond]
    rw [ihl hf.1 hs.1 ywf, List.flatMap_assoc]
    apply flatMap_fun_congr
    intro o
    have hr := cond_at W D x r hf.2 hs.2 ywf o
    simp only [singleOut, closedOut, denote] at hr ⊢
    rcases Bool.eq_false_or_eq_true (denote W (constAsg o) l) with h1 | h1 <;>
      rcases Bool.eq_false_or_eq_true (denote W (constAsg o) r) with h2 | h2 <;>
      cases ywf <;> simp [h1, h2] at hr ⊢ <;> simp [hr]
  | elseIf l r ihl ihr =>
    intro hf hs ywf
    simp only [Cond.noFlat, Bool.and_eq_true] at hf
    simp only [evalCond]
    rw [ihl hf.1 hs.1 true]
    cases hD : D x with
    | nil =>
      simp only [List.flatMap_nil, List.isEmpty_nil, if_true]
      rw [ihr hf.2 hs.2 ywf, hD]; rfl
    | cons o0 os =>
      have hne : ((o0 :: os).flatMap (singleOut W l x true)).isEmpty = false := by
        simp [singleOut, closedOut]
      simp only [hne, Bool.false_eq_true, if_false]
      rw [List.flatMap_assoc]
      apply flatMap_fun_congr
      intro o
      have hr := cond_at W D x r hf.2 hs.2 ywf o
      simp only [singleOut, closedOut, denote] at hr ⊢
      rcases Bool.eq_false_or_eq_true (denote W (constAsg o) l) with h1 | h1 <;>
        rcases Bool.eq_false_or_eq_true (denote W (constAsg o) r) with h2 | h2 <;>
        cases ywf <;> simp [h1, h2] at hr ⊢ <;> simp [hr]
  | sub sel c ih =>
    intro hf hs ywf
    simp only [Cond.noFlat, Bool.and_eq_true] at hf
    simp only [evalCond]
    rw [ih hf.1 hs.1 ywf, List.flatMap_assoc]
    apply flatMap_fun_congr
    intro o
    have ha := args_closed W D sel hf.2 [(x, o)] (constAsg o) (ext_single x o)
      (fun v hv => by rw [hs.2 v hv]; exact bound_single x o)
    simp only [singleOut, closedOut, denote]
    rcases Bool.eq_false_or_eq_true (denote W (constAsg o) c) with h1 | h1 <;>
      cases ywf <;> simp [h1, ha]

end Eql
