/-
  L2: duplicate tracking never drops an output when the result cache is disabled and every stored
  constraint comes from an output that CLASHES with what is evaluated next.

  Part 1 (this file, local facts):
    toAsg_get          what a cache/duplicate key records about a binding
    covers_false       a stored constraint that disagrees with a binding on a bound variable does not
                       cover that binding's key, whatever the required variables are
    isDup_fresh        hence `_is_duplicate_output_` answers "new" and records the key
-/
import EqlModel.Machine
import EqlModel.Lemmas.Clash

namespace Eql.Machine
open Eql
variable {V : Type}
variable (P : Params V)

/-- The stored constraint `c` disagrees with the binding `β` on a variable `β` binds. -/
def ClashC (c : Cache.Asg Nat) (β : Bnd V) : Prop :=
  ∃ v a x, β.lookup v = some a ∧ (P.rank v, x) ∈ c ∧ x ≠ P.toKey a

theorem clashC_mono {c : Cache.Asg Nat} {β β' : Bnd V} (h : ClashC P c β) (hs : Sub β β') : ClashC P c β' := by
  obtain ⟨v, a, x, h1, h2, h3⟩ := h
  exact ⟨v, a, x, hs v a h1, h2, h3⟩

theorem lookup_filterMap_rank (hinj : Function.Injective P.rank) (β : Bnd V) (v : VarId) :
    ∀ (L : List VarId),
      List.lookup (P.rank v) (L.filterMap fun w => (β.lookup w).map fun a => (P.rank w, P.toKey a)) =
        if v ∈ L then (β.lookup v).map P.toKey else none := by
  intro L
  induction L with
  | nil => simp
  | cons w L ih =>
    by_cases e : v = w
    · subst e
      cases hl : β.lookup v with
      | none =>
        simp only [List.filterMap_cons, hl, Option.map_none, List.mem_cons, true_or, if_true]
        rw [ih]; simp [hl]
      | some a =>
        simp [List.filterMap_cons, hl, List.lookup]
    · have hne : (P.rank v == P.rank w) = false := by
        simp only [beq_eq_false_iff_ne, ne_eq]
        intro h; exact e (hinj h)
      cases hl : β.lookup w with
      | none =>
        simp only [List.filterMap_cons, hl, Option.map_none, List.mem_cons, e, false_or]
        exact ih
      | some a =>
        simp only [List.filterMap_cons, hl, Option.map_some, List.lookup, hne, List.mem_cons, e, false_or]
        exact ih

theorem toAsg_get (hinj : Function.Injective P.rank) (vars : List VarId) (β : Bnd V) (v : VarId) :
    Cache.Asg.get (toAsg P vars β) (P.rank v) = if v ∈ vars then (β.lookup v).map P.toKey else none := by
  simp only [Cache.Asg.get, toAsg]
  rw [lookup_filterMap_rank P hinj β v]
  simp [List.mem_eraseDups]

/-- A constraint that clashes with a binding does not cover the binding's key. -/
theorem covers_false (hinj : Function.Injective P.rank) (c : Cache.Asg Nat) (vars : List VarId) (β : Bnd V)
    (h : ClashC P c β) : Cache.SeenSet.covers c (toAsg P vars β) = false := by
  obtain ⟨v, a, x, h1, h2, h3⟩ := h
  simp only [Cache.SeenSet.covers]
  rw [Bool.eq_false_iff]
  intro hall
  rw [List.all_eq_true] at hall
  have := hall (P.rank v, x) h2
  simp only [toAsg_get P hinj, h1, Option.map_some] at this
  split at this
  · simp at this; exact h3 this.symm
  · simp at this

/-- Both seen sets of a node are unpoisoned and each of their constraints clashes with `β`. -/
def NodeOk (n : NodeSt) (β : Bnd V) : Prop :=
  n.seenT.allSeen = false ∧ n.seenF.allSeen = false ∧
  (∀ c ∈ n.seenT.seen, ClashC P c β) ∧ (∀ c ∈ n.seenF.seen, ClashC P c β)

theorem nodeOk_default (β : Bnd V) : NodeOk P ({} : NodeSt) β := by
  simp [NodeOk]

theorem nodeOk_mono {n : NodeSt} {β β' : Bnd V} (h : NodeOk P n β) (hs : Sub β β') : NodeOk P n β' :=
  ⟨h.1, h.2.1, fun c hc => clashC_mono P (h.2.2.1 c hc) hs, fun c hc => clashC_mono P (h.2.2.2 c hc) hs⟩

/-- `_is_duplicate_output_` on a node whose stored constraints all clash with the output: the output
    is new; the node afterwards still has unpoisoned sets, and its constraints are the old ones plus
    (possibly) the key of this output. -/
theorem seen_check_fresh (hinj : Function.Injective P.rank) (s : Cache.SeenSet Nat) (vars : List VarId) (out : Bnd V)
    (hs : s.allSeen = false) (hne : (toAsg P vars out).isEmpty = false)
    (hc : ∀ c ∈ s.seen, ClashC P c out) :
    s.check (toAsg P vars out) = (false, s) := by
  simp only [Cache.SeenSet.check, hs, Bool.false_eq_true, if_false, hne]
  congr 1
  rw [List.any_eq_false]
  intro c hc'
  simp [covers_false P hinj c vars out (hc c hc')]

theorem seen_add_ok (s : Cache.SeenSet Nat) (a : Cache.Asg Nat) (hs : s.allSeen = false) (hne : a.isEmpty = false) :
    (s.add a).allSeen = false ∧ (s.add a).seen = s.seen ++ [a] := by
  simp [Cache.SeenSet.add, hs, hne]

/-- `_is_duplicate_output_` on a node whose stored constraints all clash with the output: the output
    is new; the caches are untouched; the node afterwards is still fine for every binding that was
    fine before and clashes with the recorded key. -/
theorem isDup_fresh (hinj : Function.Injective P.rank) (req : ReqFn) (isFalse : Bool) (out : Bnd V) (n : NodeSt)
    (h : NodeOk P n out) :
    (isDup P req isFalse out n).1 = false ∧
    (isDup P req isFalse out n).2.cache = n.cache ∧ (isDup P req isFalse out n).2.rcache = n.rcache ∧
    ∀ β₂ : Bnd V, NodeOk P n β₂ →
      ((toAsg P (req (some (!isFalse))) out).isEmpty = false → ClashC P (toAsg P (req (some (!isFalse))) out) β₂) →
      NodeOk P (isDup P req isFalse out n).2 β₂ := by
  obtain ⟨hT, hF, hcT, hcF⟩ := h
  by_cases hr : (req (some (!isFalse))).isEmpty = true
  · have e : isDup P req isFalse out n = (false, n) := by simp [isDup, hr]
    rw [e]; exact ⟨rfl, rfl, rfl, fun β₂ h2 _ => h2⟩
  · by_cases he : (toAsg P (req (some (!isFalse))) out).isEmpty = true
    · have e : isDup P req isFalse out n = (false, n) := by simp [isDup, hr, he]
      rw [e]; exact ⟨rfl, rfl, rfl, fun β₂ h2 _ => h2⟩
    · have he' : (toAsg P (req (some (!isFalse))) out).isEmpty = false := by simpa using he
      cases isFalse with
      | true =>
        have hchk := seen_check_fresh P hinj n.seenF (req (some (!true))) out hF he' hcF
        have hadd := seen_add_ok n.seenF _ hF he'
        simp only [Bool.not_true] at hr he he' hchk hadd ⊢
        have hr' : req (some false) ≠ [] := by simpa using hr
        have he'' : toAsg P (req (some false)) out ≠ [] := by simpa using he
        have e : isDup P req true out n =
            (false, { n with seenF := n.seenF.add (toAsg P (req (some false)) out) }) := by
          simp [isDup, hr', he'', hchk]
        rw [e]
        refine ⟨rfl, rfl, rfl, ?_⟩
        intro β₂ h2 hc2
        refine ⟨h2.1, hadd.1, h2.2.2.1, ?_⟩
        intro c hc
        rw [hadd.2, List.mem_append, List.mem_singleton] at hc
        rcases hc with hc | hc
        · exact h2.2.2.2 c hc
        · subst hc; exact hc2 he'
      | false =>
        have hchk := seen_check_fresh P hinj n.seenT (req (some (!false))) out hT he' hcT
        have hadd := seen_add_ok n.seenT _ hT he'
        simp only [Bool.not_false] at hr he he' hchk hadd ⊢
        have hr' : req (some true) ≠ [] := by simpa using hr
        have he'' : toAsg P (req (some true)) out ≠ [] := by simpa using he
        have e : isDup P req false out n =
            (false, { n with seenT := n.seenT.add (toAsg P (req (some true)) out) }) := by
          simp [isDup, hr', he'', hchk]
        rw [e]
        refine ⟨rfl, rfl, rfl, ?_⟩
        intro β₂ h2 hc2
        refine ⟨hadd.1, h2.2.1, ?_, h2.2.2.2⟩
        intro c hc
        rw [hadd.2, List.mem_append, List.mem_singleton] at hc
        rcases hc with hc | hc
        · exact h2.2.2.1 c hc
        · subst hc; exact hc2 he'

end Eql.Machine
