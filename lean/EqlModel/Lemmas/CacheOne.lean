/-
  A result cache with ONE key (every operator cache of a single-variable query): its trie is a list
  of (value ↦ output) pairs in insertion order; insert updates in place or appends; a lookup that
  binds the key returns the stored output, a lookup that does not returns everything in order.
-/
import EqlModel.Cache

namespace Eql.Cache
variable {A O : Type} [DecidableEq A]
open Trie

/-- The one-level trie holding the given pairs, in order. -/
def ofList : List (A × O) → Trie A O
  | [] => .nil
  | (v, o) :: rest => .cons (.val v) (.leaf o) (ofList rest)

/-- Replace the output stored under `v`, or append the pair. -/
def upd : List (A × O) → A → O → List (A × O)
  | [], v, o => [(v, o)]
  | (w, p) :: rest, v, o => if w = v then (w, o) :: rest else (w, p) :: upd rest v o

theorem insert_ofList (E : List (A × O)) (v : A) (o : O) :
    Trie.insert o (ofList E) [.val v] = ofList (upd E v o) := by
  induction E with
  | nil => simp [ofList, upd, Trie.insert, mkPath]
  | cons p rest ih =>
    obtain ⟨w, q⟩ := p
    by_cases e : w = v
    · subst e; simp [ofList, upd, Trie.insert, mkPath]
    · have : (Key.val w : Key A) ≠ .val v := by intro h; injection h with h; exact e h
      simp only [ofList, upd, Trie.insert, this, e, if_false]
      rw [ih]

theorem child_val_ofList (E : List (A × O)) (v : A) :
    child? (.val v) (ofList E) = (E.lookup v).map Trie.leaf := by
  induction E with
  | nil => simp [ofList, child?]
  | cons p rest ih =>
    obtain ⟨w, q⟩ := p
    by_cases e : w = v
    · subst e; simp [ofList, child?, List.lookup]
    · have h1 : (Key.val w : Key A) ≠ .val v := by intro h; injection h with h; exact e h
      have h2 : (v == w) = false := by simp; exact fun h => e h.symm
      simp only [ofList, child?, h1, if_false, List.lookup, h2]
      exact ih

theorem child_all_ofList (E : List (A × O)) : child? (.all : Key A) (ofList E) = none := by
  induction E with
  | nil => simp [ofList, child?]
  | cons p rest ih =>
    obtain ⟨w, q⟩ := p
    simp [ofList, child?, ih]

theorem children_ofList (E : List (A × O)) :
    children (ofList E) = E.map fun p => ((.val p.1 : Key A), (.leaf p.2 : Trie A O)) := by
  induction E with
  | nil => simp [ofList, children]
  | cons p rest ih => obtain ⟨w, q⟩ := p; simp [ofList, children, ih]

/-- A lookup that binds the key. -/
theorem retr_bound (asg : Asg A) (k : Nat) (v : A) (h : asg.get k = some v) (E : List (A × O)) (res : Asg A) :
    retr asg [k] (ofList E) res = match E.lookup v with
      | some o => [(res, o)]
      | none => [] := by
  cases E with
  | nil => simp [ofList, retr]
  | cons p rest =>
    obtain ⟨w, q⟩ := p
    simp only [ofList, retr, h]
    have := child_val_ofList ((w, q) :: rest) v
    simp only [ofList] at this
    rw [this]
    cases hl : List.lookup v ((w, q) :: rest) with
    | some o => simp [retr]
    | none =>
      have h2 := child_all_ofList ((w, q) :: rest)
      simp only [ofList] at h2
      simp [h2]

/-- A lookup that leaves the key free: everything, in order. -/
theorem retr_free (asg : Asg A) (k : Nat) (h : asg.get k = none) (E : List (A × O)) (res : Asg A) :
    retr asg [k] (ofList E) res = E.map fun p => ((k, p.1) :: res, p.2) := by
  cases E with
  | nil => simp [ofList, retr]
  | cons p rest =>
    obtain ⟨w, q⟩ := p
    simp only [ofList, retr, h]
    have h2 := child_all_ofList ((w, q) :: rest)
    simp only [ofList] at h2
    rw [h2]
    have h3 := children_ofList ((w, q) :: rest)
    simp only [ofList] at h3
    simp only [h3, List.flatMap_map]
    induction ((w, q) :: rest) with
    | nil => rfl
    | cons a as ih => simp [retr, ih]

theorem ofList_inj : ∀ (E E' : List (A × O)), ofList E = ofList E' → E = E' := by
  intro E
  induction E with
  | nil =>
    intro E' h
    cases E' with
    | nil => rfl
    | cons p rest => obtain ⟨w, q⟩ := p; simp [ofList] at h
  | cons p rest ih =>
    intro E' h
    obtain ⟨v, o⟩ := p
    cases E' with
    | nil => simp [ofList] at h
    | cons p' rest' =>
      obtain ⟨w, q⟩ := p'
      simp only [ofList, Trie.cons.injEq, Key.val.injEq, Trie.leaf.injEq] at h
      obtain ⟨h1, h2, h3⟩ := h
      rw [h1, h2, ih rest' h3]

/-- A cache with the single key `k` whose trie holds the pairs `E`. -/
structure One (c : Cache A O) (k : Nat) (E : List (A × O)) : Prop where
  keys : c.keys = [k]
  trie : c.trie = ofList E

theorem one_unique {c : Cache A O} {k : Nat} {E E' : List (A × O)} (h : One c k E) (h' : One c k E') : E' = E :=
  ofList_inj E' E (h'.trie.symm.trans h.trie)

theorem ofList_isEmpty (E : List (A × O)) : (ofList E).isEmptyNode = E.isEmpty := by
  cases E with
  | nil => rfl
  | cons p rest => obtain ⟨w, q⟩ := p; rfl

theorem retrieve_bound {c : Cache A O} {k : Nat} {E : List (A × O)} (h : One c k E) (v : A) :
    c.retrieve [(k, v)] = match E.lookup v with
      | some o => [([(k, v)], o)]
      | none => [] := by
  simp only [Cache.retrieve, h.keys, h.trie, ofList_isEmpty]
  cases E with
  | nil => simp
  | cons p rest =>
    simp only [List.isEmpty_cons, Bool.false_eq_true, if_false]
    exact retr_bound [(k, v)] k v (by simp [Asg.get, List.lookup]) _ _

theorem retrieve_free {c : Cache A O} {k : Nat} {E : List (A × O)} (h : One c k E) :
    c.retrieve [] = E.map fun p => ([(k, p.1)], p.2) := by
  simp only [Cache.retrieve, h.keys, h.trie, ofList_isEmpty]
  cases E with
  | nil => simp
  | cons p rest =>
    simp only [List.isEmpty_cons, Bool.false_eq_true, if_false]
    exact retr_free [] k (by simp [Asg.get, List.lookup]) _ _

theorem insert_one {c : Cache A O} {k : Nat} {E : List (A × O)} (h : One c k E) (v : A) (o : O) :
    One (c.insert [(k, v)] o) k (upd E v o) ∧ (c.insert [(k, v)] o).seen = c.seen.add [(k, v)] ∧
    (c.insert [(k, v)] o).flat = c.flat := by
  refine ⟨⟨by simp [Cache.insert, h.keys], ?_⟩, by simp [Cache.insert], by simp [Cache.insert]⟩
  simp only [Cache.insert, List.isEmpty_cons, Bool.false_eq_true, if_false, h.keys, h.trie, Cache.path,
    List.map_cons, List.map_nil, Asg.get, List.lookup, beq_self_eq_true]
  exact insert_ofList E v o

theorem lookup_upd_self (E : List (A × O)) (v : A) (o : O) : (upd E v o).lookup v = some o := by
  induction E with
  | nil => simp [upd, List.lookup]
  | cons p rest ih =>
    obtain ⟨w, q⟩ := p
    by_cases e : w = v
    · subst e; simp [upd, List.lookup]
    · have : (v == w) = false := by simp; exact fun h => e h.symm
      simp [upd, e, List.lookup, this, ih]

theorem lookup_upd_ne (E : List (A × O)) (v v' : A) (o : O) (h : v' ≠ v) :
    (upd E v o).lookup v' = E.lookup v' := by
  induction E with
  | nil =>
    have : (v' == v) = false := by simp [h]
    simp [upd, List.lookup, this]
  | cons p rest ih =>
    obtain ⟨w, q⟩ := p
    by_cases e : w = v
    · subst e
      have : (v' == w) = false := by simp [h]
      simp [upd, List.lookup, this]
    · by_cases e2 : v' = w
      · subst e2; simp [upd, e, List.lookup]
      · have : (v' == w) = false := by simp [e2]
        simp [upd, e, List.lookup, this, ih]

/-- Appending is what `upd` does to a key that is not stored yet. -/
theorem upd_fresh (E : List (A × O)) (v : A) (o : O) (h : E.lookup v = none) : upd E v o = E ++ [(v, o)] := by
  induction E with
  | nil => rfl
  | cons p rest ih =>
    obtain ⟨w, q⟩ := p
    by_cases e : w = v
    · subst e; simp [List.lookup] at h
    · have h2 : (v == w) = false := by simp; exact fun hh => e hh.symm
      simp only [List.lookup, h2] at h
      simp [upd, e, ih h]

end Eql.Cache
