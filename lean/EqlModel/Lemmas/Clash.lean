/-
  Helper lemmas for the L2 machine: a SYNTACTIC notion of incompatibility of bindings (they bind
  some variable to objects of different identity) and of extension (lookup-wise), and the fact
  that the outputs of the L1 evaluation are pairwise clashing and extend their input.
-/
import EqlModel.Lemmas.Support

namespace Eql
variable {V : Type}

/-- `β'` extends `β`: every binding of `β` is kept. -/
def Sub (β β' : Bnd V) : Prop := ∀ v a, β.lookup v = some a → β'.lookup v = some a

theorem sub_refl (β : Bnd V) : Sub β β := fun _ _ h => h
theorem sub_trans {β1 β2 β3 : Bnd V} (h1 : Sub β1 β2) (h2 : Sub β2 β3) : Sub β1 β3 :=
  fun v a h => h2 v a (h1 v a h)

theorem sub_cons_fresh {β : Bnd V} {v : VarId} (o : V) (h : β.lookup v = none) : Sub β ((v, o) :: β) := by
  intro w a hw
  have : w ≠ v := by intro e; subst e; rw [h] at hw; cases hw
  rw [lookup_cons_ne β o this]; exact hw

variable (key : V → Nat)

/-- Two bindings clash: some variable is bound by both, to objects of different identity. -/
def Clash (β β' : Bnd V) : Prop :=
  ∃ v a b, β.lookup v = some a ∧ β'.lookup v = some b ∧ key a ≠ key b

theorem clash_mono {β1 β2 β1' β2' : Bnd V} (h : Clash key β1 β2) (s1 : Sub β1 β1') (s2 : Sub β2 β2') :
    Clash key β1' β2' := by
  obtain ⟨v, a, b, h1, h2, hne⟩ := h
  exact ⟨v, a, b, s1 v a h1, s2 v b h2, hne⟩

variable (W : World V) (D : VarId → List V)

theorem term_sub : ∀ (t : Term V), t.noFlat = true → ∀ (β β' : Bnd V) (a : V),
    (β', a) ∈ evalTerm W D t β → Sub β β' := by
  intro t
  induction t with
  | var v =>
    intro _ β β' a h
    simp only [evalTerm] at h
    cases hl : β.lookup v with
    | some b => rw [hl] at h; simp at h; rw [h.1]; exact sub_refl β
    | none =>
      rw [hl] at h
      simp only [List.mem_map] at h
      obtain ⟨o, _, he⟩ := h
      rw [Prod.mk.injEq] at he
      rw [← he.1]
      exact sub_cons_fresh o hl
  | lit c => intro _ β β' a h; simp [evalTerm] at h; rw [h.1]; exact sub_refl β
  | attr n t ih =>
    intro hf β β' a h
    simp only [evalTerm, List.mem_map] at h
    obtain ⟨p, hp, he⟩ := h; cases he; exact ih hf β p.1 p.2 hp
  | index k t ih =>
    intro hf β β' a h
    simp only [evalTerm, List.mem_map] at h
    obtain ⟨p, hp, he⟩ := h; cases he; exact ih hf β p.1 p.2 hp
  | call m args t ih =>
    intro hf β β' a h
    simp only [evalTerm, List.mem_map] at h
    obtain ⟨p, hp, he⟩ := h; cases he; exact ih hf β p.1 p.2 hp
  | flatten id t _ => intro hf; simp [Term.noFlat] at hf
  | concat id t _ => intro hf; simp [Term.noFlat] at hf

theorem args_sub : ∀ (ts : List (Term V)), Terms.noFlat ts = true → ∀ (β β' : Bnd V) (as : List V),
    (β', as) ∈ evalArgs W D ts β → Sub β β' := by
  intro ts
  induction ts with
  | nil => intro _ β β' as h; simp [evalArgs] at h; rw [h.1]; exact sub_refl β
  | cons t ts ih =>
    intro hf β β' as h
    simp only [Terms.noFlat, Bool.and_eq_true] at hf
    simp only [evalArgs, List.mem_flatMap, List.mem_map] at h
    obtain ⟨p, hp, q, hq, he⟩ := h; cases he
    exact sub_trans (term_sub W D t hf.1 β p.1 p.2 hp) (ih hf.2 p.1 q.1 q.2 hq)

theorem cond_sub : ∀ (c : Cond V), c.noFlat = true → ∀ (β β' : Bnd V) (f ywf : Bool),
    (β', f) ∈ evalCond W D c β ywf → Sub β β' := by
  intro c
  induction c with
  | cmp op l r =>
    intro hf β β' f ywf h
    simp only [Cond.noFlat, Bool.and_eq_true] at hf
    simp only [evalCond] at h
    split at h
    · simp only [List.mem_flatMap] at h
      obtain ⟨p1, hp1, p2, hp2, h3⟩ := h
      split at h3 <;> simp at h3
      obtain ⟨h31, _⟩ := h3; subst h31
      exact sub_trans (term_sub W D r hf.2 β p1.1 p1.2 hp1) (term_sub W D l hf.1 p1.1 p2.1 p2.2 hp2)
    · simp only [List.mem_flatMap] at h
      obtain ⟨p1, hp1, p2, hp2, h3⟩ := h
      split at h3 <;> simp at h3
      obtain ⟨h31, _⟩ := h3; subst h31
      exact sub_trans (term_sub W D l hf.1 β p1.1 p1.2 hp1) (term_sub W D r hf.2 p1.1 p2.1 p2.2 hp2)
  | truth inv t =>
    intro hf β β' f ywf h
    simp only [Cond.noFlat] at hf
    simp only [evalCond, List.mem_flatMap] at h
    obtain ⟨p, hp, h3⟩ := h
    split at h3 <;> simp at h3
    obtain ⟨h31, _⟩ := h3; subst h31
    exact term_sub W D t hf β p.1 p.2 hp
  | pred inv n args =>
    intro hf β β' f ywf h
    simp only [Cond.noFlat] at hf
    simp only [evalCond, List.mem_flatMap] at h
    obtain ⟨p, hp, h3⟩ := h
    split at h3 <;> simp at h3
    obtain ⟨h31, _⟩ := h3; subst h31
    exact args_sub W D args hf β p.1 p.2 hp
  | and l r ihl ihr =>
    intro hf β β' f ywf h
    simp only [Cond.noFlat, Bool.and_eq_true] at hf
    simp only [evalCond, List.mem_flatMap] at h
    obtain ⟨p, hp, h3⟩ := h
    split at h3
    · simp at h3; obtain ⟨h31, _⟩ := h3; subst h31; exact ihl hf.1 β p.1 p.2 ywf hp
    · exact sub_trans (ihl hf.1 β p.1 p.2 ywf hp) (ihr hf.2 p.1 β' f ywf h3)
  | elseIf l r ihl ihr =>
    intro hf β β' f ywf h
    simp only [Cond.noFlat, Bool.and_eq_true] at hf
    simp only [evalCond] at h
    split at h
    · exact ihr hf.2 β β' f ywf h
    · simp only [List.mem_flatMap] at h
      obtain ⟨p, hp, h3⟩ := h
      split at h3
      · exact sub_trans (ihl hf.1 β p.1 p.2 true hp) (ihr hf.2 p.1 β' f ywf h3)
      · simp at h3; obtain ⟨h31, _⟩ := h3; subst h31; exact ihl hf.1 β p.1 p.2 true hp
  | sub sel c ih =>
    intro hf β β' f ywf h
    simp only [Cond.noFlat, Bool.and_eq_true] at hf
    simp only [evalCond, List.mem_flatMap, List.mem_map] at h
    obtain ⟨p, hp, q, hq, he⟩ := h; cases he
    exact sub_trans (ih hf.1 β p.1 p.2 ywf hp) (args_sub W D sel hf.2 p.1 q.1 q.2 hq)

/-- Objects of a domain have distinct identities. -/
def KeysNodup : Prop := ∀ v, ((D v).map key).Nodup

theorem term_pairwise_clash (hD : KeysNodup key D) : ∀ (t : Term V), t.noFlat = true → ∀ (β : Bnd V),
    (evalTerm W D t β).Pairwise (fun p q => Clash key p.1 q.1) := by
  intro t
  induction t with
  | var v =>
    intro _ β
    simp only [evalTerm]
    cases hl : β.lookup v with
    | some b => exact List.pairwise_singleton _ _
    | none =>
      rw [List.pairwise_map]
      have hn := List.nodup_iff_pairwise_ne.1 (hD v)
      rw [List.pairwise_map] at hn
      exact hn.imp (fun {a b} hab => ⟨v, a, b, lookup_cons_self β v a, lookup_cons_self β v b, hab⟩)
  | lit c => intro _ β; simp only [evalTerm]; exact List.pairwise_singleton _ _
  | attr n t ih => intro hf β; simp only [evalTerm, List.pairwise_map]; exact (ih hf β).imp (fun h => h)
  | index k t ih => intro hf β; simp only [evalTerm, List.pairwise_map]; exact (ih hf β).imp (fun h => h)
  | call m args t ih => intro hf β; simp only [evalTerm, List.pairwise_map]; exact (ih hf β).imp (fun h => h)
  | flatten id t _ => intro hf; simp [Term.noFlat] at hf
  | concat id t _ => intro hf; simp [Term.noFlat] at hf

theorem args_pairwise_clash (hD : KeysNodup key D) : ∀ (ts : List (Term V)), Terms.noFlat ts = true →
    ∀ (β : Bnd V), (evalArgs W D ts β).Pairwise (fun p q => Clash key p.1 q.1) := by
  intro ts
  induction ts with
  | nil => intro _ β; simp only [evalArgs]; exact List.pairwise_singleton _ _
  | cons t ts ih =>
    intro hf β
    simp only [Terms.noFlat, Bool.and_eq_true] at hf
    simp only [evalArgs, List.pairwise_flatMap]
    constructor
    · intro p _
      rw [List.pairwise_map]
      exact (ih hf.2 p.1).imp (fun h => h)
    · refine List.Pairwise.imp_of_mem ?_ (term_pairwise_clash key W D hD t hf.1 β)
      intro p p' _ _ hc x hx y hy
      simp only [List.mem_map] at hx hy
      obtain ⟨q, hq, rfl⟩ := hx
      obtain ⟨q', hq', rfl⟩ := hy
      exact clash_mono key hc (args_sub W D ts hf.2 p.1 q.1 q.2 hq) (args_sub W D ts hf.2 p'.1 q'.1 q'.2 hq')

private theorem pw_ite {γ : Type} (R : γ → γ → Prop) (b : Bool) (x : γ) :
    (if b = true then [x] else []).Pairwise R := by cases b <;> simp

theorem cond_pairwise_clash (hD : KeysNodup key D) : ∀ (c : Cond V), c.noFlat = true →
    ∀ (β : Bnd V) (ywf : Bool), (evalCond W D c β ywf).Pairwise (fun p q => Clash key p.1 q.1) := by
  intro c
  induction c with
  | cmp op l r =>
    intro hf β ywf
    simp only [Cond.noFlat, Bool.and_eq_true] at hf
    simp only [evalCond]
    split
    · rw [List.pairwise_flatMap]
      constructor
      · intro p1 _
        rw [List.pairwise_flatMap]
        constructor
        · intro p2 _; exact pw_ite _ _ _
        · refine List.Pairwise.imp_of_mem ?_ (term_pairwise_clash key W D hD l hf.1 p1.1)
          intro p2 p2' _ _ hc x hx y hy
          split at hx <;> simp at hx
          split at hy <;> simp at hy
          subst hx; subst hy; exact hc
      · refine List.Pairwise.imp_of_mem ?_ (term_pairwise_clash key W D hD r hf.2 β)
        intro p1 p1' _ _ hc x hx y hy
        simp only [List.mem_flatMap] at hx hy
        obtain ⟨p2, hp2, hx⟩ := hx
        obtain ⟨p2', hp2', hy⟩ := hy
        split at hx <;> simp at hx
        split at hy <;> simp at hy
        subst hx; subst hy
        exact clash_mono key hc (term_sub W D l hf.1 p1.1 p2.1 p2.2 hp2) (term_sub W D l hf.1 p1'.1 p2'.1 p2'.2 hp2')
    · rw [List.pairwise_flatMap]
      constructor
      · intro p1 _
        rw [List.pairwise_flatMap]
        constructor
        · intro p2 _; exact pw_ite _ _ _
        · refine List.Pairwise.imp_of_mem ?_ (term_pairwise_clash key W D hD r hf.2 p1.1)
          intro p2 p2' _ _ hc x hx y hy
          split at hx <;> simp at hx
          split at hy <;> simp at hy
          subst hx; subst hy; exact hc
      · refine List.Pairwise.imp_of_mem ?_ (term_pairwise_clash key W D hD l hf.1 β)
        intro p1 p1' _ _ hc x hx y hy
        simp only [List.mem_flatMap] at hx hy
        obtain ⟨p2, hp2, hx⟩ := hx
        obtain ⟨p2', hp2', hy⟩ := hy
        split at hx <;> simp at hx
        split at hy <;> simp at hy
        subst hx; subst hy
        exact clash_mono key hc (term_sub W D r hf.2 p1.1 p2.1 p2.2 hp2) (term_sub W D r hf.2 p1'.1 p2'.1 p2'.2 hp2')
  | truth inv t =>
    intro hf β ywf
    simp only [Cond.noFlat] at hf
    simp only [evalCond, List.pairwise_flatMap]
    constructor
    · intro p _; exact pw_ite _ _ _
    · refine List.Pairwise.imp_of_mem ?_ (term_pairwise_clash key W D hD t hf β)
      intro p p' _ _ hc x hx y hy
      split at hx <;> simp at hx
      split at hy <;> simp at hy
      subst hx; subst hy; exact hc
  | pred inv n args =>
    intro hf β ywf
    simp only [Cond.noFlat] at hf
    simp only [evalCond, List.pairwise_flatMap]
    constructor
    · intro p _; exact pw_ite _ _ _
    · refine List.Pairwise.imp_of_mem ?_ (args_pairwise_clash key W D hD args hf β)
      intro p p' _ _ hc x hx y hy
      split at hx <;> simp at hx
      split at hy <;> simp at hy
      subst hx; subst hy; exact hc
  | and l r ihl ihr =>
    intro hf β ywf
    simp only [Cond.noFlat, Bool.and_eq_true] at hf
    simp only [evalCond, List.pairwise_flatMap]
    constructor
    · intro p _
      split
      · exact List.pairwise_singleton _ _
      · exact ihr hf.2 p.1 ywf
    · refine List.Pairwise.imp_of_mem ?_ (ihl hf.1 β ywf)
      intro p p' _ _ hc x hx y hy
      have sx : Sub p.1 x.1 := by
        split at hx
        · simp at hx; subst hx; exact sub_refl _
        · exact cond_sub W D r hf.2 p.1 x.1 x.2 ywf hx
      have sy : Sub p'.1 y.1 := by
        split at hy
        · simp at hy; subst hy; exact sub_refl _
        · exact cond_sub W D r hf.2 p'.1 y.1 y.2 ywf hy
      exact clash_mono key hc sx sy
  | elseIf l r ihl ihr =>
    intro hf β ywf
    simp only [Cond.noFlat, Bool.and_eq_true] at hf
    simp only [evalCond]
    split
    · exact ihr hf.2 β ywf
    · rw [List.pairwise_flatMap]
      constructor
      · intro p _
        split
        · exact ihr hf.2 p.1 ywf
        · exact List.pairwise_singleton _ _
      · refine List.Pairwise.imp_of_mem ?_ (ihl hf.1 β true)
        intro p p' _ _ hc x hx y hy
        have sx : Sub p.1 x.1 := by
          split at hx
          · exact cond_sub W D r hf.2 p.1 x.1 x.2 ywf hx
          · simp at hx; subst hx; exact sub_refl _
        have sy : Sub p'.1 y.1 := by
          split at hy
          · exact cond_sub W D r hf.2 p'.1 y.1 y.2 ywf hy
          · simp at hy; subst hy; exact sub_refl _
        exact clash_mono key hc sx sy
  | sub sel c ih =>
    intro hf β ywf
    simp only [Cond.noFlat, Bool.and_eq_true] at hf
    simp only [evalCond, List.pairwise_flatMap]
    constructor
    · intro p _
      rw [List.pairwise_map]
      exact (args_pairwise_clash key W D hD sel hf.2 p.1).imp (fun h => h)
    · refine List.Pairwise.imp_of_mem ?_ (ih hf.1 β ywf)
      intro p p' _ _ hc x hx y hy
      simp only [List.mem_map] at hx hy
      obtain ⟨q, hq, rfl⟩ := hx
      obtain ⟨q', hq', rfl⟩ := hy
      exact clash_mono key hc (args_sub W D sel hf.2 p.1 q.1 q.2 hq) (args_sub W D sel hf.2 p'.1 q'.1 q'.2 hq')

end Eql
