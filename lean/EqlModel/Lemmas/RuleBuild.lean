/-
  Helper lemmas: the imperative construction of a rule tree (`refineAt`, `altAt`, `buildKids`)
  produces the assembled tree, for every program (used by Props/C12: c12_build_expected).
-/
import EqlModel.Props.C12

namespace Eql
variable {V : Type}

/-- One step of the path from a sub-tree to the root. -/
inductive Frame (V : Type) where
  | exL (r : RTree V)      -- the hole is the left operand of an ExceptIf whose right operand is `r`
  | exR (l : RTree V)
  | altL (r : RTree V)
  | altR (l : RTree V)

/-- Plug a sub-tree into a path (innermost frame first). -/
def plugF : List (Frame V) → RTree V → RTree V
  | [], t => t
  | .exL r :: fs, t => plugF fs (.exceptIf t r)
  | .exR l :: fs, t => plugF fs (.exceptIf l t)
  | .altL r :: fs, t => plugF fs (.alternative t r)
  | .altR l :: fs, t => plugF fs (.alternative l t)

def RTree.ids : RTree V → List Nat
  | .leaf i _ _ => [i]
  | .exceptIf l r => l.ids ++ r.ids
  | .alternative l r => l.ids ++ r.ids

def Frame.ids : Frame V → List Nat
  | .exL r => r.ids
  | .exR l => l.ids
  | .altL r => r.ids
  | .altR l => l.ids

/-- The hole is the root or a right operand. -/
def RightPos : List (Frame V) → Prop
  | [] => True
  | .exR _ :: _ => True
  | .altR _ :: _ => True
  | _ => False

theorem refineAt_notin (cur : Nat) (new : RTree V) : ∀ (t : RTree V), cur ∉ t.ids → RTree.refineAt cur new t = t := by
  intro t
  induction t with
  | leaf i c tag => intro h; simp [RTree.ids] at h; simp [RTree.refineAt, Ne.symm h]
  | exceptIf l r ihl ihr =>
    intro h; simp only [RTree.ids, List.mem_append, not_or] at h
    simp [RTree.refineAt, ihl h.1, ihr h.2]
  | alternative l r ihl ihr =>
    intro h; simp only [RTree.ids, List.mem_append, not_or] at h
    simp [RTree.refineAt, ihl h.1, ihr h.2]

theorem altGo_notin (cur : Nat) (new : RTree V) : ∀ (t : RTree V), cur ∉ t.ids →
    RTree.altGo cur new t = (t, .notFound) := by
  intro t
  induction t with
  | leaf i c tag => intro h; simp [RTree.ids] at h; simp [RTree.altGo, Ne.symm h]
  | exceptIf l r ihl ihr =>
    intro h; simp only [RTree.ids, List.mem_append, not_or] at h
    simp [RTree.altGo, ihl h.1, ihr h.2]
  | alternative l r ihl ihr =>
    intro h; simp only [RTree.ids, List.mem_append, not_or] at h
    simp [RTree.altGo, ihl h.1, ihr h.2]

theorem refineAt_plug (cur : Nat) (new : RTree V) : ∀ (fs : List (Frame V)) (t : RTree V),
    (∀ f ∈ fs, cur ∉ f.ids) → RTree.refineAt cur new (plugF fs t) = plugF fs (RTree.refineAt cur new t) := by
  intro fs
  induction fs with
  | nil => intro t _; rfl
  | cons f fs ih =>
    intro t h
    have hf := h f List.mem_cons_self
    have hr := fun g hg => h g (List.mem_cons_of_mem _ hg)
    cases f <;> simp only [plugF, Frame.ids] at hf ⊢ <;> rw [ih _ hr] <;>
      simp [RTree.refineAt, refineAt_notin cur new _ hf]

theorem wrapRefs_append (core r : RTree V) : ∀ (rs : List (RTree V)),
    wrapRefs core (rs ++ [r]) = wrapRefs (.exceptIf core r) rs := by
  intro rs
  induction rs with
  | nil => rfl
  | cons a as ih => simp [wrapRefs, ih]

theorem refineAt_wrapRefs (cur : Nat) (new : RTree V) (c : Cond V) (tag : Nat) : ∀ (refs : List (RTree V)),
    (∀ r ∈ refs, cur ∉ r.ids) →
    RTree.refineAt cur new (wrapRefs (.leaf cur c tag) refs) = wrapRefs (.leaf cur c tag) (refs ++ [new]) := by
  intro refs
  induction refs with
  | nil => intro _; simp [wrapRefs, RTree.refineAt]
  | cons r rs ih =>
    intro h
    simp only [wrapRefs, RTree.refineAt, List.cons_append]
    rw [ih (fun s hs => h s (List.mem_cons_of_mem _ hs)), refineAt_notin cur new r (h r List.mem_cons_self)]

theorem refineAt_foldl_alt (cur : Nat) (new : RTree V) : ∀ (alts : List (RTree V)) (core : RTree V),
    (∀ a ∈ alts, cur ∉ a.ids) →
    RTree.refineAt cur new (alts.foldl RTree.alternative core) =
      alts.foldl RTree.alternative (RTree.refineAt cur new core) := by
  intro alts
  induction alts with
  | nil => intro core _; rfl
  | cons a as ih =>
    intro core h
    simp only [List.foldl_cons]
    rw [ih _ (fun s hs => h s (List.mem_cons_of_mem _ hs))]
    simp [RTree.refineAt, refineAt_notin cur new a (h a List.mem_cons_self)]

/-- `refinement()` on the node that heads an assembled rule appends a refinement to it. -/
theorem refineAt_assemble (cur : Nat) (new : RTree V) (c : Cond V) (tag : Nat) (refs alts : List (RTree V))
    (hr : ∀ r ∈ refs, cur ∉ r.ids) (ha : ∀ a ∈ alts, cur ∉ a.ids) :
    RTree.refineAt cur new (assemble (.leaf cur c tag) refs alts) =
      assemble (.leaf cur c tag) (refs ++ [new]) alts := by
  unfold assemble
  rw [refineAt_foldl_alt cur new alts _ ha, refineAt_wrapRefs cur new c tag refs hr]

theorem altGo_wrapRefs (cur : Nat) (new : RTree V) (c : Cond V) (tag : Nat) : ∀ (refs : List (RTree V)),
    RTree.altGo cur new (wrapRefs (.leaf cur c tag) refs) = (wrapRefs (.leaf cur c tag) refs, .climbing) := by
  intro refs
  induction refs with
  | nil => simp [wrapRefs, RTree.altGo]
  | cons r rs ih => simp [wrapRefs, RTree.altGo, ih]

theorem altGo_foldl_alt (cur : Nat) (new : RTree V) : ∀ (alts : List (RTree V)) (core : RTree V),
    RTree.altGo cur new core = (core, .climbing) →
    RTree.altGo cur new (alts.foldl RTree.alternative core) = (alts.foldl RTree.alternative core, .climbing) := by
  intro alts
  induction alts with
  | nil => intro core h; exact h
  | cons a as ih =>
    intro core h
    simp only [List.foldl_cons]
    apply ih
    simp [RTree.altGo, h]

/-- From the head of an assembled rule the climb reaches its top. -/
theorem altGo_assemble (cur : Nat) (new : RTree V) (c : Cond V) (tag : Nat) (refs alts : List (RTree V)) :
    RTree.altGo cur new (assemble (.leaf cur c tag) refs alts) =
      (assemble (.leaf cur c tag) refs alts, .climbing) := by
  unfold assemble
  exact altGo_foldl_alt cur new alts _ (altGo_wrapRefs cur new c tag refs)

/-- Once the alternative is attached (`done`) the frames above are rebuilt unchanged. -/
theorem altGo_plug_done (cur : Nat) (new : RTree V) : ∀ (fs : List (Frame V)) (t t' : RTree V),
    (∀ f ∈ fs, cur ∉ f.ids) → RTree.altGo cur new t = (t', .done) →
    RTree.altGo cur new (plugF fs t) = (plugF fs t', .done) := by
  intro fs
  induction fs with
  | nil => intro t t' _ h; exact h
  | cons f fs ih =>
    intro t t' h hd
    have hf := h f List.mem_cons_self
    have hr := fun g hg => h g (List.mem_cons_of_mem _ hg)
    cases f with
    | exL r => exact ih _ _ hr (by simp [RTree.altGo, hd])
    | altL r => exact ih _ _ hr (by simp [RTree.altGo, hd])
    | exR l => exact ih _ _ hr (by simp only [Frame.ids] at hf; simp [RTree.altGo, altGo_notin cur new l hf, hd])
    | altR l => exact ih _ _ hr (by simp only [Frame.ids] at hf; simp [RTree.altGo, altGo_notin cur new l hf, hd])

/-- `alternative()` on the node that heads a rule `S` sitting at the root or at a right operand
    wraps exactly `S`. -/
theorem altAt_plug (cur : Nat) (new S : RTree V) (fs : List (Frame V)) (hpos : RightPos fs)
    (hfs : ∀ f ∈ fs, cur ∉ f.ids) (hS : RTree.altGo cur new S = (S, .climbing)) :
    RTree.altAt cur new (plugF fs S) = plugF fs (.alternative S new) := by
  cases fs with
  | nil => simp [RTree.altAt, plugF, hS]
  | cons f fs =>
    have hf := hfs f List.mem_cons_self
    have hr := fun g hg => hfs g (List.mem_cons_of_mem _ hg)
    cases f with
    | exL r => simp [RightPos] at hpos
    | altL r => simp [RightPos] at hpos
    | exR l =>
      simp only [Frame.ids] at hf
      have h1 : RTree.altGo cur new (.exceptIf l S) = (.exceptIf l (.alternative S new), .done) := by
        simp [RTree.altGo, altGo_notin cur new l hf, hS]
      simp only [plugF, RTree.altAt]
      rw [altGo_plug_done cur new fs _ _ hr h1]
    | altR l =>
      simp only [Frame.ids] at hf
      have h1 : RTree.altGo cur new (.alternative l S) = (.alternative l (.alternative S new), .done) := by
        simp [RTree.altGo, altGo_notin cur new l hf, hS]
      simp only [plugF, RTree.altAt]
      rw [altGo_plug_done cur new fs _ _ hr h1]

theorem assemble_alt_append (leaf new : RTree V) (refs alts : List (RTree V)) :
    RTree.alternative (assemble leaf refs alts) new = assemble leaf refs (alts ++ [new]) := by
  simp [assemble, List.foldl_append]

/-- The frames from the innermost core of an assembled rule out to its top. -/
def framesOf (refs alts : List (RTree V)) : List (Frame V) :=
  refs.reverse.map Frame.exL ++ alts.map Frame.altL

theorem plug_wrapRefs (fs : List (Frame V)) (X : RTree V) : ∀ (refs : List (RTree V)),
    plugF (refs.reverse.map Frame.exL ++ fs) X = plugF fs (wrapRefs X refs) := by
  intro refs
  induction refs generalizing X fs with
  | nil => rfl
  | cons r rs ih =>
    simp only [List.reverse_cons, List.map_append, List.map_cons, List.map_nil, List.append_assoc,
      List.singleton_append, wrapRefs]
    rw [ih (Frame.exL r :: fs) X]
    rfl

theorem plug_alts (fs : List (Frame V)) : ∀ (alts : List (RTree V)) (X : RTree V),
    plugF (alts.map Frame.altL ++ fs) X = plugF fs (alts.foldl RTree.alternative X) := by
  intro alts
  induction alts with
  | nil => intro X; rfl
  | cons a as ih => intro X; simp only [List.map_cons, List.cons_append, plugF, List.foldl_cons]; rw [ih]

theorem plug_framesOf (fs : List (Frame V)) (X : RTree V) (refs alts : List (RTree V)) :
    plugF (framesOf refs alts ++ fs) X = plugF fs (assemble X refs alts) := by
  unfold framesOf assemble
  rw [List.append_assoc, plug_wrapRefs, plug_alts]

end Eql

namespace Eql
variable {V : Type}

theorem ids_wrapRefs (X : RTree V) : ∀ (refs : List (RTree V)) (i : Nat),
    i ∈ (wrapRefs X refs).ids ↔ (i ∈ X.ids ∨ ∃ r ∈ refs, i ∈ r.ids) := by
  intro refs
  induction refs with
  | nil => intro i; simp [wrapRefs]
  | cons r rs ih =>
    intro i
    simp only [wrapRefs, RTree.ids, List.mem_append, ih i, List.mem_cons, exists_eq_or_imp]
    constructor
    · rintro ((h | h) | h)
      · exact Or.inl h
      · exact Or.inr (Or.inr h)
      · exact Or.inr (Or.inl h)
    · rintro (h | h | h)
      · exact Or.inl (Or.inl h)
      · exact Or.inr h
      · exact Or.inl (Or.inr h)

theorem ids_foldl_alt : ∀ (alts : List (RTree V)) (X : RTree V) (i : Nat),
    i ∈ (alts.foldl RTree.alternative X).ids ↔ (i ∈ X.ids ∨ ∃ a ∈ alts, i ∈ a.ids) := by
  intro alts
  induction alts with
  | nil => intro X i; simp
  | cons a as ih =>
    intro X i
    simp only [List.foldl_cons, ih, RTree.ids, List.mem_append, List.mem_cons, exists_eq_or_imp]
    constructor
    · rintro ((h | h) | h)
      · exact Or.inl h
      · exact Or.inr (Or.inl h)
      · exact Or.inr (Or.inr h)
    · rintro (h | h | h)
      · exact Or.inl (Or.inl h)
      · exact Or.inl (Or.inr h)
      · exact Or.inr h

theorem ids_assemble (X : RTree V) (refs alts : List (RTree V)) (i : Nat) :
    i ∈ (assemble X refs alts).ids ↔ (i ∈ X.ids ∨ (∃ r ∈ refs, i ∈ r.ids) ∨ ∃ a ∈ alts, i ∈ a.ids) := by
  unfold assemble
  rw [ids_foldl_alt, ids_wrapRefs, or_assoc]

/-- Identities allotted while assembling the blocks of a node lie in `[next, next')`. -/
theorem expKids_ids : ∀ (kids : SRule V) (next : Nat),
    next ≤ (expKids kids next).2.2 ∧
    (∀ t ∈ (expKids kids next).1, ∀ i ∈ t.ids, next ≤ i ∧ i < (expKids kids next).2.2) ∧
    (∀ t ∈ (expKids kids next).2.1, ∀ i ∈ t.ids, next ≤ i ∧ i < (expKids kids next).2.2) := by
  intro kids
  induction kids with
  | nil => intro next; simp [expKids]
  | cons kind c tag inner rest ihi ihr =>
    intro next
    have hi := ihi (next + 1)
    have hr := ihr (expKids inner (next + 1)).2.2
    have hsub : ∀ i ∈ (assemble (.leaf next c tag) (expKids inner (next + 1)).1 (expKids inner (next + 1)).2.1).ids,
        next ≤ i ∧ i < (expKids rest (expKids inner (next + 1)).2.2).2.2 := by
      intro i hi'
      rw [ids_assemble] at hi'
      rcases hi' with h | ⟨r, hr1, hr2⟩ | ⟨a, ha1, ha2⟩
      · simp [RTree.ids] at h; subst h; exact ⟨Nat.le_refl _, by omega⟩
      · have := hi.2.1 r hr1 i hr2; exact ⟨by omega, by omega⟩
      · have := hi.2.2 a ha1 i ha2; exact ⟨by omega, by omega⟩
    cases kind with
    | ref =>
      simp only [expKids]
      refine ⟨by omega, ?_, ?_⟩
      · intro t ht i hit
        rcases List.mem_cons.1 ht with rfl | ht
        · exact hsub i hit
        · have := hr.2.1 t ht i hit; exact ⟨by omega, this.2⟩
      · intro t ht i hit
        have := hr.2.2 t ht i hit; exact ⟨by omega, this.2⟩
    | alt =>
      simp only [expKids]
      refine ⟨by omega, ?_, ?_⟩
      · intro t ht i hit
        have := hr.2.1 t ht i hit; exact ⟨by omega, this.2⟩
      · intro t ht i hit
        rcases List.mem_cons.1 ht with rfl | ht
        · exact hsub i hit
        · have := hr.2.2 t ht i hit; exact ⟨by omega, this.2⟩

/-- Side conditions on identities: everything already built is older than `next` and is not `cur`. -/
def Older (cur next : Nat) (ids : List Nat) : Prop := ∀ i ∈ ids, i < next ∧ i ≠ cur

/-- **The construction.** Running the blocks written inside the node `cur`, whose rule so far is
    the assembled tree `assemble leaf refs alts` sitting at the root or at a right operand,
    yields the assembled tree with the new refinements and alternatives appended. -/
theorem buildKids_spec : ∀ (kids : SRule V) (cur next : Nat) (fs : List (Frame V)) (c : Cond V) (tag : Nat)
    (refs alts : List (RTree V)),
    RightPos fs → cur < next →
    (∀ f ∈ fs, Older cur next f.ids) → (∀ r ∈ refs, Older cur next r.ids) → (∀ a ∈ alts, Older cur next a.ids) →
    buildKids cur kids (plugF fs (assemble (.leaf cur c tag) refs alts)) next =
      (plugF fs (assemble (.leaf cur c tag) (refs ++ (expKids kids next).1) (alts ++ (expKids kids next).2.1)),
       (expKids kids next).2.2) := by
  intro kids
  induction kids with
  | nil => intro cur next fs c tag refs alts _ _ _ _ _; simp [buildKids, expKids]
  | cons kind c' tag' inner rest ihi ihr =>
    intro cur next fs c tag refs alts hpos hlt hfs hrefs halts
    have hfs' : ∀ f ∈ fs, cur ∉ f.ids := fun f hf h => (hfs f hf cur h).2 rfl
    have hrefs' : ∀ r ∈ refs, cur ∉ r.ids := fun r hr h => (hrefs r hr cur h).2 rfl
    have halts' : ∀ a ∈ alts, cur ∉ a.ids := fun a ha h => (halts a ha cur h).2 rfl
    have hki := expKids_ids inner (next + 1)
    -- the sub-tree of the new block once its inner blocks are run (kept opaque)
    obtain ⟨ri, hri⟩ : ∃ r, r = expKids inner (next + 1) := ⟨_, rfl⟩
    rw [← hri] at hki
    obtain ⟨sub, hsubdef⟩ : ∃ s, s = assemble (RTree.leaf next c' tag') ri.1 ri.2.1 := ⟨_, rfl⟩
    have hmono : next + 1 ≤ ri.2.2 := hki.1
    have hsub_ids : Older cur ri.2.2 sub.ids := by
      intro i hi
      rw [hsubdef, ids_assemble] at hi
      rcases hi with h | ⟨r, hr1, hr2⟩ | ⟨a, ha1, ha2⟩
      · have hin : i = next := by simpa [RTree.ids] using h
        exact ⟨by omega, by omega⟩
      · have := hki.2.1 r hr1 i hr2; exact ⟨this.2, by omega⟩
      · have := hki.2.2 a ha1 i ha2; exact ⟨this.2, by omega⟩
    have older_mono : ∀ ids, Older cur next ids → Older cur ri.2.2 ids :=
      fun ids h i hi => ⟨by have := (h i hi).1; omega, (h i hi).2⟩
    cases kind with
    | ref =>
      -- attach: refinement
      have ht1 : RTree.refineAt cur (.leaf next c' tag') (plugF fs (assemble (.leaf cur c tag) refs alts)) =
          plugF (.exR (.leaf cur c tag) :: (framesOf refs alts ++ fs)) (assemble (.leaf next c' tag') [] []) := by
        rw [refineAt_plug cur _ fs _ hfs', refineAt_assemble cur _ c tag refs alts hrefs' halts']
        have : assemble (.leaf cur c tag) (refs ++ [.leaf next c' tag']) alts =
            assemble (.exceptIf (.leaf cur c tag) (.leaf next c' tag')) refs alts := by
          simp [assemble, wrapRefs_append]
        rw [this, ← plug_framesOf]
        rfl
      -- run the inner blocks on the new leaf
      have hinner := ihi next (next + 1) (.exR (.leaf cur c tag) :: (framesOf refs alts ++ fs)) c' tag' [] []
        trivial (Nat.lt_succ_self _)
        (by
          intro f hf i hi
          rcases List.mem_cons.1 hf with rfl | hf
          · simp [Frame.ids, RTree.ids] at hi; subst hi; exact ⟨by omega, by omega⟩
          · rcases List.mem_append.1 hf with hf | hf
            · simp only [framesOf, List.mem_append, List.mem_map, List.mem_reverse] at hf
              rcases hf with ⟨r, hr, rfl⟩ | ⟨a, ha, rfl⟩
              · have := hrefs r hr i hi; exact ⟨by omega, by omega⟩
              · have := halts a ha i hi; exact ⟨by omega, by omega⟩
            · have := hfs f hf i hi; exact ⟨by omega, by omega⟩)
        (by intro r hr; cases hr) (by intro a ha; cases ha)
      simp only [List.nil_append, ← hri, ← hsubdef] at hinner
      -- back to the view from `cur`
      have hback : plugF (.exR (.leaf cur c tag) :: (framesOf refs alts ++ fs)) sub =
          plugF fs (assemble (.leaf cur c tag) (refs ++ [sub]) alts) := by
        have : assemble (.leaf cur c tag) (refs ++ [sub]) alts =
            assemble (.exceptIf (.leaf cur c tag) sub) refs alts := by
          simp [assemble, wrapRefs_append]
        rw [this, ← plug_framesOf]
        rfl
      have hrest := ihr cur ri.2.2 fs c tag (refs ++ [sub]) alts hpos (by omega)
        (fun f hf => older_mono _ (hfs f hf))
        (by
          intro r hr
          rcases List.mem_append.1 hr with hr | hr
          · exact older_mono _ (hrefs r hr)
          · simp at hr; subst hr; exact hsub_ids)
        (fun a ha => older_mono _ (halts a ha))
      simp only [buildKids, ht1, hinner]
      rw [hback, hrest]
      simp [expKids, ← hri, ← hsubdef, List.append_assoc]
    | alt =>
      have hS := altGo_assemble cur (.leaf next c' tag') c tag refs alts
      have ht1 : RTree.altAt cur (.leaf next c' tag') (plugF fs (assemble (.leaf cur c tag) refs alts)) =
          plugF (.altR (assemble (.leaf cur c tag) refs alts) :: fs) (assemble (.leaf next c' tag') [] []) := by
        rw [altAt_plug cur _ _ fs hpos hfs' hS]
        rfl
      have hinner := ihi next (next + 1) (.altR (assemble (.leaf cur c tag) refs alts) :: fs) c' tag' [] []
        trivial (Nat.lt_succ_self _)
        (by
          intro f hf i hi
          rcases List.mem_cons.1 hf with rfl | hf
          · simp only [Frame.ids] at hi
            rw [ids_assemble] at hi
            rcases hi with h | ⟨r, hr1, hr2⟩ | ⟨a, ha1, ha2⟩
            · simp [RTree.ids] at h; subst h; exact ⟨by omega, by omega⟩
            · have := hrefs r hr1 i hr2; exact ⟨by omega, by omega⟩
            · have := halts a ha1 i ha2; exact ⟨by omega, by omega⟩
          · have := hfs f hf i hi; exact ⟨by omega, by omega⟩)
        (by intro r hr; cases hr) (by intro a ha; cases ha)
      simp only [List.nil_append, ← hri, ← hsubdef] at hinner
      have hback : plugF (.altR (assemble (.leaf cur c tag) refs alts) :: fs) sub =
          plugF fs (assemble (.leaf cur c tag) refs (alts ++ [sub])) := by
        rw [← assemble_alt_append]
        rfl
      have hrest := ihr cur ri.2.2 fs c tag refs (alts ++ [sub]) hpos (by omega)
        (fun f hf => older_mono _ (hfs f hf))
        (fun r hr => older_mono _ (hrefs r hr))
        (by
          intro a ha
          rcases List.mem_append.1 ha with ha | ha
          · exact older_mono _ (halts a ha)
          · simp at ha; subst ha; exact hsub_ids)
      simp only [buildKids, ht1, hinner]
      rw [hback, hrest]
      simp [expKids, ← hri, ← hsubdef, List.append_assoc]

/-- **The transliterated imperative construction produces the prescribed tree**, for every
    surface program (any nesting and interleaving of refinement and alternative blocks). -/
theorem c12_build_expected (c0 : Cond V) (tag0 : Nat) (kids : SRule V) :
    buildRule c0 tag0 kids = expected c0 tag0 kids := by
  have := buildKids_spec kids 0 1 [] c0 tag0 [] [] trivial (by omega)
    (by intro f hf; cases hf) (by intro r hr; cases hr) (by intro a ha; cases ha)
  simp only [plugF, List.nil_append] at this
  have h0 : assemble (RTree.leaf 0 c0 tag0) [] [] = RTree.leaf 0 c0 tag0 := rfl
  rw [h0] at this
  simp [buildRule, expected, this]

/-- Hence the tree the library constructs selects the ripple-down conclusion. -/
theorem c12_build_fire (W : World V) (α : Asg V) (c0 : Cond V) (tag0 : Nat) (kids : SRule V) :
    (buildRule c0 tag0 kids).concl W α = fireRule W α c0 tag0 kids := by
  rw [c12_build_expected, c12_expected_fire]

end Eql
