/-
  Admissibility of the OUTPUT bindings of the L1 evaluator with `flatten` (UNNEST) nodes.

  `Lemmas/Flat.lean` shows: every output binding agrees with every admissible assignment that extends it.
  This file shows that such an assignment EXISTS: the binding an evaluation produces gives every variable a
  member of its domain and every flatten node an element of the collection its operand denotes under the
  same binding (`Adm`), and a true output of a condition whose disjunctions bind the same ids on both
  sides (`Cond.uniformB`) binds every id of the condition.  Together: `asgOf β'` is an admissible
  assignment (`CondOk`) - the witness that turns the soundness statement of C16 into an equivalence.

    Shape Sh              ids are either variables (`Sh id = none`) or flatten nodes with ONE operand
    Adm Sh β              the invariant
    term_sub_f, args_sub_f, cond_sub_f      outputs extend their input
    term_covers_f, args_covers_f            outputs bind every id of the term
    term_adm, args_adm, cond_adm            `Adm` is preserved by every output
    termOk_of_bound, termsOk_of_bound, condOk_of_bound
    true_output_total_f                     a true output of a uniform condition binds all its ids
-/
import EqlModel.Lemmas.Flat
import EqlModel.Lemmas.Clash

namespace Eql
variable {V : Type}

/-- Ids are variables (`none`) or flatten nodes, each with its one operand. -/
abbrev Shape (V : Type) := VarId → Option (Term V)

def Term.shaped (Sh : Shape V) : Term V → Prop
  | .var v => Sh v = none
  | .lit _ => True
  | .attr _ t => t.shaped Sh
  | .index _ t => t.shaped Sh
  | .call _ _ t => t.shaped Sh
  | .flatten id t => Sh id = some t ∧ t.shaped Sh
  | .concat _ _ => False

def Terms.shaped (Sh : Shape V) : List (Term V) → Prop
  | [] => True
  | t :: ts => t.shaped Sh ∧ Terms.shaped Sh ts

def Cond.shaped (Sh : Shape V) : Cond V → Prop
  | .cmp _ l r => l.shaped Sh ∧ r.shaped Sh
  | .truth _ t => t.shaped Sh
  | .pred _ _ args => Terms.shaped Sh args
  | .and l r => Cond.shaped Sh l ∧ Cond.shaped Sh r
  | .elseIf l r => Cond.shaped Sh l ∧ Cond.shaped Sh r
  | .sub sel c => Cond.shaped Sh c ∧ Terms.shaped Sh sel

/-- Every disjunction binds the same ids (variables and flatten nodes) on both sides. -/
def Cond.uniformB : Cond V → Prop
  | .cmp _ _ _ => True
  | .truth _ _ => True
  | .pred _ _ _ => True
  | .and l r => Cond.uniformB l ∧ Cond.uniformB r
  | .elseIf l r => (∀ v, v ∈ l.binds ↔ v ∈ r.binds) ∧ Cond.uniformB l ∧ Cond.uniformB r
  | .sub _ c => Cond.uniformB c

/-- The total assignment read off a binding. -/
def asgOf [Inhabited V] (β : Bnd V) : Asg V := fun v => (β.lookup v).getD default

theorem ext_asgOf [Inhabited V] (β : Bnd V) : Ext β (asgOf β) := by
  intro v a h; simp [asgOf, h]

theorem bound_of_sub {β β' : Bnd V} (h : Sub β β') {w : VarId} (hw : bound β w = true) :
    bound β' w = true := by
  cases hl : β.lookup w with
  | none => simp [bound, hl] at hw
  | some a => simp [bound, h w a hl]

theorem ext_of_sub {β β' : Bnd V} (h : Sub β β') {α : Asg V} (hα : Ext β' α) : Ext β α :=
  fun v a hv => hα v a (h v a hv)

variable (W : World V) (D : VarId → List V)

/-- The operand of a flatten node does not bind the node's own id. -/
theorem term_fresh_f (t : Term V) (ht : t.okF = true) (id : VarId) (hid : t.binds.contains id = false)
    (β β' : Bnd V) (a : V) (hfree : β.lookup id = none) (h : (β', a) ∈ evalTerm W D t β) :
    β'.lookup id = none := by
  cases hp1 : β'.lookup id with
  | none => rfl
  | some b =>
    exfalso
    have hb : bound β' id = true := by simp [bound, hp1]
    rcases term_binds_f W D t ht β β' a h id hb with h1 | h1
    · simp [bound, hfree] at h1
    · simp at hid; exact hid h1

theorem term_sub_f : ∀ (t : Term V), t.okF = true → ∀ (β β' : Bnd V) (a : V),
    (β', a) ∈ evalTerm W D t β → Sub β β' := by
  intro t
  induction t with
  | var v =>
    intro _ β β' a h
    simp only [evalTerm] at h
    cases hl : β.lookup v with
    | some b => rw [hl] at h; simp at h; rw [h.1]; exact sub_refl β
    | none =>
      rw [hl] at h
      simp only [List.mem_map] at h
      obtain ⟨o, _, he⟩ := h
      rw [Prod.mk.injEq] at he
      rw [← he.1]
      exact sub_cons_fresh o hl
  | lit c => intro _ β β' a h; simp [evalTerm] at h; rw [h.1]; exact sub_refl β
  | attr n t ih =>
    intro hf β β' a h
    simp only [evalTerm, List.mem_map] at h
    obtain ⟨p, hp, he⟩ := h; cases he; exact ih hf β p.1 p.2 hp
  | index k t ih =>
    intro hf β β' a h
    simp only [evalTerm, List.mem_map] at h
    obtain ⟨p, hp, he⟩ := h; cases he; exact ih hf β p.1 p.2 hp
  | call m args t ih =>
    intro hf β β' a h
    simp only [evalTerm, List.mem_map] at h
    obtain ⟨p, hp, he⟩ := h; cases he; exact ih hf β p.1 p.2 hp
  | flatten id t ih =>
    intro hf β β' a h
    simp only [Term.okF, Bool.and_eq_true] at hf
    simp only [evalTerm] at h
    cases hl : β.lookup id with
    | some b => rw [hl] at h; simp at h; rw [h.1]; exact sub_refl β
    | none =>
      rw [hl] at h
      simp only [List.mem_flatMap, List.mem_map] at h
      obtain ⟨p, hp, e, _, he⟩ := h
      cases he
      have hfr := term_fresh_f W D t hf.1 id (by simpa using hf.2) β p.1 p.2 hl hp
      exact sub_trans (ih hf.1 β p.1 p.2 hp) (sub_cons_fresh _ hfr)
  | concat id t _ => intro hf; simp [Term.okF] at hf

theorem args_sub_f : ∀ (ts : List (Term V)), Terms.okF ts = true → ∀ (β β' : Bnd V) (as : List V),
    (β', as) ∈ evalArgs W D ts β → Sub β β' := by
  intro ts
  induction ts with
  | nil => intro _ β β' as h; simp [evalArgs] at h; rw [h.1]; exact sub_refl β
  | cons t ts ih =>
    intro hf β β' as h
    simp only [Terms.okF, Bool.and_eq_true] at hf
    simp only [evalArgs, List.mem_flatMap, List.mem_map] at h
    obtain ⟨p, hp, q, hq, he⟩ := h; cases he
    exact sub_trans (term_sub_f W D t hf.1 β p.1 p.2 hp) (ih hf.2 p.1 q.1 q.2 hq)

theorem cond_sub_f : ∀ (c : Cond V), Cond.okF c = true → ∀ (β β' : Bnd V) (f ywf : Bool),
    (β', f) ∈ evalCond W D c β ywf → Sub β β' := by
  intro c
  induction c with
  | cmp op l r =>
    intro hf β β' f ywf h
    simp only [Cond.okF, Bool.and_eq_true] at hf
    simp only [evalCond] at h
    split at h
    · simp only [List.mem_flatMap] at h
      obtain ⟨p1, hp1, p2, hp2, h3⟩ := h
      split at h3 <;> simp at h3
      obtain ⟨h31, _⟩ := h3; subst h31
      exact sub_trans (term_sub_f W D r hf.2 β p1.1 p1.2 hp1) (term_sub_f W D l hf.1 p1.1 p2.1 p2.2 hp2)
    · simp only [List.mem_flatMap] at h
      obtain ⟨p1, hp1, p2, hp2, h3⟩ := h
      split at h3 <;> simp at h3
      obtain ⟨h31, _⟩ := h3; subst h31
      exact sub_trans (term_sub_f W D l hf.1 β p1.1 p1.2 hp1) (term_sub_f W D r hf.2 p1.1 p2.1 p2.2 hp2)
  | truth inv t =>
    intro hf β β' f ywf h
    simp only [Cond.okF] at hf
    simp only [evalCond, List.mem_flatMap] at h
    obtain ⟨p, hp, h3⟩ := h
    split at h3 <;> simp at h3
    obtain ⟨h31, _⟩ := h3; subst h31
    exact term_sub_f W D t hf β p.1 p.2 hp
  | pred inv n args =>
    intro hf β β' f ywf h
    simp only [Cond.okF] at hf
    simp only [evalCond, List.mem_flatMap] at h
    obtain ⟨p, hp, h3⟩ := h
    split at h3 <;> simp at h3
    obtain ⟨h31, _⟩ := h3; subst h31
    exact args_sub_f W D args hf β p.1 p.2 hp
  | and l r ihl ihr =>
    intro hf β β' f ywf h
    simp only [Cond.okF, Bool.and_eq_true] at hf
    simp only [evalCond, List.mem_flatMap] at h
    obtain ⟨p, hp, h3⟩ := h
    split at h3
    · simp at h3; obtain ⟨h31, _⟩ := h3; subst h31; exact ihl hf.1 β p.1 p.2 ywf hp
    · exact sub_trans (ihl hf.1 β p.1 p.2 ywf hp) (ihr hf.2 p.1 β' f ywf h3)
  | elseIf l r ihl ihr =>
    intro hf β β' f ywf h
    simp only [Cond.okF, Bool.and_eq_true] at hf
    simp only [evalCond] at h
    split at h
    · exact ihr hf.2 β β' f ywf h
    · simp only [List.mem_flatMap] at h
      obtain ⟨p, hp, h3⟩ := h
      split at h3
      · exact sub_trans (ihl hf.1 β p.1 p.2 true hp) (ihr hf.2 p.1 β' f ywf h3)
      · simp at h3; obtain ⟨h31, _⟩ := h3; subst h31; exact ihl hf.1 β p.1 p.2 true hp
  | sub sel c ih =>
    intro hf β β' f ywf h
    simp only [Cond.okF, Bool.and_eq_true] at hf
    simp only [evalCond, List.mem_flatMap, List.mem_map] at h
    obtain ⟨p, hp, q, hq, he⟩ := h; cases he
    exact sub_trans (ih hf.1 β p.1 p.2 ywf hp) (args_sub_f W D sel hf.2 p.1 q.1 q.2 hq)

/-- The invariant: a bound variable holds a member of its domain; a bound flatten node holds an element
    of what its operand denotes, and the operand's ids are bound with it. -/
def Adm (Sh : Shape V) (β : Bnd V) : Prop :=
  ∀ id a, β.lookup id = some a →
    (Sh id = none → a ∈ D id) ∧
    (∀ t, Sh id = some t → (∀ w ∈ t.binds, bound β w = true) ∧
      ∀ α, Ext β α → TermOk W D α t ∧ a ∈ W.items (termVal W α t))

theorem adm_nil (Sh : Shape V) : Adm W D Sh ([] : Bnd V) := by
  intro id a h; simp [List.lookup] at h

/-- Extending an admissible binding by one admissible entry. -/
theorem adm_cons {Sh : Shape V} {β : Bnd V} {v : VarId} {o : V} (h : Adm W D Sh β) (hfr : β.lookup v = none)
    (h1 : Sh v = none → o ∈ D v)
    (h2 : ∀ t, Sh v = some t → (∀ w ∈ t.binds, bound ((v, o) :: β) w = true) ∧
      ∀ α, Ext ((v, o) :: β) α → TermOk W D α t ∧ o ∈ W.items (termVal W α t)) :
    Adm W D Sh ((v, o) :: β) := by
  have hs : Sub β ((v, o) :: β) := sub_cons_fresh o hfr
  intro id a hl
  by_cases e : id = v
  · subst e
    rw [lookup_cons_self] at hl
    cases hl
    exact ⟨h1, h2⟩
  · rw [lookup_cons_ne β o e] at hl
    obtain ⟨a1, a2⟩ := h id a hl
    refine ⟨a1, ?_⟩
    intro t ht
    obtain ⟨b1, b2⟩ := a2 t ht
    exact ⟨fun w hw => bound_of_sub hs (b1 w hw), fun α hα => b2 α (ext_of_sub hs hα)⟩

/-- Outputs of a term bind every id of the term. -/
theorem term_covers_f (Sh : Shape V) : ∀ (t : Term V), t.okF = true → t.shaped Sh → ∀ (β β' : Bnd V) (a : V),
    Adm W D Sh β → (β', a) ∈ evalTerm W D t β → ∀ w ∈ t.binds, bound β' w = true := by
  intro t
  induction t with
  | var v =>
    intro _ _ β β' a _ h w hw
    simp only [Term.binds, List.mem_singleton] at hw
    subst hw
    simp only [evalTerm] at h
    cases hl : β.lookup w with
    | some b => rw [hl] at h; simp at h; rw [h.1]; simp [bound, hl]
    | none =>
      rw [hl] at h
      simp only [List.mem_map] at h
      obtain ⟨o, _, he⟩ := h
      cases he
      exact bound_cons.2 (Or.inl rfl)
  | lit c => intro _ _ β β' a _ h w hw; simp [Term.binds] at hw
  | attr n t ih =>
    intro hf hs β β' a hadm h
    simp only [evalTerm, List.mem_map] at h
    obtain ⟨p, hp, he⟩ := h; cases he; exact ih hf hs β p.1 p.2 hadm hp
  | index k t ih =>
    intro hf hs β β' a hadm h
    simp only [evalTerm, List.mem_map] at h
    obtain ⟨p, hp, he⟩ := h; cases he; exact ih hf hs β p.1 p.2 hadm hp
  | call m args t ih =>
    intro hf hs β β' a hadm h
    simp only [evalTerm, List.mem_map] at h
    obtain ⟨p, hp, he⟩ := h; cases he; exact ih hf hs β p.1 p.2 hadm hp
  | flatten id t ih =>
    intro hf hs β β' a hadm h w hw
    simp only [Term.okF, Bool.and_eq_true] at hf
    simp only [Term.shaped] at hs
    simp only [Term.binds, List.mem_cons] at hw
    simp only [evalTerm] at h
    cases hl : β.lookup id with
    | some b =>
      rw [hl] at h; simp at h
      obtain ⟨h1, _⟩ := h; subst h1
      rcases hw with hw | hw
      · subst hw; simp [bound, hl]
      · exact ((hadm id b hl).2 t hs.1).1 w hw
    | none =>
      rw [hl] at h
      simp only [List.mem_flatMap, List.mem_map] at h
      obtain ⟨p, hp, e, _, he⟩ := h
      cases he
      rcases hw with hw | hw
      · subst hw; exact bound_cons.2 (Or.inl rfl)
      · exact bound_cons.2 (Or.inr (ih hf.1 hs.2 β p.1 p.2 hadm hp w hw))
  | concat id t _ => intro hf; simp [Term.okF] at hf

/-- Under an admissible binding that binds all ids of a term, every extension is admissible for the term. -/
theorem termOk_of_bound (Sh : Shape V) : ∀ (t : Term V), t.shaped Sh → ∀ (β : Bnd V), Adm W D Sh β →
    (∀ w ∈ t.binds, bound β w = true) → ∀ α, Ext β α → TermOk W D α t := by
  intro t
  induction t with
  | var v =>
    intro hs β hadm hb α hα
    simp only [Term.shaped] at hs
    have hv := hb v (by simp [Term.binds])
    cases hl : β.lookup v with
    | none => simp [bound, hl] at hv
    | some a =>
      simp only [TermOk]
      rw [hα v a hl]
      exact (hadm v a hl).1 hs
  | lit c => intro _ _ _ _ _ _; trivial
  | attr n t ih => intro hs β hadm hb α hα; exact ih hs β hadm hb α hα
  | index k t ih => intro hs β hadm hb α hα; exact ih hs β hadm hb α hα
  | call m args t ih => intro hs β hadm hb α hα; exact ih hs β hadm hb α hα
  | flatten id t _ =>
    intro hs β hadm hb α hα
    simp only [Term.shaped] at hs
    have hv := hb id (by simp [Term.binds])
    cases hl : β.lookup id with
    | none => simp [bound, hl] at hv
    | some a =>
      have := ((hadm id a hl).2 t hs.1).2 α hα
      simp only [TermOk]
      rw [hα id a hl]
      exact this
  | concat id t _ => intro hs; simp [Term.shaped] at hs

/-- `Adm` is preserved by the outputs of a term. -/
theorem term_adm (Sh : Shape V) : ∀ (t : Term V), t.okF = true → t.shaped Sh → ∀ (β β' : Bnd V) (a : V),
    Adm W D Sh β → (β', a) ∈ evalTerm W D t β → Adm W D Sh β' := by
  intro t
  induction t with
  | var v =>
    intro _ hs β β' a hadm h
    simp only [Term.shaped] at hs
    simp only [evalTerm] at h
    cases hl : β.lookup v with
    | some b => rw [hl] at h; simp at h; rw [h.1]; exact hadm
    | none =>
      rw [hl] at h
      simp only [List.mem_map] at h
      obtain ⟨o, ho, he⟩ := h
      cases he
      exact adm_cons W D hadm hl (fun _ => ho) (fun t ht => by rw [hs] at ht; cases ht)
  | lit c => intro _ _ β β' a hadm h; simp [evalTerm] at h; rw [h.1]; exact hadm
  | attr n t ih =>
    intro hf hs β β' a hadm h
    simp only [evalTerm, List.mem_map] at h
    obtain ⟨p, hp, he⟩ := h; cases he; exact ih hf hs β p.1 p.2 hadm hp
  | index k t ih =>
    intro hf hs β β' a hadm h
    simp only [evalTerm, List.mem_map] at h
    obtain ⟨p, hp, he⟩ := h; cases he; exact ih hf hs β p.1 p.2 hadm hp
  | call m args t ih =>
    intro hf hs β β' a hadm h
    simp only [evalTerm, List.mem_map] at h
    obtain ⟨p, hp, he⟩ := h; cases he; exact ih hf hs β p.1 p.2 hadm hp
  | flatten id t ih =>
    intro hf hs β β' a hadm h
    have hokf : (Term.flatten id t).okF = true := hf
    simp only [Term.okF, Bool.and_eq_true] at hf
    simp only [Term.shaped] at hs
    simp only [evalTerm] at h
    cases hl : β.lookup id with
    | some b => rw [hl] at h; simp at h; rw [h.1]; exact hadm
    | none =>
      rw [hl] at h
      simp only [List.mem_flatMap, List.mem_map] at h
      obtain ⟨p, hp, e, he, heq⟩ := h
      cases heq
      have hfr := term_fresh_f W D t hf.1 id (by simpa using hf.2) β p.1 p.2 hl hp
      have hp1 := ih hf.1 hs.2 β p.1 p.2 hadm hp
      have hcov := term_covers_f W D Sh t hf.1 hs.2 β p.1 p.2 hadm hp
      refine adm_cons W D hp1 hfr (fun hn => by rw [hs.1] at hn; cases hn) ?_
      intro t' ht'
      rw [hs.1] at ht'
      cases ht'
      refine ⟨fun w hw => bound_cons.2 (Or.inr (hcov w hw)), ?_⟩
      intro α hα
      have hx := (ext_cons_fresh hfr).1 hα
      have hsound := term_sound_f W D t hf.1 β p.1 p.2 hp α hx.2
      refine ⟨?_, by rw [hsound.2]; exact he⟩
      -- the operand is admissible under α: all its ids are bound in p.1, which is admissible
      exact termOk_of_bound W D Sh t hs.2 p.1 hp1 hcov α hx.2
  | concat id t _ => intro hf; simp [Term.okF] at hf

theorem args_adm (Sh : Shape V) : ∀ (ts : List (Term V)), Terms.okF ts = true → Terms.shaped Sh ts →
    ∀ (β β' : Bnd V) (as : List V), Adm W D Sh β → (β', as) ∈ evalArgs W D ts β → Adm W D Sh β' := by
  intro ts
  induction ts with
  | nil => intro _ _ β β' as hadm h; simp [evalArgs] at h; rw [h.1]; exact hadm
  | cons t ts ih =>
    intro hf hs β β' as hadm h
    simp only [Terms.okF, Bool.and_eq_true] at hf
    simp only [Terms.shaped] at hs
    simp only [evalArgs, List.mem_flatMap, List.mem_map] at h
    obtain ⟨p, hp, q, hq, he⟩ := h; cases he
    exact ih hf.2 hs.2 p.1 q.1 q.2 (term_adm W D Sh t hf.1 hs.1 β p.1 p.2 hadm hp) hq

theorem args_covers_f (Sh : Shape V) : ∀ (ts : List (Term V)), Terms.okF ts = true → Terms.shaped Sh ts →
    ∀ (β β' : Bnd V) (as : List V), Adm W D Sh β → (β', as) ∈ evalArgs W D ts β →
    ∀ w ∈ Terms.binds ts, bound β' w = true := by
  intro ts
  induction ts with
  | nil => intro _ _ β β' as _ _ w hw; simp [Terms.binds] at hw
  | cons t ts ih =>
    intro hf hs β β' as hadm h w hw
    simp only [Terms.okF, Bool.and_eq_true] at hf
    simp only [Terms.shaped] at hs
    simp only [Terms.binds, List.mem_append] at hw
    simp only [evalArgs, List.mem_flatMap, List.mem_map] at h
    obtain ⟨p, hp, q, hq, he⟩ := h; cases he
    rcases hw with hw | hw
    · exact bound_of_sub (args_sub_f W D ts hf.2 p.1 q.1 q.2 hq)
        (term_covers_f W D Sh t hf.1 hs.1 β p.1 p.2 hadm hp w hw)
    · exact ih hf.2 hs.2 p.1 q.1 q.2 (term_adm W D Sh t hf.1 hs.1 β p.1 p.2 hadm hp) hq w hw

theorem termsOk_of_bound (Sh : Shape V) : ∀ (ts : List (Term V)), Terms.shaped Sh ts → ∀ (β : Bnd V),
    Adm W D Sh β → (∀ w ∈ Terms.binds ts, bound β w = true) → ∀ α, Ext β α → TermsOk W D α ts := by
  intro ts
  induction ts with
  | nil => intro _ _ _ _ _ _; trivial
  | cons t ts ih =>
    intro hs β hadm hb α hα
    simp only [Terms.shaped] at hs
    exact ⟨termOk_of_bound W D Sh t hs.1 β hadm (fun w hw => hb w (by simp [Terms.binds, hw])) α hα,
      ih hs.2 β hadm (fun w hw => hb w (by simp [Terms.binds, hw])) α hα⟩

theorem condOk_of_bound (Sh : Shape V) : ∀ (c : Cond V), Cond.shaped Sh c → ∀ (β : Bnd V),
    Adm W D Sh β → (∀ w ∈ c.binds, bound β w = true) → ∀ α, Ext β α → CondOk W D α c := by
  intro c
  induction c with
  | cmp op l r =>
    intro hs β hadm hb α hα
    simp only [Cond.shaped] at hs
    exact ⟨termOk_of_bound W D Sh l hs.1 β hadm (fun w hw => hb w (by simp [Cond.binds, hw])) α hα,
      termOk_of_bound W D Sh r hs.2 β hadm (fun w hw => hb w (by simp [Cond.binds, hw])) α hα⟩
  | truth inv t =>
    intro hs β hadm hb α hα
    exact termOk_of_bound W D Sh t hs β hadm (fun w hw => hb w (by simpa [Cond.binds] using hw)) α hα
  | pred inv n args =>
    intro hs β hadm hb α hα
    exact termsOk_of_bound W D Sh args hs β hadm (fun w hw => hb w (by simpa [Cond.binds] using hw)) α hα
  | and l r ihl ihr =>
    intro hs β hadm hb α hα
    simp only [Cond.shaped] at hs
    exact ⟨ihl hs.1 β hadm (fun w hw => hb w (by simp [Cond.binds, hw])) α hα,
      ihr hs.2 β hadm (fun w hw => hb w (by simp [Cond.binds, hw])) α hα⟩
  | elseIf l r ihl ihr =>
    intro hs β hadm hb α hα
    simp only [Cond.shaped] at hs
    exact ⟨ihl hs.1 β hadm (fun w hw => hb w (by simp [Cond.binds, hw])) α hα,
      ihr hs.2 β hadm (fun w hw => hb w (by simp [Cond.binds, hw])) α hα⟩
  | sub sel c ih =>
    intro hs β hadm hb α hα
    simp only [Cond.shaped] at hs
    exact ⟨ih hs.1 β hadm (fun w hw => hb w (by simp [Cond.binds, hw])) α hα,
      termsOk_of_bound W D Sh sel hs.2 β hadm (fun w hw => hb w (by simp [Cond.binds, hw])) α hα⟩

/-- `Adm` is preserved by every output of a condition, true or false. -/
theorem cond_adm (Sh : Shape V) : ∀ (c : Cond V), Cond.okF c = true → Cond.shaped Sh c →
    ∀ (β β' : Bnd V) (f ywf : Bool), Adm W D Sh β → (β', f) ∈ evalCond W D c β ywf → Adm W D Sh β' := by
  intro c
  induction c with
  | cmp op l r =>
    intro hf hs β β' f ywf hadm h
    simp only [Cond.okF, Bool.and_eq_true] at hf
    simp only [Cond.shaped] at hs
    simp only [evalCond] at h
    split at h
    · simp only [List.mem_flatMap] at h
      obtain ⟨p1, hp1, p2, hp2, h3⟩ := h
      split at h3 <;> simp at h3
      obtain ⟨h31, _⟩ := h3; subst h31
      exact term_adm W D Sh l hf.1 hs.1 p1.1 p2.1 p2.2 (term_adm W D Sh r hf.2 hs.2 β p1.1 p1.2 hadm hp1) hp2
    · simp only [List.mem_flatMap] at h
      obtain ⟨p1, hp1, p2, hp2, h3⟩ := h
      split at h3 <;> simp at h3
      obtain ⟨h31, _⟩ := h3; subst h31
      exact term_adm W D Sh r hf.2 hs.2 p1.1 p2.1 p2.2 (term_adm W D Sh l hf.1 hs.1 β p1.1 p1.2 hadm hp1) hp2
  | truth inv t =>
    intro hf hs β β' f ywf hadm h
    simp only [Cond.okF] at hf
    simp only [evalCond, List.mem_flatMap] at h
    obtain ⟨p, hp, h3⟩ := h
    split at h3 <;> simp at h3
    obtain ⟨h31, _⟩ := h3; subst h31
    exact term_adm W D Sh t hf hs β p.1 p.2 hadm hp
  | pred inv n args =>
    intro hf hs β β' f ywf hadm h
    simp only [Cond.okF] at hf
    simp only [evalCond, List.mem_flatMap] at h
    obtain ⟨p, hp, h3⟩ := h
    split at h3 <;> simp at h3
    obtain ⟨h31, _⟩ := h3; subst h31
    exact args_adm W D Sh args hf hs β p.1 p.2 hadm hp
  | and l r ihl ihr =>
    intro hf hs β β' f ywf hadm h
    simp only [Cond.okF, Bool.and_eq_true] at hf
    simp only [Cond.shaped] at hs
    simp only [evalCond, List.mem_flatMap] at h
    obtain ⟨p, hp, h3⟩ := h
    split at h3
    · simp at h3; obtain ⟨h31, _⟩ := h3; subst h31; exact ihl hf.1 hs.1 β p.1 p.2 ywf hadm hp
    · exact ihr hf.2 hs.2 p.1 β' f ywf (ihl hf.1 hs.1 β p.1 p.2 ywf hadm hp) h3
  | elseIf l r ihl ihr =>
    intro hf hs β β' f ywf hadm h
    simp only [Cond.okF, Bool.and_eq_true] at hf
    simp only [Cond.shaped] at hs
    simp only [evalCond] at h
    split at h
    · exact ihr hf.2 hs.2 β β' f ywf hadm h
    · simp only [List.mem_flatMap] at h
      obtain ⟨p, hp, h3⟩ := h
      split at h3
      · exact ihr hf.2 hs.2 p.1 β' f ywf (ihl hf.1 hs.1 β p.1 p.2 true hadm hp) h3
      · simp at h3; obtain ⟨h31, _⟩ := h3; subst h31; exact ihl hf.1 hs.1 β p.1 p.2 true hadm hp
  | sub sel c ih =>
    intro hf hs β β' f ywf hadm h
    simp only [Cond.okF, Bool.and_eq_true] at hf
    simp only [Cond.shaped] at hs
    simp only [evalCond, List.mem_flatMap, List.mem_map] at h
    obtain ⟨p, hp, q, hq, he⟩ := h; cases he
    exact args_adm W D Sh sel hf.2 hs.2 p.1 q.1 q.2 (ih hf.1 hs.1 β p.1 p.2 ywf hadm hp) hq

/-- A true output of a uniform condition binds every id of the condition. -/
theorem true_output_total_f (Sh : Shape V) : ∀ (c : Cond V), Cond.okF c = true → Cond.shaped Sh c →
    Cond.uniformB c → ∀ (β β' : Bnd V) (ywf : Bool), Adm W D Sh β → (β', false) ∈ evalCond W D c β ywf →
    ∀ v ∈ c.binds, bound β' v = true := by
  intro c
  induction c with
  | cmp op l r =>
    intro hf hs _ β β' ywf hadm h v hv
    simp only [Cond.okF, Bool.and_eq_true] at hf
    simp only [Cond.shaped] at hs
    simp only [evalCond] at h
    simp only [Cond.binds, List.mem_append] at hv
    split at h
    · simp only [List.mem_flatMap] at h
      obtain ⟨p1, hp1, p2, hp2, h3⟩ := h
      split at h3 <;> simp at h3
      obtain ⟨h31, _⟩ := h3; subst h31
      have a1 := term_covers_f W D Sh r hf.2 hs.2 β p1.1 p1.2 hadm hp1
      have a2 := term_covers_f W D Sh l hf.1 hs.1 p1.1 p2.1 p2.2 (term_adm W D Sh r hf.2 hs.2 β p1.1 p1.2 hadm hp1) hp2
      rcases hv with hv | hv
      · exact a2 v hv
      · exact bound_of_sub (term_sub_f W D l hf.1 p1.1 p2.1 p2.2 hp2) (a1 v hv)
    · simp only [List.mem_flatMap] at h
      obtain ⟨p1, hp1, p2, hp2, h3⟩ := h
      split at h3 <;> simp at h3
      obtain ⟨h31, _⟩ := h3; subst h31
      have a1 := term_covers_f W D Sh l hf.1 hs.1 β p1.1 p1.2 hadm hp1
      have a2 := term_covers_f W D Sh r hf.2 hs.2 p1.1 p2.1 p2.2 (term_adm W D Sh l hf.1 hs.1 β p1.1 p1.2 hadm hp1) hp2
      rcases hv with hv | hv
      · exact bound_of_sub (term_sub_f W D r hf.2 p1.1 p2.1 p2.2 hp2) (a1 v hv)
      · exact a2 v hv
  | truth inv t =>
    intro hf hs _ β β' ywf hadm h v hv
    simp only [Cond.okF] at hf
    simp only [evalCond, List.mem_flatMap] at h
    obtain ⟨p, hp, h3⟩ := h
    split at h3 <;> simp at h3
    obtain ⟨h31, _⟩ := h3; subst h31
    exact term_covers_f W D Sh t hf hs β p.1 p.2 hadm hp v (by simpa [Cond.binds] using hv)
  | pred inv n args =>
    intro hf hs _ β β' ywf hadm h v hv
    simp only [Cond.okF] at hf
    simp only [evalCond, List.mem_flatMap] at h
    obtain ⟨p, hp, h3⟩ := h
    split at h3 <;> simp at h3
    obtain ⟨h31, _⟩ := h3; subst h31
    exact args_covers_f W D Sh args hf hs β p.1 p.2 hadm hp v (by simpa [Cond.binds] using hv)
  | and l r ihl ihr =>
    intro hf hs hu β β' ywf hadm h v hv
    simp only [Cond.okF, Bool.and_eq_true] at hf
    simp only [Cond.shaped] at hs
    simp only [evalCond, List.mem_flatMap] at h
    obtain ⟨p, hp, h3⟩ := h
    simp only [Cond.binds, List.mem_append] at hv
    split at h3
    · simp at h3
    · rename_i hc
      have hp2 : p.2 = false := by
        cases hy : ywf
        · exact ((cond_sound_complete_f W D l hf.1).1 β p.1 p.2 ywf hp).1 hy
        · simp [hy] at hc; exact hc
      have hl := ihl hf.1 hs.1 hu.1 β p.1 ywf hadm (by rw [← hp2]; exact hp)
      have hr := ihr hf.2 hs.2 hu.2 p.1 β' ywf (cond_adm W D Sh l hf.1 hs.1 β p.1 p.2 ywf hadm hp) h3
      rcases hv with hv | hv
      · exact bound_of_sub (cond_sub_f W D r hf.2 p.1 β' false ywf h3) (hl v hv)
      · exact hr v hv
  | elseIf l r ihl ihr =>
    intro hf hs hu β β' ywf hadm h v hv
    simp only [Cond.okF, Bool.and_eq_true] at hf
    simp only [Cond.shaped] at hs
    simp only [evalCond] at h
    have hv' : v ∈ r.binds := by
      simp only [Cond.binds, List.mem_append] at hv
      rcases hv with hv | hv
      · exact (hu.1 v).1 hv
      · exact hv
    split at h
    · exact ihr hf.2 hs.2 hu.2.2 β β' ywf hadm h v hv'
    · simp only [List.mem_flatMap] at h
      obtain ⟨p, hp, h3⟩ := h
      split at h3
      · exact ihr hf.2 hs.2 hu.2.2 p.1 β' ywf (cond_adm W D Sh l hf.1 hs.1 β p.1 p.2 true hadm hp) h3 v hv'
      · rename_i hc
        have h31 : β' = p.1 := by simpa using h3
        subst h31
        have hp2 : p.2 = false := by simpa using hc
        exact ihl hf.1 hs.1 hu.2.1 β p.1 true hadm (by rw [← hp2]; exact hp) v ((hu.1 v).2 hv')
  | sub sel c ih =>
    intro hf hs hu β β' ywf hadm h v hv
    simp only [Cond.okF, Bool.and_eq_true] at hf
    simp only [Cond.shaped] at hs
    simp only [evalCond, List.mem_flatMap, List.mem_map] at h
    obtain ⟨p, hp, q, hq, he⟩ := h
    have h1 : q.1 = β' := by injection he
    have h2 : p.2 = false := by injection he
    subst h1
    simp only [Cond.binds, List.mem_append] at hv
    have hpadm := cond_adm W D Sh c hf.1 hs.1 β p.1 p.2 ywf hadm hp
    rcases hv with hv | hv
    · exact bound_of_sub (args_sub_f W D sel hf.2 p.1 q.1 q.2 hq)
        (ih hf.1 hs.1 hu β p.1 ywf hadm (by rw [← h2]; exact hp) v hv)
    · exact args_covers_f W D Sh sel hf.2 hs.2 p.1 q.1 q.2 hpadm hq v hv

end Eql
