/-
  L2, part 2: the state as a map from node paths to node states; sub-trees of paths; the invariant
  "every stored duplicate constraint below ρ clashes with β".
-/
import EqlModel.Lemmas.MachineDedup

namespace Eql.Machine
open Eql
variable {V : Type}
variable (P : Params V)

theorem lookup_filter_ne (st : St) (π π' : Path) (h : π' ≠ π) :
    List.lookup π' (st.filter fun p => p.1 != π) = List.lookup π' st := by
  induction st with
  | nil => rfl
  | cons p rest ih =>
    by_cases e : p.1 = π
    · have : (p.1 != π) = false := by simp [e]
      simp only [List.filter_cons, this, Bool.false_eq_true, if_false]
      rw [ih]
      obtain ⟨k, n⟩ := p
      simp only at e
      have : (π' == k) = false := by simp [e, h]
      simp [List.lookup, this]
    · have : (p.1 != π) = true := by simp [e]
      simp only [List.filter_cons, this, if_true]
      obtain ⟨k, n⟩ := p
      by_cases e2 : π' = k
      · subst e2; simp [List.lookup]
      · have : (π' == k) = false := by simp [e2]
        simp [List.lookup, this, ih]

theorem getNode_setNode_self (st : St) (π : Path) (n : NodeSt) : getNode (setNode st π n) π = n := by
  simp [getNode, setNode, List.lookup]

theorem getNode_setNode_ne (st : St) (π π' : Path) (n : NodeSt) (h : π' ≠ π) :
    getNode (setNode st π n) π' = getNode st π' := by
  have : (π' == π) = false := by simp [h]
  simp only [getNode, setNode, List.lookup, this]
  rw [lookup_filter_ne st π π' h]

/-- `π'` lies in the sub-tree of the node `ρ` (child paths are `k :: parent`). -/
def InSub (ρ π' : Path) : Prop := ∃ pre : List Nat, π' = pre ++ ρ

theorem inSub_refl (ρ : Path) : InSub ρ ρ := ⟨[], rfl⟩

theorem inSub_child {k : Nat} {ρ π' : Path} (h : InSub (k :: ρ) π') : InSub ρ π' := by
  obtain ⟨pre, rfl⟩ := h
  exact ⟨pre ++ [k], by simp⟩

theorem not_inSub_child_self (k : Nat) (ρ : Path) : ¬ InSub (k :: ρ) ρ := by
  rintro ⟨pre, h⟩
  have := congrArg List.length h
  simp at this
  omega

theorem inSub_children_disjoint {j k : Nat} (hjk : j ≠ k) {ρ π' : Path} (h1 : InSub (j :: ρ) π') (h2 : InSub (k :: ρ) π') :
    False := by
  obtain ⟨p1, e1⟩ := h1
  obtain ⟨p2, e2⟩ := h2
  have hl : p1.length = p2.length := by
    have a := congrArg List.length e1
    have b := congrArg List.length e2
    simp at a b; omega
  have := List.append_inj (e1.symm.trans e2) hl
  have := this.2
  simp at this
  exact hjk this

/-- Every node of the region `R` is fine for `β`. -/
def InvOn (st : St) (R : Path → Prop) (β : Bnd V) : Prop := ∀ π', R π' → NodeOk P (getNode st π') β

theorem invOn_mono {st : St} {R : Path → Prop} {β β' : Bnd V} (h : InvOn P st R β) (hs : Sub β β') : InvOn P st R β' :=
  fun π' hπ => nodeOk_mono P (h π' hπ) hs

theorem invOn_sub {st : St} {R R' : Path → Prop} {β : Bnd V} (h : InvOn P st R β) (hr : ∀ π', R' π' → R π') :
    InvOn P st R' β := fun π' hπ => h π' (hr π' hπ)

/-- The state changed only inside the region `R`. -/
def FrameOn (st st' : St) (R : Path → Prop) : Prop := ∀ π', ¬ R π' → getNode st' π' = getNode st π'

theorem frameOn_refl (st : St) (R : Path → Prop) : FrameOn st st R := fun _ _ => rfl

theorem frameOn_trans {s1 s2 s3 : St} {R : Path → Prop} (h1 : FrameOn s1 s2 R) (h2 : FrameOn s2 s3 R) :
    FrameOn s1 s3 R := fun π' hπ => (h2 π' hπ).trans (h1 π' hπ)

theorem frameOn_sub {s1 s2 : St} {R R' : Path → Prop} (h : FrameOn s1 s2 R) (hr : ∀ π', R π' → R' π') :
    FrameOn s1 s2 R' := fun π' hπ => h π' (fun hc => hπ (hr π' hc))

theorem frameOn_setNode (st : St) (ρ : Path) (n : NodeSt) (R : Path → Prop) (hR : R ρ) :
    FrameOn st (setNode st ρ n) R := by
  intro π' hπ
  apply getNode_setNode_ne
  intro e; subst e; exact hπ hR

/-- A region untouched by a change keeps its invariant. -/
theorem invOn_frame {s1 s2 : St} {R R' : Path → Prop} {β : Bnd V} (h : InvOn P s1 R' β) (hf : FrameOn s1 s2 R)
    (hd : ∀ π', R' π' → ¬ R π') : InvOn P s2 R' β := by
  intro π' hπ
  rw [hf π' (hd π' hπ)]
  exact h π' hπ

theorem nodeOk_congr {n n' : NodeSt} {β : Bnd V} (h1 : n'.seenT = n.seenT) (h2 : n'.seenF = n.seenF)
    (h : NodeOk P n β) : NodeOk P n' β := by
  unfold NodeOk at *
  rw [h1, h2]; exact h

theorem invOn_setNode {st : St} {R : Path → Prop} {β : Bnd V} (ρ : Path) (n : NodeSt) (h : InvOn P st R β)
    (hn : NodeOk P n β) : InvOn P (setNode st ρ n) R β := by
  intro π' hπ
  by_cases e : π' = ρ
  · subst e; rw [getNode_setNode_self]; exact hn
  · rw [getNode_setNode_ne st ρ π' n e]; exact h π' hπ

/-- A change confined to `R` that keeps `R` fine keeps every larger region fine. -/
theorem invOn_extend {s1 s2 : St} {R R' : Path → Prop} {β : Bnd V} (h : InvOn P s1 R' β) (hf : FrameOn s1 s2 R)
    (hr : InvOn P s2 R β) : InvOn P s2 R' β := by
  intro π' hπ
  by_cases e : R π'
  · exact hr π' e
  · rw [hf π' e]; exact h π' hπ

theorem invOn_setNode' {st : St} {R : Path → Prop} {β : Bnd V} (ρ : Path) (n : NodeSt)
    (h : ∀ π', R π' → π' ≠ ρ → NodeOk P (getNode st π') β) (hn : NodeOk P n β) :
    InvOn P (setNode st ρ n) R β := by
  intro π' hπ
  by_cases e : π' = ρ
  · subst e; rw [getNode_setNode_self]; exact hn
  · rw [getNode_setNode_ne st ρ π' n e]; exact h π' hπ e

end Eql.Machine
