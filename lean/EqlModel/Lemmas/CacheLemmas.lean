/-
  Helper lemmas about the cache trie: shape invariant, uniformity, entries, retrieval.
-/
import EqlModel.Cache
import EqlModel.Lemmas.CacheDefs

namespace Eql.Cache
variable {A O : Type} [DecidableEq A]

open Trie

theorem child?_none_iff (key : Key A) : ∀ (t : Trie A O),
    child? key t = none ↔ ∀ kc ∈ children t, kc.1 ≠ key := by
  intro t
  induction t with
  | leaf o => simp [child?, children]
  | nil => simp [child?, children]
  | cons k c rest _ ihr =>
    simp only [child?, children]
    by_cases h : k = key
    · subst h; simp
    · simp [h, ihr]

theorem child?_some_mem (key : Key A) : ∀ (t : Trie A O) (c : Trie A O),
    child? key t = some c → (key, c) ∈ children t := by
  intro t
  induction t with
  | leaf o => intro c h; simp [child?] at h
  | nil => intro c h; simp [child?] at h
  | cons k c' rest _ ihr =>
    intro c h
    simp only [child?] at h
    by_cases e : k = key
    · subst e; simp at h; subst h; simp [children]
    · simp [e] at h; simp [children, ihr c h]

theorem kindOk_children (wild : Bool) : ∀ (t : Trie A O), kindOk wild t = true →
    ∀ kc ∈ children t, (kc.1 = .all ↔ wild = true) := by
  intro t
  induction t with
  | leaf o => intro _ kc h; simp [children] at h
  | nil => intro _ kc h; simp [children] at h
  | cons k c rest _ ihr =>
    intro hk kc hm
    simp only [kindOk, Bool.and_eq_true] at hk
    simp only [children, List.mem_cons] at hm
    rcases hm with rfl | hm
    · cases k <;> cases wild <;> simp_all
    · exact ihr hk.2 kc hm

/-- Selecting the unique child a `flatMap` over the children does not vanish on. -/
theorem children_flatMap_select {γ : Type} (key : Key A) (F : Key A × Trie A O → List γ) :
    ∀ (n : Nat) (t : Trie A O) (c : Trie A O), WS (n + 1) t → child? key t = some c →
    (∀ kc ∈ children t, kc.1 ≠ key → F kc = []) → (children t).flatMap F = F (key, c) := by
  intro n t
  induction t with
  | leaf o => intro c _ h; simp [child?] at h
  | nil => intro c _ h; simp [child?] at h
  | cons k c' rest _ ihr =>
    intro c hws h hF
    simp only [WS] at hws
    simp only [child?] at h
    simp only [children, List.flatMap_cons]
    by_cases e : k = key
    · subst e
      simp at h; subst h
      have hrest : (children rest).flatMap F = [] := by
        rw [List.flatMap_eq_nil_iff]
        intro kc hkc
        exact hF kc (by simp [children, hkc]) ((child?_none_iff k rest).1 hws.2.2 kc hkc)
      simp [hrest]
    · simp [e] at h
      have h1 : F (k, c') = [] := hF (k, c') (by simp [children]) e
      rw [h1, List.nil_append]
      exact ihr c hws.2.1 h (fun kc hkc => hF kc (by simp [children, hkc]))

theorem children_flatMap_none {γ : Type} (F : Key A × Trie A O → List γ) (t : Trie A O)
    (hF : ∀ kc ∈ children t, F kc = []) : (children t).flatMap F = [] := by
  rw [List.flatMap_eq_nil_iff]; exact hF

/-- The entries of a dictionary are the entries of its children, prefixed. -/
theorem toEntries_children : ∀ (n : Nat) (t : Trie A O), WS (n + 1) t →
    toEntries t = (children t).flatMap fun kc => (toEntries kc.2).map fun e => (kc.1 :: e.1, e.2) := by
  intro n t
  induction t with
  | leaf o => intro h; simp [WS] at h
  | nil => intro _; simp [toEntries, children]
  | cons k c rest _ ihr =>
    intro h
    simp only [WS] at h
    simp [toEntries, children, ihr h.2.1]

theorem ws_children : ∀ (n : Nat) (t : Trie A O), WS (n + 1) t → ∀ kc ∈ children t, WS n kc.2 := by
  intro n t
  induction t with
  | leaf o => intro h; simp [WS] at h
  | nil => intro _ kc h; simp [children] at h
  | cons k c rest _ ihr =>
    intro h kc hm
    simp only [WS] at h
    simp only [children, List.mem_cons] at hm
    rcases hm with rfl | hm
    · exact h.1
    · exact ihr h.2.1 kc hm

theorem uniform_children : ∀ (t : Trie A O), uniformBelow t = true →
    ∀ kc ∈ children t, Uniform kc.2 = true := by
  intro t
  induction t with
  | leaf o => intro _ kc h; simp [children] at h
  | nil => intro _ kc h; simp [children] at h
  | cons k c rest _ ihr =>
    intro h kc hm
    simp only [uniformBelow, Bool.and_eq_true] at h
    simp only [children, List.mem_cons] at hm
    rcases hm with rfl | hm
    · simp [Uniform, h.1.1, h.1.2]
    · exact ihr h.2 kc hm

end Eql.Cache

namespace Eql.Cache
variable {A O : Type} [DecidableEq A]
open Trie

theorem flatMap_congr_mem {γ δ : Type} (l : List γ) (f g : γ → List δ) (h : ∀ a ∈ l, f a = g a) :
    l.flatMap f = l.flatMap g := by
  induction l with
  | nil => rfl
  | cons a as ih =>
    simp only [List.flatMap_cons]
    rw [h a List.mem_cons_self, ih (fun b hb => h b (List.mem_cons_of_mem _ hb))]

private theorem filter_map_prefix (asg : Asg A) (k : Nat) (ks : List Nat) (h : Key A)
    (es : List (List (Key A) × O)) (res : Asg A) :
    ((es.map fun e => (h :: e.1, e.2)).filter fun e => agree asg (k :: ks) e.1).map
        (fun e => (image asg (k :: ks) e.1 res, e.2)) =
    (match h with
      | .val b =>
        (match asg.get k with
          | some a => if a = b then (es.filter fun e => agree asg ks e.1).map
                        (fun e => (image asg ks e.1 res, e.2)) else []
          | none => (es.filter fun e => agree asg ks e.1).map
                        (fun e => (image asg ks e.1 ((k, b) :: res), e.2)))
      | .all => (es.filter fun e => agree asg ks e.1).map (fun e => (image asg ks e.1 res, e.2))) := by
  induction es with
  | nil => cases h <;> simp <;> (cases asg.get k <;> simp)
  | cons e es ih =>
    cases h with
    | all =>
      simp only [List.map_cons, List.filter_cons, agree] at ih ⊢
      by_cases hg : agree asg ks e.1 = true
      · simp [hg, image, ih]
      · simp [hg, ih]
    | val b =>
      cases hk : asg.get k with
      | none =>
        simp only [hk] at ih
        simp only [List.map_cons, List.filter_cons, agree, hk, Bool.true_and]
        by_cases hg : agree asg ks e.1 = true
        · simp [hg, image, hk, ih]
        · simp [hg, ih]
      | some a =>
        simp only [hk] at ih
        simp only [List.map_cons, List.filter_cons, agree, hk]
        by_cases hab : a = b
        · simp only [hab, if_true] at ih
          by_cases hg : agree asg ks e.1 = true
          · simp [hab, hg, image, hk, ih]
          · simp [hab, hg, ih]
        · simp only [hab, if_false] at ih
          simp [hab, ih]

/-- **Retrieval is exact on prefix-uniform tries.**  In dictionary order, `retr` returns exactly
    the stored entries whose path agrees with the lookup, each paired with its binding merged into
    the lookup. -/
theorem retr_uniform (asg : Asg A) : ∀ (keys : List Nat) (t : Trie A O) (res : Asg A),
    WS keys.length t → Uniform t = true →
    retr asg keys t res =
      ((toEntries t).filter fun e => agree asg keys e.1).map fun e => (image asg keys e.1 res, e.2) := by
  intro keys
  induction keys with
  | nil =>
    intro t res hws _
    cases t with
    | leaf o => simp [retr, toEntries, List.filter, agree, image]
    | nil => simp [WS] at hws
    | cons k c rest => simp [WS] at hws
  | cons k ks ih =>
    intro t res hws hu
    cases t with
    | leaf o => simp [WS] at hws
    | nil => simp [retr, toEntries]
    | cons k0 c0 rest0 =>
      -- abbreviations
      have hws' : WS (ks.length + 1) (Trie.cons k0 c0 rest0) := hws
      generalize hnode : Trie.cons k0 c0 rest0 = node at hws' hu ⊢
      have hkind : kindAny node = true := by
        simp only [Uniform, Bool.and_eq_true] at hu; exact hu.1
      have hbelow : uniformBelow node = true := by
        simp only [Uniform, Bool.and_eq_true] at hu; exact hu.2
      -- the right-hand side, child by child, through the induction hypothesis
      have hrhs : ((toEntries node).filter fun e => agree asg (k :: ks) e.1).map
            (fun e => (image asg (k :: ks) e.1 res, e.2)) =
          (children node).flatMap fun kc =>
            (match kc.1 with
              | .val b =>
                (match asg.get k with
                  | some a => if a = b then retr asg ks kc.2 res else []
                  | none => retr asg ks kc.2 ((k, b) :: res))
              | .all => retr asg ks kc.2 res) := by
        rw [toEntries_children ks.length node hws', List.filter_flatMap, List.map_flatMap]
        apply flatMap_congr_mem
        intro kc hkc
        have hwsc := ws_children ks.length node hws' kc hkc
        have huc := uniform_children node hbelow kc hkc
        rw [filter_map_prefix]
        cases hk1 : kc.1 with
        | all => simp [ih kc.2 res hwsc huc]
        | val b =>
          cases hk : asg.get k with
          | none => simp [ih kc.2 ((k, b) :: res) hwsc huc]
          | some a => by_cases hab : a = b <;> simp [hab, ih kc.2 res hwsc huc]
      rw [hrhs]
      -- the left-hand side
      have hlhs : retr asg (k :: ks) node res =
          (match asg.get k with
            | some a =>
                match child? (.val a) node with
                | some c => retr asg ks c res
                | none =>
                  match child? .all node with
                  | some c => retr asg ks c res
                  | none => []
            | none =>
                match child? .all node with
                | some c => retr asg ks c res
                | none => (children node).flatMap fun kc =>
                    match kc.1 with
                    | .val b => retr asg ks kc.2 ((k, b) :: res)
                    | .all => retr asg ks kc.2 res) := by
        rw [← hnode]; simp only [retr]; rfl
      rw [hlhs]
      -- kinds
      have hkinds : (∀ kc ∈ children node, kc.1 = .all) ∨ (∀ kc ∈ children node, kc.1 ≠ .all) := by
        simp only [kindAny, Bool.or_eq_true] at hkind
        rcases hkind with h | h
        · left; intro kc hkc; exact (kindOk_children true node h kc hkc).2 rfl
        · right; intro kc hkc e; have := (kindOk_children false node h kc hkc).1 e; cases this
      cases hk : asg.get k with
      | none =>
        simp only []
        cases hall : child? (.all) node with
        | some c =>
          simp only []
          have hmem := child?_some_mem .all node c hall
          -- an `all` child exists, so every child is `all`, so it is the only child
          have hallk : ∀ kc ∈ children node, kc.1 = .all := by
            rcases hkinds with h | h
            · exact h
            · exact absurd rfl (h (.all, c) hmem)
          rw [children_flatMap_select .all _ ks.length node c hws' hall
            (fun kc hkc hne => absurd (hallk kc hkc) hne)]
        | none =>
          simp only []
      | some a =>
        simp only []
        cases hval : child? (.val a) node with
        | some c =>
          simp only []
          have hmem := child?_some_mem (.val a) node c hval
          have hnoall : ∀ kc ∈ children node, kc.1 ≠ .all := by
            rcases hkinds with h | h
            · have := h (.val a, c) hmem; cases this
            · exact h
          rw [children_flatMap_select (.val a) _ ks.length node c hws' hval]
          · simp
          · intro kc hkc hne
            cases hk1 : kc.1 with
            | all => exact absurd hk1 (hnoall kc hkc)
            | val b =>
              have : a ≠ b := by intro e; apply hne; rw [hk1, e]
              simp [this]
        | none =>
          simp only []
          have hnoval := (child?_none_iff (.val a) node).1 hval
          cases hall : child? (.all) node with
          | some c =>
            simp only []
            have hmem := child?_some_mem .all node c hall
            have hallk : ∀ kc ∈ children node, kc.1 = .all := by
              rcases hkinds with h | h
              · exact h
              · exact absurd rfl (h (.all, c) hmem)
            rw [children_flatMap_select .all _ ks.length node c hws' hall
              (fun kc hkc hne => absurd (hallk kc hkc) hne)]
          | none =>
            simp only []
            have hnoall := (child?_none_iff .all node).1 hall
            symm
            apply children_flatMap_none
            intro kc hkc
            cases hk1 : kc.1 with
            | all => exact absurd hk1 (hnoall kc hkc)
            | val b =>
              have : a ≠ b := by intro e; apply hnoval kc hkc; rw [hk1, e]
              simp [this]

end Eql.Cache

namespace Eql.Cache
variable {A O : Type} [DecidableEq A]
open Trie

theorem ws_mkPath (o : O) : ∀ (p : List (Key A)), WS p.length (mkPath o p : Trie A O) := by
  intro p
  induction p with
  | nil => simp [mkPath, WS]
  | cons k ks ih => simp [mkPath, WS, ih, child?]

theorem toEntries_mkPath (o : O) : ∀ (p : List (Key A)), toEntries (mkPath o p : Trie A O) = [(p, o)] := by
  intro p
  induction p with
  | nil => simp [mkPath, toEntries]
  | cons k ks ih => simp [mkPath, toEntries, ih]

theorem child?_insert_ne (o : O) (k p : Key A) (ps : List (Key A)) (hne : k ≠ p) :
    ∀ (t : Trie A O), child? k t = none → child? k (Trie.insert o t (p :: ps)) = none := by
  intro t
  induction t with
  | leaf o' => intro _; simp [Trie.insert, mkPath, child?, Ne.symm hne]
  | nil => intro _; simp [Trie.insert, mkPath, child?, Ne.symm hne]
  | cons k' c rest _ ihr =>
    intro h
    simp only [child?] at h
    by_cases e : k' = k
    · simp [e] at h
    · simp only [e, if_false] at h
      simp only [Trie.insert]
      by_cases e2 : k' = p
      · subst e2
        simp [child?, e, h]
      · simp [e2, child?, e, ihr h]

/-- Insertion keeps the shape invariant. -/
theorem ws_insert (o : O) : ∀ (t : Trie A O) (p : List (Key A)), WS p.length t →
    WS p.length (Trie.insert o t p) := by
  intro t
  induction t with
  | leaf o' =>
    intro p h
    cases p with
    | nil => simp [Trie.insert, mkPath, WS]
    | cons k ks => simp [WS] at h
  | nil =>
    intro p _
    simp only [Trie.insert]
    exact ws_mkPath o p
  | cons k c rest ihc ihr =>
    intro p h
    cases p with
    | nil => simp [WS] at h
    | cons q qs =>
      simp only [List.length_cons, WS] at h
      simp only [Trie.insert]
      by_cases e : k = q
      · simp only [e, if_true, List.length_cons, WS]
        exact ⟨ihc qs h.1, h.2.1, by rw [← e]; exact h.2.2⟩
      · simp only [e, if_false, List.length_cons, WS]
        exact ⟨h.1, ihr (q :: qs) h.2.1, child?_insert_ne o k q qs e rest h.2.2⟩

/-- Paths stored under a dictionary whose sibling keys are distinct start with one of its keys. -/
theorem mem_toEntries_head : ∀ (n : Nat) (t : Trie A O), WS (n + 1) t → ∀ q o, (q, o) ∈ toEntries t →
    ∃ h tl c, q = h :: tl ∧ child? h t = some c ∧ (tl, o) ∈ toEntries c := by
  intro n t
  induction t with
  | leaf o' => intro h; simp [WS] at h
  | nil => intro _ q o h; simp [toEntries] at h
  | cons k c rest _ ihr =>
    intro hws q o hm
    simp only [WS] at hws
    simp only [toEntries, List.mem_append, List.mem_map] at hm
    rcases hm with ⟨e, he, heq⟩ | hm
    · cases heq
      exact ⟨k, e.1, c, rfl, by simp [child?], he⟩
    · obtain ⟨h, tl, c', rfl, hc, hin⟩ := ihr hws.2.1 q o hm
      refine ⟨h, tl, c', rfl, ?_, hin⟩
      simp only [child?]
      by_cases e : k = h
      · subst e; rw [hws.2.2] at hc; cases hc
      · simp [e, hc]

/-- **Insert is an upsert**: afterwards the path maps to the new output and every other entry is
    kept. -/
theorem mem_toEntries_insert (o : O) : ∀ (t : Trie A O) (p : List (Key A)), WS p.length t →
    ∀ q o', (q, o') ∈ toEntries (Trie.insert o t p) ↔
      ((q = p ∧ o' = o) ∨ (q ≠ p ∧ (q, o') ∈ toEntries t)) := by
  intro t
  induction t with
  | leaf o0 =>
    intro p h q o'
    cases p with
    | nil =>
      simp only [Trie.insert, mkPath, toEntries, List.mem_singleton, Prod.mk.injEq]
      constructor
      · rintro ⟨rfl, rfl⟩; exact Or.inl ⟨rfl, rfl⟩
      · rintro (⟨rfl, rfl⟩ | ⟨h1, h2, _⟩)
        · exact ⟨rfl, rfl⟩
        · exact absurd h2 h1
    | cons k ks => simp [WS] at h
  | nil =>
    intro p _ q o'
    simp only [Trie.insert, toEntries_mkPath, toEntries, List.mem_singleton, Prod.mk.injEq, List.not_mem_nil,
      and_false, or_false]
  | cons k c rest ihc ihr =>
    intro p h q o'
    cases p with
    | nil => simp [WS] at h
    | cons p0 ps =>
      simp only [List.length_cons, WS] at h
      simp only [Trie.insert]
      by_cases e : k = p0
      · subst e
        simp only [if_true, toEntries, List.mem_append, List.mem_map]
        constructor
        · rintro (⟨x, hx, heq⟩ | hm)
          · cases heq
            rcases (ihc ps h.1 x.1 x.2).1 hx with ⟨h1, h2⟩ | ⟨h1, h2⟩
            · left; exact ⟨by rw [h1], h2⟩
            · right
              exact ⟨fun e => h1 (by simpa using e), Or.inl ⟨x, h2, rfl⟩⟩
          · right
            obtain ⟨hd, tl, c', hq, hc, _⟩ := mem_toEntries_head ps.length rest h.2.1 q o' hm
            refine ⟨?_, Or.inr hm⟩
            intro e
            rw [hq] at e
            have : hd = k := by injection e
            rw [this, h.2.2] at hc; cases hc
        · rintro (⟨rfl, rfl⟩ | ⟨h1, hx | hm⟩)
          · left
            exact ⟨(ps, o'), (ihc ps h.1 ps o').2 (Or.inl ⟨rfl, rfl⟩), rfl⟩
          · obtain ⟨x, hx, heq⟩ := hx
            cases heq
            left
            refine ⟨x, (ihc ps h.1 x.1 x.2).2 (Or.inr ⟨fun e => h1 (by rw [e]), hx⟩), rfl⟩
          · exact Or.inr hm
      · simp only [e, if_false, toEntries, List.mem_append, List.mem_map]
        constructor
        · rintro (⟨x, hx, heq⟩ | hm)
          · cases heq
            right
            exact ⟨fun e' => e (by injection e'), Or.inl ⟨x, hx, rfl⟩⟩
          · rcases (ihr (p0 :: ps) h.2.1 q o').1 hm with h1 | ⟨h1, h2⟩
            · exact Or.inl h1
            · exact Or.inr ⟨h1, Or.inr h2⟩
        · rintro (⟨rfl, rfl⟩ | ⟨h1, hx | hm⟩)
          · right; exact (ihr (p0 :: ps) h.2.1 _ _).2 (Or.inl ⟨rfl, rfl⟩)
          · exact Or.inl hx
          · right; exact (ihr (p0 :: ps) h.2.1 _ _).2 (Or.inr ⟨h1, hm⟩)

/-- No path is stored twice. -/
theorem paths_nodup : ∀ (n : Nat) (t : Trie A O), WS n t → ((toEntries t).map (·.1)).Nodup := by
  intro n t
  induction t generalizing n with
  | leaf o => intro _; simp [toEntries]
  | nil => intro _; simp [toEntries]
  | cons k c rest ihc ihr =>
    intro h
    cases n with
    | zero => simp [WS] at h
    | succ n =>
      simp only [WS] at h
      simp only [toEntries, List.map_append, List.map_map]
      rw [List.nodup_append]
      refine ⟨?_, ihr (n + 1) h.2.1, ?_⟩
      · have := ihc n h.1
        rw [List.nodup_iff_pairwise_ne] at this ⊢
        rw [List.pairwise_map] at this ⊢
        exact this.imp (fun hne e => hne (by simpa using e))
      · intro a ha b hb hab
        simp only [List.mem_map, Function.comp] at ha hb
        obtain ⟨x, _, rfl⟩ := ha
        obtain ⟨y, hy, rfl⟩ := hb
        obtain ⟨hd, tl, c', hq, hc, _⟩ := mem_toEntries_head n rest h.2.1 y.1 y.2 hy
        rw [hq] at hab
        have : k = hd := by injection hab
        rw [← this, h.2.2] at hc; cases hc

end Eql.Cache
