/-
  L2 with the result cache ENABLED, single-variable queries, ARBITRARY and/or trees below the first
  conjunct: every node below it is consulted with `x` bound, under either value of `yield_when_false`
  (the left operand of an ElseIf is asked for its false outputs too), so its caches store false
  outputs as well and the duplicate tracking sets are exercised.

    NBy / BSpecY        a cache consulted with `x` bound by a node evaluated under the flag `ywf`:
                        every stored pair is (identity of an object) ↦ (is_false of the node for it)
    nby_store, nby_hit  storing the L1 output of an object; serving a covered lookup (a false output
                        passes the duplicate check: the stored keys all clash with the object)
-/
import EqlModel.Lemmas.MachineOne

namespace Eql.Machine
open Eql
variable {V : Type}
variable (P : Params V) (x : VarId)
variable (W : World V) (D : VarId → List V)

structure NBy (c : Cache.Cache Nat Bool) (ywf : Bool) (H : V → Bool) : Prop where
  flat : c.flat = []
  notAll : c.seen.allSeen = false
  body : ∃ E : List (Nat × Bool), Cache.One c (P.rank x) E ∧
    (∀ p ∈ E, ∃ o ∈ D x, p.1 = P.toKey o ∧ p.2 = !H o ∧ (ywf = false → H o = true)) ∧
    (∀ a, a ∈ c.seen.seen ↔ ∃ p ∈ E, a = [(P.rank x, p.1)])

def BSpecY (c : Cache.Cache Nat Bool) (ywf : Bool) (H : V → Bool) : Prop :=
  (c.keys = [] ∧ c.trie = .nil ∧ c.flat = [] ∧ c.seen.seen = [] ∧ c.seen.allSeen = false) ∨ NBy P x D c ywf H

theorem nby_mkCache {vars : List VarId} (hv : OnlyX x vars) {c : Cache.Cache Nat Bool} {ywf : Bool} {H : V → Bool}
    (h : BSpecY P x D c ywf H) : NBy P x D (mkCache P vars c) ywf H := by
  rcases h with ⟨h1, h2, h3, h4, h5⟩ | h
  · have : mkCache P vars c = { c with keys := [P.rank x] } := by
      simp [mkCache, h1, h2, h3, Cache.Trie.isEmptyNode, keyList_onlyX P x hv]
    rw [this]
    refine ⟨h3, h5, [], ⟨rfl, by simp [h2, Cache.ofList]⟩, by simp, by simp [h4]⟩
  · have : mkCache P vars c = c := by
      obtain ⟨E, hone, _, _⟩ := h.body
      simp [mkCache, hone.keys]
    rw [this]; exact h

/-- Storing the L1 output of a node for the object `o` (one output, or none) keeps the cache's
    specification, when `o` is not stored yet. -/
theorem nby_store {vars : List VarId} (hv : OnlyX x vars) {c : Cache.Cache Nat Bool} {ywf : Bool} {H : V → Bool}
    (h : NBy P x D c ywf H) (o : V) (ho : o ∈ D x)
    (hfresh : ∀ E, Cache.One c (P.rank x) E → E.lookup (P.toKey o) = none) :
    NBy P x D ((closedOut ([(x, o)] : Bnd V) (H o) ywf).foldl
      (fun c p => c.insert (toAsg P vars p.1) p.2) c) ywf H := by
  by_cases hy : (H o || ywf) = true
  · obtain ⟨E, hone, hE, hseen⟩ := h.body
    have hl := hfresh E hone
    obtain ⟨i1, i2, i3⟩ := Cache.insert_one hone (P.toKey o) (!H o)
    simp only [closedOut, hy, if_true, List.foldl_cons, List.foldl_nil, toAsg_single P x hv]
    refine ⟨by rw [i3]; exact h.flat, ?_, Cache.upd E (P.toKey o) (!H o), i1, ?_, ?_⟩
    · rw [i2]; simp [Cache.SeenSet.add, h.notAll]
    · intro p hp
      rw [Cache.upd_fresh E _ _ hl, List.mem_append, List.mem_singleton] at hp
      rcases hp with hp | hp
      · exact hE p hp
      · subst hp
        refine ⟨o, ho, rfl, rfl, ?_⟩
        intro hyf; subst hyf; simpa using hy
    · intro a
      rw [i2, Cache.upd_fresh E _ _ hl]
      simp only [Cache.SeenSet.add, h.notAll, Bool.false_eq_true, if_false, List.mem_append, List.mem_singleton,
        hseen a]
      constructor
      · rintro (⟨p, hp, rfl⟩ | rfl)
        · exact ⟨p, Or.inl hp, rfl⟩
        · exact ⟨_, Or.inr rfl, rfl⟩
      · rintro ⟨p, hp | hp, rfl⟩
        · exact Or.inl ⟨p, hp, rfl⟩
        · subst hp; exact Or.inr rfl
  · have hy' : (H o || ywf) = false := by simpa using hy
    simp only [closedOut, hy', Bool.false_eq_true, if_false, List.foldl_nil]; exact h

variable [BEq V]

/-- The key recorded for `x ↦ o` clashes with every binding that clashes with `x ↦ o`. -/
theorem clashC_single (required : List VarId) (o : V) (β₂ : Bnd V)
    (hc : Clash P.toKey [(x, o)] β₂) (hne : (toAsg P required [(x, o)]).isEmpty = false) :
    ClashC P (toAsg P required [(x, o)]) β₂ := by
  obtain ⟨v, a, b, h1, h2, h3⟩ := hc
  have hvx : v = x ∧ a = o := by
    by_cases e : v = x
    · subst e; rw [lookup_cons_self] at h1; cases h1; exact ⟨rfl, rfl⟩
    · rw [lookup_cons_ne _ o e] at h1; simp [List.lookup] at h1
  obtain ⟨rfl, rfl⟩ := hvx
  refine ⟨v, b, P.toKey a, h2, ?_, fun e => h3 e⟩
  -- the key is non-empty, so `v` is among the required variables and its pair is the key
  simp only [toAsg, List.isEmpty_eq_false_iff_exists_mem, List.mem_filterMap] at hne
  obtain ⟨q, w, hw, hq⟩ := hne
  simp only [toAsg, List.mem_filterMap]
  by_cases e : w = v
  · subst e; exact ⟨w, hw, by simp [lookup_cons_self]⟩
  · rw [lookup_cons_ne _ a e] at hq; simp [List.lookup] at hq

/-- Serving the lookup `x ↦ o` from a cache that covers it: the stored output is the L1 output; a false
    output passes the duplicate check, because every stored duplicate key clashes with `x ↦ o`. -/
theorem nby_hit (hk : KeyOk P x D) (hinj : Function.Injective P.rank) {vars : List VarId} (hv : OnlyX x vars)
    (req : ReqFn) {c : Cache.Cache Nat Bool} (ywf : Bool) (H : V → Bool) (E : List (Nat × Bool))
    (hone : Cache.One c (P.rank x) E)
    (hE : ∀ p ∈ E, ∃ o ∈ D x, p.1 = P.toKey o ∧ p.2 = !H o ∧ (ywf = false → H o = true))
    (o : V) (ho : o ∈ D x) (f : Bool) (hl : E.lookup (P.toKey o) = some f) (n : NodeSt)
    (hn : NodeOk P n [(x, o)]) :
    ∃ n', fromCache P req vars c [(x, o)] n = (closedOut ([(x, o)] : Bnd V) (H o) ywf, n') ∧
      n'.cache = n.cache ∧ n'.rcache = n.rcache ∧
      ∀ β₂ : Bnd V, NodeOk P n β₂ → Clash P.toKey [(x, o)] β₂ → NodeOk P n' β₂ := by
  have hm := mem_of_lookup E _ f hl
  obtain ⟨o', ho', hkey, hf0, hyw⟩ := hE _ hm
  simp only at hf0 hkey
  have : o' = o := hk.inj o' ho' o ho hkey.symm
  subst this
  cases hH : H o' with
  | true =>
    have hf : f = false := by rw [hf0, hH]; rfl
    subst hf
    refine ⟨n, ?_, rfl, rfl, fun β₂ h _ => h⟩
    simp [fromCache, toAsg_single P x hv, Cache.retrieve_bound hone, hl, fromAsg_bound P x hv, closedOut, hH]
  | false =>
    have hf : f = true := by rw [hf0, hH]; rfl
    subst hf
    have hy : ywf = true := by
      cases ywf with
      | true => rfl
      | false => have := hyw rfl; rw [hH] at this; cases this
    obtain ⟨d1, d2, d3, d4⟩ := isDup_fresh P hinj req true [(x, o')] n hn
    refine ⟨(isDup P req true [(x, o')] n).2, ?_, d2, d3, ?_⟩
    · simp [fromCache, toAsg_single P x hv, Cache.retrieve_bound hone, hl, fromAsg_bound P x hv, closedOut, hH, hy, d1]
    · intro β₂ h2 hc
      exact d4 β₂ h2 (fun hne => clashC_single P x _ o' β₂ hc hne)

/-- A comparison node consulted with `x` bound to `o`, under either flag: the L1 output; the node
    keeps its cache specification and stays fine for every binding that clashes with `x ↦ o`. -/
theorem cmp_bound_y (hk : KeyOk P x D) (hinj : Function.Injective P.rank) (op : CmpOp) (l r : Term V)
    (hv : OnlyX x (l.vars ++ r.vars)) (hf : (Cond.cmp op l r).noFlat = true) (hs : Cond.single x (.cmp op l r))
    (ywf : Bool) (o : V) (ho : o ∈ D x) (π : Path) (req : ReqFn) (st : St)
    (hspec : BSpecY P x D (getNode st π).cache ywf (Hc W (.cmp op l r)))
    (hn : NodeOk P (getNode st π) [(x, o)]) :
    ∃ n', evalM W D P true (.cmp op l r) π req [(x, o)] ywf st =
        (singleOut W (.cmp op l r) x ywf o, setNode st π n') ∧
      NBy P x D n'.cache ywf (Hc W (.cmp op l r)) ∧ n'.rcache = (getNode st π).rcache ∧
      ∀ β₂ : Bnd V, NodeOk P (getNode st π) β₂ → Clash P.toKey [(x, o)] β₂ → NodeOk P n' β₂ := by
  have hnb := nby_mkCache P x D hv hspec
  obtain ⟨E, hone, hE, hseen0⟩ := hnb.body
  have hchk := nb_check P x hnb.notAll E hone hseen0 (P.toKey o)
  have hraw := cond_at W D x (.cmp op l r) hf hs ywf o
  cases hl : E.lookup (P.toKey o) with
  | some f =>
    -- covered: the stored output is served
    have hn1 : NodeOk P { getNode st π with cache := mkCache P (l.vars ++ r.vars) (getNode st π).cache } [(x, o)] :=
      nodeOk_congr P rfl rfl hn
    obtain ⟨n', hfc, hc1, hc2, hc3⟩ := nby_hit P x D hk hinj hv req ywf (Hc W (.cmp op l r)) E hone hE o ho f hl _ hn1
    refine ⟨n', ?_, ?_, ?_, ?_⟩
    · simp only [evalM, toAsg_single P x hv, hchk, hl, Option.isSome_some, if_true, hfc, singleOut, Hc]
    · rw [hc1]; exact hnb
    · rw [hc2]
    · intro β₂ h2 hcl
      exact hc3 β₂ (nodeOk_congr P rfl rfl h2) hcl
  | none =>
    -- not covered: evaluated, and its output stored
    have hstore := nby_store P x D hv hnb o ho (fun E' hone' => by
      rw [Cache.one_unique hone hone']; exact hl)
    refine ⟨{ getNode st π with cache := (List.foldl
        (fun c p => c.insert (toAsg P (l.vars ++ r.vars) p.1) p.2)
        (mkCache P (l.vars ++ r.vars) (getNode st π).cache)
        (closedOut ([(x, o)] : Bnd V) (Hc W (.cmp op l r) o) ywf)) }, ?_, hstore, rfl, ?_⟩
    · simp only [evalM, toAsg_single P x hv, hchk, hl, Option.isSome_none, Bool.false_eq_true, if_false, if_true,
        hraw, singleOut, Hc]
    · intro β₂ h2 _
      exact nodeOk_congr P rfl rfl h2

/-! ### The state invariant of an and/or tree all of whose nodes are consulted with `x` bound -/

/-- Comparisons, truth tests, predicates, conjunctions, disjunctions and sub-queries in condition
    position (every shape of `Cond`; kept as a predicate so that statements name their fragment). -/
def Cond.tree : Cond V → Bool
  | .cmp _ _ _ => true
  | .truth _ _ => true
  | .pred _ _ _ => true
  | .and l r => Cond.tree l && Cond.tree r
  | .elseIf l r => Cond.tree l && Cond.tree r
  | .sub _ c => Cond.tree c

omit [BEq V] in
theorem Cond.tree_all : ∀ (c : Cond V), Cond.tree c = true := by
  intro c
  induction c with
  | cmp _ _ _ => rfl
  | truth _ _ => rfl
  | pred _ _ _ => rfl
  | and l r ihl ihr => simp [Cond.tree, ihl, ihr]
  | elseIf l r ihl ihr => simp [Cond.tree, ihl, ihr]
  | sub _ c ih => simpa [Cond.tree] using ih

/-- The caches of the tree: the flag under which a node is evaluated is fixed by its position (the left
    operand of an ElseIf is always asked for its false outputs). -/
def SInv : Cond V → Path → Bool → St → Prop
  | .cmp op l r, π, y, st => BSpecY P x D (getNode st π).cache y (Hc W (.cmp op l r))
  | .and l r, π, y, st =>
      BSpecY P x D (getNode st π).rcache y (Hc W r) ∧ SInv l (0 :: π) y st ∧ SInv r (1 :: π) y st
  | .elseIf l r, π, y, st =>
      BSpecY P x D (getNode st π).rcache y (Hc W r) ∧ SInv l (0 :: π) true st ∧ SInv r (1 :: π) y st
  | .sub _ c, π, y, st => SInv c (0 :: π) y st
  | _, _, _, _ => True

omit [BEq V] in
theorem sinv_frame : ∀ (c : Cond V) (π : Path) (y : Bool) (st st' : St),
    (∀ π', InSub π π' → getNode st' π' = getNode st π') → SInv P x W D c π y st → SInv P x W D c π y st' := by
  intro c
  induction c with
  | cmp op l r => intro π y st st' h hc; simp only [SInv] at *; rw [h π (inSub_refl π)]; exact hc
  | truth _ _ => intro _ _ _ _ _ _; trivial
  | pred _ _ _ => intro _ _ _ _ _ _; trivial
  | and l r ihl ihr =>
    intro π y st st' h hc
    simp only [SInv] at *
    exact ⟨by rw [h π (inSub_refl π)]; exact hc.1, ihl _ _ _ _ (fun π' hp => h π' (inSub_child hp)) hc.2.1,
      ihr _ _ _ _ (fun π' hp => h π' (inSub_child hp)) hc.2.2⟩
  | elseIf l r ihl ihr =>
    intro π y st st' h hc
    simp only [SInv] at *
    exact ⟨by rw [h π (inSub_refl π)]; exact hc.1, ihl _ _ _ _ (fun π' hp => h π' (inSub_child hp)) hc.2.1,
      ihr _ _ _ _ (fun π' hp => h π' (inSub_child hp)) hc.2.2⟩
  | sub _ c ih =>
    intro π y st st' h hc
    simp only [SInv] at *
    exact ih _ _ _ _ (fun π' hp => h π' (inSub_child hp)) hc

/-- What one evaluation step for the object `o` has to deliver on the sub-tree of `ρ`: the outputs, the
    cache invariant kept, a change confined to the sub-tree, and a sub-tree that stays fine for every
    binding that clashes with `x ↦ o`. -/
def StepOk (inv : St → Prop) (ev : St → List (Bnd V × Bool) × St) (outs : List (Bnd V × Bool)) (ρ : Path)
    (o : V) : Prop :=
  ∀ st, inv st → InvOn P st (InSub ρ) [(x, o)] →
    (ev st).1 = outs ∧ inv (ev st).2 ∧ FrameOn st (ev st).2 (InSub ρ) ∧
    ∀ β₂ : Bnd V, InvOn P st (InSub ρ) β₂ → Clash P.toKey [(x, o)] β₂ → InvOn P (ev st).2 (InSub ρ) β₂

/-- One left value `x ↦ o` of an AND, result cache enabled, under either flag. -/
theorem andStep_y (hk : KeyOk P x D) (hinj : Function.Injective P.rank) (π : Path) (req : ReqFn) (y : Bool)
    (r : Cond V) (hv : OnlyX x r.vars) (evalR : Bnd V → St → List (Bnd V × Bool) × St) (o : V) (ho : o ∈ D x)
    (hR : StepOk P x (SInv P x W D r (1 :: π) y) (evalR [(x, o)]) (singleOut W r x y o) (1 :: π) o)
    (acc : List (Bnd V × Bool) × St) (fl : Bool)
    (hspec : BSpecY P x D (getNode acc.2 π).rcache y (Hc W r)) (hinv : SInv P x W D r (1 :: π) y acc.2)
    (hdd : InvOn P acc.2 (RegR π) [(x, o)]) :
    (andStep P true π req y r.vars evalR acc ([(x, o)], fl)).1 =
        acc.1 ++ (if (y && fl) = true then [(([(x, o)] : Bnd V), true)] else singleOut W r x y o) ∧
    BSpecY P x D (getNode (andStep P true π req y r.vars evalR acc ([(x, o)], fl)).2 π).rcache y (Hc W r) ∧
    SInv P x W D r (1 :: π) y (andStep P true π req y r.vars evalR acc ([(x, o)], fl)).2 ∧
    FrameOn acc.2 (andStep P true π req y r.vars evalR acc ([(x, o)], fl)).2 (RegR π) ∧
    ∀ β₂ : Bnd V, InvOn P acc.2 (RegR π) β₂ → Clash P.toKey [(x, o)] β₂ →
      InvOn P (andStep P true π req y r.vars evalR acc ([(x, o)], fl)).2 (RegR π) β₂ := by
  have hπR : RegR π π := Or.inl rfl
  have hπ1 : ¬ InSub (1 :: π) π := not_inSub_child_self 1 π
  have hnb := nby_mkCache P x D hv hspec
  have hn : NodeOk P { getNode acc.2 π with rcache := mkCache P r.vars (getNode acc.2 π).rcache } [(x, o)] :=
    nodeOk_congr P rfl rfl (hdd π hπR)
  have hsub1 : ∀ π', InSub (1 :: π) π' → π' ≠ π := fun π' hp e => hπ1 (e ▸ hp)
  by_cases hy : (y && fl) = true
  · -- a false left value is forwarded: never a duplicate
    obtain ⟨d1, _, d3, d4⟩ := isDup_fresh P hinj req true [(x, o)] _ hn
    simp only [andStep, hy, if_true, d1, Bool.false_eq_true, if_false]
    refine ⟨trivial, ?_, ?_, frameOn_setNode _ _ _ _ hπR, ?_⟩
    · rw [getNode_setNode_self, d3]; exact Or.inr hnb
    · exact sinv_frame P x W D r _ _ _ _ (fun π' hp => getNode_setNode_ne _ _ _ _ (hsub1 π' hp)) hinv
    · intro β₂ h2 hc
      apply invOn_setNode P π _ h2
      exact d4 β₂ (nodeOk_congr P rfl rfl (h2 π hπR)) (fun hne => clashC_single P x _ o β₂ hc hne)
  · have hy' : (y && fl) = false := by simpa using hy
    obtain ⟨E, hone, hE, hseen0⟩ := hnb.body
    have hchk := nb_check P x hnb.notAll E hone hseen0 (P.toKey o)
    cases hl : E.lookup (P.toKey o) with
    | some f =>
      obtain ⟨n', hfc, _, hc2, hc3⟩ := nby_hit P x D hk hinj hv req y (Hc W r) E hone hE o ho f hl _ hn
      simp only [andStep, hy', Bool.false_eq_true, if_false, if_true, toAsg_single P x hv, hchk, hl,
        Option.isSome_some, hfc]
      refine ⟨by simp [singleOut, Hc], ?_, ?_, frameOn_setNode _ _ _ _ hπR, ?_⟩
      · rw [getNode_setNode_self, hc2]; exact Or.inr hnb
      · exact sinv_frame P x W D r _ _ _ _ (fun π' hp => getNode_setNode_ne _ _ _ _ (hsub1 π' hp)) hinv
      · intro β₂ h2 hc
        apply invOn_setNode P π _ h2
        exact hc3 β₂ (nodeOk_congr P rfl rfl (h2 π hπR)) hc
    | none =>
      -- the right operand is evaluated under the state in which the node carries its (keyed) cache
      have hinv1 : SInv P x W D r (1 :: π) y
          (setNode acc.2 π { getNode acc.2 π with rcache := mkCache P r.vars (getNode acc.2 π).rcache }) :=
        sinv_frame P x W D r _ _ _ _ (fun π' hp => getNode_setNode_ne _ _ _ _ (hsub1 π' hp)) hinv
      have hdd1 : ∀ β₂ : Bnd V, InvOn P acc.2 (RegR π) β₂ → InvOn P
          (setNode acc.2 π { getNode acc.2 π with rcache := mkCache P r.vars (getNode acc.2 π).rcache })
          (InSub (1 :: π)) β₂ := fun β₂ h2 =>
        invOn_setNode P π _ (invOn_sub P h2 (fun π' h => Or.inr h)) (nodeOk_congr P rfl rfl (h2 π hπR))
      obtain ⟨r1, r2, r3, r4⟩ := hR _ hinv1 (hdd1 _ hdd)
      have hnode : getNode (evalR [(x, o)] (setNode acc.2 π
          { getNode acc.2 π with rcache := mkCache P r.vars (getNode acc.2 π).rcache })).2 π =
          { getNode acc.2 π with rcache := mkCache P r.vars (getNode acc.2 π).rcache } := by
        rw [r3 π hπ1, getNode_setNode_self]
      have hstore := nby_store P x D hv hnb o ho (fun E' hone' => by
        rw [Cache.one_unique hone hone']; exact hl)
      simp only [andStep, hy', Bool.false_eq_true, if_false, if_true, toAsg_single P x hv, hchk, hl,
        Option.isSome_none, r1, hnode]
      refine ⟨trivial, ?_, ?_, ?_, ?_⟩
      · rw [getNode_setNode_self]
        exact Or.inr (by simpa [singleOut, Hc] using hstore)
      · exact sinv_frame P x W D r _ _ _ _ (fun π' hp => getNode_setNode_ne _ _ _ _ (hsub1 π' hp)) r2
      · refine frameOn_trans (frameOn_setNode _ _ _ _ hπR) (frameOn_trans (frameOn_sub r3 (fun π' h => Or.inr h)) ?_)
        exact frameOn_setNode _ _ _ _ hπR
      · intro β₂ h2 hc
        have h4 := r4 β₂ (hdd1 β₂ h2) hc
        intro π' hπ'
        by_cases e : π' = π
        · subst e
          rw [getNode_setNode_self]
          exact nodeOk_congr P rfl rfl (h2 π' hπR)
        · rw [getNode_setNode_ne _ _ _ _ e]
          rcases hπ' with h | h
          · exact absurd h e
          · exact h4 π' h

/-- One left value `x ↦ o` of an ElseIf, result cache enabled: a true left value is forwarded; under a
    false one the right operand's outputs are appended - computed (true ones pass the duplicate check)
    and stored, or served from the ElseIf's cache. -/
theorem orStep_y (hk : KeyOk P x D) (hinj : Function.Injective P.rank) (π : Path) (req : ReqFn) (y : Bool)
    (r : Cond V) (hv : OnlyX x r.vars) (evalR : Bnd V → St → List (Bnd V × Bool) × St) (o : V) (ho : o ∈ D x)
    (hR : StepOk P x (SInv P x W D r (1 :: π) y) (evalR [(x, o)]) (singleOut W r x y o) (1 :: π) o)
    (acc : List (Bnd V × Bool) × St) (fl : Bool)
    (hspec : BSpecY P x D (getNode acc.2 π).rcache y (Hc W r)) (hinv : SInv P x W D r (1 :: π) y acc.2)
    (hdd : InvOn P acc.2 (RegR π) [(x, o)]) :
    (orStep P true π req y r.vars evalR acc ([(x, o)], fl)).1 =
        acc.1 ++ (if fl = true then singleOut W r x y o else [(([(x, o)] : Bnd V), false)]) ∧
    BSpecY P x D (getNode (orStep P true π req y r.vars evalR acc ([(x, o)], fl)).2 π).rcache y (Hc W r) ∧
    SInv P x W D r (1 :: π) y (orStep P true π req y r.vars evalR acc ([(x, o)], fl)).2 ∧
    FrameOn acc.2 (orStep P true π req y r.vars evalR acc ([(x, o)], fl)).2 (RegR π) ∧
    ∀ β₂ : Bnd V, InvOn P acc.2 (RegR π) β₂ → Clash P.toKey [(x, o)] β₂ →
      InvOn P (orStep P true π req y r.vars evalR acc ([(x, o)], fl)).2 (RegR π) β₂ := by
  have hπR : RegR π π := Or.inl rfl
  have hπ1 : ¬ InSub (1 :: π) π := not_inSub_child_self 1 π
  have hsub1 : ∀ π', InSub (1 :: π) π' → π' ≠ π := fun π' hp e => hπ1 (e ▸ hp)
  cases fl with
  | false =>
    -- the left operand is true: forwarded, nothing changes
    simp only [orStep, Bool.false_eq_true, if_false]
    exact ⟨trivial, hspec, hinv, frameOn_refl _ _, fun β₂ h2 _ => h2⟩
  | true =>
    have hnb := nby_mkCache P x D hv hspec
    have hn : NodeOk P { getNode acc.2 π with rcache := mkCache P r.vars (getNode acc.2 π).rcache } [(x, o)] :=
      nodeOk_congr P rfl rfl (hdd π hπR)
    obtain ⟨E, hone, hE, hseen0⟩ := hnb.body
    have hchk := nb_check P x hnb.notAll E hone hseen0 (P.toKey o)
    cases hl : E.lookup (P.toKey o) with
    | some f =>
      obtain ⟨n', hfc, _, hc2, hc3⟩ := nby_hit P x D hk hinj hv req y (Hc W r) E hone hE o ho f hl _ hn
      simp only [orStep, if_true, toAsg_single P x hv, hchk, hl, Option.isSome_some, hfc]
      refine ⟨by simp [singleOut, Hc], ?_, ?_, frameOn_setNode _ _ _ _ hπR, ?_⟩
      · rw [getNode_setNode_self, hc2]; exact Or.inr hnb
      · exact sinv_frame P x W D r _ _ _ _ (fun π' hp => getNode_setNode_ne _ _ _ _ (hsub1 π' hp)) hinv
      · intro β₂ h2 hc
        apply invOn_setNode P π _ h2
        exact hc3 β₂ (nodeOk_congr P rfl rfl (h2 π hπR)) hc
    | none =>
      have hinv1 : SInv P x W D r (1 :: π) y
          (setNode acc.2 π { getNode acc.2 π with rcache := mkCache P r.vars (getNode acc.2 π).rcache }) :=
        sinv_frame P x W D r _ _ _ _ (fun π' hp => getNode_setNode_ne _ _ _ _ (hsub1 π' hp)) hinv
      have hdd1 : ∀ β₂ : Bnd V, InvOn P acc.2 (RegR π) β₂ → InvOn P
          (setNode acc.2 π { getNode acc.2 π with rcache := mkCache P r.vars (getNode acc.2 π).rcache })
          (InSub (1 :: π)) β₂ := fun β₂ h2 =>
        invOn_setNode P π _ (invOn_sub P h2 (fun π' h => Or.inr h)) (nodeOk_congr P rfl rfl (h2 π hπR))
      obtain ⟨r1, r2, r3, r4⟩ := hR _ hinv1 (hdd1 _ hdd)
      have hnode : getNode (evalR [(x, o)] (setNode acc.2 π
          { getNode acc.2 π with rcache := mkCache P r.vars (getNode acc.2 π).rcache })).2 π =
          { getNode acc.2 π with rcache := mkCache P r.vars (getNode acc.2 π).rcache } := by
        rw [r3 π hπ1, getNode_setNode_self]
      have hstore := nby_store P x D hv hnb o ho (fun E' hone' => by
        rw [Cache.one_unique hone hone']; exact hl)
      have hfr0 : FrameOn acc.2 (evalR [(x, o)] (setNode acc.2 π
          { getNode acc.2 π with rcache := mkCache P r.vars (getNode acc.2 π).rcache })).2 (RegR π) :=
        frameOn_trans (frameOn_setNode _ _ _ _ hπR) (frameOn_sub r3 (fun π' h => Or.inr h))
      simp only [orStep, if_true, toAsg_single P x hv, hchk, hl, Option.isSome_none, Bool.false_eq_true, if_false, r1]
      by_cases hy : (Hc W r o || y) = true
      · -- one output of the right operand: checked (when true), stored, appended
        have hout : singleOut W r x y o = [(([(x, o)] : Bnd V), !Hc W r o)] := by
          simp only [singleOut, closedOut]; rw [show denote W (constAsg o) r = Hc W r o from rfl, hy]; rfl
        have hskip : ((!Hc W r o) && !y) = false := by
          cases h1 : Hc W r o <;> cases h2 : y <;> simp_all
        have hstore' : NBy P x D ((mkCache P r.vars (getNode acc.2 π).rcache).insert
            (toAsg P r.vars [(x, o)]) (!Hc W r o)) y (Hc W r) := by
          have := hstore
          simp only [closedOut, hy, if_true, List.foldl_cons, List.foldl_nil] at this
          exact this
        rw [hout]
        simp only [List.foldl_cons, List.foldl_nil, orInner, hskip, Bool.false_eq_true, if_false, hnode,
          Bool.not_not]
        cases hH : Hc W r o with
        | true =>
          -- a true output: the duplicate check
          obtain ⟨d1, _, d3, d4⟩ := isDup_fresh P hinj req false [(x, o)] _ hn
          simp only [if_true, d1, Bool.false_eq_true, if_false, d3, Bool.not_true]
          rw [hH] at hstore'
          refine ⟨trivial, ?_, ?_, ?_, ?_⟩
          · rw [getNode_setNode_self]; exact Or.inr hstore'
          · exact sinv_frame P x W D r _ _ _ _ (fun π' hp => getNode_setNode_ne _ _ _ _ (hsub1 π' hp)) r2
          · exact frameOn_trans hfr0 (frameOn_setNode _ _ _ _ hπR)
          · intro β₂ h2 hc
            have h4 := r4 β₂ (hdd1 β₂ h2) hc
            intro π' hπ'
            by_cases e : π' = π
            · subst e
              rw [getNode_setNode_self]
              exact nodeOk_congr P rfl rfl
                (d4 β₂ (nodeOk_congr P rfl rfl (h2 π' hπR)) (fun hne => clashC_single P x _ o β₂ hc hne))
            · rw [getNode_setNode_ne _ _ _ _ e]
              rcases hπ' with h | h
              · exact absurd h e
              · exact h4 π' h
        | false =>
          simp only [Bool.false_eq_true, if_false, Bool.not_false]
          rw [hH] at hstore'
          refine ⟨trivial, ?_, ?_, ?_, ?_⟩
          · rw [getNode_setNode_self]; exact Or.inr hstore'
          · exact sinv_frame P x W D r _ _ _ _ (fun π' hp => getNode_setNode_ne _ _ _ _ (hsub1 π' hp)) r2
          · exact frameOn_trans hfr0 (frameOn_setNode _ _ _ _ hπR)
          · intro β₂ h2 hc
            have h4 := r4 β₂ (hdd1 β₂ h2) hc
            intro π' hπ'
            by_cases e : π' = π
            · subst e
              rw [getNode_setNode_self]
              exact nodeOk_congr P rfl rfl (h2 π' hπR)
            · rw [getNode_setNode_ne _ _ _ _ e]
              rcases hπ' with h | h
              · exact absurd h e
              · exact h4 π' h
      · -- the right operand yields nothing (false, and false outputs are not asked for)
        have hy' : (Hc W r o || y) = false := by simpa using hy
        have hout : singleOut W r x y o = [] := by
          simp only [singleOut, closedOut]; rw [show denote W (constAsg o) r = Hc W r o from rfl, hy']; rfl
        rw [hout]
        simp only [List.foldl_nil, List.append_nil]
        refine ⟨trivial, ?_, r2, hfr0, ?_⟩
        · rw [hnode]; exact Or.inr hnb
        · intro β₂ h2 hc
          have h4 := r4 β₂ (hdd1 β₂ h2) hc
          intro π' hπ'
          rcases hπ' with h | h
          · subst h
            rw [hnode]
            exact nodeOk_congr P rfl rfl (h2 π' hπR)
          · exact h4 π' h

/-! ### Induction over the tree -/

theorem onlyX_of_single_tree : ∀ (c : Cond V), Cond.tree c = true → Cond.single x c → OnlyX x c.vars := by
  intro c
  induction c with
  | cmp op l r => intro _ hs; simpa [Cond.vars] using onlyX_of_single_cmp x hs
  | truth inv t => intro _ hs; exact ⟨by simpa [Cond.vars] using hs.2, by simpa [Cond.vars] using hs.1⟩
  | pred inv n args => intro _ hs; exact ⟨by simpa [Cond.vars] using hs.2, by simpa [Cond.vars] using hs.1⟩
  | and l r ihl ihr =>
    intro hc hs
    simp only [Cond.tree, Bool.and_eq_true] at hc
    obtain ⟨l1, l2⟩ := ihl hc.1 hs.1
    obtain ⟨_, r2⟩ := ihr hc.2 hs.2
    refine ⟨?_, ?_⟩
    · simp only [Cond.vars]; intro e; exact l1 (List.append_eq_nil_iff.1 e).1
    · intro v hv
      simp only [Cond.vars, List.mem_append] at hv
      rcases hv with hv | hv
      · exact l2 v hv
      · exact r2 v hv
  | elseIf l r ihl ihr =>
    intro hc hs
    simp only [Cond.tree, Bool.and_eq_true] at hc
    obtain ⟨l1, l2⟩ := ihl hc.1 hs.1
    obtain ⟨_, r2⟩ := ihr hc.2 hs.2
    refine ⟨?_, ?_⟩
    · simp only [Cond.vars]; intro e; exact l1 (List.append_eq_nil_iff.1 e).1
    · intro v hv
      simp only [Cond.vars, List.mem_append] at hv
      rcases hv with hv | hv
      · exact l2 v hv
      · exact r2 v hv
  | sub sel c ih =>
    intro hc hs
    simp only [Cond.tree] at hc
    obtain ⟨c1, c2⟩ := ih hc hs.1
    refine ⟨?_, ?_⟩
    · simp only [Cond.vars]; intro e; exact c1 (List.append_eq_nil_iff.1 e).1
    · intro v hv
      simp only [Cond.vars, List.mem_append] at hv
      rcases hv with hv | hv
      · exact c2 v hv
      · exact hs.2 v hv

omit [BEq V] in
theorem regR_not_left (π π' : Path) (h : RegR π π') : ¬ InSub (0 :: π) π' := by
  rcases h with h | h
  · subst h; exact not_inSub_child_self 0 π'
  · intro h0; exact inSub_children_disjoint (by decide : (0 : Nat) ≠ 1) h0 h

omit [BEq V] in
theorem singleOut_and (l r : Cond V) (y : Bool) (o : V) :
    singleOut W (.and l r) x y o =
      if Hc W l o = true then singleOut W r x y o
      else (if y = true then [(([(x, o)] : Bnd V), true)] else []) := by
  simp only [singleOut, closedOut, denote, Hc]
  rcases Bool.eq_false_or_eq_true (denote W (constAsg o) l) with h1 | h1 <;>
    rcases Bool.eq_false_or_eq_true (denote W (constAsg o) r) with h2 | h2 <;> cases y <;> simp [h1, h2]

omit [BEq V] in
theorem singleOut_or (l r : Cond V) (y : Bool) (o : V) :
    singleOut W (.elseIf l r) x y o =
      if Hc W l o = true then [(([(x, o)] : Bnd V), false)] else singleOut W r x y o := by
  simp only [singleOut, closedOut, denote, Hc]
  rcases Bool.eq_false_or_eq_true (denote W (constAsg o) l) with h1 | h1 <;>
    rcases Bool.eq_false_or_eq_true (denote W (constAsg o) r) with h2 | h2 <;> cases y <;> simp [h1, h2]

/-- Evaluate the left operand (its own sub-tree), then run the node's loop on what is left of the
    region: the two invariants live on disjoint parts of the state. -/
theorem node_compose (π : Path) (o : V) (invL invN : St → Prop)
    (hLf : ∀ s s', (∀ π', InSub (0 :: π) π' → getNode s' π' = getNode s π') → invL s → invL s')
    (hNf : ∀ s s', (∀ π', RegR π π' → getNode s' π' = getNode s π') → invN s → invN s')
    (evL : St → List (Bnd V × Bool) × St) (outsL : List (Bnd V × Bool))
    (hL : StepOk P x invL evL outsL (0 :: π) o)
    (nodeStep : St → List (Bnd V × Bool) × St) (outs : List (Bnd V × Bool))
    (hN : ∀ s, invN s → InvOn P s (RegR π) [(x, o)] →
      (nodeStep s).1 = outs ∧ invN (nodeStep s).2 ∧ FrameOn s (nodeStep s).2 (RegR π) ∧
      ∀ β₂ : Bnd V, InvOn P s (RegR π) β₂ → Clash P.toKey [(x, o)] β₂ → InvOn P (nodeStep s).2 (RegR π) β₂) :
    StepOk P x (fun s => invL s ∧ invN s) (fun s => nodeStep (evL s).2) outs π o := by
  intro st hinv hdd
  obtain ⟨hl, hn⟩ := hinv
  have hsubL : ∀ π', InSub (0 :: π) π' → InSub π π' := fun π' h => inSub_child h
  obtain ⟨_, l2, l3, l4⟩ := hL st hl (invOn_sub P hdd hsubL)
  have hn1 : invN (evL st).2 := hNf _ _ (fun π' h => l3 π' (regR_not_left π π' h)) hn
  have hdd1 : ∀ β₂ : Bnd V, InvOn P st (InSub π) β₂ → InvOn P (evL st).2 (RegR π) β₂ := fun β₂ h2 =>
    invOn_frame P (invOn_sub P h2 (regR_sub π)) l3 (fun π' h => regR_not_left π π' h)
  obtain ⟨n1, n2, n3, n4⟩ := hN _ hn1 (hdd1 _ hdd)
  refine ⟨n1, ⟨?_, n2⟩, ?_, ?_⟩
  · exact hLf _ _ (fun π' h => n3 π' (fun hr => regR_not_left π π' hr h)) l2
  · exact frameOn_trans (frameOn_sub l3 hsubL) (frameOn_sub n3 (regR_sub π))
  · intro β₂ h2 hc
    have a1 : InvOn P (evL st).2 (InSub π) β₂ := invOn_extend P h2 l3 (l4 β₂ (invOn_sub P h2 hsubL) hc)
    exact invOn_extend P a1 n3 (n4 β₂ (invOn_sub P a1 (regR_sub π)) hc)

/-- **Bound position, any and/or tree.**  A single-variable tree of comparisons, truth tests,
    predicates, conjunctions and disjunctions evaluated with `x` bound, result cache ENABLED, under
    either flag: it yields the L1 output, whatever its caches hold (within their specification) and
    whatever its duplicate tracking sets hold (as long as every stored key clashes with `x ↦ o`). -/
theorem bound_ok_y (hk : KeyOk P x D) (hinj : Function.Injective P.rank) : ∀ (c : Cond V), Cond.tree c = true →
    Cond.single x c → c.noFlat = true → ∀ (π : Path) (y : Bool) (req : ReqFn) (o : V), o ∈ D x →
    StepOk P x (SInv P x W D c π y) (evalM W D P true c π req [(x, o)] y) (singleOut W c x y o) π o := by
  intro c
  induction c with
  | cmp op l r =>
    intro _ hs hf π y req o ho st hinv hdd
    simp only [SInv] at hinv
    obtain ⟨n', h1, h2, _, h4⟩ := cmp_bound_y P x W D hk hinj op l r (onlyX_of_single_cmp x hs) hf hs y o ho π req st
      hinv (hdd π (inSub_refl π))
    rw [h1]
    refine ⟨rfl, ?_, frameOn_setNode _ _ _ _ (inSub_refl π), ?_⟩
    · simp only [SInv, getNode_setNode_self]; exact Or.inr h2
    · intro β₂ hb hc
      exact invOn_setNode P π _ hb (h4 β₂ (hb π (inSub_refl π)) hc)
  | truth inv t =>
    intro _ hs hf π y req o ho st _ _
    simp only [evalM]
    exact ⟨cond_at W D x _ hf hs y o, trivial, frameOn_refl _ _, fun β₂ h _ => h⟩
  | pred inv n args =>
    intro _ hs hf π y req o ho st _ _
    simp only [evalM]
    exact ⟨cond_at W D x _ hf hs y o, trivial, frameOn_refl _ _, fun β₂ h _ => h⟩
  | and l r ihl ihr =>
    intro hc hs hf π y req o ho
    simp only [Cond.tree, Bool.and_eq_true] at hc
    simp only [Cond.noFlat, Bool.and_eq_true] at hf
    have hv := onlyX_of_single_tree x r hc.2 hs.2
    have hL := ihl hc.1 hs.1 hf.1 (0 :: π) y (reqLeftOfAnd r.vars req) o ho
    have hR := ihr hc.2 hs.2 hf.2 (1 :: π) y (reqRightOfAnd req) o ho
    -- the node's loop over the (at most one) left value
    have hN : ∀ s, (BSpecY P x D (getNode s π).rcache y (Hc W r) ∧ SInv P x W D r (1 :: π) y s) →
        InvOn P s (RegR π) [(x, o)] →
        ((singleOut W l x y o).foldl (andStep P true π req y r.vars
            (fun b s' => evalM W D P true r (1 :: π) (reqRightOfAnd req) b y s')) ([], s)).1 =
          singleOut W (.and l r) x y o ∧
        (BSpecY P x D (getNode ((singleOut W l x y o).foldl (andStep P true π req y r.vars
            (fun b s' => evalM W D P true r (1 :: π) (reqRightOfAnd req) b y s')) ([], s)).2 π).rcache y (Hc W r) ∧
          SInv P x W D r (1 :: π) y ((singleOut W l x y o).foldl (andStep P true π req y r.vars
            (fun b s' => evalM W D P true r (1 :: π) (reqRightOfAnd req) b y s')) ([], s)).2) ∧
        FrameOn s ((singleOut W l x y o).foldl (andStep P true π req y r.vars
            (fun b s' => evalM W D P true r (1 :: π) (reqRightOfAnd req) b y s')) ([], s)).2 (RegR π) ∧
        ∀ β₂ : Bnd V, InvOn P s (RegR π) β₂ → Clash P.toKey [(x, o)] β₂ →
          InvOn P ((singleOut W l x y o).foldl (andStep P true π req y r.vars
            (fun b s' => evalM W D P true r (1 :: π) (reqRightOfAnd req) b y s')) ([], s)).2 (RegR π) β₂ := by
      intro s hs' hd
      rw [singleOut_and]
      by_cases hy : (Hc W l o || y) = true
      · have hout : singleOut W l x y o = [(([(x, o)] : Bnd V), !Hc W l o)] := by
          simp only [singleOut, closedOut]; rw [show denote W (constAsg o) l = Hc W l o from rfl, hy]; rfl
        rw [hout]
        simp only [List.foldl_cons, List.foldl_nil]
        obtain ⟨a1, a2, a3, a4, a5⟩ := andStep_y P x W D hk hinj π req y r hv
          (fun b s' => evalM W D P true r (1 :: π) (reqRightOfAnd req) b y s') o ho hR ([], s) (!Hc W l o)
          hs'.1 hs'.2 hd
        refine ⟨?_, ⟨a2, a3⟩, a4, a5⟩
        rw [a1]
        cases h1 : Hc W l o <;> cases h2 : y <;> simp_all
      · have hy' : (Hc W l o || y) = false := by simpa using hy
        have hout : singleOut W l x y o = [] := by
          simp only [singleOut, closedOut]; rw [show denote W (constAsg o) l = Hc W l o from rfl, hy']; rfl
        rw [hout]
        simp only [List.foldl_nil]
        refine ⟨?_, hs', frameOn_refl _ _, fun β₂ h _ => h⟩
        cases h1 : Hc W l o <;> cases h2 : y <;> simp_all
    have hcomp := node_compose P x π o (SInv P x W D l (0 :: π) y)
      (fun s => BSpecY P x D (getNode s π).rcache y (Hc W r) ∧ SInv P x W D r (1 :: π) y s)
      (fun s s' h => sinv_frame P x W D l _ _ s s' h)
      (fun s s' h hn => ⟨by rw [h π (Or.inl rfl)]; exact hn.1,
        sinv_frame P x W D r _ _ s s' (fun π' hp => h π' (Or.inr hp)) hn.2⟩)
      _ _ hL _ _ hN
    intro st hinv hdd
    simp only [SInv] at hinv
    have := hcomp st ⟨hinv.2.1, hinv.1, hinv.2.2⟩ hdd
    have hl1 := (hL st hinv.2.1 (invOn_sub P hdd (fun π' h => inSub_child h))).1
    simp only [evalM, hl1]
    obtain ⟨t1, t2, t3, t4⟩ := this
    exact ⟨t1, by simp only [SInv]; exact ⟨t2.2.1, t2.1, t2.2.2⟩, t3, t4⟩
  | elseIf l r ihl ihr =>
    intro hc hs hf π y req o ho
    simp only [Cond.tree, Bool.and_eq_true] at hc
    simp only [Cond.noFlat, Bool.and_eq_true] at hf
    have hv := onlyX_of_single_tree x r hc.2 hs.2
    have hL := ihl hc.1 hs.1 hf.1 (0 :: π) true (reqLeftOfOr r.vars req) o ho
    have hR := ihr hc.2 hs.2 hf.2 (1 :: π) y (reqRightOfOr req) o ho
    have hout : singleOut W l x true o = [(([(x, o)] : Bnd V), !Hc W l o)] := by
      simp [singleOut, closedOut, Hc]
    have hN : ∀ s, (BSpecY P x D (getNode s π).rcache y (Hc W r) ∧ SInv P x W D r (1 :: π) y s) →
        InvOn P s (RegR π) [(x, o)] →
        ((singleOut W l x true o).foldl (orStep P true π req y r.vars
            (fun b s' => evalM W D P true r (1 :: π) (reqRightOfOr req) b y s')) ([], s)).1 =
          singleOut W (.elseIf l r) x y o ∧
        (BSpecY P x D (getNode ((singleOut W l x true o).foldl (orStep P true π req y r.vars
            (fun b s' => evalM W D P true r (1 :: π) (reqRightOfOr req) b y s')) ([], s)).2 π).rcache y (Hc W r) ∧
          SInv P x W D r (1 :: π) y ((singleOut W l x true o).foldl (orStep P true π req y r.vars
            (fun b s' => evalM W D P true r (1 :: π) (reqRightOfOr req) b y s')) ([], s)).2) ∧
        FrameOn s ((singleOut W l x true o).foldl (orStep P true π req y r.vars
            (fun b s' => evalM W D P true r (1 :: π) (reqRightOfOr req) b y s')) ([], s)).2 (RegR π) ∧
        ∀ β₂ : Bnd V, InvOn P s (RegR π) β₂ → Clash P.toKey [(x, o)] β₂ →
          InvOn P ((singleOut W l x true o).foldl (orStep P true π req y r.vars
            (fun b s' => evalM W D P true r (1 :: π) (reqRightOfOr req) b y s')) ([], s)).2 (RegR π) β₂ := by
      intro s hs' hd
      rw [singleOut_or, hout]
      simp only [List.foldl_cons, List.foldl_nil]
      obtain ⟨a1, a2, a3, a4, a5⟩ := orStep_y P x W D hk hinj π req y r hv
        (fun b s' => evalM W D P true r (1 :: π) (reqRightOfOr req) b y s') o ho hR ([], s) (!Hc W l o)
        hs'.1 hs'.2 hd
      refine ⟨?_, ⟨a2, a3⟩, a4, a5⟩
      rw [a1]
      cases h1 : Hc W l o <;> simp
    have hcomp := node_compose P x π o (SInv P x W D l (0 :: π) true)
      (fun s => BSpecY P x D (getNode s π).rcache y (Hc W r) ∧ SInv P x W D r (1 :: π) y s)
      (fun s s' h => sinv_frame P x W D l _ _ s s' h)
      (fun s s' h hn => ⟨by rw [h π (Or.inl rfl)]; exact hn.1,
        sinv_frame P x W D r _ _ s s' (fun π' hp => h π' (Or.inr hp)) hn.2⟩)
      _ _ hL _ _ hN
    intro st hinv hdd
    simp only [SInv] at hinv
    have := hcomp st ⟨hinv.2.1, hinv.1, hinv.2.2⟩ hdd
    have hl1 := (hL st hinv.2.1 (invOn_sub P hdd (fun π' h => inSub_child h))).1
    have hne : (singleOut W l x true o).isEmpty = false := by rw [hout]; rfl
    simp only [evalM, hl1, hne, Bool.false_eq_true, if_false]
    obtain ⟨t1, t2, t3, t4⟩ := this
    exact ⟨t1, by simp only [SInv]; exact ⟨t2.2.1, t2.1, t2.2.2⟩, t3, t4⟩
  | sub sel c ih =>
    -- a sub-query in condition position: its condition, then its selected expressions (all bound)
    intro hc hs hf π y req o ho st hinv hdd
    simp only [Cond.tree] at hc
    simp only [Cond.noFlat, Bool.and_eq_true] at hf
    simp only [SInv] at hinv
    obtain ⟨c1, c2, c3, c4⟩ := ih hc hs.1 hf.1 (0 :: π) y (fun wt => req wt ++ sel.flatMap Term.binds) o ho st hinv
      (invOn_sub P hdd (fun π' h => inSub_child h))
    have hargs : evalArgs W D sel [(x, o)] = [([(x, o)], termsVal W (constAsg o) sel)] :=
      args_closed W D sel hf.2 [(x, o)] (constAsg o) (ext_single x o)
        (fun v hv => by rw [hs.2 v hv]; exact bound_single x o)
    refine ⟨?_, by simp only [SInv]; exact c2, frameOn_sub c3 (fun π' h => inSub_child h), ?_⟩
    · simp only [evalM, c1, singleOut, closedOut, denote]
      by_cases hy : (denote W (constAsg o) c || y) = true
      · simp [hy, hargs]
      · simp [hy]
    · intro β₂ h2 hcl
      exact invOn_extend P h2 c3 (c4 β₂ (invOn_sub P h2 (fun π' h => inSub_child h)) hcl)

/-! ### The query: a conjunctive first conjunct (it enumerates the domain), then any and/or tree -/

theorem clash_objs (hk : KeyOk P x D) (o o' : V) (ho : o ∈ D x) (ho' : o' ∈ D x) (hne : o ≠ o') :
    Clash P.toKey ([(x, o)] : Bnd V) [(x, o')] :=
  ⟨x, o, o', lookup_cons_self _ x o, lookup_cons_self _ x o', fun e => hne (hk.inj o ho o' ho' e)⟩

/-- The loop of the root AND over the true left values `x ↦ o` for the (pairwise different) objects `L`. -/
theorem andFold_y (hk : KeyOk P x D) (hinj : Function.Injective P.rank) (π : Path) (req : ReqFn) (r : Cond V)
    (hv : OnlyX x r.vars) (evalR : Bnd V → St → List (Bnd V × Bool) × St)
    (hR : ∀ o ∈ D x, StepOk P x (SInv P x W D r (1 :: π) false) (evalR [(x, o)]) (singleOut W r x false o) (1 :: π) o) :
    ∀ (L : List V), L.Nodup → (∀ o ∈ L, o ∈ D x) → ∀ (acc : List (Bnd V × Bool) × St),
      BSpecY P x D (getNode acc.2 π).rcache false (Hc W r) → SInv P x W D r (1 :: π) false acc.2 →
      (∀ o ∈ L, InvOn P acc.2 (RegR π) [(x, o)]) →
      ((L.map fun o => (([(x, o)] : Bnd V), false)).foldl (andStep P true π req false r.vars evalR) acc).1 =
          acc.1 ++ L.flatMap (singleOut W r x false) ∧
      BSpecY P x D (getNode ((L.map fun o => (([(x, o)] : Bnd V), false)).foldl
          (andStep P true π req false r.vars evalR) acc).2 π).rcache false (Hc W r) ∧
      SInv P x W D r (1 :: π) false ((L.map fun o => (([(x, o)] : Bnd V), false)).foldl
          (andStep P true π req false r.vars evalR) acc).2 ∧
      FrameOn acc.2 ((L.map fun o => (([(x, o)] : Bnd V), false)).foldl
          (andStep P true π req false r.vars evalR) acc).2 (RegR π) := by
  intro L
  induction L with
  | nil => intro _ _ acc h1 h2 _; exact ⟨by simp, h1, h2, frameOn_refl _ _⟩
  | cons o os ih =>
    intro hnd hL acc h1 h2 h3
    rw [List.nodup_cons] at hnd
    have ho := hL o List.mem_cons_self
    obtain ⟨a1, a2, a3, a4, a5⟩ := andStep_y P x W D hk hinj π req false r hv evalR o ho (hR o ho) acc false h1 h2
      (h3 o List.mem_cons_self)
    have h3' : ∀ o' ∈ os, InvOn P (andStep P true π req false r.vars evalR acc ([(x, o)], false)).2 (RegR π) [(x, o')] := by
      intro o' ho'
      have hne : o ≠ o' := fun e => hnd.1 (e ▸ ho')
      exact a5 _ (h3 o' (List.mem_cons_of_mem _ ho'))
        (clash_objs P x D hk o o' ho (hL o' (List.mem_cons_of_mem _ ho')) hne)
    obtain ⟨i1, i2, i3, i4⟩ := ih hnd.2 (fun o' ho' => hL o' (List.mem_cons_of_mem _ ho')) _ a2 a3 h3'
    simp only [List.map_cons, List.foldl_cons, List.flatMap_cons]
    refine ⟨?_, i2, i3, frameOn_trans a4 i4⟩
    rw [i1, a1]
    simp [List.append_assoc]

/-- The caches of the query `and_(c₁, c₂)`: `c₁` conjunctive with its left-most leaf consulted with `x`
    unbound, `c₂` any and/or tree consulted with `x` bound. -/
def TInv (c1 c2 : Cond V) (π : Path) (st : St) : Prop :=
  BSpecY P x D (getNode st π).rcache false (Hc W c2) ∧ CInvT P x W D c1 (0 :: π) st ∧
    SInv P x W D c2 (1 :: π) false st

theorem sinv_reset : ∀ (c : Cond V) (π : Path) (y : Bool) (st : St),
    SInv P x W D c π y st → SInv P x W D c π y (resetDedup st) := by
  intro c
  induction c with
  | cmp op l r => intro π y st h; simp only [SInv, getNode_resetDedup] at *; exact h
  | truth _ _ => intro _ _ _ _; trivial
  | pred _ _ _ => intro _ _ _ _; trivial
  | and l r ihl ihr =>
    intro π y st h
    simp only [SInv, getNode_resetDedup] at *
    exact ⟨h.1, ihl _ _ _ h.2.1, ihr _ _ _ h.2.2⟩
  | elseIf l r ihl ihr =>
    intro π y st h
    simp only [SInv, getNode_resetDedup] at *
    exact ⟨h.1, ihl _ _ _ h.2.1, ihr _ _ _ h.2.2⟩
  | sub _ c ih => intro π y st h; simp only [SInv] at *; exact ih _ _ _ h

theorem sinv_nil : ∀ (c : Cond V) (π : Path) (y : Bool), SInv P x W D c π y ([] : St) := by
  intro c
  induction c with
  | cmp op l r => intro π y; simp only [SInv]; exact Or.inl (by simp [getNode])
  | truth _ _ => intro _ _; trivial
  | pred _ _ _ => intro _ _; trivial
  | and l r ihl ihr => intro π y; simp only [SInv]; exact ⟨Or.inl (by simp [getNode]), ihl _ _, ihr _ _⟩
  | elseIf l r ihl ihr => intro π y; simp only [SInv]; exact ⟨Or.inl (by simp [getNode]), ihl _ _, ihr _ _⟩
  | sub _ c ih => intro π y; simp only [SInv]; exact ih _ _

/-- **Top position.**  `and_(c₁, c₂)` evaluated the way a query evaluates it (`x` unbound), result cache
    enabled, duplicate tracking sets clean: the L1 outputs over the whole domain, in order. -/
theorem top_tree_ok [Inhabited V] (hk : KeyOk P x D) (hinj : Function.Injective P.rank) (c1 c2 : Cond V)
    (hc1 : Cond.conj c1 = true) (hc2 : Cond.tree c2 = true) (hs1 : Cond.single x c1) (hs2 : Cond.single x c2)
    (hf1 : c1.noFlat = true) (hf2 : c2.noFlat = true) (π : Path) (req : ReqFn) (s : St)
    (hinv : TInv P x W D c1 c2 π s) (hclean : DedupClean s) :
    (evalM W D P true (.and c1 c2) π req [] false s).1 = (D x).flatMap (singleOut W (.and c1 c2) x false) ∧
    TInv P x W D c1 c2 π (evalM W D P true (.and c1 c2) π req [] false s).2 := by
  obtain ⟨l1, l2, l3⟩ := top_ok P x W D hk c1 hc1 hs1 hf1 (0 :: π) (reqLeftOfAnd c2.vars req) s hinv.2.1
  have hπ0 : ¬ InSub (0 :: π) π := not_inSub_child_self 0 π
  have hd01 : ∀ π', InSub (1 :: π) π' → ¬ InSub (0 :: π) π' :=
    fun π' h hc' => inSub_children_disjoint (by decide) hc' h
  have hspec : BSpecY P x D (getNode (evalM W D P true c1 (0 :: π) (reqLeftOfAnd c2.vars req) [] false s).2 π).rcache
      false (Hc W c2) := by rw [l3 π hπ0]; exact hinv.1
  have hinvr : SInv P x W D c2 (1 :: π) false (evalM W D P true c1 (0 :: π) (reqLeftOfAnd c2.vars req) [] false s).2 :=
    sinv_frame P x W D c2 _ _ _ _ (same_of_frame l3 _ hd01) hinv.2.2
  have hdd : ∀ o ∈ (D x).filter (fun o => denote W (constAsg o) c1),
      InvOn P (evalM W D P true c1 (0 :: π) (reqLeftOfAnd c2.vars req) [] false s).2 (RegR π) [(x, o)] :=
    fun o _ => invOn_frame P (invOn_of_clean P hclean (RegR π) _) l3 (fun π' h => regR_not_left π π' h)
  have hR : ∀ o ∈ D x, StepOk P x (SInv P x W D c2 (1 :: π) false)
      ((fun b s => evalM W D P true c2 (1 :: π) (reqRightOfAnd req) b false s) [(x, o)])
      (singleOut W c2 x false o) (1 :: π) o :=
    fun o ho => bound_ok_y P x W D hk hinj c2 hc2 hs2 hf2 (1 :: π) false (reqRightOfAnd req) o ho
  obtain ⟨f1, f2, f3, f4⟩ := andFold_y P x W D hk hinj π req c2 (onlyX_of_single_tree x c2 hc2 hs2)
    (fun b s => evalM W D P true c2 (1 :: π) (reqRightOfAnd req) b false s) hR
    ((D x).filter fun o => denote W (constAsg o) c1) (hk.nodup.filter _) (fun o ho => (List.mem_filter.1 ho).1)
    ([], (evalM W D P true c1 (0 :: π) (reqLeftOfAnd c2.vars req) [] false s).2) hspec hinvr hdd
  have hl1 : (evalM W D P true c1 (0 :: π) (reqLeftOfAnd c2.vars req) [] false s).1 =
      ((D x).filter fun o => denote W (constAsg o) c1).map fun o => ([(x, o)], false) := by
    rw [l1, flatMap_singleOut]
  simp only [evalM, hl1]
  refine ⟨?_, ?_⟩
  · rw [f1, List.nil_append, flatMap_and]
  · exact ⟨f2, cinvT_frame P x W D c1 _ _ _ (same_of_frame f4 _ (fun π' h hr => regR_not_left π π' hr h)) l2, f3⟩

/-- **Result caching is transparent for single-variable queries `and_(c₁, c₂)`** - `c₁` a comparison /
    truth test / predicate / conjunction of those (the conjunct that enumerates the domain), `c₂` ANY tree
    of conjunctions and disjunctions over comparisons, truth tests and predicates (negations pushed to
    the leaves, as `not_` builds them).  One evaluation by the stateful machine with the result cache
    ENABLED, from any state whose caches meet their specification and whose duplicate tracking sets are
    clean, yields exactly the rows of the L1 evaluation, in order - and leaves such a state. -/
theorem rowsM_on_tree [Inhabited V] (hk : KeyOk P x D) (hinj : Function.Injective P.rank) (q : Query V)
    (c1 c2 : Cond V) (hq : q.cond = some (.and c1 c2))
    (hc1 : Cond.conj c1 = true) (hc2 : Cond.tree c2 = true) (hs1 : Cond.single x c1) (hs2 : Cond.single x c2)
    (hf1 : c1.noFlat = true) (hf2 : c2.noFlat = true) (st : St)
    (hst : TInv P x W D c1 c2 [] st) (hclean : DedupClean st) :
    (rowsM W D P true q st).1 = rows W D q ∧ TInv P x W D c1 c2 [] (rowsM W D P true q st).2 ∧
      DedupClean (rowsM W D P true q st).2 := by
  obtain ⟨h1, h2⟩ := top_tree_ok P x W D hk hinj c1 c2 hc1 hc2 hs1 hs2 hf1 hf2 [] (fun _ => q.sel.flatMap Term.binds)
    st hst hclean
  have hs : Cond.single x (.and c1 c2) := ⟨hs1, hs2⟩
  have hf : (Cond.and c1 c2).noFlat = true := by simp [Cond.noFlat, hf1, hf2]
  refine ⟨?_, ?_, ?_⟩
  · simp only [rowsM, rows, hq, h1, cond_dist W D x (.and c1 c2) hf hs false]
    apply flatMap_congr_mem'
    intro p hp
    have hp2 : p.2 = false := by
      simp only [List.mem_flatMap] at hp
      obtain ⟨o, _, hpo⟩ := hp
      rw [singleOut_eq] at hpo
      split at hpo
      · simp at hpo; rw [hpo]
      · simp at hpo
    simp [hp2]
  · simp only [rowsM, hq]
    obtain ⟨t1, t2, t3⟩ := h2
    exact ⟨by simp only [getNode_resetDedup]; exact t1, cinvT_reset P x W D c1 _ _ t2, sinv_reset P x W D c2 _ _ _ t3⟩
  · simp only [rowsM, hq]
    exact dedupClean_reset _

theorem tinv_nil (c1 c2 : Cond V) : TInv P x W D c1 c2 [] ([] : St) :=
  ⟨Or.inl (by simp [getNode]), cinvT_nil P x W D c1 _, sinv_nil P x W D c2 _ _⟩

/-- … hence every one of any number of consecutive evaluations of the same query object does. -/
theorem rowsM_on_tree_iter [Inhabited V] (hk : KeyOk P x D) (hinj : Function.Injective P.rank) (q : Query V)
    (c1 c2 : Cond V) (hq : q.cond = some (.and c1 c2))
    (hc1 : Cond.conj c1 = true) (hc2 : Cond.tree c2 = true) (hs1 : Cond.single x c1) (hs2 : Cond.single x c2)
    (hf1 : c1.noFlat = true) (hf2 : c2.noFlat = true) :
    ∀ (n : Nat) (st : St), TInv P x W D c1 c2 [] st → DedupClean st →
      (rowsM W D P true q (afterEvalsOn P W D q n st)).1 = rows W D q := by
  intro n
  induction n with
  | zero =>
    intro st hst hcl
    exact (rowsM_on_tree P x W D hk hinj q c1 c2 hq hc1 hc2 hs1 hs2 hf1 hf2 st hst hcl).1
  | succ n ih =>
    intro st hst hcl
    simp only [afterEvalsOn]
    obtain ⟨_, a, b⟩ := rowsM_on_tree P x W D hk hinj q c1 c2 hq hc1 hc2 hs1 hs2 hf1 hf2 st hst hcl
    exact ih _ a b

end Eql.Machine
