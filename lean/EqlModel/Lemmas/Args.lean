/-
  Helper lemmas: `evalArgs` (arguments of predicates, selected expressions).
-/
import EqlModel.Lemmas.Term

namespace Eql
variable {V : Type}
variable (W : World V) (D : VarId → List V)

theorem args_sound : ∀ (ts : List (Term V)), Terms.noFlat ts = true → ∀ (β β' : Bnd V) (as : List V),
    (β', as) ∈ evalArgs W D ts β → ∀ α, Ext β' α → Ext β α ∧ termsVal W α ts = as := by
  intro ts
  induction ts with
  | nil =>
    intro _ β β' as h α hα
    simp [evalArgs] at h
    obtain ⟨h1, h2⟩ := h
    subst h1; subst h2
    exact ⟨hα, rfl⟩
  | cons t ts ih =>
    intro hf β β' as h α hα
    simp only [Terms.noFlat, Bool.and_eq_true] at hf
    simp only [evalArgs, List.mem_flatMap, List.mem_map] at h
    obtain ⟨p, hp, q, hq, he⟩ := h
    cases he
    have h2 := ih hf.2 p.1 q.1 q.2 hq α hα
    have h1 := term_sound W D t hf.1 β p.1 p.2 hp α h2.1
    exact ⟨h1.1, by simp [termsVal, h1.2, h2.2]⟩

theorem args_bok : ∀ (ts : List (Term V)), Terms.noFlat ts = true → ∀ (β β' : Bnd V) (as : List V),
    BOk D β → (β', as) ∈ evalArgs W D ts β → BOk D β' := by
  intro ts
  induction ts with
  | nil => intro _ β β' as hb h; simp [evalArgs] at h; obtain ⟨h1, _⟩ := h; subst h1; exact hb
  | cons t ts ih =>
    intro hf β β' as hb h
    simp only [Terms.noFlat, Bool.and_eq_true] at hf
    simp only [evalArgs, List.mem_flatMap, List.mem_map] at h
    obtain ⟨p, hp, q, hq, he⟩ := h
    cases he
    exact ih hf.2 p.1 q.1 q.2 (term_bok W D t hf.1 β p.1 p.2 hb hp) hq

theorem args_complete : ∀ (ts : List (Term V)), Terms.noFlat ts = true → ∀ (β : Bnd V) (α : Asg V),
    Ext β α → (∀ v ∈ Terms.vars ts, α v ∈ D v) → ∃ p ∈ evalArgs W D ts β, Ext p.1 α := by
  intro ts
  induction ts with
  | nil => intro _ β α hα _; exact ⟨(β, []), by simp [evalArgs], hα⟩
  | cons t ts ih =>
    intro hf β α hα hd
    simp only [Terms.noFlat, Bool.and_eq_true] at hf
    obtain ⟨p, hp, hpe⟩ := term_complete W D t hf.1 β α hα
      (fun v hv => hd v (by simp [Terms.vars, hv]))
    obtain ⟨q, hq, hqe⟩ := ih hf.2 p.1 α hpe (fun v hv => hd v (by simp [Terms.vars, hv]))
    refine ⟨(q.1, p.2 :: q.2), ?_, hqe⟩
    simp only [evalArgs, List.mem_flatMap, List.mem_map]
    exact ⟨p, hp, q, hq, rfl⟩

theorem args_closed : ∀ (ts : List (Term V)), Terms.noFlat ts = true → ∀ (β : Bnd V) (α : Asg V),
    Ext β α → (∀ v ∈ Terms.vars ts, bound β v = true) →
    evalArgs W D ts β = [(β, termsVal W α ts)] := by
  intro ts
  induction ts with
  | nil => intro _ β α _ _; simp [evalArgs, termsVal]
  | cons t ts ih =>
    intro hf β α hα hb
    simp only [Terms.noFlat, Bool.and_eq_true] at hf
    have h1 := term_closed W D t hf.1 β α hα (fun v hv => hb v (by simp [Terms.vars, hv]))
    have h2 := ih hf.2 β α hα (fun v hv => hb v (by simp [Terms.vars, hv]))
    simp [evalArgs, h1, h2, termsVal]

end Eql
