/-
  EqlModel.Decode — S-expression → model values (trusted glue of the line protocol).
-/
import EqlModel.Sexp
import EqlModel.PyPrim
import EqlModel.Build

namespace Eql
open Sexp

partial def decVal : Sexp → Option PVal
  | s => do
    let (h, args) ← s.headed?
    match h, args with
    | "i", [n] => return .int (← n.int?)
    | "s", [] => return .str ""
    | "s", [a] => return .str (← a.atom?)
    | "b", [n] => return .bool ((← n.nat?) != 0)
    | "n", [] => return .none
    | "o", [n] => return .obj (← n.nat?)
    | "l", xs => return .list (← xs.mapM decVal)
    | "t", xs => return .tup (← xs.mapM decVal)
    -- a Python dict {0: v0, 1: v1, ...}: only ever INDEXED by the harness, so it is modelled as the tuple of its values
    | "dm", xs => return .tup (← xs.mapM decVal)
    | _, _ => none

partial def decTerm : Sexp → Option (Term PVal)
  | s => do
    let (h, args) ← s.headed?
    match h, args with
    | "var", [n] => return .var (← n.nat?)
    | "lit", [v] => return .lit (← decVal v)
    | "attr", [n, t] => return .attr (← n.atom?) (← decTerm t)
    | "idx", [k, t] => return .index (← decVal k) (← decTerm t)
    | "call", [m, .list as, t] => return .call (← m.atom?) (← as.mapM decVal) (← decTerm t)
    | "flat", [n, t] => return .flatten (← n.nat?) (← decTerm t)
    | "concat", [n, t] => return .concat (← n.nat?) (← decTerm t)
    | _, _ => none

def decSurfOp : String → Option SurfOp
  | "eq" => some .eq | "ne" => some .ne | "lt" => some .lt
  | "le" => some .le | "gt" => some .gt | "ge" => some .ge
  | _ => none

partial def decSCond : Sexp → Option (SCond PVal)
  | s => do
    let (h, args) ← s.headed?
    match h, args with
    | "cmp", [op, l, r] => return .cmp (← decSurfOp (← op.atom?)) (← decTerm l) (← decTerm r)
    | "in", [i, c] => return .in_ (← decTerm i) (← decTerm c)
    | "contains", [c, i] => return .contains (← decTerm c) (← decTerm i)
    | "truth", [t] => return .truth (← decTerm t)
    | "pred", n :: ts => return .pred (← n.atom?) (← ts.mapM decTerm)
    | "predc", n :: ts => return .pred (← n.atom?) (← ts.mapM decTerm)   -- Predicate subclass: same node kind
    | "and", c :: cs => return chain .and2 (← decSCond c) (← cs.mapM decSCond)   -- chained_logic(AND, ...)
    | "or", c :: cs => return chain .or2 (← decSCond c) (← cs.mapM decSCond)     -- chained_logic(_optimize_or, ...)
    | "not", [c] => return .not (← decSCond c)
    | "sub", .list sel :: c :: cs =>
        return .sub (← sel.mapM decTerm) (chain .and2 (← decSCond c) (← cs.mapM decSCond))
    | _, _ => none

def decData (classes objs : List Sexp) : Option PData := do
  let cs ← classes.mapM fun c => do
    match c with
    | .list [n, b] =>
      let b ← b.atom?
      return ((← n.atom?), if b == "-" then "" else b)
    | _ => none
  let os ← objs.mapM fun o => do
    match o with
    | .list [_, cls, .list attrs] =>
      let as ← attrs.mapM fun a => do
        match a with
        | .list [n, v] => return ((← n.atom?), (← decVal v))
        | _ => none
      return ({ cls := (← cls.atom?), attrs := as } : PObj)
    | _ => none
  return { classes := cs, objs := os }

/-- `(vars (id cls v...) ...)` -/
def decVars (vs : List Sexp) : Option (List (VarId × String × List PVal)) :=
  vs.mapM fun v => do
    match v with
    | .list (id :: cls :: raw) => return ((← id.nat?), (← cls.atom?), (← raw.mapM decVal))
    | _ => none

end Eql
