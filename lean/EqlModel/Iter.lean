/-
  EqlModel.Iter — `HashedIterable` (hashed_data.py) as the memoised, lazily consumed domain of a
  variable, and the demand-driven evaluation of a single-variable query over it.

    HashedIterable.values (memo, insertion ordered) / .iterable (the unconsumed remainder)  ↦ DomSt
    HashedIterable.__iter__: yield the memo, then pull from the iterable one element at a time,
      skipping identities already memoised (fix 4141bff), memoising each new element           ↦ yieldMemo / pullRest
    Variable.__iter__ / An.evaluate: a generator — nothing runs before the first `next`, each
      `next` runs until the next result, `close()` stops after the last delivered result       ↦ take

  `log` records every pull from the user's (possibly one-shot) iterator.  The condition of the
  query is represented by its truth `q o` on each object (justified by `cond_at`/`c01_filter`:
  under a bound variable a single-variable condition yields exactly its truth).
-/
import EqlModel.Basic

namespace Eql.Iter
variable {V : Type} [BEq V]

structure DomSt (V : Type) where
  memo : List V := []      -- HashedIterable.values, in insertion order
  rest : List V            -- what the underlying iterator has not produced yet
  log  : List V := []      -- every element pulled from the underlying iterator, in order
  deriving Repr

def init (dom : List V) : DomSt V := { rest := dom }

/-- Consume the remainder: pull elements one at a time until `need` results have been delivered
    (`none`: until the iterator is exhausted). -/
def pullRest (q : V → Bool) : List V → Option Nat → DomSt V → List V → List V × DomSt V
  | [], _, s, acc => (acc.reverse, { s with rest := [] })
  | o :: os, need, s, acc =>
      if need == some 0 then (acc.reverse, { s with rest := o :: os })
      else
        let s1 : DomSt V := { s with log := s.log ++ [o], rest := os }
        if s.memo.contains o then pullRest q os need s1 acc          -- already memoised: skipped
        else
          let s2 : DomSt V := { s1 with memo := s1.memo ++ [o] }
          if q o then pullRest q os (need.map (· - 1)) s2 (o :: acc)
          else pullRest q os need s2 acc

/-- Re-yield the memo (no pulls), stopping early when enough results were delivered. -/
def yieldMemo (q : V → Bool) : List V → Option Nat → List V → List V × Option Nat
  | [], need, acc => (acc, need)
  | o :: os, need, acc =>
      if need == some 0 then (acc, need)
      else if q o then yieldMemo q os (need.map (· - 1)) (o :: acc)
      else yieldMemo q os need acc

/-- One evaluation delivering at most `k` results (`none`: to completion; `some 0`: the iterator is
    created, or closed before it was started): results delivered and the state afterwards. -/
def take (q : V → Bool) (k : Option Nat) (s : DomSt V) : List V × DomSt V :=
  if k == some 0 then ([], s)
  else
    let m := yieldMemo q s.memo k []
    pullRest q s.rest m.2 s m.1

/-- The elements of a list that are not yet in `seen`, each once, in order. -/
def fresh (seen : List V) : List V → List V
  | [] => []
  | a :: as => if seen.contains a then fresh seen as else a :: fresh (seen ++ [a]) as

/-- What iterating the domain yields from a state: the memo, then the new elements of the rest. -/
def contents (s : DomSt V) : List V := s.memo ++ fresh s.memo s.rest

/-- The shortest prefix that contains `k` qualifying elements (the whole list if there are fewer). -/
def prefixFor (q : V → Bool) : Nat → List V → List V
  | 0, _ => []
  | _ + 1, [] => []
  | k + 1, o :: os => o :: (if q o then prefixFor q k os else prefixFor q (k + 1) os)

/-- A history of evaluations of one query: each delivers at most `k` results and is then closed
    (or runs to completion). -/
def runHistory (q : V → Bool) (s : DomSt V) (h : List (Option Nat)) : DomSt V :=
  h.foldl (fun s k => (take q k s).2) s

end Eql.Iter
