/-
  EqlModel.Sexp — a minimal S-expression reader for the driver's line protocol
  (trusted glue, not used by any theorem).
-/
namespace Eql

inductive Sexp where
  | atom (s : String)
  | list (xs : List Sexp)
  deriving Inhabited, Repr

namespace Sexp

def tokenize (s : String) : List String :=
  let rec go (cs : List Char) (cur : List Char) (acc : List String) : List String :=
    match cs with
    | [] => (if cur.isEmpty then acc else String.ofList cur.reverse :: acc).reverse
    | c :: rest =>
      if c == '(' || c == ')' then
        let acc := if cur.isEmpty then acc else String.ofList cur.reverse :: acc
        go rest [] (String.singleton c :: acc)
      else if c == ' ' || c == '\n' || c == '\t' || c == '\r' then
        let acc := if cur.isEmpty then acc else String.ofList cur.reverse :: acc
        go rest [] acc
      else go rest (c :: cur) acc
  go s.toList [] []

/-- Parse with an explicit stack; returns the top-level expressions. -/
def parseTokens (toks : List String) : Option (List Sexp) :=
  let rec go (toks : List String) (stack : List (List Sexp)) : Option (List Sexp) :=
    match toks with
    | [] => match stack with
      | [top] => some top.reverse
      | _ => none
    | t :: rest =>
      if t == "(" then go rest ([] :: stack)
      else if t == ")" then
        match stack with
        | cur :: parent :: more => go rest ((Sexp.list cur.reverse :: parent) :: more)
        | _ => none
      else match stack with
        | cur :: more => go rest ((Sexp.atom t :: cur) :: more)
        | [] => none
  go toks [[]]

def parse (s : String) : Option (List Sexp) := parseTokens (tokenize s)

def atom? : Sexp → Option String
  | .atom s => some s
  | _ => none

def list? : Sexp → Option (List Sexp)
  | .list xs => some xs
  | _ => none

def nat? (s : Sexp) : Option Nat := s.atom?.bind String.toNat?
def int? (s : Sexp) : Option Int := s.atom?.bind String.toInt?

/-- `(head args...)` -/
def headed? : Sexp → Option (String × List Sexp)
  | .list (.atom h :: args) => some (h, args)
  | _ => none

end Sexp
end Eql
