/-
  EqlModel.RulesExt — rule trees whose branches introduce further variables.

  In `with refinement(body.ref == container, ...): Add(views, Wardrobe(handle, body, container))` the
  refinement's conditions join a variable the base rule does not mention, and its conclusion is made
  of more variables than the base conclusion (the library's own Drawer / Wardrobe / Door example).
    ruleRowsA      `ruleRows` with one list of argument expressions PER conclusion (tag)
    fireExtKids / fireExtRule / specRuleRowsExt
                   the ripple-down reading over PARTIAL bindings: a block fires under a binding of
                   the variables bound so far once for every extension by its own new variables that
                   satisfies its conditions; it is replaced by the first of its refinements that
                   fires under that extension; when no extension satisfies it, its alternatives are
                   tried under the ORIGINAL binding.
    fireExtKids_closed / fireExtRule_closed
                   when every condition of the program only mentions variables that are already bound
                   (the programs the C12 theorems are about) this is exactly `fireKids` / `fireRule`.
  Executable reference for the correspondence check (the de-duplication of conclusions across outputs,
  `ConclusionSelector.update_conclusion`, is not part of the L1 evaluator `evalR`).
-/
import EqlModel.Rules
import EqlModel.SpecExec
import EqlModel.Lemmas.Cond

namespace Eql
variable {V : Type}

def ruleRowsA (W : World V) (D : VarId → List V) (t : RTree V) (argsOf : Nat → List (Term V)) :
    List (Nat × List V) :=
  (evalR W D t [] false).flatMap fun p =>
    match p.2.2 with
    | some tag => if p.2.1 then [] else (evalArgs W D (argsOf tag) p.1).map fun q => (tag, q.2)
    | none => []

theorem ruleRowsA_const (W : World V) (D : VarId → List V) (t : RTree V) (args : List (Term V)) :
    ruleRowsA W D t (fun _ => args) = ruleRows W D t args := rfl

variable [Inhabited V]

/-- The extensions of `β` by the variables of `c` it leaves unbound that satisfy `c`. -/
def extsSat (W : World V) (D : VarId → List V) (c : Cond V) (β : Bnd V) : List (Bnd V) :=
  let free := c.vars.eraseDups.filter fun v => !bound β v
  ((allBnds D free).map (· ++ β)).filter fun β' => denote W (asgOf β') c

def fireExtKids (W : World V) (D : VarId → List V) (m : Kind) : SRule V → Bnd V → List (Nat × Bnd V)
  | .nil, _ => []
  | .cons kind c tag inner rest, β =>
      let here : List (Nat × Bnd V) :=
        if kind = m then
          let exts := extsSat W D c β
          if exts.isEmpty then fireExtKids W D .alt inner β
          else exts.flatMap fun β' =>
            let r := fireExtKids W D .ref inner β'
            if r.isEmpty then [(tag, β')] else r
        else []
      if here.isEmpty then fireExtKids W D m rest β else here

def fireExtRule (W : World V) (D : VarId → List V) (c0 : Cond V) (tag0 : Nat) (kids : SRule V) (β : Bnd V) :
    List (Nat × Bnd V) :=
  if denote W (asgOf β) c0 then
    (let r := fireExtKids W D .ref kids β; if r.isEmpty then [(tag0, β)] else r)
  else fireExtKids W D .alt kids β

/-- Reference rows: per total binding of the base variables, the conclusions selected and the values
    of their argument expressions. -/
def specRuleRowsExt (W : World V) (D : VarId → List V) (baseVars : List VarId) (c0 : Cond V) (tag0 : Nat)
    (kids : SRule V) (argsOf : Nat → List (Term V)) : List (Nat × List V) :=
  (allBnds D baseVars).flatMap fun β =>
    (fireExtRule W D c0 tag0 kids β).map fun p => (p.1, termsVal W (asgOf p.2) (argsOf p.1))

/-- Every condition of the program mentions bound variables only. -/
def SRule.closedUnder (β : Bnd V) : SRule V → Prop
  | .nil => True
  | .cons _ c _ inner rest => (∀ v ∈ c.vars, bound β v = true) ∧ inner.closedUnder β ∧ rest.closedUnder β

theorem extsSat_closed (W : World V) (D : VarId → List V) (c : Cond V) (β : Bnd V)
    (h : ∀ v ∈ c.vars, bound β v = true) :
    extsSat W D c β = if denote W (asgOf β) c then [β] else [] := by
  have hfree : (c.vars.eraseDups.filter fun v => !bound β v) = [] := by
    apply List.filter_eq_nil_iff.2
    intro v hv
    simp [h v (List.mem_eraseDups.1 hv)]
  simp only [extsSat, hfree, allBnds, List.map_cons, List.map_nil, List.nil_append, List.filter_cons,
    List.filter_nil]

theorem fireExtKids_closed (W : World V) (D : VarId → List V) : ∀ (kids : SRule V) (m : Kind) (β : Bnd V),
    kids.closedUnder β →
    fireExtKids W D m kids β = (fireKids W (asgOf β) m kids).toList.map fun t => (t, β) := by
  intro kids
  induction kids with
  | nil => intro m β _; simp [fireExtKids, fireKids]
  | cons kind c tag inner rest ihi ihr =>
    intro m β h
    obtain ⟨hc, hi, hr⟩ := h
    simp only [fireExtKids, fireKids, extsSat_closed W D c β hc]
    by_cases hk : kind = m
    · simp only [hk, if_true]
      by_cases hd : denote W (asgOf β) c = true
      · simp only [hd, if_true, List.isEmpty_cons, Bool.false_eq_true, if_false, List.flatMap_cons,
          List.flatMap_nil, List.append_nil]
        rw [ihi .ref β hi]
        cases hf : fireKids W (asgOf β) .ref inner with
        | none => simp
        | some x => simp
      · have hd' : denote W (asgOf β) c = false := by simpa using hd
        simp only [hd', Bool.false_eq_true, if_false, List.isEmpty_nil, if_true]
        rw [ihi .alt β hi]
        cases hf : fireKids W (asgOf β) .alt inner with
        | none => simp [ihr m β hr]
        | some x => simp
    · simp only [hk, if_false, List.isEmpty_nil, if_true]
      exact ihr m β hr

theorem fireExtRule_closed (W : World V) (D : VarId → List V) (c0 : Cond V) (tag0 : Nat) (kids : SRule V)
    (β : Bnd V) (h : kids.closedUnder β) :
    fireExtRule W D c0 tag0 kids β = (fireRule W (asgOf β) c0 tag0 kids).toList.map fun t => (t, β) := by
  simp only [fireExtRule, fireRule]
  by_cases hd : denote W (asgOf β) c0 = true
  · simp only [hd, if_true]
    rw [fireExtKids_closed W D kids .ref β h]
    cases fireKids W (asgOf β) .ref kids with
    | none => simp
    | some x => simp
  · have hd' : denote W (asgOf β) c0 = false := by simpa using hd
    simp only [hd', Bool.false_eq_true, if_false]
    exact fireExtKids_closed W D kids .alt β h

end Eql
