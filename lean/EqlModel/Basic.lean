def hello := "world"
