/-
  EqlModel.Basic — vocabulary shared by every layer of the model.

  No imports beyond core Lean.  Everything here is computable; the property theorems quantify
  over an arbitrary `World V` (the primitives of the host language), so they do not depend on
  how the driver encodes Python's `==`, `<`, `in`, `bool()` (that encoding is `PyPrim.lean`).
-/
namespace Eql

/-- Identifier of a symbolic variable (or of a `Flatten`/`Concatenate` node, which binds its own
    id exactly like a variable does).  Mirrors `SymbolicExpression._id_`. -/
abbrev VarId := Nat

/-- The operations a `Comparator` node can hold (symbolic.py: `Comparator.operation`):
    the six rich comparisons, `operator.contains` and its inverse `not_contains`. -/
inductive CmpOp where
  | eq | ne | lt | le | gt | ge | contains | notContains
  deriving DecidableEq, Repr, Inhabited

/-- The six rich-comparison spellings a user can write between two expressions. -/
inductive SurfOp where
  | eq | ne | lt | le | gt | ge
  deriving DecidableEq, Repr, Inhabited

/-- CPython's reflected-operand rule: when the left operand is a plain value, `a op b` is
    answered by `b.__mirror(op)__(a)`. -/
def SurfOp.mirror : SurfOp → SurfOp
  | .eq => .eq | .ne => .ne | .lt => .gt | .le => .ge | .gt => .lt | .ge => .le

/-- Primitives of the host language.  `cmp op a b` is `op(a, b)`, in particular
    `cmp .contains c i` is `operator.contains(c, i)`, i.e. `i in c`. -/
structure World (V : Type) where
  attr    : String → V → V
  index   : V → V → V
  call    : String → List V → V → V
  cmp     : CmpOp → V → V → Bool
  truthy  : V → Bool
  /-- elements of a value as `flatten`/`concatenate` see it; a non-iterable is a singleton -/
  items   : V → List V
  /-- `isinstance(v, cls)` (subclasses included) -/
  isInst  : String → V → Bool
  /-- user predicates (`@predicate` functions and `Predicate.__call__`) -/
  fn      : String → List V → V
  /-- `list(...)` of values, the value a `Concatenate` node yields -/
  mkList  : List V → V

/-- "Ordinary Python semantics" of the comparison operators on the values a query meets:
    each operator and its table inverse are complementary, and a comparison and its mirrored
    spelling agree.  The driver's concrete world is checked against CPython on every run. -/
structure World.Lawful {V : Type} (W : World V) : Prop where
  ne_eq  : ∀ a b, W.cmp .ne a b = !W.cmp .eq a b
  ge_lt  : ∀ a b, W.cmp .ge a b = !W.cmp .lt a b
  le_gt  : ∀ a b, W.cmp .le a b = !W.cmp .gt a b
  nc_c   : ∀ a b, W.cmp .notContains a b = !W.cmp .contains a b
  gt_lt  : ∀ a b, W.cmp .gt a b = W.cmp .lt b a
  eq_comm : ∀ a b, W.cmp .eq a b = W.cmp .eq b a

/-- A binding: newest first association list, `dict.update` is consing.  -/
abbrev Bnd (V : Type) := List (VarId × V)

/-- A total assignment, the reference notion a binding is compared with. -/
abbrev Asg (V : Type) := VarId → V

/-- `α` agrees with `β` wherever `β` is defined. -/
def Ext {V : Type} (β : Bnd V) (α : Asg V) : Prop :=
  ∀ v a, β.lookup v = some a → α v = a

def bound {V : Type} (β : Bnd V) (v : VarId) : Bool := (β.lookup v).isSome

/-- Value-position expressions (`CanBehaveLikeAVariable`): variables, literals, domain mappings.
    `flatten id t` is a `Flatten` node: it binds its own id to one inner element per output. -/
inductive Term (V : Type) where
  | var     (v : VarId)
  | lit     (c : V)
  | attr    (name : String) (t : Term V)
  | index   (key : V) (t : Term V)
  | call    (method : String) (args : List V) (t : Term V)
  | flatten (id : VarId) (t : Term V)
  /-- a `Concatenate` node: one value, the list of all inner elements of `t` over all bindings -/
  | concat  (id : VarId) (t : Term V)
  deriving Inhabited

/-- Ids of the `Variable` leaves of a term (`_unique_variables_` without literals). -/
def Term.vars {V : Type} : Term V → List VarId
  | .var v => [v]
  | .lit _ => []
  | .attr _ t => t.vars
  | .index _ t => t.vars
  | .call _ _ t => t.vars
  | .flatten _ t => t.vars
  | .concat _ t => t.vars

/-- Ids a term binds when evaluated: its variables and its flatten nodes. -/
def Term.binds {V : Type} : Term V → List VarId
  | .var v => [v]
  | .lit _ => []
  | .attr _ t => t.binds
  | .index _ t => t.binds
  | .call _ _ t => t.binds
  | .flatten id t => id :: t.binds
  | .concat id _ => [id]

/-- Condition-position expressions after construction (what `entity.py`/`symbolic.py` build). -/
inductive Cond (V : Type) where
  /-- `Comparator(left, right, operation)` -/
  | cmp    (op : CmpOp) (l r : Term V)
  /-- a domain mapping standing in condition position, with its `_invert_` flag -/
  | truth  (inv : Bool) (t : Term V)
  /-- a predicate variable (`@predicate` function or `Predicate` subclass) with its `_invert_` flag -/
  | pred   (inv : Bool) (name : String) (args : List (Term V))
  | and    (l r : Cond V)
  | elseIf (l r : Cond V)
  /-- a sub-query `an(entity(..))`/`an(set_of(..))` used as a condition: selected terms, condition -/
  | sub    (sel : List (Term V)) (c : Cond V)
  deriving Inhabited

def Terms.vars {V : Type} : List (Term V) → List VarId
  | [] => []
  | t :: ts => t.vars ++ Terms.vars ts

def Terms.binds {V : Type} : List (Term V) → List VarId
  | [] => []
  | t :: ts => t.binds ++ Terms.binds ts

def Cond.binds {V : Type} : Cond V → List VarId
  | .cmp _ l r => l.binds ++ r.binds
  | .truth _ t => t.binds
  | .pred _ _ args => Terms.binds args
  | .and l r => l.binds ++ r.binds
  | .elseIf l r => l.binds ++ r.binds
  | .sub sel c => c.binds ++ Terms.binds sel

end Eql
