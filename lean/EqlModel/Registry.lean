/-
  EqlModel.Registry — the registry of instances of `@symbol` classes (predicate.py, cache_data.py).

    symbol / hybrid_new (concrete branch), instantiate_class_and_update_cache ↦ Op.concrete
        (registers the new instance under EXACTLY its class, in `__new__`, then `__init__` runs)
    hybrid_new (symbolic branch): a foreign object is returned, `type.__call__` skips `__init__`,
        nothing is registered                                                 ↦ Op.symbolic
    an inferred variable instantiating its type during evaluation (mode off)  ↦ Op.concrete
    a rule whose body ranges, without a domain, over a class `t` and whose head creates instances
      of `c` (`c = t` without subclasses, or `c` outside `t`'s subtree): one Op.concrete c per
      instance of `t` registered when the evaluation starts (expanded by the driver: `infself`)
    Variable._cache_ cleared                                                  ↦ Op.clear
    let(T) without a domain, evaluated at once:
      get_cache_keys_for_class_ (classes in first-registration order, `issubclass`),
      yield_class_values_from_cache (flat store of each, insertion order)     ↦ query
-/
namespace Eql.Registry

abbrev Cls := Nat
abbrev Inst := Nat

structure RState where
  /-- `Variable._cache_`: class ↦ flat store, classes in first-registration order -/
  store : List (Cls × List Inst) := []
  /-- next fresh instance identity -/
  next : Inst := 0
  /-- number of times a class's own initialisation ran -/
  inits : Nat := 0
  deriving Repr

inductive Op where
  | concrete (c : Cls)
  | symbolic (c : Cls)
  | clear
  deriving Repr

/-- `IndexedCache.insert(.., index=False)` on `Variable._cache_[cls]` (a defaultdict). -/
def register (store : List (Cls × List Inst)) (c : Cls) (i : Inst) : List (Cls × List Inst) :=
  match store with
  | [] => [(c, [i])]
  | (c', is) :: rest => if c' = c then (c', is ++ [i]) :: rest else (c', is) :: register rest c i

def step (s : RState) : Op → RState
  | .concrete c => { store := register s.store c s.next, next := s.next + 1, inits := s.inits + 1 }
  | .symbolic _ => s
  | .clear => { s with store := [] }

def run (s : RState) (ops : List Op) : RState := ops.foldl step s

/-- A variable of type `t` without a domain, declared and evaluated now. -/
def query (sub : Cls → Cls → Bool) (s : RState) (t : Cls) : List Inst :=
  s.store.flatMap fun p => if sub p.1 t then p.2 else []

/-! ### Reference: the log of concrete constructions since the last clear -/

def logStep (log : List (Inst × Cls)) (next : Inst) : Op → List (Inst × Cls) × Inst
  | .concrete c => (log ++ [(next, c)], next + 1)
  | .symbolic _ => (log, next)
  | .clear => ([], next)

def logRun : List Op → List (Inst × Cls) → Inst → List (Inst × Cls) × Inst
  | [], log, next => (log, next)
  | op :: ops, log, next => let r := logStep log next op; logRun ops r.1 r.2

end Eql.Registry
