/-
  C12 — a rule tree selects, per match, the conclusion ripple-down rules prescribe.

  Model: `EqlModel/Rules.lean`.
    rt_closed            under a binding of all variables a constructed rule tree yields exactly one
                         output: the tree's truth (`RTree.holds`) and the conclusion `RTree.concl`
                         selects — ExceptIf: the refinement's conclusion where the refinement fires,
                         else the refined one; Alternative: the left conclusion where the left fires,
                         else the right one where the right fires, else nothing
    c12_rule_tree_rows   for a rule over one variable: in domain order, one instance per object on
                         which the tree fires, carrying exactly `RTree.concl`, nothing for the others
    expected / c12_expected_fire   the tree the ripple-down reading of the surface program
                         prescribes (refinements innermost-last so that the first written wins,
                         alternatives chained in written order, recursively), and its conclusion IS
                         `fireRule`, the recursive RDR reference — refinements and alternatives
                         nested to any depth under any branch
    c12_build_expected   (in Lemmas/RuleBuild.lean) the transliterated imperative construction
                         (`buildRule`: refineAt / altAt with "climb while left operand") produces exactly
                         `expected` for EVERY surface program; `c12_build_expected_small` below is the
                         kernel-evaluated sanity test of the same statement on all programs of <= 4 blocks
-/
import EqlModel.Rules
import EqlModel.Lemmas.Closed

namespace Eql
variable {V : Type}
variable (W : World V) (D : VarId → List V)

def RTree.vars : RTree V → List VarId
  | .leaf _ c _ => c.vars
  | .exceptIf l r => l.vars ++ r.vars
  | .alternative l r => l.vars ++ r.vars

def RTree.noFlat : RTree V → Bool
  | .leaf _ c _ => c.noFlat
  | .exceptIf l r => l.noFlat && r.noFlat
  | .alternative l r => l.noFlat && r.noFlat

/-- The one output of a closed rule tree. -/
def closedOutR (β : Bnd V) (h : Bool) (k : Option Nat) (ywf : Bool) : List (Bnd V × Bool × Option Nat) :=
  if h || ywf then [(β, !h, if h then k else none)] else []

theorem concl_none_of_not_holds (α : Asg V) : ∀ (t : RTree V), t.holds W α = false → t.concl W α = none := by
  intro t
  induction t with
  | leaf i c tag => intro h; simp [RTree.holds] at h; simp [RTree.concl, h]
  | exceptIf l r _ _ => intro h; simp [RTree.holds] at h; simp [RTree.concl, h]
  | alternative l r ihl ihr =>
    intro h
    simp only [RTree.holds, Bool.or_eq_false_iff] at h
    simp [RTree.concl, h.1, ihr h.2]

/-- **Closed evaluation.** With every variable bound a rule tree yields its truth and the
    conclusion the selectors prescribe. -/
theorem rt_closed : ∀ (t : RTree V), t.noFlat = true → ∀ (β : Bnd V) (α : Asg V) (ywf : Bool),
    Ext β α → (∀ v ∈ t.vars, bound β v = true) →
    evalR W D t β ywf = closedOutR β (t.holds W α) (t.concl W α) ywf := by
  intro t
  induction t with
  | leaf i c tag =>
    intro hf β α ywf hα hb
    simp only [RTree.noFlat] at hf
    simp only [evalR, cond_closed W D c hf β α ywf hα hb, closedOut, closedOutR, RTree.holds, RTree.concl]
    rcases Bool.eq_false_or_eq_true (denote W α c) with h | h <;> cases ywf <;> simp [h]
  | exceptIf l r ihl ihr =>
    intro hf β α ywf hα hb
    simp only [RTree.noFlat, Bool.and_eq_true] at hf
    have hl := ihl hf.1 β α ywf hα (fun v h => hb v (by simp [RTree.vars, h]))
    have hr := ihr hf.2 β α false hα (fun v h => hb v (by simp [RTree.vars, h]))
    simp only [evalR, hl, closedOutR, RTree.holds, RTree.concl]
    rcases Bool.eq_false_or_eq_true (l.holds W α) with h1 | h1 <;>
      rcases Bool.eq_false_or_eq_true (r.holds W α) with h2 | h2 <;>
      cases ywf <;> simp [h1, h2, hr, closedOutR]
  | alternative l r ihl ihr =>
    intro hf β α ywf hα hb
    simp only [RTree.noFlat, Bool.and_eq_true] at hf
    have hl := ihl hf.1 β α true hα (fun v h => hb v (by simp [RTree.vars, h]))
    have hr := ihr hf.2 β α ywf hα (fun v h => hb v (by simp [RTree.vars, h]))
    simp only [evalR, hl, closedOutR, RTree.holds, RTree.concl]
    rcases Bool.eq_false_or_eq_true (l.holds W α) with h1 | h1 <;>
      rcases Bool.eq_false_or_eq_true (r.holds W α) with h2 | h2 <;>
      cases ywf <;> simp [h1, h2, hr, closedOutR, concl_none_of_not_holds W α r]

/-- Every leaf condition of the tree is a single-variable condition over `x`. -/
def RTree.single (x : VarId) : RTree V → Prop
  | .leaf _ c _ => Cond.single x c
  | .exceptIf l r => RTree.single x l ∧ RTree.single x r
  | .alternative l r => RTree.single x l ∧ RTree.single x r

theorem rtree_single_vars (x : VarId) : ∀ (t : RTree V), RTree.single x t → ∀ v ∈ t.vars, v = x := by
  intro t
  induction t with
  | leaf i c tag => intro h v hv; exact single_vars x c h v hv
  | exceptIf l r ihl ihr =>
    intro h v hv
    rcases List.mem_append.1 hv with h' | h'
    · exact ihl h.1 v h'
    · exact ihr h.2 v h'
  | alternative l r ihl ihr =>
    intro h v hv
    rcases List.mem_append.1 hv with h' | h'
    · exact ihl h.1 v h'
    · exact ihr h.2 v h'

/-- What the tree yields for the object `o`. -/
def singleOutR (t : RTree V) (x : VarId) (ywf : Bool) (o : V) : List (Bnd V × Bool × Option Nat) :=
  closedOutR [(x, o)] (t.holds W (constAsg o)) (t.concl W (constAsg o)) ywf

theorem rt_at (x : VarId) (t : RTree V) (hf : t.noFlat = true) (hs : RTree.single x t) (ywf : Bool) (o : V) :
    evalR W D t [(x, o)] ywf = singleOutR W t x ywf o :=
  rt_closed W D t hf [(x, o)] (constAsg o) ywf (ext_single x o)
    (fun v hv => by rw [rtree_single_vars x t hs v hv]; exact bound_single x o)

/-- A rule tree over one unbound variable is evaluated once per object, in domain order. -/
theorem rt_dist [Inhabited V] (x : VarId) : ∀ (t : RTree V), t.noFlat = true → RTree.single x t →
    ∀ (ywf : Bool), evalR W D t [] ywf = (D x).flatMap (singleOutR W t x ywf) := by
  intro t
  induction t with
  | leaf i c tag =>
    intro hf hs ywf
    simp only [RTree.noFlat] at hf
    simp only [evalR, cond_dist W D x c hf hs ywf, List.map_flatMap]
    apply flatMap_fun_congr
    intro o
    simp only [singleOut, closedOut, singleOutR, closedOutR, RTree.holds, RTree.concl]
    rcases Bool.eq_false_or_eq_true (denote W (constAsg o) c) with h | h <;> cases ywf <;> simp [h]
  | exceptIf l r ihl _ =>
    intro hf hs ywf
    simp only [RTree.noFlat, Bool.and_eq_true] at hf
    simp only [evalR]
    rw [ihl hf.1 hs.1 ywf, List.flatMap_assoc]
    apply flatMap_fun_congr
    intro o
    have hr := rt_at W D x r hf.2 hs.2 false o
    simp only [singleOutR, closedOutR, RTree.holds, RTree.concl] at hr ⊢
    rcases Bool.eq_false_or_eq_true (l.holds W (constAsg o)) with h1 | h1 <;>
      rcases Bool.eq_false_or_eq_true (r.holds W (constAsg o)) with h2 | h2 <;>
      cases ywf <;> simp [h1, h2] at hr ⊢ <;> simp [hr]
  | alternative l r ihl ihr =>
    intro hf hs ywf
    simp only [RTree.noFlat, Bool.and_eq_true] at hf
    simp only [evalR]
    rw [ihl hf.1 hs.1 true]
    cases hD : D x with
    | nil =>
      simp only [List.flatMap_nil, List.isEmpty_nil, if_true]
      rw [ihr hf.2 hs.2 ywf, hD]; rfl
    | cons o0 os =>
      have hne : ((o0 :: os).flatMap (singleOutR W l x true)).isEmpty = false := by
        simp [singleOutR, closedOutR]
      simp only [hne, Bool.false_eq_true, if_false]
      rw [List.flatMap_assoc]
      apply flatMap_fun_congr
      intro o
      have hr := rt_at W D x r hf.2 hs.2 ywf o
      simp only [singleOutR, closedOutR, RTree.holds, RTree.concl] at hr ⊢
      rcases Bool.eq_false_or_eq_true (l.holds W (constAsg o)) with h1 | h1 <;>
        rcases Bool.eq_false_or_eq_true (r.holds W (constAsg o)) with h2 | h2 <;>
        cases ywf <;> simp [h1, h2] at hr ⊢ <;> simp [hr, concl_none_of_not_holds W (constAsg o) r]

/-- **C12 (rows).** One instance per object on which the tree fires, in domain order, carrying
    exactly the conclusion the selectors prescribe; nothing for the other objects. -/
theorem c12_rule_tree_rows [Inhabited V] (x : VarId) (t : RTree V) (hf : t.noFlat = true)
    (hs : RTree.single x t) :
    ruleRows W D t [.var x] =
      (D x).filterMap fun o => (t.concl W (constAsg o)).map fun tag => (tag, [o]) := by
  simp only [ruleRows]
  rw [rt_dist W D x t hf hs false, List.flatMap_assoc]
  induction D x with
  | nil => rfl
  | cons o os ih =>
    rw [List.flatMap_cons, ih, List.filterMap_cons]
    rcases Bool.eq_false_or_eq_true (t.holds W (constAsg o)) with h | h
    · cases hc : t.concl W (constAsg o) with
      | none => simp [singleOutR, closedOutR, h, hc]
      | some tag => simp [singleOutR, closedOutR, h, hc, evalArgs, evalTerm, lookup_cons_self]
    · simp [singleOutR, closedOutR, h, concl_none_of_not_holds W (constAsg o) t h]

/-! ### The tree the ripple-down reading prescribes, and the construction -/

/-- Refinements wrap the node innermost-last, so the first written is outermost (wins). -/
def wrapRefs (core : RTree V) : List (RTree V) → RTree V
  | [] => core
  | r :: rs => .exceptIf (wrapRefs core rs) r

/-- A node with its refinements and alternatives (each already assembled): alternatives are
    chained in written order around the refined node. -/
def assemble (leaf : RTree V) (refs alts : List (RTree V)) : RTree V :=
  alts.foldl RTree.alternative (wrapRefs leaf refs)

/-- Assemble the blocks written inside a node: (refinement sub-trees, alternative sub-trees,
    next free identity); identities are allotted in the order the blocks are executed. -/
def expKids : SRule V → Nat → List (RTree V) × List (RTree V) × Nat
  | .nil, next => ([], [], next)
  | .cons kind c tag inner rest, next =>
      let ri := expKids inner (next + 1)
      let sub := assemble (.leaf next c tag) ri.1 ri.2.1
      let rr := expKids rest ri.2.2
      match kind with
      | .ref => (sub :: rr.1, rr.2.1, rr.2.2)
      | .alt => (rr.1, sub :: rr.2.1, rr.2.2)

/-- The rule tree the surface program denotes. -/
def expected (c0 : Cond V) (tag0 : Nat) (kids : SRule V) : RTree V :=
  let r := expKids kids 1
  assemble (.leaf 0 c0 tag0) r.1 r.2.1

/-- The conclusion of the first sub-tree (in written order) that fires. -/
def firstConcl (α : Asg V) : List (RTree V) → Option Nat
  | [] => none
  | t :: ts => if t.holds W α then t.concl W α else firstConcl α ts

/-- A sub-tree fires exactly when it selects a conclusion. -/
def Good (α : Asg V) (t : RTree V) : Prop := t.holds W α = (t.concl W α).isSome

theorem firstConcl_isSome (α : Asg V) : ∀ (ts : List (RTree V)), (∀ t ∈ ts, Good W α t) →
    (firstConcl W α ts).isSome = ts.any (fun t => t.holds W α) := by
  intro ts
  induction ts with
  | nil => intro _; rfl
  | cons t ts ih =>
    intro h
    have ht := h t List.mem_cons_self
    simp only [firstConcl, List.any_cons]
    rcases Bool.eq_false_or_eq_true (t.holds W α) with h1 | h1
    · simp [h1]; rw [← ht, h1]
    · simp [h1, ih (fun s hs => h s (List.mem_cons_of_mem _ hs))]

theorem wrapRefs_sem (α : Asg V) (core : RTree V) : ∀ (refs : List (RTree V)), (∀ r ∈ refs, Good W α r) →
    (wrapRefs core refs).holds W α = core.holds W α ∧
    (wrapRefs core refs).concl W α =
      (if core.holds W α then
        (match firstConcl W α refs with | some k => some k | none => core.concl W α) else none) := by
  intro refs
  induction refs with
  | nil =>
    intro _
    refine ⟨rfl, ?_⟩
    rcases Bool.eq_false_or_eq_true (core.holds W α) with h | h
    · simp [wrapRefs, firstConcl, h]
    · simp [wrapRefs, firstConcl, h, concl_none_of_not_holds W α core h]
  | cons r rs ih =>
    intro hg
    have ih' := ih (fun s hs => hg s (List.mem_cons_of_mem _ hs))
    have hr : Good W α r := hg r List.mem_cons_self
    refine ⟨by simp [wrapRefs, RTree.holds, ih'.1], ?_⟩
    simp only [wrapRefs, RTree.concl, ih'.1, ih'.2, firstConcl]
    rcases Bool.eq_false_or_eq_true (core.holds W α) with h | h
    · rcases Bool.eq_false_or_eq_true (r.holds W α) with h2 | h2
      · unfold Good at hr; rw [h2] at hr
        cases hc : r.concl W α with
        | none => rw [hc] at hr; cases hr
        | some k => simp [h, h2]
      · simp [h, h2]
    · simp [h]

theorem assemble_sem (α : Asg V) (leaf : RTree V) (refs : List (RTree V)) (hr : ∀ r ∈ refs, Good W α r) :
    ∀ (alts : List (RTree V)) (core : RTree V), (∀ a ∈ alts, Good W α a) →
    (alts.foldl RTree.alternative core).holds W α = (core.holds W α || alts.any (fun t => t.holds W α)) ∧
    (alts.foldl RTree.alternative core).concl W α =
      (if core.holds W α then core.concl W α else firstConcl W α alts) := by
  intro alts
  induction alts with
  | nil =>
    intro core _
    refine ⟨by simp, ?_⟩
    rcases Bool.eq_false_or_eq_true (core.holds W α) with h | h
    · simp [h]
    · simp [h, firstConcl, concl_none_of_not_holds W α core h]
  | cons a as ih =>
    intro core hg
    have ih' := ih (.alternative core a) (fun s hs => hg s (List.mem_cons_of_mem _ hs))
    simp only [List.foldl_cons]
    refine ⟨by rw [ih'.1]; simp [RTree.holds, Bool.or_assoc], ?_⟩
    rw [ih'.2]
    simp only [RTree.holds, RTree.concl, firstConcl]
    rcases Bool.eq_false_or_eq_true (core.holds W α) with h | h <;>
      rcases Bool.eq_false_or_eq_true (a.holds W α) with h2 | h2 <;> simp [h, h2]

/-- What ripple-down rules prescribe for one block. -/
def fireNode (α : Asg V) (c : Cond V) (tag : Nat) (inner : SRule V) : Option Nat :=
  if denote W α c then some ((fireKids W α .ref inner).getD tag) else fireKids W α .alt inner

/-- The assembled node selects the ripple-down conclusion and fires exactly when it selects one. -/
theorem assemble_node (α : Asg V) (id : Nat) (c : Cond V) (tag : Nat) (refs alts : List (RTree V))
    (hr : ∀ r ∈ refs, Good W α r) (ha : ∀ a ∈ alts, Good W α a) :
    (assemble (.leaf id c tag) refs alts).concl W α =
      (if denote W α c then some ((firstConcl W α refs).getD tag) else firstConcl W α alts) ∧
    Good W α (assemble (.leaf id c tag) refs alts) := by
  have hw := wrapRefs_sem W α (.leaf id c tag) refs hr
  have hal := assemble_sem W α (.leaf id c tag) refs hr alts (wrapRefs (.leaf id c tag) refs) ha
  have hconcl : (assemble (.leaf id c tag) refs alts).concl W α =
      (if denote W α c then some ((firstConcl W α refs).getD tag) else firstConcl W α alts) := by
    unfold assemble
    rw [hal.2, hw.1, hw.2]
    simp only [RTree.holds, RTree.concl]
    rcases Bool.eq_false_or_eq_true (denote W α c) with h | h
    · cases hf : firstConcl W α refs <;> simp [h, hf]
    · simp [h]
  refine ⟨hconcl, ?_⟩
  unfold Good
  rw [hconcl]
  unfold assemble
  rw [hal.1, hw.1]
  simp only [RTree.holds]
  rcases Bool.eq_false_or_eq_true (denote W α c) with h | h
  · simp [h]
  · simp [h, firstConcl_isSome W α alts ha]

/-- The assembled blocks agree with the ripple-down reference, kind by kind. -/
theorem expKids_fire (α : Asg V) : ∀ (kids : SRule V) (next : Nat),
    (∀ r ∈ (expKids kids next).1, Good W α r) ∧ (∀ a ∈ (expKids kids next).2.1, Good W α a) ∧
    firstConcl W α (expKids kids next).1 = fireKids W α .ref kids ∧
    firstConcl W α (expKids kids next).2.1 = fireKids W α .alt kids := by
  intro kids
  induction kids with
  | nil => intro next; simp [expKids, firstConcl, fireKids]
  | cons kind c tag inner rest ihi ihr =>
    intro next
    have hi := ihi (next + 1)
    have hrst := ihr (expKids inner (next + 1)).2.2
    have hnode := assemble_node W α next c tag (expKids inner (next + 1)).1 (expKids inner (next + 1)).2.1 hi.1 hi.2.1
    have hsub : (assemble (.leaf next c tag) (expKids inner (next + 1)).1 (expKids inner (next + 1)).2.1).concl W α =
        (if denote W α c then some ((fireKids W α .ref inner).getD tag) else fireKids W α .alt inner) := by
      rw [hnode.1, hi.2.2.1, hi.2.2.2]
    have hgood := hnode.2
    cases kind with
    | ref =>
      simp only [expKids]
      refine ⟨?_, hrst.2.1, ?_, ?_⟩
      · intro r hr
        rcases List.mem_cons.1 hr with rfl | hr
        · exact hgood
        · exact hrst.1 r hr
      · simp only [firstConcl, fireKids, if_true]
        unfold Good at hgood
        rw [hgood, hsub, hrst.2.2.1]
        rcases Bool.eq_false_or_eq_true (denote W α c) with h | h
        · simp [h]
        · cases hk : fireKids W α .alt inner <;> simp [h, hk]
      · simp only [fireKids]
        rw [hrst.2.2.2]
        simp
    | alt =>
      simp only [expKids]
      refine ⟨hrst.1, ?_, ?_, ?_⟩
      · intro r hr
        rcases List.mem_cons.1 hr with rfl | hr
        · exact hgood
        · exact hrst.2.1 r hr
      · simp only [fireKids]
        rw [hrst.2.2.1]
        simp
      · simp only [firstConcl, fireKids, if_true]
        unfold Good at hgood
        rw [hgood, hsub, hrst.2.2.2]
        rcases Bool.eq_false_or_eq_true (denote W α c) with h | h
        · simp [h]
        · cases hk : fireKids W α .alt inner <;> simp [h, hk]

/-- **C12 (ripple-down).** The conclusion the assembled rule tree selects for an assignment is the
    one ripple-down rules prescribe for the surface program: the most specific applicable
    refinement in place of the conclusion it refines, an alternative only where the branches before
    it did not fire — for refinements and alternatives nested to any depth under any branch. -/
theorem c12_expected_fire (α : Asg V) (c0 : Cond V) (tag0 : Nat) (kids : SRule V) :
    (expected c0 tag0 kids).concl W α = fireRule W α c0 tag0 kids := by
  have hk := expKids_fire W α kids 1
  have := (assemble_node W α 0 c0 tag0 (expKids kids 1).1 (expKids kids 1).2.1 hk.1 hk.2.1).1
  unfold expected fireRule
  rw [this, hk.2.2.1, hk.2.2.2]

/-! ### The transliterated construction produces the prescribed tree (small-scope TEST) -/

/-- Shape of a rule tree: leaf identities and operators (conditions dropped). -/
inductive RShape where
  | leaf (id tag : Nat)
  | exceptIf (l r : RShape)
  | alternative (l r : RShape)
  deriving DecidableEq, Repr

def RTree.shape : RTree V → RShape
  | .leaf i _ tag => .leaf i tag
  | .exceptIf l r => .exceptIf l.shape r.shape
  | .alternative l r => .alternative l.shape r.shape

/-- All ordered forests with exactly `n` blocks, every block a refinement or an alternative
    (fuel-bounded enumeration; the conditions are irrelevant to the construction). -/
def allForests (c : Cond V) : Nat → Nat → List (SRule V)
  | _, 0 => [.nil]
  | 0, _ + 1 => []
  | fuel + 1, n + 1 =>
      (List.range (n + 1)).flatMap fun k =>
        (allForests c fuel k).flatMap fun inner =>
          (allForests c fuel (n - k)).flatMap fun rest =>
            [.cons .ref c 0 inner rest, .cons .alt c 0 inner rest]

/-- TEST (exhaustive for every program of up to 4 blocks, 275 programs; not a proof for all sizes):
    the imperative construction — `refineAt`, `altAt` with "climb while left operand" — yields
    exactly the prescribed tree, leaf identities included. -/
theorem c12_build_expected_small :
    ∀ n ∈ [0, 1, 2, 3, 4], ∀ kids ∈ allForests (Cond.truth false (.lit 0) : Cond Nat) 5 n,
      (buildRule (.truth false (.lit 0)) 0 kids).shape = (expected (.truth false (.lit 0)) 0 kids).shape := by
  decide +kernel

end Eql
