import EqlModel.Eval
import EqlModel.Build
namespace Eql
theorem c01_placeholder : True := trivial
end Eql
