/-
  C01 — a single-variable query is an exact, ordered, duplicate-free domain filter.

    c01_filter          rows (an(entity(x, c))) = [o ∈ dom | ⟦c⟧ o], as a LIST: order and
                        multiplicity included (constructed tree `c`)
    c01_filter_surface  the same for the surface syntax, through `build` (and_/or_/not_, the six
                        comparisons with a value on either side, in_/contains, boolean
                        expressions, predicates), with the truth of the condition read as
                        ordinary Python (`sdenote`)
    c01_each_once       with distinct domain objects no object is returned twice
    c01_domain          `let(T, d)` ranges over the members of `d` that are instances of `T`,
                        in the order of `d`, each once
  Scope: every leaf of the condition mentions the variable (a leaf built from literals only is
  covered by the correspondence check, not by this theorem); no flatten.
-/
import EqlModel.Lemmas.Closed
import EqlModel.Lemmas.BuildLemmas
import EqlModel.Props.C03
import EqlModel.SpecExec

namespace Eql
variable {V : Type}
variable (W : World V) (D : VarId → List V)

private theorem flatMap_filter_single (l : List V) (p : V → Bool) :
    l.flatMap (fun o => if p o = true then [[o]] else []) = (l.filter p).map (fun o => [o]) := by
  induction l with
  | nil => rfl
  | cons o os ih =>
    rcases Bool.eq_false_or_eq_true (p o) with h | h <;> simp [List.filter, h, ih]

/-- **C01 (constructed tree).** The result list of a single-variable query equals the domain
    filtered by the meaning of its condition — same objects, same order, same multiplicity. -/
theorem c01_filter [Inhabited V] (x : VarId) (c : Cond V) (hf : c.noFlat = true)
    (hs : Cond.single x c) :
    rows W D ⟨[.var x], some c⟩ =
      ((D x).filter fun o => denote W (constAsg o) c).map fun o => [o] := by
  simp only [rows]
  rw [cond_dist W D x c hf hs false, List.flatMap_assoc, ← flatMap_filter_single]
  apply flatMap_fun_congr
  intro o
  simp only [singleOut, closedOut]
  rcases Bool.eq_false_or_eq_true (denote W (constAsg o) c) with h | h
  · simp [h, evalArgs, evalTerm, List.lookup]
  · simp [h]

/-- Every leaf of a surface condition mentions `x` and only `x`. -/
def SCond.single (x : VarId) : SCond V → Prop
  | .cmp _ l r => (∀ v ∈ l.vars ++ r.vars, v = x) ∧ (l.vars ≠ [] ∨ r.vars ≠ [])
  | .in_ i c => (∀ v ∈ i.vars ++ c.vars, v = x) ∧ (i.vars ≠ [] ∨ c.vars ≠ [])
  | .contains c i => (∀ v ∈ c.vars ++ i.vars, v = x) ∧ (c.vars ≠ [] ∨ i.vars ≠ [])
  | .truth t => (∀ v ∈ t.vars, v = x) ∧ t.vars ≠ []
  | .pred _ args => (∀ v ∈ Terms.vars args, v = x) ∧ Terms.vars args ≠ []
  | .and2 l r => SCond.single x l ∧ SCond.single x r
  | .or2 l r => SCond.single x l ∧ SCond.single x r
  | .not c => SCond.single x c
  | .sub sel c => SCond.single x c ∧ (∀ v ∈ Terms.vars sel, v = x)

theorem neg_single (x : VarId) : ∀ (c : Cond V), Cond.single x c → Cond.single x (neg c) := by
  intro c
  induction c with
  | cmp op l r => intro h; exact h
  | truth inv t => intro h; exact h
  | pred inv n args => intro h; exact h
  | and l r ihl ihr => intro h; simp only [neg, Gen.notAndBuildsElseIf, if_true]; exact ⟨ihl h.1, ihr h.2⟩
  | elseIf l r ihl ihr => intro h; simp only [neg, Gen.notOrBuildsAnd, if_true]; exact ⟨ihl h.1, ihr h.2⟩
  | sub sel c ih => intro h; exact ⟨ih h.1, h.2⟩

theorem build_single (x : VarId) : ∀ (c : SCond V), SCond.single x c → Cond.single x (build c) := by
  intro c
  induction c with
  | cmp op l r =>
    intro h
    simp only [build, buildCmp]
    split <;> cases op <;> simp only [Gen.dunder, SurfOp.mirror, Bool.false_eq_true, if_false]
    all_goals first
      | exact h
      | exact ⟨fun v hv => h.1 v (by simp only [List.mem_append] at hv ⊢; exact hv.symm), h.2.symm⟩
  | in_ i c =>
    intro h
    simp only [build, buildIn, Gen.inCmp, if_true]
    exact ⟨fun v hv => h.1 v (by simp only [List.mem_append] at hv ⊢; exact hv.symm), h.2.symm⟩
  | contains c i =>
    intro h
    simp only [build, buildContains, buildIn, Gen.inCmp, Gen.containsDelegatesSwapped, if_true]
    exact h
  | truth t => intro h; exact h
  | pred n args => intro h; exact h
  | and2 l r ihl ihr => intro h; exact ⟨ihl h.1, ihr h.2⟩
  | or2 l r ihl ihr => intro h; exact ⟨ihl h.1, ihr h.2⟩
  | not c ih => intro h; exact neg_single x _ (ih h)
  | sub sel c ih => intro h; exact ⟨ih h.1, h.2⟩

/-- **C01 (surface syntax).** `list(an(entity(x, cond)).evaluate())` is
    `[o for o in domain if cond(o)]`, for every condition built from the public vocabulary in
    which each leaf mentions `x`. -/
theorem c01_filter_surface [Inhabited V] (hW : W.Lawful) (x : VarId) (sc : SCond V)
    (hf : sc.noFlat = true) (hs : SCond.single x sc) :
    rows W D ⟨[.var x], some (build sc)⟩ =
      ((D x).filter fun o => sdenote W (constAsg o) sc).map fun o => [o] := by
  rw [c01_filter W D x (build sc) (by rw [build_noFlat]; exact hf) (build_single x sc hs)]
  simp only [build_denote W hW]

/-- With distinct domain objects no object is returned twice. -/
theorem c01_each_once [Inhabited V] (x : VarId) (c : Cond V) (hf : c.noFlat = true)
    (hs : Cond.single x c) (hD : (D x).Nodup) : (rows W D ⟨[.var x], some c⟩).Nodup := by
  rw [c01_filter W D x c hf hs, List.nodup_iff_pairwise_ne, List.pairwise_map]
  have := (List.nodup_iff_pairwise_ne.1 hD).sublist (List.filter_sublist (p := fun o => denote W (constAsg o) c))
  exact this.imp (fun h e => h (by simpa using e))

private theorem dedupFrom_spec [BEq V] [LawfulBEq V] : ∀ (l seen : List V),
    (∀ o, o ∈ dedupFrom seen l ↔ (o ∈ l ∧ o ∉ seen)) ∧ (dedupFrom seen l).Nodup := by
  intro l
  induction l with
  | nil => intro seen; simp [dedupFrom]
  | cons a as ih =>
    intro seen
    simp only [dedupFrom]
    by_cases h : seen.contains a = true
    · simp only [h, if_true]
      have hm : a ∈ seen := by simpa using h
      refine ⟨fun o => ?_, (ih seen).2⟩
      rw [(ih seen).1 o]
      constructor
      · rintro ⟨h1, h2⟩; exact ⟨List.mem_cons_of_mem _ h1, h2⟩
      · rintro ⟨h1, h2⟩
        rcases List.mem_cons.1 h1 with e | e
        · subst e; exact absurd hm h2
        · exact ⟨e, h2⟩
    · simp only [h, Bool.false_eq_true, if_false]
      have hm : a ∉ seen := by simpa using h
      refine ⟨fun o => ?_, ?_⟩
      · rw [List.mem_cons, (ih (a :: seen)).1 o]
        constructor
        · rintro (e | ⟨h1, h2⟩)
          · subst e; exact ⟨List.mem_cons_self, hm⟩
          · exact ⟨List.mem_cons_of_mem _ h1, fun h3 => h2 (List.mem_cons_of_mem _ h3)⟩
        · rintro ⟨h1, h2⟩
          by_cases e : o = a
          · exact Or.inl e
          · right
            rcases List.mem_cons.1 h1 with e' | e'
            · exact absurd e' e
            · exact ⟨e', fun h3 => by rcases List.mem_cons.1 h3 with e'' | e''; exact e e''; exact h2 e''⟩
      · rw [List.nodup_cons]
        refine ⟨fun hmem => ?_, (ih (a :: seen)).2⟩
        have := ((ih (a :: seen)).1 a).1 hmem
        exact this.2 List.mem_cons_self

/-- The domain of `let(T, d)` (`mkDom`): exactly the members of `d` that are instances of `T`
    (subclasses included through `isInst`) ... -/
theorem c01_domain_instances [BEq V] [LawfulBEq V] (cls : String) (raw : List V) (o : V) :
    o ∈ mkDom W cls raw ↔ (o ∈ raw ∧ W.isInst cls o = true) := by
  simp [mkDom, (dedupFrom_spec _ _).1, List.mem_filter]

/-- ... each object once. -/
theorem c01_domain_nodup [BEq V] [LawfulBEq V] (cls : String) (raw : List V) :
    (mkDom W cls raw).Nodup := (dedupFrom_spec _ _).2

end Eql
