/-
  C14 — a variable without a domain ranges over exactly the live registry of instances.

  Model: `EqlModel/Registry.lean`.  For every class hierarchy (`sub` is arbitrary) and every
  history of concrete constructions (any style: they all reach the same `hybrid_new`), symbolic
  constructions, rule inference (a concrete construction) and clears:
    c14_registry       a no-domain variable of type T, declared and evaluated after the history,
                       yields exactly the instances of T and of its subclasses constructed
                       concretely since the last clear (the harness's own log) ...
    c14_each_once      ... each once
    c14_symbolic_inert constructing symbolically registers nothing and runs no initialisation
    c14_inits          the class's own initialisation ran once per concrete construction
  Reading (as in the property's observe_at): declare-and-evaluate atomically.  A variable declared
  before later constructions, or a re-evaluated query, sees a stale registry (measured, reported as
  an observation, not part of the verdict).
-/
import EqlModel.Registry

namespace Eql.Registry

variable (sub : Cls → Cls → Bool)

def allInsts (store : List (Cls × List Inst)) : List Inst := store.flatMap (·.2)

theorem mem_query_register (store : List (Cls × List Inst)) (c : Cls) (i : Inst) (t : Cls) (x : Inst) :
    x ∈ query sub { store := register store c i } t ↔
      (x ∈ query sub { store := store } t ∨ (x = i ∧ sub c t = true)) := by
  induction store with
  | nil =>
    simp only [register, query, List.flatMap_cons, List.flatMap_nil, List.append_nil]
    cases h : sub c t <;> simp
  | cons p rest ih =>
    obtain ⟨c', is⟩ := p
    simp only [register]
    by_cases e : c' = c
    · subst e
      simp only [if_true, query, List.flatMap_cons, List.mem_append] at ih ⊢
      cases h : sub c' t <;> simp [or_assoc, or_comm, or_left_comm]
    · simp only [e, if_false, query, List.flatMap_cons, List.mem_append] at ih ⊢
      rw [ih]
      simp [or_assoc]

theorem perm_allInsts_register (store : List (Cls × List Inst)) (c : Cls) (i : Inst) :
    (allInsts (register store c i)).Perm (i :: allInsts store) := by
  induction store with
  | nil => simp [register, allInsts]
  | cons p rest ih =>
    obtain ⟨c', is⟩ := p
    simp only [register]
    by_cases e : c' = c
    · simp only [e, if_true, allInsts, List.flatMap_cons, List.append_assoc, List.singleton_append]
      exact List.perm_middle
    · simp only [e, if_false, allInsts, List.flatMap_cons] at ih ⊢
      exact (List.Perm.append_left is ih).trans List.perm_middle

theorem query_sublist (store : List (Cls × List Inst)) (t : Cls) :
    (query sub { store := store } t).Sublist (allInsts store) := by
  induction store with
  | nil => simp [query, allInsts]
  | cons p rest ih =>
    simp only [query, allInsts, List.flatMap_cons] at ih ⊢
    cases sub p.1 t
    · simpa using ih.trans (List.sublist_append_right _ _)
    · simpa using List.Sublist.append (List.Sublist.refl p.2) ih

/-- The state agrees with the log of concrete constructions since the last clear. -/
structure Inv (s : RState) (log : List (Inst × Cls)) : Prop where
  fresh : ∀ i ∈ allInsts s.store, i < s.next
  nodup : (allInsts s.store).Nodup
  query : ∀ x t, x ∈ query sub s t ↔ ∃ c, (x, c) ∈ log ∧ sub c t = true

theorem query_store (s : RState) (t : Cls) : query sub s t = query sub { store := s.store } t := rfl

theorem inv_step (s : RState) (log : List (Inst × Cls)) (op : Op) (h : Inv sub s log) :
    Inv sub (step s op) (logStep log s.next op).1 ∧ (step s op).next = (logStep log s.next op).2 := by
  cases op with
  | symbolic c => exact ⟨⟨h.fresh, h.nodup, h.query⟩, rfl⟩
  | clear =>
    refine ⟨⟨?_, ?_, ?_⟩, rfl⟩
    · intro i hi; simp [step, allInsts] at hi
    · simp [step, allInsts]
    · intro x t; simp [step, query, logStep]
  | concrete c =>
    have hperm := perm_allInsts_register s.store c s.next
    refine ⟨⟨?_, ?_, ?_⟩, rfl⟩
    · intro i hi
      have := hperm.mem_iff.1 hi
      rcases List.mem_cons.1 this with e | e
      · simp [step, e]
      · exact Nat.lt_succ_of_lt (h.fresh i e)
    · refine hperm.nodup_iff.2 (List.nodup_cons.2 ⟨?_, h.nodup⟩)
      intro hm; exact Nat.lt_irrefl _ (h.fresh _ hm)
    · intro x t
      rw [query_store, show (step s (.concrete c)).store = register s.store c s.next from rfl,
        mem_query_register, ← query_store, h.query x t]
      simp only [logStep, List.mem_append, List.mem_singleton, Prod.mk.injEq]
      constructor
      · rintro (⟨c', h1, h2⟩ | ⟨rfl, h2⟩)
        · exact ⟨c', Or.inl h1, h2⟩
        · exact ⟨c, Or.inr ⟨rfl, rfl⟩, h2⟩
      · rintro ⟨c', (h1 | ⟨rfl, rfl⟩), h2⟩
        · exact Or.inl ⟨c', h1, h2⟩
        · exact Or.inr ⟨rfl, h2⟩

theorem inv_run : ∀ (ops : List Op) (s : RState) (log : List (Inst × Cls)), Inv sub s log →
    Inv sub (run s ops) (logRun ops log s.next).1 := by
  intro ops
  induction ops with
  | nil => intro s log h; exact h
  | cons op ops ih =>
    intro s log h
    have hs := inv_step sub s log op h
    have := ih (step s op) (logStep log s.next op).1 hs.1
    rw [hs.2] at this
    exact this

theorem inv_init : Inv sub {} [] :=
  ⟨by intro i hi; simp [allInsts] at hi, by simp [allInsts], by intro x t; simp [query]⟩

/-- **C14.** After any history, a no-domain variable of type `t` ranges over exactly the logged
    concrete constructions (since the last clear) whose class is `t` or a subclass of it. -/
theorem c14_registry (ops : List Op) (t : Cls) (x : Inst) :
    x ∈ query sub (run {} ops) t ↔ ∃ c, (x, c) ∈ (logRun ops [] 0).1 ∧ sub c t = true :=
  (inv_run sub ops {} [] (inv_init sub)).query x t

/-- Each instance once. -/
theorem c14_each_once (ops : List Op) (t : Cls) : (query sub (run {} ops) t).Nodup :=
  ((inv_run sub ops {} [] (inv_init sub)).nodup).sublist (query_sublist sub _ t)

/-- Constructing a class symbolically registers nothing and runs no initialisation. -/
theorem c14_symbolic_inert (s : RState) (c : Cls) : step s (.symbolic c) = s := rfl

/-- The class's own initialisation ran exactly once per concrete construction. -/
theorem c14_inits : ∀ (ops : List Op) (s : RState),
    (run s ops).inits = s.inits + (ops.filter fun op => match op with | .concrete _ => true | _ => false).length := by
  intro ops
  induction ops with
  | nil => intro s; simp [run]
  | cons op ops ih =>
    intro s
    simp only [run, List.foldl_cons] at ih ⊢
    rw [ih]
    cases op <;> simp [step, List.filter, Nat.add_assoc, Nat.add_comm]

/-- Non-vacuity: a subclass instance, a clear and a symbolic construction in one history. -/
example : query (fun c t => c == t || (c == 1 && t == 0))
    (run {} [.concrete 0, .concrete 1, .symbolic 1, .concrete 2, .clear, .concrete 1, .concrete 0]) 0 = [3, 4] := by
  decide

end Eql.Registry
