/-
  C05 — result caching is transparent.

  FULL STATEMENT (kept visible, FALSE of the code base — known findings C05-F1 … C05-F5):
      for every query and dataset, evaluating with the result caches enabled returns the same rows
      as evaluating with them disabled, on the first evaluation and on re-evaluation.
  What is proved here is the part that lives in the cache INDEX (`IndexedCache`, model Cache.lean):
    c05_single_key_uniform      a cache with a single key — every operator cache of a
                                single-variable query — is prefix-uniform after EVERY history
    c05_single_key_exact        hence (C20) its retrieval is exact after every history: all stored
                                entries that agree with the lookup, each once, nothing else
    c05_full_inserts_uniform    a cache that only ever receives FULL bindings is prefix-uniform
  together with C20's `c20_retrieve_uniform_partial` (exact on every prefix-uniform trie) and the
  counter-witness `c20_wildcard_witness` (not exact otherwise — the root of C05-F1).
    c05_single_variable_conj    THE EVALUATOR, result cache enabled (L2 machine, `Machine.lean`): for a
                                conjunctive query over one variable, each of any number of consecutive
                                evaluations of the query object returns exactly the L1 rows, in order -
                                computed and stored on the first pass, served from the operator caches
                                afterwards; hence the same rows as with the cache disabled
                                (c05_single_variable_conj_on_off).  Induction over the tree with a
                                specification for every operator cache (`Lemmas/MachineOne.lean`:
                                TSpec/NB, cmp_top, cmp_bound, andStep_one, bound_ok, top_ok).
    c05_single_variable_tree    THE EVALUATOR, result cache enabled, for ANY single-variable condition:
                                conjunctions, disjunctions and sub-queries in condition position over
                                comparisons, truth tests and predicates (negations at the leaves, as
                                `not_` builds them; no flatten), non-empty domain: each of any number of consecutive evaluations returns exactly
                                the L1 rows, in order (c05_single_variable_tree_on_off: hence the rows
                                of the cache-less evaluator when the variable is selected).  Here the
                                left operand of every ElseIf is asked for its FALSE outputs as well, so
                                the caches hold false entries and the duplicate tracking sets are
                                exercised: the invariant is, per node, a cache specification (NBy /
                                TSpecY: every stored pair is an object identity ↦ the node's is_false
                                for it) TOGETHER WITH "every stored duplicate key clashes with the
                                object at hand" (`Lemmas/MachineTree.lean`: nby_hit, cmp_bound_y,
                                andStep_y, orStep_y, bound_ok_y; `Lemmas/MachineTreeTop.lean`:
                                cmp_top_y, nodeFold, top_ok_y).
  For several variables, flatten, for_all, sub-queries and rule trees that the EVALUATOR's use of the
  index (check → retrieve → yield_final_output_from_cache, update_cache) is transparent is NOT proved -
  for several variables it is false (C05-F1).  The cache-aware evaluator exists as an executable
  model (layer L2, `Machine.lean`: the caching branches of Comparator / AND / ElseIf with their
  duplicate-tracking sets) and is run next to the implementation for three consecutive evaluations
  with caching on and off; the only theorem about it so far is for caching OFF
  (`Machine.rowsM_conj_off`, C04).  Transparency is therefore decided by the differential check —
  caching on vs off vs oracle vs the L2 machine, first and later evaluations, with the number of
  cache hits taken reported for non-vacuity — and a deviation is attributed to a known finding
  only when the machine reproduces the implementation's rows (C05-F1/F2) or, for the findings no
  model reproduces (F3, F4, F5), when caching off gives the specified rows inside the finding's
  scope.
-/
import EqlModel.Props.C20
import EqlModel.Lemmas.MachineOne
import EqlModel.Lemmas.MachineTreeTop
import EqlModel.NatWorld

namespace Eql.Cache
variable {A O : Type} [DecidableEq A]
open Trie

/-- All sibling keys concrete, one level. -/
theorem kindOk_false_insert_val (o : O) (v : A) : ∀ (t : Trie A O), kindOk false t = true →
    kindOk false (Trie.insert o t [.val v]) = true := by
  intro t
  induction t with
  | leaf o' => intro _; simp [Trie.insert, mkPath, kindOk]
  | nil => intro _; simp [Trie.insert, mkPath, kindOk]
  | cons k c rest _ ihr =>
    intro h
    simp only [kindOk, Bool.and_eq_true] at h
    simp only [Trie.insert]
    by_cases e : k = .val v
    · simp [e, kindOk, h.2]
    · have h1 := h.1
      cases k with
      | all => simp at h1
      | val a => simp [e, kindOk, ihr h.2]

theorem uniformBelow_insert_val (o : O) (v : A) : ∀ (t : Trie A O), WS 1 t → uniformBelow t = true →
    uniformBelow (Trie.insert o t [.val v]) = true := by
  intro t
  induction t with
  | leaf o' => intro h; simp [WS] at h
  | nil => intro _ _; simp [Trie.insert, mkPath, uniformBelow, kindAny, kindOk]
  | cons k c rest _ ihr =>
    intro hws h
    simp only [WS] at hws
    simp only [uniformBelow, Bool.and_eq_true] at h
    simp only [Trie.insert]
    by_cases e : k = .val v
    · -- the child is a leaf (depth 0): replaced by a leaf
      simp only [e, if_true, uniformBelow, Bool.and_eq_true]
      refine ⟨?_, h.2⟩
      cases c with
      | leaf o' => simp [Trie.insert, mkPath, kindAny, kindOk, uniformBelow]
      | nil => simp [WS] at hws
      | cons _ _ _ => simp [WS] at hws
    · simp only [e, if_false, uniformBelow, Bool.and_eq_true]
      exact ⟨h.1, ihr hws.2.1 h.2⟩

/-- Bindings mention the single cache key only. -/
def SingleKeyOps (k : Nat) (h : List (Op A O)) : Prop :=
  ∀ op ∈ h, match op with
    | .insert a _ => ∀ kv ∈ a, kv.1 = k
    | .clear => True

theorem path_single (k : Nat) (a : Asg A) (hne : a.isEmpty = false) (hk : ∀ kv ∈ a, kv.1 = k) :
    ∃ v, Cache.path [k] a = [.val v] := by
  cases a with
  | nil => simp at hne
  | cons kv rest =>
    have : kv.1 = k := hk kv List.mem_cons_self
    refine ⟨kv.2, ?_⟩
    obtain ⟨k', v⟩ := kv
    simp only at this
    subst this
    simp [Cache.path, Asg.get, List.lookup]

/-- **Single-variable queries keep their caches prefix-uniform.** -/
theorem c05_single_key_uniform (k : Nat) : ∀ (h : List (Op A O)), SingleKeyOps k h →
    WS 1 (run (init [k] : Cache A O) h).trie ∧
    kindOk false (run (init [k] : Cache A O) h).trie = true ∧
    uniformBelow (run (init [k] : Cache A O) h).trie = true := by
  have gen : ∀ (h : List (Op A O)) (c : Cache A O), c.keys = [k] → SingleKeyOps k h →
      WS 1 c.trie → kindOk false c.trie = true → uniformBelow c.trie = true →
      WS 1 (run c h).trie ∧ kindOk false (run c h).trie = true ∧ uniformBelow (run c h).trie = true := by
    intro h
    induction h with
    | nil => intro c _ _ h1 h2 h3; exact ⟨h1, h2, h3⟩
    | cons op ops ih =>
      intro c hk hs h1 h2 h3
      have hop := hs op List.mem_cons_self
      have hrest : SingleKeyOps k ops := fun o ho => hs o (List.mem_cons_of_mem _ ho)
      simp only [run, List.foldl_cons]
      cases op with
      | clear =>
        exact ih (step c .clear) (by simpa [step, Cache.clear] using hk) hrest
          (by simp [step, Cache.clear, WS]) (by simp [step, Cache.clear, kindOk])
          (by simp [step, Cache.clear, uniformBelow])
      | insert a o =>
        by_cases he : a.isEmpty = true
        · exact ih (step c (.insert a o)) (by simpa [step, Cache.insert, he] using hk) hrest
            (by simpa [step, Cache.insert, he] using h1) (by simpa [step, Cache.insert, he] using h2)
            (by simpa [step, Cache.insert, he] using h3)
        · have he' : a.isEmpty = false := by simpa using he
          obtain ⟨v, hv⟩ := path_single k a he' hop
          have htrie : (step c (.insert a o)).trie = Trie.insert o c.trie [.val v] := by
            simp [step, Cache.insert, he', hk, hv]
          refine ih (step c (.insert a o)) (by simpa [step, Cache.insert, he'] using hk) hrest ?_ ?_ ?_
          · rw [htrie]; exact ws_insert o c.trie [.val v] h1
          · rw [htrie]; exact kindOk_false_insert_val o v c.trie h2
          · rw [htrie]; exact uniformBelow_insert_val o v c.trie h1 h3
  intro h hs
  exact gen h (init [k]) rfl hs (by simp [init, WS]) (by simp [init, kindOk]) (by simp [init, uniformBelow])

/-- Hence retrieval from a single-key cache is exact after every history. -/
theorem c05_single_key_exact (k : Nat) (h : List (Op A O)) (hs : SingleKeyOps k h) (a : Asg A) :
    ∃ es : List (List (Key A) × O),
      (es.map (·.1)).Nodup ∧
      (∀ p o, (p, o) ∈ es ↔ (spec [k] h p = some o ∧ agree a [k] p = true)) ∧
      (run (init [k]) h).retrieve a = es.map fun e => (image a [k] e.1 a, e.2) := by
  have hu := c05_single_key_uniform k h hs
  exact c20_retrieve_uniform_partial [k] (by simp) h a (by simp [Uniform, kindAny, hu.2.1, hu.2.2])

end Eql.Cache

namespace Eql
open Machine
variable {V : Type} [BEq V] [Inhabited V]

/-- **C05 at the evaluator, single-variable conjunctive queries.**  With the result cache ENABLED, the
    `n`-th consecutive evaluation of the query object (n = 0, 1, 2, …) by the stateful evaluator returns
    exactly the rows of the L1 evaluation, in order. -/
theorem c05_single_variable_conj (W : World V) (D : VarId → List V) (P : Params V) (x : VarId)
    (hk : KeyOk P x D) (q : Query V) (c : Cond V) (hq : q.cond = some c) (hc : Machine.Cond.conj c = true)
    (hs : Cond.single x c) (hf : c.noFlat = true) (n : Nat) :
    (rowsM W D P true q (afterEvalsOn P W D q n [])).1 = rows W D q :=
  rowsM_on_single_iter P x W D hk q c hq hc hs hf n [] (cinvT_nil P x W D c [])

/-- … hence caching on and caching off agree, whatever was evaluated before in either configuration. -/
theorem c05_single_variable_conj_on_off (W : World V) (D : VarId → List V) (P : Params V) (x : VarId)
    (hk : KeyOk P x D) (q : Query V) (c : Cond V) (hq : q.cond = some c) (hc : Machine.Cond.conj c = true)
    (hs : Cond.single x c) (hf : c.noFlat = true) (n : Nat) (stOff : St) :
    (rowsM W D P true q (afterEvalsOn P W D q n [])).1 = (rowsM W D P false q stOff).1 := by
  rw [c05_single_variable_conj W D P x hk q c hq hc hs hf n, rowsM_conj_off W D P q c hq hc hf stOff]

/-- Non-vacuity: three evaluations in a row with the cache enabled (the second and third are served from
    the caches), a non-trivial answer. -/
example :
    let D : VarId → List Nat := fun _ => [1, 2, 3, 4]
    let P : Params Nat := { rank := id, toKey := id, ofKey := id }
    let q : Query Nat := ⟨[.var 0], some (.and (.cmp .gt (.var 0) (.lit 1)) (.cmp .lt (.var 0) (.lit 4)))⟩
    (rowsM natWorld D P true q (afterEvalsOn P natWorld D q 2 [])).1 = [[2], [3]] ∧
    rows natWorld D q = [[2], [3]] := by decide

/-- **C05 at the evaluator, ANY single-variable condition.**  With the result cache ENABLED, the `n`-th
    consecutive evaluation of the query object (n = 0, 1, 2, …) by the stateful evaluator - result caches of
    comparisons, conjunctions and disjunctions, coverage poisoning, duplicate tracking sets - returns exactly
    the rows of the L1 evaluation, in order: for every condition over one variable (conjunctions,
    disjunctions, sub-queries in condition position, over comparisons, truth tests and predicates; negations
    at the leaves, as `not_` builds them; no flatten) over a non-empty domain of distinct objects. -/
theorem c05_single_variable_tree (W : World V) (D : VarId → List V) (P : Params V) (x : VarId)
    (hk : KeyOk P x D) (hinj : Function.Injective P.rank) (hD : D x ≠ [])
    (q : Query V) (c : Cond V) (hq : q.cond = some c)
    (hs : Cond.single x c) (hf : c.noFlat = true) (n : Nat) :
    (rowsM W D P true q (afterEvalsOn P W D q n [])).1 = rows W D q :=
  rowsM_on_any_tree_iter P x W D hk hinj hD q c hq (Machine.Cond.tree_all c) hs hf n []
    (topInv_nil P x W D c [] false) dedupClean_nil

/-- … hence caching on and caching off agree on every evaluation (the variable being selected, so that the
    cache-less evaluator's duplicate tracking is covered by `rowsM_off_all_selected`). -/
theorem c05_single_variable_tree_on_off (W : World V) (D : VarId → List V) (P : Params V) (x : VarId)
    (hk : KeyOk P x D) (hinj : Function.Injective P.rank) (hD : D x ≠ []) (hDn : KeysNodup P.toKey D)
    (q : Query V) (c : Cond V) (hq : q.cond = some c)
    (hs : Cond.single x c) (hf : c.noFlat = true)
    (hall : ∀ v ∈ c.vars, v ∈ q.sel.flatMap Term.binds) (n m : Nat) :
    (rowsM W D P true q (afterEvalsOn P W D q n [])).1 =
      (rowsM W D P false q (afterEvals W D P q m [])).1 := by
  rw [c05_single_variable_tree W D P x hk hinj hD q c hq hs hf n,
    rowsM_off_all_selected_iter W D P hinj hDn q c hq hf hall m [] dedupClean_nil]

/-- Non-vacuity: a disjunction under a conjunction, three evaluations in a row with the cache enabled. -/
example :
    let D : VarId → List Nat := fun _ => [1, 2, 3, 4, 5]
    let P : Params Nat := { rank := id, toKey := id, ofKey := id }
    let q : Query Nat := ⟨[.var 0], some (.elseIf (.and (.cmp .gt (.var 0) (.lit 1)) (.cmp .lt (.var 0) (.lit 3)))
      (.cmp .ge (.var 0) (.lit 5)))⟩
    (rowsM natWorld D P true q (afterEvalsOn P natWorld D q 2 [])).1 = [[2], [5]] ∧
    rows natWorld D q = [[2], [5]] := by decide

/-- **The switch is read when a query is evaluated** (conjunctive queries over any number of variables): after `n`
    evaluations with the result cache ENABLED - whatever they left in the caches and tracking sets - an
    evaluation with the cache DISABLED returns exactly the L1 rows; nothing stored by the cached evaluations is
    consulted.  (The model's evaluator takes the switch as a run-time argument of every evaluation, as
    `is_caching_enabled()` is read inside `_evaluate__`; the round-18 stream `built_under_caching` checks that
    the implementation does so too.) -/
theorem c05_switch_off_after_cached_conj (W : World V) (D : VarId → List V) (P : Params V)
    (q : Query V) (c : Cond V) (hq : q.cond = some c) (hc : Machine.Cond.conj c = true)
    (hf : c.noFlat = true) (n : Nat) :
    (rowsM W D P false q (afterEvalsOn P W D q n [])).1 = rows W D q :=
  rowsM_conj_off W D P q c hq hc hf _

/-- Non-vacuity: two cached evaluations of a two-variable join, then one with the cache switched off. -/
example :
    let D : VarId → List Nat := fun _ => [1, 2, 3]
    let P : Params Nat := { rank := id, toKey := id, ofKey := id }
    let q : Query Nat := ⟨[.var 0, .var 1], some (.and (.cmp .lt (.var 0) (.var 1)) (.cmp .gt (.var 0) (.lit 1)))⟩
    (rowsM natWorld D P false q (afterEvalsOn P natWorld D q 2 [])).1 = [[2, 3]] ∧
    rows natWorld D q = [[2, 3]] := by decide

end Eql
