/-
  C12 — rows of a rule tree over ANY number of variables (set level).

  `c12_rule_tree_rows` (Props/C12.lean) is the list-level statement for rules over one variable.  Here:
    RTree.entryOk VS     the trees the generator writes ("branch-closed"): every branch that is reached
                         with unbound variables - the base rule and the alternatives on its alternative
                         chain - has conditions that mention exactly the variables VS (uniform
                         disjunctions, no flatten); a refinement, which is reached under the total
                         bindings its parent made, may mention any subset and hold any sub-tree
    rtree_sound / rtree_complete   soundness and completeness of `evalR` against `RTree.holds` /
                         `RTree.concl`: every output speaks for exactly the admissible assignments
                         that extend it, true outputs bind all of VS, every admissible assignment is
                         covered (induction over the tree; refinements by `rt_closed`)
    c12_rule_tree_rows_multi   the instances a rule tree yields are exactly the pairs (conclusion the
                         selectors prescribe, argument values) of the admissible assignments on which
                         the tree selects a conclusion - nothing else, none missing
-/
import EqlModel.Props.C12
import EqlModel.Props.C10
import EqlModel.Lemmas.RuleBuild
import EqlModel.NatWorld

namespace Eql
variable {V : Type}
variable (W : World V) (D : VarId → List V)

def RTree.entryOk (VS : List VarId) : RTree V → Prop
  | .leaf _ c _ => c.noFlat = true ∧ Cond.uniformOr c ∧ (∀ v, v ∈ c.vars ↔ v ∈ VS)
  | .exceptIf l r => l.entryOk VS ∧ r.noFlat = true ∧ (∀ v ∈ r.vars, v ∈ VS)
  | .alternative l r => l.entryOk VS ∧ r.entryOk VS

theorem holds_of_concl (α : Asg V) (t : RTree V) (tag : Nat) (h : t.concl W α = some tag) :
    t.holds W α = true := by
  rcases Bool.eq_false_or_eq_true (t.holds W α) with h1 | h1
  · exact h1
  · rw [concl_none_of_not_holds W α t h1] at h; cases h

variable [BEq V] [LawfulBEq V] [Inhabited V]

/-- What one output of a rule tree says. -/
def ROutOk (VS : List VarId) (t : RTree V) (β : Bnd V) (ywf : Bool) (out : Bnd V × Bool × Option Nat) : Prop :=
  BOk D out.1 ∧ (ywf = false → out.2.1 = false) ∧ (out.2.1 = false → ∀ v ∈ VS, bound out.1 v = true) ∧
  ∀ α, (∀ v ∈ VS, α v ∈ D v) → Ext out.1 α →
    Ext β α ∧ t.holds W α = !out.2.1 ∧ (out.2.1 = false → out.2.2 = t.concl W α)

theorem rtree_sound_complete (VS : List VarId) : ∀ (t : RTree V), t.entryOk VS →
    ∀ (β : Bnd V) (ywf : Bool), BOk D β →
    (∀ out ∈ evalR W D t β ywf, ROutOk W D VS t β ywf out) ∧
    (∀ α, (∀ v ∈ VS, α v ∈ D v) → Ext β α → (ywf = true ∨ t.holds W α = true) →
      ∃ out ∈ evalR W D t β ywf, Ext out.1 α) := by
  intro t
  induction t with
  | leaf i c tag =>
    intro hok β ywf hb
    obtain ⟨hf, hu, hvs⟩ := hok
    have hsc := cond_sound_complete W D c hf
    refine ⟨?_, ?_⟩
    · intro out hout
      simp only [evalR, List.mem_map] at hout
      obtain ⟨p, hp, rfl⟩ := hout
      have hs := hsc.1 β p.1 p.2 ywf hp
      refine ⟨cond_bok W D c hf β p.1 p.2 ywf hb hp, hs.1, ?_, ?_⟩
      · intro hfalse v hv
        have hp' : (p.1, false) ∈ evalCond W D c β ywf := by
          have e : (p.1, false) = p := by rw [← hfalse]
          rw [e]; exact hp
        exact true_output_total W D c hf hu β p.1 ywf hp' v ((hvs v).2 hv)
      · intro α hadm hext
        have := hs.2 α (fun v hv => hadm v ((hvs v).1 hv)) hext
        refine ⟨this.1, by simpa [RTree.holds] using this.2, ?_⟩
        intro hfalse
        have hp2 : p.2 = false := hfalse
        simp [RTree.concl, this.2, hp2]
    · intro α hadm hext hy
      obtain ⟨p, hp, hpe⟩ := hsc.2 β α ywf hext (fun v hv => hadm v ((hvs v).1 hv))
        (by simpa [RTree.holds] using hy)
      exact ⟨(p.1, p.2, if p.2 then none else some tag), by simp only [evalR, List.mem_map]; exact ⟨p, hp, rfl⟩, hpe⟩
  | exceptIf l r ihl _ =>
    intro hok β ywf hb
    obtain ⟨hl, hrf, hrv⟩ := hok
    have ihl' := ihl hl β ywf hb
    -- the refinement under a true output of the refined branch: everything is bound
    have hclosed : ∀ (β1 : Bnd V), (∀ v ∈ VS, bound β1 v = true) → ∀ α, Ext β1 α →
        evalR W D r β1 false = closedOutR β1 (r.holds W α) (r.concl W α) false :=
      fun β1 hb1 α hα => rt_closed W D r hrf β1 α false hα (fun v hv => hb1 v (hrv v hv))
    refine ⟨?_, ?_⟩
    · intro out hout
      simp only [evalR, List.mem_flatMap] at hout
      obtain ⟨p, hp, hout⟩ := hout
      obtain ⟨hpb, hpy, hpt, hps⟩ := ihl'.1 p hp
      rcases Bool.eq_false_or_eq_true p.2.1 with h1 | h1
      · -- the refined branch is false
        simp only [h1, if_true] at hout
        cases ywf with
        | false => simp at hout
        | true =>
          simp only [if_true, List.mem_singleton] at hout
          subst hout
          refine ⟨hpb, by simp, by simp, ?_⟩
          intro α hadm hext
          have := hps α hadm hext
          exact ⟨this.1, by simpa [RTree.holds, h1] using this.2.1, by simp⟩
      · simp only [h1, Bool.false_eq_true, if_false] at hout
        have htot := hpt h1
        have h0 := hclosed p.1 htot (asgOfBnd p.1) (ext_asgOfBnd p.1)
        rw [h0] at hout
        rcases Bool.eq_false_or_eq_true (r.holds W (asgOfBnd p.1)) with h2 | h2
        · -- the refinement fires
          simp only [closedOutR, h2, Bool.true_or, if_true, List.isEmpty_cons, Bool.false_eq_true, if_false,
            List.map_cons, List.map_nil, List.mem_singleton, Bool.not_true] at hout
          subst hout
          refine ⟨hpb, by simp, fun _ => htot, ?_⟩
          intro α hadm hext
          have := hps α hadm hext
          have hα := hclosed p.1 htot α hext
          rw [h0] at hα
          rcases Bool.eq_false_or_eq_true (r.holds W α) with h3 | h3
          · simp only [closedOutR, h2, h3, Bool.true_or, if_true, List.cons.injEq, Prod.mk.injEq, true_and,
              and_true] at hα
            refine ⟨this.1, ?_, ?_⟩
            · simp only [RTree.holds, Bool.not_false]; rw [this.2.1, h1]; rfl
            · intro _
              have hlh : l.holds W α = true := by rw [this.2.1, h1]; rfl
              simp only [RTree.concl, hlh, h3, if_true]
              exact hα
          · simp [closedOutR, h2, h3] at hα
        · -- it does not
          simp only [closedOutR, h2, Bool.false_or, Bool.false_eq_true, if_false, List.isEmpty_nil, if_true,
            List.mem_singleton] at hout
          subst hout
          refine ⟨hpb, by simp, fun _ => htot, ?_⟩
          intro α hadm hext
          have := hps α hadm hext
          have hα := hclosed p.1 htot α hext
          rw [h0] at hα
          rcases Bool.eq_false_or_eq_true (r.holds W α) with h3 | h3
          · simp [closedOutR, h2, h3] at hα
          · have hlh : l.holds W α = true := by rw [this.2.1, h1]; rfl
            refine ⟨this.1, ?_, ?_⟩
            · simp only [RTree.holds, Bool.not_false]; exact hlh
            · intro _
              simp only [RTree.concl, hlh, h3, if_true, Bool.false_eq_true, if_false]
              exact this.2.2 h1
    · intro α hadm hext hy
      have hy' : ywf = true ∨ l.holds W α = true := by simpa [RTree.holds] using hy
      obtain ⟨p, hp, hpe⟩ := ihl'.2 α hadm hext hy'
      obtain ⟨hpb, hpy, hpt, hps⟩ := ihl'.1 p hp
      have hsα := hps α hadm hpe
      rcases Bool.eq_false_or_eq_true p.2.1 with h1 | h1
      · have hlh : l.holds W α = false := by rw [hsα.2.1, h1]; rfl
        have hyw : ywf = true := by
          rcases hy' with h | h
          · exact h
          · rw [hlh] at h; cases h
        refine ⟨(p.1, true, none), ?_, hpe⟩
        simp only [evalR, List.mem_flatMap]
        exact ⟨p, hp, by simp [h1, hyw]⟩
      · have htot := hpt h1
        have hα := hclosed p.1 htot α hpe
        rcases Bool.eq_false_or_eq_true (r.holds W α) with h3 | h3
        · refine ⟨(p.1, false, r.concl W α), ?_, hpe⟩
          simp only [evalR, List.mem_flatMap]
          refine ⟨p, hp, ?_⟩
          simp [h1, hα, closedOutR, h3]
        · refine ⟨(p.1, false, p.2.2), ?_, hpe⟩
          simp only [evalR, List.mem_flatMap]
          refine ⟨p, hp, ?_⟩
          simp [h1, hα, closedOutR, h3]
  | alternative l r ihl ihr =>
    intro hok β ywf hb
    obtain ⟨hl, hr⟩ := hok
    have ihl' := ihl hl β true hb
    refine ⟨?_, ?_⟩
    · intro out hout
      simp only [evalR] at hout
      by_cases hemp : (evalR W D l β true).isEmpty = true
      · -- no output of the left branch at all: no admissible assignment extends β
        simp only [hemp, if_true] at hout
        obtain ⟨hob, hoy, hot, hos⟩ := (ihr hr β ywf hb).1 out hout
        refine ⟨hob, hoy, hot, ?_⟩
        intro α hadm hext
        have h := hos α hadm hext
        obtain ⟨p, hp, _⟩ := ihl'.2 α hadm h.1 (Or.inl rfl)
        rw [List.isEmpty_iff] at hemp
        rw [hemp] at hp; cases hp
      · simp only [hemp, Bool.false_eq_true, if_false, List.mem_flatMap] at hout
        obtain ⟨p, hp, hout⟩ := hout
        obtain ⟨hpb, _, hpt, hps⟩ := ihl'.1 p hp
        rcases Bool.eq_false_or_eq_true p.2.1 with h1 | h1
        · -- left false: the right branch under the left's binding
          simp only [h1, if_true] at hout
          obtain ⟨hob, hoy, hot, hos⟩ := (ihr hr p.1 ywf hpb).1 out hout
          refine ⟨hob, hoy, hot, ?_⟩
          intro α hadm hext
          have h := hos α hadm hext
          have hl' := hps α hadm h.1
          have hlh : l.holds W α = false := by rw [hl'.2.1, h1]; rfl
          refine ⟨hl'.1, ?_, ?_⟩
          · simp only [RTree.holds, hlh, Bool.false_or]; exact h.2.1
          · intro hfalse
            simp only [RTree.concl, hlh, Bool.false_eq_true, if_false]
            exact h.2.2 hfalse
        · simp only [h1, Bool.false_eq_true, if_false, List.mem_singleton] at hout
          subst hout
          refine ⟨hpb, by simp, fun _ => hpt h1, ?_⟩
          intro α hadm hext
          have hl' := hps α hadm hext
          have hlh : l.holds W α = true := by rw [hl'.2.1, h1]; rfl
          refine ⟨hl'.1, ?_, ?_⟩
          · simp [RTree.holds, hlh]
          · intro _
            simp only [RTree.concl, hlh, if_true]
            exact hl'.2.2 h1
    · intro α hadm hext hy
      obtain ⟨p, hp, hpe⟩ := ihl'.2 α hadm hext (Or.inl rfl)
      obtain ⟨hpb, _, hpt, hps⟩ := ihl'.1 p hp
      have hl' := hps α hadm hpe
      have hne : (evalR W D l β true).isEmpty = false := by
        cases hE : evalR W D l β true with
        | nil => rw [hE] at hp; cases hp
        | cons _ _ => rfl
      rcases Bool.eq_false_or_eq_true p.2.1 with h1 | h1
      · have hlh : l.holds W α = false := by rw [hl'.2.1, h1]; rfl
        have hy' : ywf = true ∨ r.holds W α = true := by simpa [RTree.holds, hlh] using hy
        obtain ⟨q, hq, hqe⟩ := (ihr hr p.1 ywf hpb).2 α hadm hpe hy'
        refine ⟨q, ?_, hqe⟩
        simp only [evalR, hne, Bool.false_eq_true, if_false, List.mem_flatMap]
        exact ⟨p, hp, by simp [h1, hq]⟩
      · refine ⟨(p.1, false, p.2.2), ?_, hpe⟩
        simp only [evalR, hne, Bool.false_eq_true, if_false, List.mem_flatMap]
        exact ⟨p, hp, by simp [h1]⟩

/-- **C12 (rows, any number of variables).**  The instances a branch-closed rule tree yields are
    exactly the (conclusion, argument values) of the admissible assignments on which the tree selects
    a conclusion: `RTree.concl` - the refinement's conclusion in place of the refined one where the
    refinement fires, an alternative's only where the branches before it did not fire. -/
theorem c12_rule_tree_rows_multi (VS : List VarId) (t : RTree V) (hok : t.entryOk VS)
    (args : List (Term V)) (hfa : Terms.noFlat args = true) (hva : ∀ v ∈ Terms.vars args, v ∈ VS)
    (tag : Nat) (vals : List V) :
    (tag, vals) ∈ ruleRows W D t args ↔
      ∃ α, (∀ v ∈ VS, α v ∈ D v) ∧ t.concl W α = some tag ∧ vals = termsVal W α args := by
  have hsc := rtree_sound_complete W D VS t hok [] false (bok_nil D)
  simp only [ruleRows, List.mem_flatMap]
  constructor
  · rintro ⟨out, hout, hrow⟩
    obtain ⟨hob, hoy, hot, hos⟩ := hsc.1 out hout
    have hf : out.2.1 = false := hoy rfl
    cases hk : out.2.2 with
    | none => simp [hk] at hrow
    | some tg =>
      simp only [hk, hf, Bool.false_eq_true, if_false, List.mem_map] at hrow
      obtain ⟨q, hq, he⟩ := hrow
      have hqs := args_sound W D args hfa out.1 q.1 q.2 hq (asgOfBnd q.1) (ext_asgOfBnd q.1)
      have hbq := args_bok W D args hfa out.1 q.1 q.2 hob hq
      have hadm : ∀ v ∈ VS, asgOfBnd q.1 v ∈ D v := by
        intro v hv
        obtain ⟨a, ha⟩ := bound_iff.1 (hot hf v hv)
        have : q.1.lookup v = some a := args_sub W D args hfa out.1 q.1 q.2 hq v a ha
        simp only [asgOfBnd, this, Option.getD_some]
        exact hbq v a this
      have hs := hos (asgOfBnd q.1) hadm hqs.1
      have : (tg, q.2) = (tag, vals) := he
      simp only [Prod.mk.injEq] at this
      refine ⟨asgOfBnd q.1, hadm, ?_, ?_⟩
      · rw [← hs.2.2 hf, hk, this.1]
      · rw [← this.2, hqs.2]
  · rintro ⟨α, hadm, hc, rfl⟩
    have hh := holds_of_concl W α t tag hc
    obtain ⟨out, hout, hext⟩ := hsc.2 α hadm (fun v a h => by simp [List.lookup] at h) (Or.inr hh)
    obtain ⟨hob, hoy, hot, hos⟩ := hsc.1 out hout
    have hf : out.2.1 = false := hoy rfl
    have hs := hos α hadm hext
    refine ⟨out, hout, ?_⟩
    rw [hs.2.2 hf, hc]
    simp only [hf, Bool.false_eq_true, if_false, List.mem_map]
    obtain ⟨q, hq, hqe⟩ := args_complete W D args hfa out.1 α hext (fun v hv => hadm v (hva v hv))
    exact ⟨q, hq, by rw [(args_sound W D args hfa out.1 q.1 q.2 hq α hqe).2]⟩

/-! ### From the surface program to the rows of the tree the library constructs -/

/-- Flatten-free, over variables of VS only. -/
def RTree.plain (VS : List VarId) (t : RTree V) : Prop := t.noFlat = true ∧ ∀ v ∈ t.vars, v ∈ VS

/-- The surface programs the theorem covers.  `entry`: the blocks of this level are reached with
    unbound variables (alternatives of the base rule, and alternatives written inside those) - their
    conditions mention exactly VS and have uniform disjunctions; a refinement, and everything written
    inside it, is reached under total bindings and may mention any subset of VS. -/
def SRule.okS (VS : List VarId) : Bool → SRule V → Prop
  | _, .nil => True
  | entry, .cons kind c _ inner rest =>
      c.noFlat = true ∧ (∀ v ∈ c.vars, v ∈ VS) ∧
      (match kind with
        | .ref => inner.okS VS false
        | .alt => (entry = true → Cond.uniformOr c ∧ ∀ v ∈ VS, v ∈ c.vars) ∧ inner.okS VS entry) ∧
      rest.okS VS entry

omit [BEq V] [LawfulBEq V] [Inhabited V] in
theorem wrapRefs_plain (VS : List VarId) (core : RTree V) (hc : core.plain VS) :
    ∀ (refs : List (RTree V)), (∀ r ∈ refs, r.plain VS) → (wrapRefs core refs).plain VS := by
  intro refs
  induction refs with
  | nil => intro _; exact hc
  | cons r rs ih =>
    intro h
    have h1 := ih (fun x hx => h x (List.mem_cons_of_mem _ hx))
    have h2 := h r List.mem_cons_self
    refine ⟨by simp [wrapRefs, RTree.noFlat, h1.1, h2.1], ?_⟩
    intro v hv
    simp only [wrapRefs, RTree.vars, List.mem_append] at hv
    rcases hv with hv | hv
    · exact h1.2 v hv
    · exact h2.2 v hv

omit [BEq V] [LawfulBEq V] [Inhabited V] in
theorem wrapRefs_entryOk (VS : List VarId) (core : RTree V) (hc : core.entryOk VS) :
    ∀ (refs : List (RTree V)), (∀ r ∈ refs, r.plain VS) → (wrapRefs core refs).entryOk VS := by
  intro refs
  induction refs with
  | nil => intro _; exact hc
  | cons r rs ih =>
    intro h
    have h2 := h r List.mem_cons_self
    exact ⟨ih (fun x hx => h x (List.mem_cons_of_mem _ hx)), h2.1, h2.2⟩

omit [BEq V] [LawfulBEq V] [Inhabited V] in
theorem foldl_alt_plain (VS : List VarId) : ∀ (alts : List (RTree V)) (acc : RTree V), acc.plain VS →
    (∀ a ∈ alts, a.plain VS) → (alts.foldl RTree.alternative acc).plain VS := by
  intro alts
  induction alts with
  | nil => intro acc h _; exact h
  | cons a as ih =>
    intro acc h ha
    apply ih
    · have h2 := ha a List.mem_cons_self
      refine ⟨by simp [RTree.noFlat, h.1, h2.1], ?_⟩
      intro v hv
      simp only [RTree.vars, List.mem_append] at hv
      rcases hv with hv | hv
      · exact h.2 v hv
      · exact h2.2 v hv
    · exact fun x hx => ha x (List.mem_cons_of_mem _ hx)

omit [BEq V] [LawfulBEq V] [Inhabited V] in
theorem foldl_alt_entryOk (VS : List VarId) : ∀ (alts : List (RTree V)) (acc : RTree V), acc.entryOk VS →
    (∀ a ∈ alts, a.entryOk VS) → (alts.foldl RTree.alternative acc).entryOk VS := by
  intro alts
  induction alts with
  | nil => intro acc h _; exact h
  | cons a as ih =>
    intro acc h ha
    exact ih _ ⟨h, ha a List.mem_cons_self⟩ (fun x hx => ha x (List.mem_cons_of_mem _ hx))

omit [BEq V] [LawfulBEq V] [Inhabited V] in
/-- The sub-trees assembled from the blocks of one level. -/
theorem expKids_ok (VS : List VarId) : ∀ (kids : SRule V) (entry : Bool) (next : Nat), kids.okS VS entry →
    (∀ r ∈ (expKids kids next).1, r.plain VS) ∧
    (∀ a ∈ (expKids kids next).2.1, a.plain VS ∧ (entry = true → a.entryOk VS)) := by
  intro kids
  induction kids with
  | nil => intro entry next _; simp [expKids]
  | cons kind c tag inner rest ihi ihr =>
    intro entry next h
    obtain ⟨hf, hv, hk, hrest⟩ := h
    have hr := ihr entry (expKids inner (next + 1)).2.2 hrest
    have hleafP : (RTree.leaf next c tag : RTree V).plain VS := ⟨hf, hv⟩
    cases kind with
    | ref =>
      have hi := ihi false (next + 1) hk
      have hsub : (assemble (.leaf next c tag) (expKids inner (next + 1)).1 (expKids inner (next + 1)).2.1).plain VS :=
        foldl_alt_plain VS _ _ (wrapRefs_plain VS _ hleafP _ hi.1) (fun a ha => (hi.2 a ha).1)
      refine ⟨?_, ?_⟩
      · intro r hr'
        simp only [expKids, List.mem_cons] at hr'
        rcases hr' with rfl | hr'
        · exact hsub
        · exact hr.1 r hr'
      · intro a ha
        simp only [expKids] at ha
        exact hr.2 a ha
    | alt =>
      have hi := ihi entry (next + 1) hk.2
      have hsubP : (assemble (.leaf next c tag) (expKids inner (next + 1)).1 (expKids inner (next + 1)).2.1).plain VS :=
        foldl_alt_plain VS _ _ (wrapRefs_plain VS _ hleafP _ hi.1) (fun a ha => (hi.2 a ha).1)
      refine ⟨?_, ?_⟩
      · intro r hr'
        simp only [expKids] at hr'
        exact hr.1 r hr'
      · intro a ha
        simp only [expKids, List.mem_cons] at ha
        rcases ha with rfl | ha
        · refine ⟨hsubP, ?_⟩
          intro he
          obtain ⟨hu, hall⟩ := hk.1 he
          have hleafE : (RTree.leaf next c tag : RTree V).entryOk VS :=
            ⟨hf, hu, fun v => ⟨hv v, hall v⟩⟩
          exact foldl_alt_entryOk VS _ _ (wrapRefs_entryOk VS _ hleafE _ hi.1) (fun a ha => (hi.2 a ha).2 he)
        · exact hr.2 a ha

/-- **C12, from the program to the instances.**  For a rule written with `Add` conclusions,
    `refinement` and `alternative` blocks nested to any depth - base rule and the alternatives on its
    chain mentioning every variable, refinements any subset - the instances `infer(...)` yields from
    the tree THE LIBRARY'S CONSTRUCTION builds are exactly the (conclusion, argument values) that
    ripple-down rules (`fireRule`) prescribe for the admissible assignments, over any number of
    variables. -/
theorem c12_program_rows (VS : List VarId) (c0 : Cond V) (tag0 : Nat) (kids : SRule V)
    (hf0 : c0.noFlat = true) (hu0 : Cond.uniformOr c0) (hv0 : ∀ v, v ∈ c0.vars ↔ v ∈ VS)
    (hk : kids.okS VS true)
    (args : List (Term V)) (hfa : Terms.noFlat args = true) (hva : ∀ v ∈ Terms.vars args, v ∈ VS)
    (tag : Nat) (vals : List V) :
    (tag, vals) ∈ ruleRows W D (buildRule c0 tag0 kids) args ↔
      ∃ α, (∀ v ∈ VS, α v ∈ D v) ∧ fireRule W α c0 tag0 kids = some tag ∧ vals = termsVal W α args := by
  have hok : (expected c0 tag0 kids).entryOk VS := by
    have h := expKids_ok VS kids true 1 hk
    have hleaf : (RTree.leaf 0 c0 tag0 : RTree V).entryOk VS := ⟨hf0, hu0, hv0⟩
    exact foldl_alt_entryOk VS _ _ (wrapRefs_entryOk VS _ hleaf _ h.1) (fun a ha => (h.2 a ha).2 rfl)
  rw [c12_build_expected, c12_rule_tree_rows_multi W D VS _ hok args hfa hva]
  simp only [c12_expected_fire]

/-- Non-vacuity: a two-variable rule `x < y => 0`, refinement `y >= 3 => 1` (a subset of the variables),
    alternative `x > y => 2` meets the hypotheses of `c12_program_rows` … -/
example :
    SRule.okS (V := Nat) [0, 1] true
      (.cons .ref (.cmp .ge (.var 1) (.lit 3)) 1 .nil (.cons .alt (.cmp .gt (.var 0) (.var 1)) 2 .nil .nil)) := by
  simp [SRule.okS, Cond.noFlat, Term.noFlat, Cond.vars, Term.vars, Cond.uniformOr]

/-- … and its instances are neither empty nor everything: pairs with `x = y` produce nothing, the
    refinement replaces the base conclusion exactly where `y >= 3`. -/
example :
    ruleRows natWorld (fun _ => [1, 2, 3])
      (buildRule (.cmp .lt (.var 0) (.var 1)) 0
        (.cons .ref (.cmp .ge (.var 1) (.lit 3)) 1 .nil (.cons .alt (.cmp .gt (.var 0) (.var 1)) 2 .nil .nil)))
      [.var 0, .var 1] =
    [(0, [1, 2]), (1, [1, 3]), (2, [2, 1]), (1, [2, 3]), (2, [3, 1]), (2, [3, 2])] := by decide

end Eql
