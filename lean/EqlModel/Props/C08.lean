/-
  C08 — symbolic mode is confined to its block.

  Model: `EqlModel/Mode.lean`.  Histories are arbitrary finite interleavings of entering/leaving
  symbolic_mode / rule_mode blocks (with or without a query) and `with query:` blocks — leaving by
  normal exit or by an exception is the same `finally` — and of creating, advancing, exhausting,
  closing or finalising result iterators at ANY point, inside or outside any block.
    c08_confined            after every history: mode = the innermost enclosing block's mode (none
                            outside every block), expression stack = the queries the open blocks pushed
    c08_outside_blocks      outside every block: construction is concrete, operators are rejected
    c08_inside_block        inside a block: construction is symbolic, operators build expressions
    c08_iter_ops_invisible  no iterator operation changes anything a user can observe, wherever it
                            happens (this is what the `fix:` 3bc15c5 established; the position of a
                            close/finalisation step is universally quantified, which covers every
                            finalisation time within one thread)
    c08_leave_restores      leaving a block — after any balanced body — restores exactly the mode,
                            stack and open blocks that were active before it was entered
-/
import EqlModel.Mode
import EqlModel.Gen.Tables

namespace Eql.Mode

/-- Saved modes are the modes that were active at entry. -/
def FramesOk : List Frame → Prop
  | [] => True
  | .block prev _ _ :: fs => prev = innermost fs ∧ FramesOk fs
  | .withQuery :: fs => FramesOk fs

structure Inv (s : MState) : Prop where
  mode : s.mode = innermost s.frames
  stack : s.stack = pushes s.frames
  frames : FramesOk s.frames

theorem inv_init : Inv {} := ⟨rfl, rfl, trivial⟩

theorem inv_step (s : MState) (op : Op) (h : Inv s) : Inv (step s op) := by
  cases op with
  | enterSym m wq =>
    refine ⟨rfl, ?_, ⟨h.mode, h.frames⟩⟩
    cases wq <;> simp [step, pushes, h.stack, Nat.add_comm]
  | enterWith => exact ⟨h.mode, by simp [step, pushes, h.stack, Nat.add_comm], h.frames⟩
  | leave =>
    cases hf : s.frames with
    | nil => simpa [step, hf] using h
    | cons f fs =>
      have hm := h.mode; have hs := h.stack; have hfr := h.frames
      rw [hf] at hm hs hfr
      cases f with
      | block prev m pushed =>
        simp only [FramesOk] at hfr
        refine ⟨by simp [step, hf, hfr.1], ?_, by simpa [step, hf] using hfr.2⟩
        cases pushed <;> simp [step, hf, hs, pushes]
      | withQuery =>
        exact ⟨by simpa [step, hf, innermost] using hm, by simp [step, hf, hs, pushes],
          by simpa [step, hf, FramesOk] using hfr⟩
  | iterCreate i => exact ⟨h.mode, h.stack, h.frames⟩
  | iterAdvance i e => exact ⟨h.mode, h.stack, h.frames⟩
  | iterClose i => exact ⟨h.mode, h.stack, h.frames⟩

theorem inv_run : ∀ (ops : List Op) (s : MState), Inv s → Inv (run s ops) := by
  intro ops
  induction ops with
  | nil => intro s h; exact h
  | cons op ops ih => intro s h; exact ih _ (inv_step s op h)

/-- **C08.** After every history the mode is the innermost enclosing block's mode and the
    expression stack holds exactly the queries the open blocks pushed. -/
theorem c08_confined (ops : List Op) :
    (run {} ops).mode = innermost (run {} ops).frames ∧
    (run {} ops).stack = pushes (run {} ops).frames :=
  ⟨(inv_run ops {} inv_init).mode, (inv_run ops {} inv_init).stack⟩

/-- Outside every block: ordinary Python. -/
theorem c08_outside_blocks (ops : List Op) (h : (run {} ops).frames = []) :
    observe (run {} ops) =
      { inSymbolic := false, inRule := false, constructsConcrete := true, operatorsRejected := true,
        stackLen := 0 } := by
  have hc := c08_confined ops
  rw [h] at hc
  simp [observe, hc.1, hc.2, innermost, pushes]

/-- Inside a symbolic/rule block (directly, or inside `with query:` blocks nested in it):
    construction is symbolic and operators build expressions. -/
theorem c08_inside_block (ops : List Op) (m : EMode) (h : innermost (run {} ops).frames = some m) :
    (observe (run {} ops)).inSymbolic = true ∧ (observe (run {} ops)).constructsConcrete = false ∧
    (observe (run {} ops)).operatorsRejected = false ∧
    (observe (run {} ops)).inRule = (m == .rule) := by
  have hc := (c08_confined ops).1
  rw [h] at hc
  cases m <;> simp [observe, hc]

def Op.isIter : Op → Bool
  | .iterCreate _ | .iterAdvance _ _ | .iterClose _ => true
  | _ => false

/-- Creating, advancing, exhausting, closing or finalising a result iterator never changes what a
    user can observe nor the open blocks — wherever in the history it happens. -/
theorem c08_iter_ops_invisible (s : MState) (op : Op) (h : op.isIter = true) :
    observe (step s op) = observe s ∧ (step s op).frames = s.frames := by
  cases op <;> simp [Op.isIter] at h <;> simp [step, observe, afterAdvance]

/-- While an iterator computes its next result user code runs concretely, whatever the ambient mode. -/
theorem c08_during_advance (ambient : Option EMode) : duringAdvance ambient = none := rfl

/-- Depth bookkeeping of a body of operations relative to its start. -/
def bal : Nat → List Op → Option Nat
  | d, [] => some d
  | d, .enterSym _ _ :: ops => bal (d + 1) ops
  | d, .enterWith :: ops => bal (d + 1) ops
  | 0, .leave :: _ => none
  | d + 1, .leave :: ops => bal d ops
  | d, .iterCreate _ :: ops => bal d ops
  | d, .iterAdvance _ _ :: ops => bal d ops
  | d, .iterClose _ :: ops => bal d ops

theorem frames_preserved : ∀ (ops : List Op) (d d' : Nat) (s : MState) (cur base : List Frame),
    s.frames = cur ++ base → cur.length = d → bal d ops = some d' →
    ∃ cur', (run s ops).frames = cur' ++ base ∧ cur'.length = d' := by
  intro ops
  induction ops with
  | nil => intro d d' s cur base hf hl hb; simp [bal] at hb; subst hb; exact ⟨cur, hf, hl⟩
  | cons op ops ih =>
    intro d d' s cur base hf hl hb
    cases op with
    | enterSym m wq =>
      exact ih (d + 1) d' (step s (.enterSym m wq)) (.block s.mode m wq :: cur) base
        (by simp [step, hf]) (by simp [hl]) (by simpa [bal] using hb)
    | enterWith =>
      exact ih (d + 1) d' (step s .enterWith) (.withQuery :: cur) base
        (by simp [step, hf]) (by simp [hl]) (by simpa [bal] using hb)
    | leave =>
      cases d with
      | zero => simp [bal] at hb
      | succ d =>
        cases cur with
        | nil => simp at hl
        | cons f cur =>
          refine ih d d' (step s .leave) cur base ?_ (by simpa using hl) (by simpa [bal] using hb)
          cases f <;> simp [step, hf]
    | iterCreate i => exact ih d d' _ cur base (by simpa [step] using hf) hl (by simpa [bal] using hb)
    | iterAdvance i e => exact ih d d' _ cur base (by simpa [step] using hf) hl (by simpa [bal] using hb)
    | iterClose i => exact ih d d' _ cur base (by simpa [step] using hf) hl (by simpa [bal] using hb)

/-- **Leaving a block restores what was active before it**, after any body that is balanced
    (nested blocks, exceptions, iterator operations): mode, expression stack and open blocks. -/
theorem c08_leave_restores (s : MState) (h : Inv s) (enter : Op)
    (henter : enter = .enterWith ∨ ∃ m wq, enter = .enterSym m wq)
    (body : List Op) (hb : bal 0 body = some 0) :
    let s' := run s (enter :: body ++ [.leave])
    s'.mode = s.mode ∧ s'.stack = s.stack ∧ s'.frames = s.frames := by
  intro s'
  have hbal : bal 0 (enter :: body ++ [.leave]) = some 0 := by
    have key : ∀ (ops : List Op) (d d' : Nat), bal d ops = some (d' + 1) →
        bal d (ops ++ [.leave]) = some d' := by
      intro ops
      induction ops with
      | nil => intro d d' hh; simp [bal] at hh; subst hh; simp [bal]
      | cons op ops ih =>
        intro d d' hh
        cases op with
        | leave => cases d with
          | zero => simp [bal] at hh
          | succ d => simpa [bal] using ih d d' (by simpa [bal] using hh)
        | enterSym m wq => simpa [bal] using ih (d + 1) d' (by simpa [bal] using hh)
        | enterWith => simpa [bal] using ih (d + 1) d' (by simpa [bal] using hh)
        | iterCreate i => simpa [bal] using ih d d' (by simpa [bal] using hh)
        | iterAdvance i e => simpa [bal] using ih d d' (by simpa [bal] using hh)
        | iterClose i => simpa [bal] using ih d d' (by simpa [bal] using hh)
    have shift : ∀ (ops : List Op) (d d' : Nat), bal d ops = some d' → bal (d + 1) ops = some (d' + 1) := by
      intro ops
      induction ops with
      | nil => intro d d' hh; simp [bal] at hh; subst hh; simp [bal]
      | cons op ops ih =>
        intro d d' hh
        cases op with
        | leave => cases d with
          | zero => simp [bal] at hh
          | succ d => simpa [bal] using ih d d' (by simpa [bal] using hh)
        | enterSym m wq => simpa [bal] using ih (d + 1) d' (by simpa [bal] using hh)
        | enterWith => simpa [bal] using ih (d + 1) d' (by simpa [bal] using hh)
        | iterCreate i => simpa [bal] using ih d d' (by simpa [bal] using hh)
        | iterAdvance i e => simpa [bal] using ih d d' (by simpa [bal] using hh)
        | iterClose i => simpa [bal] using ih d d' (by simpa [bal] using hh)
    have h1 := key body 1 0 (shift body 0 0 hb)
    rcases henter with rfl | ⟨m, wq, rfl⟩ <;> simpa [bal] using h1
  obtain ⟨cur', hfr, hlen⟩ := frames_preserved (enter :: body ++ [.leave]) 0 0 s [] s.frames rfl rfl hbal
  have hnil : cur' = [] := List.length_eq_zero_iff.1 hlen
  subst hnil
  have hfr' : s'.frames = s.frames := by
    show (run s (enter :: body ++ [.leave])).frames = s.frames
    simpa using hfr
  have hinv := inv_run (enter :: body ++ [.leave]) s h
  refine ⟨?_, ?_, hfr'⟩
  · show s'.mode = s.mode
    rw [hinv.mode, h.mode]; exact congrArg innermost hfr'
  · show s'.stack = s.stack
    rw [hinv.stack, h.stack]; exact congrArg pushes hfr'

/-- Non-vacuity: a history with nested blocks, an exception-style leave and iterator operations
    in odd places satisfies the hypotheses and ends outside every block. -/
example : (run {} [.enterSym .query false, .iterCreate 0, .iterAdvance 0 false, .enterSym .rule true,
    .iterAdvance 0 false, .leave, .leave, .iterClose 0]).frames = [] := by decide

/-! ### Tie to the source (regenerated on every run, `Gen/Tables.lean`) -/

/-- Every symbolic operator defined on `CanBehaveLikeAVariable` BEGINS with the symbolic-mode guard, and the guard raises
    `AttributeError` outside symbolic mode: "rejected iff the mode is off" is what `Mode.observe` reports. -/
theorem c08_operators_guarded :
    (Gen.varOperators.all fun p => p.2) = true ∧ Gen.guardHelperRaises = true ∧ Gen.varOperators.length ≥ 10 := by decide

/-- The transliterated `duringAdvance` / `afterAdvance`: the result stream is advanced inside the mode guard, results
    are yielded OUTSIDE it, and the guard puts the previous mode back in a `finally`. -/
theorem c08_advance_guard_tied :
    (Gen.anAdvancesWithModeOff && Gen.anYieldsOutsideTheGuard && Gen.modeRestoredInFinally) = true := by decide

end Eql.Mode
