/-
  C07 — evaluation is demand-driven and consumes lazily supplied domains only as needed.
  (The same model carries C04's clauses about re-evaluation and duplicated domain objects.)

  Model: `EqlModel/Iter.lean`.
    c07_no_work_before_first   creating the result iterator (or closing it unstarted) changes nothing
    c07_prefix                 from a fresh one-shot domain of distinct objects, when the k-th result
                               is delivered the pull log is EXACTLY the prefix that ends at the k-th
                               qualifying element, and the results are its qualifying elements
    c07_pull_once              over ANY history of partial and full evaluations the pull log followed
                               by the unconsumed remainder is the original sequence: the log is a
                               prefix of it, no element is ever pulled twice
    c07_contents_invariant     no evaluation, however it ends, changes what iterating the domain
                               will yield …
    c07_full_after_history     … so a full evaluation after any history returns the same results as
                               on a fresh domain (also when the domain lists an object twice)
  The CPS reading of generators (a `for` over a generator resumes it once per element; `close()`
  stops it at the suspended `yield`) is part of the trusted base and is measured by the harness
  with a logging iterator.
-/
import EqlModel.Iter

namespace Eql.Iter
variable {V : Type} [BEq V] [LawfulBEq V]

theorem c07_no_work_before_first (q : V → Bool) (s : DomSt V) : take q (some 0) s = ([], s) := by
  simp [take]

/-- Conservation: every pull moves one element from the remainder to the end of the log. -/
theorem pullRest_log (q : V → Bool) : ∀ (rest : List V) (need : Option Nat) (s : DomSt V) (acc : List V),
    (pullRest q rest need s acc).2.log ++ (pullRest q rest need s acc).2.rest = s.log ++ rest := by
  intro rest
  induction rest with
  | nil => intro need s acc; simp [pullRest]
  | cons o os ih =>
    intro need s acc
    simp only [pullRest]
    split
    · simp
    · split
      · rw [ih]; simp
      · split <;> (rw [ih]; simp)

theorem pullRest_contents (q : V → Bool) : ∀ (rest : List V) (need : Option Nat) (s : DomSt V) (acc : List V),
    contents (pullRest q rest need s acc).2 = s.memo ++ fresh s.memo rest := by
  intro rest
  induction rest with
  | nil => intro need s acc; simp [pullRest, contents, fresh]
  | cons o os ih =>
    intro need s acc
    simp only [pullRest]
    split
    · simp [contents]
    · by_cases hm : s.memo.contains o = true
      · have hm' : o ∈ s.memo := by simpa using hm
        simp only [hm, if_true]
        rw [ih]; simp [fresh, hm']
      · have hm' : o ∉ s.memo := by simpa using hm
        simp only [hm, Bool.false_eq_true, if_false]
        split <;> (rw [ih]; simp [fresh, hm'])

theorem take_contents (q : V → Bool) (k : Option Nat) (s : DomSt V) :
    contents (take q k s).2 = contents s := by
  unfold take
  split
  · rfl
  · rw [pullRest_contents]; rfl

theorem take_log (q : V → Bool) (k : Option Nat) (s : DomSt V) :
    (take q k s).2.log ++ (take q k s).2.rest = s.log ++ s.rest := by
  unfold take
  split
  · rfl
  · rw [pullRest_log]

/-- **No element is pulled twice**: after any history the log followed by the remainder is the
    original sequence. -/
theorem c07_pull_once (q : V → Bool) (dom : List V) : ∀ (h : List (Option Nat)),
    (runHistory q (init dom) h).log ++ (runHistory q (init dom) h).rest = dom := by
  have gen : ∀ (h : List (Option Nat)) (s : DomSt V),
      (runHistory q s h).log ++ (runHistory q s h).rest = s.log ++ s.rest := by
    intro h
    induction h with
    | nil => intro s; rfl
    | cons k ks ih =>
      intro s
      simp only [runHistory, List.foldl_cons] at ih ⊢
      rw [ih, take_log]
  intro h
  simpa [init] using gen h (init dom)

theorem c07_contents_invariant (q : V → Bool) : ∀ (h : List (Option Nat)) (s : DomSt V),
    contents (runHistory q s h) = contents s := by
  intro h
  induction h with
  | nil => intro s; rfl
  | cons k ks ih =>
    intro s
    simp only [runHistory, List.foldl_cons] at ih ⊢
    rw [ih, take_contents]

theorem yieldMemo_none (q : V → Bool) : ∀ (memo acc : List V),
    yieldMemo q memo none acc = ((memo.filter q).reverse ++ acc, none) := by
  intro memo
  induction memo with
  | nil => intro acc; simp [yieldMemo]
  | cons o os ih =>
    intro acc
    simp only [yieldMemo]
    have : ((none : Option Nat) == some 0) = false := rfl
    simp only [this, Bool.false_eq_true, if_false, Option.map_none]
    by_cases hq : q o = true
    · simp [hq, ih, List.filter_cons]
    · simp [hq, ih, List.filter_cons]

theorem pullRest_none (q : V → Bool) : ∀ (rest : List V) (s : DomSt V) (acc : List V),
    (pullRest q rest none s acc).1 = acc.reverse ++ (fresh s.memo rest).filter q := by
  intro rest
  induction rest with
  | nil => intro s acc; simp [pullRest, fresh]
  | cons o os ih =>
    intro s acc
    simp only [pullRest]
    have : ((none : Option Nat) == some 0) = false := rfl
    simp only [this, Bool.false_eq_true, if_false, Option.map_none]
    by_cases hm : s.memo.contains o = true
    · have hm' : o ∈ s.memo := by simpa using hm
      simp only [hm, if_true]; rw [ih]; simp [fresh, hm']
    · have hm' : o ∉ s.memo := by simpa using hm
      simp only [hm, Bool.false_eq_true, if_false]
      by_cases hq : q o = true
      · simp only [hq, if_true]; rw [ih]; simp [fresh, hm', List.filter_cons, hq]
      · simp only [hq, Bool.false_eq_true, if_false]; rw [ih]; simp [fresh, hm', List.filter_cons, hq]

/-- A full evaluation returns the qualifying elements of what iterating the domain yields. -/
theorem take_full (q : V → Bool) (s : DomSt V) : (take q none s).1 = (contents s).filter q := by
  unfold take
  have : ((none : Option Nat) == some 0) = false := rfl
  simp only [this, Bool.false_eq_true, if_false, yieldMemo_none, pullRest_none, contents, List.append_nil,
    List.reverse_reverse, List.filter_append]

/-- **History independence of the domain.** After any history of partial and full evaluations a
    full evaluation returns exactly what it returns on a fresh domain: the distinct elements of
    the supplied collection that qualify, in order — also when an object is listed twice. -/
theorem c07_full_after_history (q : V → Bool) (dom : List V) (h : List (Option Nat)) :
    (take q none (runHistory q (init dom) h)).1 = (fresh [] dom).filter q := by
  rw [take_full, c07_contents_invariant]
  simp [contents, init]

theorem fresh_nodup_disjoint : ∀ (l seen : List V), l.Nodup → (∀ a ∈ l, a ∉ seen) → fresh seen l = l := by
  intro l
  induction l with
  | nil => intro _ _ _; rfl
  | cons a as ih =>
    intro seen hn hd
    have ha : seen.contains a = false := by
      have := hd a List.mem_cons_self
      simpa using this
    simp only [fresh, ha, Bool.false_eq_true, if_false]
    rw [ih (seen ++ [a]) (List.nodup_cons.1 hn).2]
    intro b hb
    simp only [List.mem_append, List.mem_singleton, not_or]
    refine ⟨hd b (List.mem_cons_of_mem _ hb), ?_⟩
    intro e; subst e; exact (List.nodup_cons.1 hn).1 hb

/-- Partial evaluation from a state whose memo is its log, over distinct objects. -/
theorem pullRest_prefix (q : V → Bool) : ∀ (rest : List V) (n : Nat) (s : DomSt V) (acc : List V),
    (∀ a ∈ rest, a ∉ s.memo) → rest.Nodup →
    (pullRest q rest (some n) s acc).2.log = s.log ++ prefixFor q n rest ∧
    (pullRest q rest (some n) s acc).1 = acc.reverse ++ (prefixFor q n rest).filter q := by
  intro rest
  induction rest with
  | nil => intro n s acc _ _; cases n <;> simp [pullRest, prefixFor]
  | cons o os ih =>
    intro n s acc hd hn
    cases n with
    | zero => simp [pullRest, prefixFor]
    | succ n =>
      have ho : s.memo.contains o = false := by simpa using hd o List.mem_cons_self
      have hz : ((some (n + 1) : Option Nat) == some 0) = false := by simp
      simp only [pullRest, hz, Bool.false_eq_true, if_false, ho, prefixFor]
      have hn' := (List.nodup_cons.1 hn)
      have hd' : ∀ a ∈ os, a ∉ s.memo ++ [o] := by
        intro a ha
        simp only [List.mem_append, List.mem_singleton, not_or]
        exact ⟨hd a (List.mem_cons_of_mem _ ha), fun e => hn'.1 (e ▸ ha)⟩
      by_cases hq : q o = true
      · simp only [hq, if_true, Option.map_some]
        have := ih n { s with log := s.log ++ [o], rest := os, memo := s.memo ++ [o] } (o :: acc) hd' hn'.2
        simp only [Nat.add_sub_cancel] at this ⊢
        rw [this.1, this.2]
        simp [List.filter_cons, hq]
      · simp only [hq, Bool.false_eq_true, if_false]
        have := ih (n + 1) { s with log := s.log ++ [o], rest := os, memo := s.memo ++ [o] } acc hd' hn'.2
        rw [this.1, this.2]
        simp [List.filter_cons, hq]

/-- **C07.** From a fresh one-shot domain of distinct objects, when the k-th result is delivered
    exactly the prefix ending at the k-th qualifying element has been pulled, and the delivered
    results are the qualifying elements of that prefix. -/
theorem c07_prefix (q : V → Bool) (dom : List V) (hn : dom.Nodup) (k : Nat) :
    (take q (some k) (init dom)).2.log = prefixFor q k dom ∧
    (take q (some k) (init dom)).1 = (prefixFor q k dom).filter q := by
  cases k with
  | zero => simp [take, init, prefixFor]
  | succ k =>
    have hz : ((some (k + 1) : Option Nat) == some 0) = false := by simp
    simp only [take, hz, Bool.false_eq_true, if_false, init, yieldMemo]
    have := pullRest_prefix q dom (k + 1) ({ rest := dom } : DomSt V) [] (by simp) hn
    simpa using this

/-- Non-vacuity: 5 elements, the 2nd result is the 4th element: exactly 4 pulls. -/
example : (take (fun n : Nat => n % 2 == 0) (some 2) (init [1, 2, 3, 4, 6])).2.log = [1, 2, 3, 4] := by decide

end Eql.Iter
