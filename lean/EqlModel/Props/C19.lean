/-
  C19 — values are not truth: falsy values are handled like any other value.

  All theorems of C01/C02/C03 quantify over an arbitrary `World`, with no hypothesis on
  `truthy`.  The mechanism is isolated here:
    c19_term_truthy_irrelevant   evaluating a value-position expression never consults `truthy`
    c19_rows_truthy_irrelevant   a query whose leaves are comparisons / membership tests returns
                                 the same rows whatever `truthy` says about any value
    c19_condition_position       only an expression standing in condition position is read as a
                                 boolean: its output flag is `truthy value == invert`
-/
import EqlModel.Props.C02

namespace Eql
variable {V : Type}
variable (D : VarId → List V)

/-- The same world with another notion of truthiness. -/
def World.withTruthy (W : World V) (t : V → Bool) : World V := { W with truthy := t }

theorem c19_term_truthy_irrelevant (W : World V) (t' : V → Bool) : ∀ (t : Term V) (β : Bnd V),
    evalTerm (W.withTruthy t') D t β = evalTerm W D t β := by
  intro t
  induction t with
  | var v => intro β; rfl
  | lit c => intro β; rfl
  | attr n t ih => intro β; simp only [evalTerm, ih]; rfl
  | index k t ih => intro β; simp only [evalTerm, ih]; rfl
  | call m args t ih => intro β; simp only [evalTerm, ih]; rfl
  | flatten id t ih => intro β; simp only [evalTerm, ih]; rfl
  | concat id t ih => intro β; simp only [evalTerm, ih]; rfl

theorem c19_args_truthy_irrelevant (W : World V) (t' : V → Bool) : ∀ (ts : List (Term V)) (β : Bnd V),
    evalArgs (W.withTruthy t') D ts β = evalArgs W D ts β := by
  intro ts
  induction ts with
  | nil => intro β; rfl
  | cons t ts ih => intro β; simp only [evalArgs, ih, c19_term_truthy_irrelevant]

/-- Every leaf is a comparison or membership test (values are only used as values). -/
def Cond.valueOnly : Cond V → Bool
  | .cmp _ _ _ => true
  | .truth _ _ => false
  | .pred _ _ _ => false
  | .and l r => l.valueOnly && r.valueOnly
  | .elseIf l r => l.valueOnly && r.valueOnly
  | .sub _ c => c.valueOnly

theorem c19_cond_truthy_irrelevant (W : World V) (t' : V → Bool) : ∀ (c : Cond V),
    c.valueOnly = true → ∀ (β : Bnd V) (ywf : Bool),
    evalCond (W.withTruthy t') D c β ywf = evalCond W D c β ywf := by
  intro c
  induction c with
  | cmp op l r =>
    intro _ β ywf
    simp only [evalCond, c19_term_truthy_irrelevant]
    rfl
  | truth inv t => intro h; simp [Cond.valueOnly] at h
  | pred inv n args => intro h; simp [Cond.valueOnly] at h
  | and l r ihl ihr =>
    intro h β ywf
    simp only [Cond.valueOnly, Bool.and_eq_true] at h
    simp only [evalCond, ihl h.1, ihr h.2]
  | elseIf l r ihl ihr =>
    intro h β ywf
    simp only [Cond.valueOnly, Bool.and_eq_true] at h
    simp only [evalCond, ihl h.1, ihr h.2]
  | sub sel c ih =>
    intro h β ywf
    simp only [Cond.valueOnly] at h
    simp only [evalCond, ih h, c19_args_truthy_irrelevant]

/-- **C19.** The rows of a query whose values are only used as values do not depend on whether
    those values are truthy: 0, '', None, False and empty containers compare, are selected and
    are passed on exactly like other values. -/
theorem c19_rows_truthy_irrelevant (W : World V) (t' : V → Bool) (sel : List (Term V)) (c : Cond V)
    (h : c.valueOnly = true) :
    rows (W.withTruthy t') D ⟨sel, some c⟩ = rows W D ⟨sel, some c⟩ := by
  simp only [rows, c19_cond_truthy_irrelevant D W t' c h, c19_args_truthy_irrelevant]

theorem c19_rows_truthy_irrelevant_nocond (W : World V) (t' : V → Bool) (sel : List (Term V)) :
    rows (W.withTruthy t') D ⟨sel, none⟩ = rows W D ⟨sel, none⟩ := by
  simp only [rows, c19_args_truthy_irrelevant]

/-- Only in condition position is a value interpreted as a boolean. -/
theorem c19_condition_position (W : World V) (inv : Bool) (t : Term V) (β : Bnd V) :
    evalCond W D (.truth inv t) β true =
      (evalTerm W D t β).map fun p => (p.1, W.truthy p.2 == inv) := by
  simp only [evalCond, Bool.or_true, if_true]
  induction evalTerm W D t β with
  | nil => rfl
  | cons p ps ih => simp [ih]

end Eql
