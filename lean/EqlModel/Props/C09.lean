/-
  C09 — evaluation gives the same answer inside and outside a symbolic block.

  The only place evaluation reads the mode is the patched constructor / predicate wrapper
  (`hybrid_new`, `predicate.wrapper`): in symbolic mode a predicate call BUILDS an expression
  (an object, truthy) instead of running.  `World.atMode` is the world user code sees under a
  given mode.  Both entry points switch the mode off while they compute (`An.evaluate`: per
  resumption, `Mode.duringAdvance`; `The.evaluate`: `duringThe`, after fix c043580), so:
    c09_atMode_none          with the mode off, predicates run concretely
    c09_an_ambient_irrelevant / c09_the_ambient_irrelevant
                             the result under any ambient mode is the result outside any block,
                             which is the L1 semantics all other theorems speak about
    c09_symbolic_predicates_would_differ   (why it matters) under a symbolic mode every predicate
                             is "true": the witness that evaluating in the ambient mode is wrong
-/
import EqlModel.Eval
import EqlModel.Mode
import EqlModel.Gen.Tables

namespace Eql
variable {V : Type}

open Mode in
/-- The world as user code sees it under a mode: in symbolic mode a predicate call returns a
    symbolic expression `sym` instead of the predicate's result. -/
def World.atMode (W : World V) (sym : V) (mode : Option EMode) : World V :=
  { W with fn := fun n args => if mode.isSome then sym else W.fn n args }

/-- `The.evaluate`: `with symbolic_mode(mode=None): result = self._evaluate_()`. -/
def Mode.duringThe (_ambient : Option Mode.EMode) : Option Mode.EMode := none

variable (W : World V) (D : VarId → List V) (sym : V)

theorem c09_atMode_none : W.atMode sym none = W := by
  cases W; simp [World.atMode]

/-- `an(...).evaluate()` under an ambient mode. -/
def evaluateAn (ambient : Option Mode.EMode) (q : Query V) : List (List V) :=
  rows (W.atMode sym (Mode.duringAdvance ambient)) D q

/-- `the(...).evaluate()` under an ambient mode. -/
def evaluateThe (ambient : Option Mode.EMode) (q : Query V) : TheOutcome V :=
  runThe (W.atMode sym (Mode.duringThe ambient)) D q

theorem c09_an_ambient_irrelevant (ambient : Option Mode.EMode) (q : Query V) :
    evaluateAn W D sym ambient q = rows W D q := by
  simp [evaluateAn, Mode.duringAdvance, c09_atMode_none]

theorem c09_the_ambient_irrelevant (ambient : Option Mode.EMode) (q : Query V) :
    evaluateThe W D sym ambient q = runThe W D q := by
  simp [evaluateThe, Mode.duringThe, c09_atMode_none]

/-- Why the mode must be switched off: evaluated under a symbolic mode, a predicate that is false
    of its argument still "holds" (the symbolic expression is an object, hence truthy). -/
theorem c09_symbolic_predicates_would_differ (hsym : W.truthy sym = true) (m : Mode.EMode)
    (n : String) (args : List (Term V)) (β : Bnd V) (p : Bnd V × Bool)
    (hp : p ∈ evalCond (W.atMode sym (some m)) D (.pred false n args) β false) : p.2 = false := by
  simp only [evalCond, List.mem_flatMap] at hp
  obtain ⟨q, _, hq⟩ := hp
  simp only [World.atMode, Option.isSome_some, if_true, hsym] at hq
  simp at hq
  rw [hq]

/-! ### Open expression contexts (repair R33)

Besides the mode, user code sees the stack of entered expression contexts (`with symbolic_mode(q):`,
`with rule_mode(q):`, `with q:`): a predicate body that BUILDS a query of its own while an outer context is visible
has its predicates attached to that outer query (`broken`).  `symbolic_mode(mode=None)`, the guard of both entry
points, hides the stack as well as the mode. -/

/-- What user code runs under: the mode and the number of visible expression contexts. -/
structure Env where
  mode : Option Mode.EMode
  contexts : Nat

/-- `with symbolic_mode(mode=None)`: mode off, context stack swapped for an empty one. -/
def Env.duringEvaluation (_ambient : Env) : Env := ⟨none, 0⟩

/-- The world as user code sees it under an environment. -/
def World.atEnv (W : World V) (sym broken : V) (e : Env) : World V :=
  { W with fn := fun n args => if e.mode.isSome then sym else if e.contexts > 0 then broken else W.fn n args }

theorem c09_atEnv_during (broken : V) (e : Env) : W.atEnv sym broken e.duringEvaluation = W := by
  cases W; simp [World.atEnv, Env.duringEvaluation]

/-- `an(...).evaluate()` and `the(...).evaluate()` called under ANY ambient mode with ANY number of expression contexts
    open around the call give what they give outside every block. -/
theorem c09_an_env_irrelevant (broken : V) (e : Env) (q : Query V) :
    rows (W.atEnv sym broken e.duringEvaluation) D q = rows W D q := by
  rw [c09_atEnv_during]

theorem c09_the_env_irrelevant (broken : V) (e : Env) (q : Query V) :
    runThe (W.atEnv sym broken e.duringEvaluation) D q = runThe W D q := by
  rw [c09_atEnv_during]

/-- Why the contexts must be hidden: with the mode off but a context visible, user predicates do not see the world. -/
example (broken : V) (n : String) (args : List V) :
    (W.atEnv sym broken ⟨none, 1⟩).fn n args = broken := by
  simp [World.atEnv]

/-! ### Tie to the source (regenerated on every run, `Gen/Tables.lean`) -/

/-- The transliterated entry points: `An.evaluate` advances, and `The.evaluate` computes, inside
    `with symbolic_mode(mode=None)`, which also hides the open expression contexts. -/
theorem c09_entry_points_tied :
    (Gen.anAdvancesWithModeOff && Gen.theComputesWithModeOff && Gen.evaluationHidesContexts) = true := by decide

end Eql
