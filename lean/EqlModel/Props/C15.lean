/-
  C15 — a sub-query used inside a query means the same as its conditions inlined.

    c15_sub_denote    an(entity(v, c)) in condition position denotes c
    c15_sub_forwards  its evaluation is the evaluation of c followed by binding the selected
                      variable (sources and `yield_when_false` forwarded) — the mechanism
    c15_inline_rows   at any depth under & and | (and not_ of the enclosing conditions), the
                      composed query and the query with every sub-query replaced by its
                      conditions return the same rows
  Sub-queries as comparison operands / constructor arguments: correspondence only (C13, C11), except
    c15_operand_pairs_survive      the outputs of a correlated sub-query operand, de-duplicated on (value of the
                                   other operand, solution), keep every pair that satisfies the comparison (R36;
                                   the `example` after it: de-duplicated on the solution alone a row is lost)
    c15_operand_requirement_tied   the source writes that requirement (regenerated flag)
-/
import EqlModel.Props.C03
import EqlModel.Gen.Tables

namespace Eql
variable {V : Type}
variable (W : World V) (D : VarId → List V)

theorem c15_sub_denote (α : Asg V) (sel : List (Term V)) (c : Cond V) :
    denote W α (.sub sel c) = denote W α c := rfl

theorem c15_sub_forwards (sel : List (Term V)) (c : Cond V) (β : Bnd V) (ywf : Bool) :
    evalCond W D (.sub sel c) β ywf =
      (evalCond W D c β ywf).flatMap fun p => (evalArgs W D sel p.1).map fun q => (q.1, p.2) := by
  simp [evalCond]

/-- Replace every sub-query by its conditions. -/
def inline : SCond V → SCond V
  | .and2 l r => .and2 (inline l) (inline r)
  | .or2 l r => .or2 (inline l) (inline r)
  | .not c => .not (inline c)
  | .sub _ c => inline c
  | c => c

theorem inline_sdenote (α : Asg V) : ∀ (c : SCond V), sdenote W α (inline c) = sdenote W α c := by
  intro c
  induction c with
  | and2 l r ihl ihr => simp [inline, sdenote, ihl, ihr]
  | or2 l r ihl ihr => simp [inline, sdenote, ihl, ihr]
  | not c ih => simp [inline, sdenote, ih]
  | sub sel c ih => simp [inline, sdenote, ih]
  | _ => rfl

theorem inline_noFlat : ∀ (c : SCond V), c.noFlat = true → (inline c).noFlat = true := by
  intro c
  induction c with
  | and2 l r ihl ihr =>
    intro h; simp only [SCond.noFlat, Bool.and_eq_true] at h
    simp [inline, SCond.noFlat, ihl h.1, ihr h.2]
  | or2 l r ihl ihr =>
    intro h; simp only [SCond.noFlat, Bool.and_eq_true] at h
    simp [inline, SCond.noFlat, ihl h.1, ihr h.2]
  | not c ih => intro h; simpa [inline, SCond.noFlat] using ih (by simpa [SCond.noFlat] using h)
  | sub sel c ih =>
    intro h; simp only [SCond.noFlat, Bool.and_eq_true] at h
    simpa [inline] using ih h.1
  | _ => intro h; exact h

theorem inline_vars_sub : ∀ (c : SCond V) (v : VarId), v ∈ (inline c).vars → v ∈ c.vars := by
  intro c
  induction c with
  | and2 l r ihl ihr =>
    intro v h
    simp only [inline, SCond.vars, List.mem_append] at h ⊢
    exact h.imp (ihl v) (ihr v)
  | or2 l r ihl ihr =>
    intro v h
    simp only [inline, SCond.vars, List.mem_append] at h ⊢
    exact h.imp (ihl v) (ihr v)
  | not c ih => intro v h; exact ih v h
  | sub sel c ih =>
    intro v h
    simp only [SCond.vars, List.mem_append]
    exact Or.inl (ih v h)
  | _ => intro v h; exact h

/-- **C15.** The composed query and its flattened form return the same rows.  Side condition: a
    variable selected by a sub-query is also mentioned by conditions or selected by the enclosing
    query (otherwise it ranges freely in the composed form and does not exist in the flat one). -/
theorem c15_inline_rows [Inhabited V] (hW : W.Lawful) (sel : List (Term V)) (sc : SCond V)
    (hfs : Terms.noFlat sel = true) (hfc : sc.noFlat = true)
    (hne : ∀ v ∈ sc.vars, v ∉ Terms.vars sel → D v ≠ [])
    (hsub : ∀ v ∈ sc.vars, v ∈ (inline sc).vars ∨ v ∈ Terms.vars sel) (r : List V) :
    r ∈ rows W D ⟨sel, some (build sc)⟩ ↔ r ∈ rows W D ⟨sel, some (build (inline sc))⟩ := by
  rw [c03_rows_iff W D hW sel sc hfs hfc hne r,
    c03_rows_iff W D hW sel (inline sc) hfs (inline_noFlat sc hfc)
      (fun v hv hns => hne v (inline_vars_sub sc v hv) hns) r]
  constructor
  · rintro ⟨α, ha, hh, he⟩
    refine ⟨α, ?_, by rw [inline_sdenote]; exact hh, he⟩
    intro v hv
    rcases List.mem_append.1 hv with h | h
    · exact ha v (List.mem_append.2 (Or.inl (inline_vars_sub sc v h)))
    · exact ha v (List.mem_append.2 (Or.inr h))
  · rintro ⟨α, ha, hh, he⟩
    refine ⟨α, ?_, by rw [← inline_sdenote]; exact hh, he⟩
    intro v hv
    rcases List.mem_append.1 hv with h | h
    · rcases hsub v h with h' | h'
      · exact ha v (List.mem_append.2 (Or.inl h'))
      · exact ha v (List.mem_append.2 (Or.inr h'))
    · exact ha v (List.mem_append.2 (Or.inr h))

end Eql

namespace Eql.OperandDedup

/-- Duplicate suppression of an operand's outputs: the first output of every key is kept (`_is_duplicate_output_`: the key is
    the projection of the output on the variables required above the operand). -/
def dedupBy {α κ : Type} [DecidableEq κ] (key : α → κ) : List α → List κ → List α
  | [], _ => []
  | x :: xs, seen => if key x ∈ seen then dedupBy key xs seen else x :: dedupBy key xs (key x :: seen)

theorem dedupBy_sub {α κ : Type} [DecidableEq κ] (key : α → κ) (xs : List α) (seen : List κ) :
    ∀ x, x ∈ dedupBy key xs seen → x ∈ xs := by
  induction xs generalizing seen with
  | nil => intro x h; simp [dedupBy] at h
  | cons y ys ih =>
    intro x h
    unfold dedupBy at h
    split at h
    · exact List.mem_cons_of_mem _ (ih _ _ h)
    · rcases List.mem_cons.mp h with h | h
      · exact h ▸ List.mem_cons_self
      · exact List.mem_cons_of_mem _ (ih _ _ h)

/-- When the key tells any two different outputs apart, nothing but repetitions of the very same output is suppressed. -/
theorem mem_dedupBy_of_injective {α κ : Type} [DecidableEq κ] (key : α → κ)
    (inj : ∀ a b, key a = key b → a = b) (xs : List α) (seen : List κ) :
    ∀ x, x ∈ xs → key x ∉ seen → x ∈ dedupBy key xs seen := by
  induction xs generalizing seen with
  | nil => intro x h; cases h
  | cons y ys ih =>
    intro x hx hs
    unfold dedupBy
    rcases List.mem_cons.mp hx with hxy | hxy
    · subst hxy
      simp [hs]
    · by_cases hy : key y ∈ seen
      · simp only [hy, if_true]; exact ih seen x hxy hs
      · simp only [hy, if_false]
        by_cases hk : key x = key y
        · have := inj _ _ hk; subst this; exact List.mem_cons_self
        · refine List.mem_cons_of_mem _ (ih _ x hxy ?_)
          intro hm
          rcases List.mem_cons.mp hm with h | h
          · exact hk h
          · exact hs h

/-- R36 as a statement about the comparison `l op sub(l)`: the outputs of the right operand are pairs (value of the left
    operand, solution of the correlated sub-query). De-duplicated on BOTH components (what the right operand of a `Comparator`
    requires since the repair), the pairs that satisfy the comparison are exactly those of the undeduplicated stream. -/
theorem c15_operand_pairs_survive {L R : Type} [DecidableEq L] [DecidableEq R] (outs : List (L × R)) (cmp : L × R → Bool) :
    ∀ p, p ∈ (dedupBy (fun q : L × R => q) outs []).filter cmp ↔ p ∈ outs.filter cmp := by
  intro p
  simp only [List.mem_filter]
  constructor
  · rintro ⟨h, hc⟩; exact ⟨dedupBy_sub _ _ _ _ h, hc⟩
  · rintro ⟨h, hc⟩
    exact ⟨mem_dedupBy_of_injective _ (fun _ _ h => h) outs [] p h (by simp), hc⟩

/-- Before the repair the key was the solution alone: the solution `1`, rejected under the left value `0`, is suppressed
    under the left value `1`, where the comparison holds - the row is lost. -/
example : (dedupBy (fun q : Nat × Nat => q.2) [(0, 1), (1, 1)] []).filter (fun q => q.1 == q.2) = []
    ∧ [(0, 1), (1, 1)].filter (fun q : Nat × Nat => q.1 == q.2) = [(1, 1)] := by decide

/-- Tie to the source (regenerated): the right operand of a `Comparator` requires the variables of the left one. -/
theorem c15_operand_requirement_tied : Gen.comparatorRightRequiresLeft = true := by decide

end Eql.OperandDedup
