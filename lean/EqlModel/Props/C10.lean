/-
  C10 — `for_all` yields exactly the bindings whose condition holds for every value.

  Model: `EqlModel/ForAll.lean` (transliteration of `ForAll._evaluate__` after fix 877c1d1).
    c10_forall_uniform_partial   for a non-empty universal domain and a condition in which every
        disjunction mentions the same variables on both sides (then every TRUE output of the
        condition binds all of its variables), `an(set_of(sel, for_all(u, c)))` returns exactly the
        projections of the assignments `f` of the other variables with `c(f, u ↦ o)` true for
        EVERY `o` of the universal domain — whatever else the form of `c` (conjunctions,
        negations, comparisons between free and universal variables, conditions mentioning only
        free variables).
    c10_nonuniform_witness       the unrestricted statement is false of the code (known finding
        C10-F1): `for_all(u, or_(x.a == u.a, y.a > 2))`.
    c10_and_chain_partial        "combined with other conditions by and_": for a chain of conjuncts
        `and_(s₁, s₂, …)` - ordinary conditions and for_alls (uniform disjunctions, non-empty
        domains), in ANY order, several for_alls over one universal variable included - the rows
        are exactly the projections of the assignments that satisfy every ordinary conjunct and
        every for_all's condition for EVERY value of its universal variable (induction over the
        chain with a soundness/completeness invariant: stages_inv, stage_sound, stage_complete).
    rowsForAll_eq_stages(_none)  the single-for_all entry point is the one/two-conjunct chain.
        Nested for_alls `for_all(u₀, for_all(u₁, … c))` are conjuncts of the chain too: the condition
        must hold for EVERY combination of universal values (`SemN`; `nested_sound` /
        `nested_complete` by induction over the nesting, with the exact lookup table `LK` of every
        output of every level as invariant).
  Model only (correspondence, no theorem): a conjunct that mentions a universal variable free,
  caching (see C05-F3).
-/
import EqlModel.ForAll
import EqlModel.Lemmas.Support
import EqlModel.Props.C02
import EqlModel.NatWorld

namespace Eql
variable {V : Type}

/-- Every disjunction mentions the same variables on both sides. -/
def Cond.uniformOr : Cond V → Prop
  | .cmp _ _ _ => True
  | .truth _ _ => True
  | .pred _ _ _ => True
  | .and l r => Cond.uniformOr l ∧ Cond.uniformOr r
  | .elseIf l r => (∀ v, v ∈ l.vars ↔ v ∈ r.vars) ∧ Cond.uniformOr l ∧ Cond.uniformOr r
  | .sub _ c => Cond.uniformOr c

variable (W : World V) (D : VarId → List V)

/-- A true output of a uniform condition binds every variable of the condition. -/
theorem true_output_total : ∀ (c : Cond V), c.noFlat = true → Cond.uniformOr c →
    ∀ (β β' : Bnd V) (ywf : Bool), (β', false) ∈ evalCond W D c β ywf →
    ∀ v ∈ c.vars, bound β' v = true := by
  intro c
  induction c with
  | cmp op l r =>
    intro hf _ β β' ywf h v hv
    simp only [Cond.noFlat, Bool.and_eq_true] at hf
    simp only [evalCond] at h
    simp only [Cond.vars, List.mem_append] at hv
    split at h
    · simp only [List.mem_flatMap] at h
      obtain ⟨p1, hp1, p2, hp2, h3⟩ := h
      split at h3 <;> simp at h3
      obtain ⟨h31, _⟩ := h3; subst h31
      have a1 := term_supp W D r hf.2 β p1.1 p1.2 hp1
      have a2 := term_supp W D l hf.1 p1.1 p2.1 p2.2 hp2
      rcases hv with hv | hv
      · exact (a2 v).2 (Or.inr hv)
      · exact (a2 v).2 (Or.inl ((a1 v).2 (Or.inr hv)))
    · simp only [List.mem_flatMap] at h
      obtain ⟨p1, hp1, p2, hp2, h3⟩ := h
      split at h3 <;> simp at h3
      obtain ⟨h31, _⟩ := h3; subst h31
      have a1 := term_supp W D l hf.1 β p1.1 p1.2 hp1
      have a2 := term_supp W D r hf.2 p1.1 p2.1 p2.2 hp2
      rcases hv with hv | hv
      · exact (a2 v).2 (Or.inl ((a1 v).2 (Or.inr hv)))
      · exact (a2 v).2 (Or.inr hv)
  | truth inv t =>
    intro hf _ β β' ywf h v hv
    simp only [Cond.noFlat] at hf
    simp only [evalCond, List.mem_flatMap] at h
    obtain ⟨p, hp, h3⟩ := h
    split at h3 <;> simp at h3
    obtain ⟨h31, _⟩ := h3; subst h31
    exact (term_supp W D t hf β p.1 p.2 hp v).2 (Or.inr (by simpa [Cond.vars] using hv))
  | pred inv n args =>
    intro hf _ β β' ywf h v hv
    simp only [Cond.noFlat] at hf
    simp only [evalCond, List.mem_flatMap] at h
    obtain ⟨p, hp, h3⟩ := h
    split at h3 <;> simp at h3
    obtain ⟨h31, _⟩ := h3; subst h31
    exact (args_supp W D args hf β p.1 p.2 hp v).2 (Or.inr (by simpa [Cond.vars] using hv))
  | and l r ihl ihr =>
    intro hf hu β β' ywf h v hv
    simp only [Cond.noFlat, Bool.and_eq_true] at hf
    simp only [evalCond, List.mem_flatMap] at h
    obtain ⟨p, hp, h3⟩ := h
    simp only [Cond.vars, List.mem_append] at hv
    split at h3
    · simp at h3
    · rename_i hc
      have hp2 : p.2 = false := by
        cases hy : ywf
        · exact ((cond_sound_complete W D l hf.1).1 β p.1 p.2 ywf hp).1 hy
        · simp [hy] at hc; exact hc
      have hl := ihl hf.1 hu.1 β p.1 ywf (by rw [← hp2]; exact hp)
      have hr := ihr hf.2 hu.2 p.1 β' ywf h3
      rcases hv with hv | hv
      · exact (cond_supp W D r hf.2 p.1 β' false ywf h3).2 v (hl v hv)
      · exact hr v hv
  | elseIf l r ihl ihr =>
    intro hf hu β β' ywf h v hv
    simp only [Cond.noFlat, Bool.and_eq_true] at hf
    simp only [evalCond] at h
    have hv' : v ∈ r.vars := by
      simp only [Cond.vars, List.mem_append] at hv
      rcases hv with hv | hv
      · exact (hu.1 v).1 hv
      · exact hv
    split at h
    · exact ihr hf.2 hu.2.2 β β' ywf h v hv'
    · simp only [List.mem_flatMap] at h
      obtain ⟨p, hp, h3⟩ := h
      split at h3
      · exact ihr hf.2 hu.2.2 p.1 β' ywf h3 v hv'
      · rename_i hc
        have h31 : β' = p.1 := by simpa using h3
        subst h31
        have hp2 : p.2 = false := by simpa using hc
        exact ihl hf.1 hu.2.1 β p.1 true (by rw [← hp2]; exact hp) v ((hu.1 v).2 hv')
  | sub sel c ih =>
    intro hf hu β β' ywf h v hv
    simp only [Cond.noFlat, Bool.and_eq_true] at hf
    simp only [evalCond, List.mem_flatMap, List.mem_map] at h
    obtain ⟨p, hp, q, hq, he⟩ := h
    have h1 : q.1 = β' := by injection he
    have h2 : p.2 = false := by injection he
    subst h1
    simp only [Cond.vars, List.mem_append] at hv
    have a2 := args_supp W D sel hf.2 p.1 q.1 q.2 hq
    rcases hv with hv | hv
    · exact (a2 v).2 (Or.inl (ih hf.1 hu β p.1 ywf (by rw [← h2]; exact hp) v hv))
    · exact (a2 v).2 (Or.inr hv)

/-- The truth of a condition depends only on the values of its variables. -/
theorem denote_congr : ∀ (c : Cond V), c.noFlat = true → ∀ (α α' : Asg V),
    (∀ v ∈ c.vars, α v = α' v) → denote W α c = denote W α' c := by
  have termsVal_congr : ∀ (ts : List (Term V)), Terms.noFlat ts = true → ∀ (α α' : Asg V),
      (∀ v ∈ Terms.vars ts, α v = α' v) → termsVal W α ts = termsVal W α' ts := by
    intro ts
    induction ts with
    | nil => intro _ _ _ _; rfl
    | cons t ts ih =>
      intro hf α α' h
      simp only [Terms.noFlat, Bool.and_eq_true] at hf
      simp only [termsVal]
      rw [termVal_congr W t hf.1 α α' (fun v hv => h v (by simp [Terms.vars, hv])),
        ih hf.2 α α' (fun v hv => h v (by simp [Terms.vars, hv]))]
  intro c
  induction c with
  | cmp op l r =>
    intro hf α α' h
    simp only [Cond.noFlat, Bool.and_eq_true] at hf
    simp only [denote]
    rw [termVal_congr W l hf.1 α α' (fun v hv => h v (by simp [Cond.vars, hv])),
      termVal_congr W r hf.2 α α' (fun v hv => h v (by simp [Cond.vars, hv]))]
  | truth inv t =>
    intro hf α α' h
    simp only [Cond.noFlat] at hf
    simp only [denote]
    rw [termVal_congr W t hf α α' (fun v hv => h v (by simp [Cond.vars, hv]))]
  | pred inv n args =>
    intro hf α α' h
    simp only [Cond.noFlat] at hf
    simp only [denote]
    rw [termsVal_congr args hf α α' (fun v hv => h v (by simp [Cond.vars, hv]))]
  | and l r ihl ihr =>
    intro hf α α' h
    simp only [Cond.noFlat, Bool.and_eq_true] at hf
    simp only [denote]
    rw [ihl hf.1 α α' (fun v hv => h v (by simp [Cond.vars, hv])),
      ihr hf.2 α α' (fun v hv => h v (by simp [Cond.vars, hv]))]
  | elseIf l r ihl ihr =>
    intro hf α α' h
    simp only [Cond.noFlat, Bool.and_eq_true] at hf
    simp only [denote]
    rw [ihl hf.1 α α' (fun v hv => h v (by simp [Cond.vars, hv])),
      ihr hf.2 α α' (fun v hv => h v (by simp [Cond.vars, hv]))]
  | sub sel c ih =>
    intro hf α α' h
    simp only [Cond.noFlat, Bool.and_eq_true] at hf
    simp only [denote]
    exact ih hf.1 α α' (fun v hv => h v (by simp [Cond.vars, hv]))

theorem foldl_filter_mem {γ δ : Type} (P : δ → γ → Bool) : ∀ (ps : List δ) (init : List γ) (d : γ),
    d ∈ ps.foldl (fun acc p => acc.filter (P p)) init ↔ (d ∈ init ∧ ∀ p ∈ ps, P p d = true) := by
  intro ps
  induction ps with
  | nil => intro init d; simp
  | cons p ps ih =>
    intro init d
    simp only [List.foldl_cons, ih, List.mem_filter, List.mem_cons, forall_eq_or_imp]
    constructor
    · rintro ⟨⟨h1, h2⟩, h3⟩; exact ⟨h1, h2, h3⟩
    · rintro ⟨h1, h2, h3⟩; exact ⟨⟨h1, h2⟩, h3⟩

/-- The canonical restriction of a total assignment. -/
def canonOf (ids : List VarId) (α : Asg V) : List (VarId × Option V) := ids.map fun k => (k, some (α k))

theorem mergeBack_canon (ids : List VarId) (α : Asg V) :
    mergeBack (canonOf ids α) ([] : Bnd V) = ids.map fun k => (k, α k) := by
  induction ids with
  | nil => rfl
  | cons k ks ih =>
    simp only [mergeBack, canonOf, List.map_cons, List.filterMap_cons, Option.map, List.append_nil] at ih ⊢
    rw [ih]

theorem lookup_map_ids (ids : List VarId) (α : Asg V) (k : VarId) :
    List.lookup k (ids.map fun k => (k, α k)) = if k ∈ ids then some (α k) else none := by
  induction ids with
  | nil => simp [List.lookup]
  | cons j js ih =>
    by_cases e : k = j
    · subst e; simp [List.lookup]
    · have : (k == j) = false := by simp [e]
      simp [List.lookup, this, ih, e]

theorem ext_map_ids (ids : List VarId) (α : Asg V) : Ext (ids.map fun k => (k, α k)) α := by
  intro v a h
  rw [lookup_map_ids] at h
  split at h
  · injection h
  · cases h

theorem mem_freeIds (c : Cond V) (u v : VarId) : v ∈ freeIds c u ↔ (v ∈ c.vars ∧ v ≠ u) := by
  simp [freeIds, List.mem_eraseDups]

/-- Updating the universal variable. -/
def upd (α : Asg V) (u : VarId) (o : V) : Asg V := fun v => if v = u then o else α v

variable [BEq V] [LawfulBEq V]

/-- Under one universal value, the restricted true outputs are exactly the canonical restrictions
    of the admissible assignments that satisfy the condition. -/
theorem sols_mem [Inhabited V] (u : VarId) (o : V) (ho : o ∈ D u) (c : Cond V) (hf : c.noFlat = true)
    (hu : Cond.uniformOr c) (d : List (VarId × Option V)) :
    d ∈ solsUnder W D c (freeIds c u) [(u, o)] ↔
      ∃ α, α u = o ∧ (∀ v ∈ c.vars, α v ∈ D v) ∧ denote W α c = true ∧ d = canonOf (freeIds c u) α := by
  have hsc := cond_sound_complete W D c hf
  have hbok : BOk D [(u, o)] := bok_cons (bok_nil D) ho
  simp only [solsUnder, List.mem_map, List.mem_filter]
  constructor
  · rintro ⟨q, ⟨hq, hq2⟩, rfl⟩
    have hq2' : q.2 = false := by simpa using hq2
    have hq' : (q.1, false) ∈ evalCond W D c [(u, o)] false := by
      have e : (q.1, false) = q := by rw [← hq2']
      rw [e]; exact hq
    have htot := true_output_total W D c hf hu [(u, o)] q.1 false hq'
    have hb := cond_bok W D c hf [(u, o)] q.1 false false hbok hq'
    refine ⟨asgOfBnd q.1, ?_, ?_, ?_, ?_⟩
    · have := (hsc.1 [(u, o)] q.1 false false hq').2 (asgOfBnd q.1) ?_ (ext_asgOfBnd q.1)
      · exact this.1 u o (lookup_cons_self [] u o)
      · intro v hv
        obtain ⟨a, ha⟩ := bound_iff.1 (htot v hv)
        simp only [asgOfBnd, ha, Option.getD_some]
        exact hb v a ha
    · intro v hv
      obtain ⟨a, ha⟩ := bound_iff.1 (htot v hv)
      simp only [asgOfBnd, ha, Option.getD_some]
      exact hb v a ha
    · have := (hsc.1 [(u, o)] q.1 false false hq').2 (asgOfBnd q.1) ?_ (ext_asgOfBnd q.1)
      · simpa using this.2
      · intro v hv
        obtain ⟨a, ha⟩ := bound_iff.1 (htot v hv)
        simp only [asgOfBnd, ha, Option.getD_some]
        exact hb v a ha
    · simp only [restrictTo, canonOf]
      apply List.map_congr_left
      intro k hk
      obtain ⟨a, ha⟩ := bound_iff.1 (htot k ((mem_freeIds c u k).1 hk).1)
      simp [asgOfBnd, ha]
  · rintro ⟨α, hαu, hv, hden, rfl⟩
    have hext : Ext [(u, o)] α := by
      intro v a h
      by_cases e : v = u
      · subst e; rw [lookup_cons_self] at h; injection h with h; rw [← h, hαu]
      · rw [lookup_cons_ne [] o e] at h; simp [List.lookup] at h
    obtain ⟨q, hq, he⟩ := hsc.2 [(u, o)] α false hext hv (Or.inr hden)
    have hs := (hsc.1 [(u, o)] q.1 q.2 false hq)
    have hq2 : q.2 = false := hs.1 rfl
    have hq' : (q.1, false) ∈ evalCond W D c [(u, o)] false := by
      have e : (q.1, false) = q := by rw [← hq2]
      rw [e]; exact hq
    have htot := true_output_total W D c hf hu [(u, o)] q.1 false hq'
    refine ⟨q, ⟨hq, by simp [hq2]⟩, ?_⟩
    simp only [restrictTo, canonOf]
    apply List.map_congr_left
    intro k hk
    obtain ⟨a, ha⟩ := bound_iff.1 (htot k ((mem_freeIds c u k).1 hk).1)
    rw [ha, he k a ha]

theorem bok_map_ids (ids : List VarId) (α : Asg V) (h : ∀ k ∈ ids, α k ∈ D k) :
    BOk D (ids.map fun k => (k, α k)) := by
  intro v a hv
  rw [lookup_map_ids] at hv
  split at hv
  · rename_i hm; injection hv with hv; rw [← hv]; exact h v hm
  · cases hv

theorem canonOf_inj (ids : List VarId) (α α' : Asg V) (h : canonOf ids α = canonOf ids α') :
    ∀ k ∈ ids, α k = α' k := by
  intro k hk
  have := List.map_inj_left.1 h k hk
  simpa using this

/-- **C10.** For a non-empty universal domain and a condition whose disjunctions are uniform,
    `for_all(u, c)` yields exactly the bindings of the other variables for which `c` is true for
    every value of `u` (projected on the selected expressions). -/
theorem c10_forall_uniform_partial [Inhabited V] (sel : List (Term V)) (u : VarId) (c : Cond V)
    (hf : c.noFlat = true) (hfs : Terms.noFlat sel = true) (hu : Cond.uniformOr c)
    (hD : D u ≠ []) (r : List V) :
    r ∈ rowsForAll W D sel none u c ↔
      ∃ α, (∀ v ∈ freeIds c u ++ Terms.vars sel, α v ∈ D v) ∧
           (∀ o ∈ D u, denote W (upd α u o) c = true) ∧ r = termsVal W α sel := by
  -- the universal values
  have huv : evalTerm W D (.var u) [] = (D u).map fun o => ([(u, o)], o) := by
    simp [evalTerm, List.lookup]
  -- membership in the final solution set = membership under every universal value
  have hfinal : ∀ d, d ∈ evalForAll W D u c [] ↔
      ∃ d0, (∀ o ∈ D u, d0 ∈ solsUnder W D c (freeIds c u) [(u, o)]) ∧ d = mergeBack d0 [] := by
    intro d
    simp only [evalForAll, huv]
    cases hDu : D u with
    | nil => exact absurd hDu hD
    | cons o1 os =>
      simp only [List.map_cons, List.mem_map]
      constructor
      · rintro ⟨d0, hd0, rfl⟩
        rw [foldl_filter_mem (fun (p' : Bnd V × V) d => (solsUnder W D c (freeIds c u) p'.1).contains d)] at hd0
        refine ⟨d0, ?_, rfl⟩
        intro o ho
        rcases List.mem_cons.1 ho with rfl | ho
        · exact hd0.1
        · have := hd0.2 ([(u, o)], o) (List.mem_map.2 ⟨o, ho, rfl⟩)
          simpa using this
      · rintro ⟨d0, hd0, rfl⟩
        refine ⟨d0, ?_, rfl⟩
        rw [foldl_filter_mem (fun (p' : Bnd V × V) d => (solsUnder W D c (freeIds c u) p'.1).contains d)]
        refine ⟨hd0 o1 List.mem_cons_self, ?_⟩
        intro p' hp'
        obtain ⟨o, ho, rfl⟩ := List.mem_map.1 hp'
        simpa using hd0 o (List.mem_cons_of_mem _ ho)
  simp only [rowsForAll, List.flatMap_cons, List.flatMap_nil, List.append_nil, List.mem_flatMap, List.mem_map]
  constructor
  · rintro ⟨β, hβ, q, hq, rfl⟩
    obtain ⟨d0, hd0, rfl⟩ := (hfinal β).1 hβ
    -- the witness of the first universal value fixes the canonical restriction
    obtain ⟨o1, ho1⟩ : ∃ o1, o1 ∈ D u := by
      cases hDu : D u with
      | nil => exact absurd hDu hD
      | cons o1 os => exact ⟨o1, List.mem_cons_self⟩
    obtain ⟨α1, _, hv1, _, rfl⟩ := (sols_mem W D u o1 ho1 c hf hu d0).1 (hd0 o1 ho1)
    rw [mergeBack_canon] at hq
    have hids : ∀ k ∈ freeIds c u, α1 k ∈ D k := fun k hk => hv1 k ((mem_freeIds c u k).1 hk).1
    have hb0 := bok_map_ids D (freeIds c u) α1 hids
    have hb := args_bok W D sel hfs _ q.1 q.2 hb0 hq
    have hs := args_sound W D sel hfs _ q.1 q.2 hq (asgOfBnd q.1) (ext_asgOfBnd q.1)
    have hsupp := args_supp W D sel hfs _ q.1 q.2 hq
    have hagree : ∀ k ∈ freeIds c u, asgOfBnd q.1 k = α1 k := by
      intro k hk
      have := hs.1 k (α1 k) (by rw [lookup_map_ids]; simp [hk])
      exact this
    refine ⟨asgOfBnd q.1, ?_, ?_, hs.2.symm⟩
    · intro v hv
      rcases List.mem_append.1 hv with hv | hv
      · rw [hagree v hv]; exact hids v hv
      · obtain ⟨a, ha⟩ := bound_iff.1 ((hsupp v).2 (Or.inr hv))
        simp only [asgOfBnd, ha, Option.getD_some]
        exact hb v a ha
    · intro o ho
      obtain ⟨αo, hαu, _, hden, hcan⟩ := (sols_mem W D u o ho c hf hu _).1 (hd0 o ho)
      rw [← hden]
      apply denote_congr W c hf
      intro v hv
      by_cases e : v = u
      · subst e; simp [upd, hαu]
      · have hm : v ∈ freeIds c u := (mem_freeIds c u v).2 ⟨hv, e⟩
        simp only [upd, e, if_false]
        rw [hagree v hm, canonOf_inj _ _ _ hcan v hm]
  · rintro ⟨α, hv, hall, rfl⟩
    have hids : ∀ k ∈ freeIds c u, α k ∈ D k := fun k hk => hv k (List.mem_append.2 (Or.inl hk))
    refine ⟨mergeBack (canonOf (freeIds c u) α) [], (hfinal _).2 ⟨canonOf (freeIds c u) α, ?_, rfl⟩, ?_⟩
    · intro o ho
      refine (sols_mem W D u o ho c hf hu _).2 ⟨upd α u o, by simp [upd], ?_, hall o ho, ?_⟩
      · intro v hvc
        by_cases e : v = u
        · subst e; simpa [upd] using ho
        · simp only [upd, e, if_false]; exact hids v ((mem_freeIds c u v).2 ⟨hvc, e⟩)
      · simp only [canonOf]
        apply List.map_congr_left
        intro k hk
        have : k ≠ u := ((mem_freeIds c u k).1 hk).2
        simp [upd, this]
    · rw [mergeBack_canon]
      obtain ⟨q, hq, he⟩ := args_complete W D sel hfs _ α (ext_map_ids (freeIds c u) α)
        (fun v hvs => hv v (List.mem_append.2 (Or.inr hvs)))
      exact ⟨q, hq, (args_sound W D sel hfs _ q.1 q.2 hq α he).2.symm⟩

/-- **Counter-witness to the unrestricted statement** (known finding C10-F1):
    `for_all(u, or_(x == u, y > 2))` with X = [1], Y = [3, 4], U = [1, 2].  For every value of `u`
    the condition holds of (x, y) = (1, 3) and (1, 4), but the evaluation returns nothing: the true
    output for u = 1 leaves `y` unbound, the one for u = 2 binds it, and the intersection compares
    bindings of different shapes. -/
theorem c10_nonuniform_witness :
    let D : VarId → List Nat := fun v => if v = 0 then [1] else if v = 1 then [3, 4] else [1, 2]
    let c : Cond Nat := .elseIf (.cmp .eq (.var 0) (.var 2)) (.cmp .gt (.var 1) (.lit 2))
    rowsForAll natWorld D [.var 0, .var 1] none 2 c = [] ∧
    (∀ o ∈ D 2, denote natWorld (upd (fun v => if v = 0 then 1 else 3) 2 o) c = true) ∧
    ¬ Cond.uniformOr c := by
  refine ⟨by decide, by decide, ?_⟩
  intro h
  have := (h.1 1).2 (by simp [Cond.vars, Term.vars])
  simp [Cond.vars, Term.vars] at this

/-- Non-vacuity of the partial theorem: a uniform condition relating the free and the universal
    variable, two universal values, a non-trivial answer. -/
example :
    let D : VarId → List Nat := fun v => if v = 0 then [1, 2, 3] else [1, 2]
    rowsForAll natWorld D [.var 0] none 1 (.cmp .ge (.var 0) (.var 1)) = [[2], [3]] := by decide

/-! ### `and_`-chains: `and_(d, for_all(u₁, c₁), for_all(u₂, c₂), …)`, conjuncts in any order -/

section Chain
variable [Inhabited V]

theorem mergeBack_canon' (ids : List VarId) (α : Asg V) (β : Bnd V) :
    mergeBack (canonOf ids α) β = (ids.map fun k => (k, α k)) ++ β := by
  have h := mergeBack_canon ids α
  simp only [mergeBack, List.append_nil] at h ⊢
  rw [h]

/-- `sols_mem` under an arbitrary incoming binding that leaves the universal variable free. -/
theorem sols_mem_ctx (u : VarId) (o : V) (ho : o ∈ D u) (β : Bnd V) (hb : BOk D β)
    (hβu : β.lookup u = none) (c : Cond V) (hf : c.noFlat = true)
    (hu : Cond.uniformOr c) (d : List (VarId × Option V)) :
    d ∈ solsUnder W D c (freeIds c u) ((u, o) :: β) ↔
      ∃ α, α u = o ∧ Ext β α ∧ (∀ v ∈ c.vars, α v ∈ D v) ∧ denote W α c = true ∧
        d = canonOf (freeIds c u) α := by
  have hsc := cond_sound_complete W D c hf
  have hbok : BOk D ((u, o) :: β) := bok_cons hb ho
  simp only [solsUnder, List.mem_map, List.mem_filter]
  constructor
  · rintro ⟨q, ⟨hq, hq2⟩, rfl⟩
    have hq2' : q.2 = false := by simpa using hq2
    have hq' : (q.1, false) ∈ evalCond W D c ((u, o) :: β) false := by
      have e : (q.1, false) = q := by rw [← hq2']
      rw [e]; exact hq
    have htot := true_output_total W D c hf hu ((u, o) :: β) q.1 false hq'
    have hbq := cond_bok W D c hf ((u, o) :: β) q.1 false false hbok hq'
    have hadm : ∀ v ∈ c.vars, asgOfBnd q.1 v ∈ D v := by
      intro v hv
      obtain ⟨a, ha⟩ := bound_iff.1 (htot v hv)
      simp only [asgOfBnd, ha, Option.getD_some]
      exact hbq v a ha
    have hs := (hsc.1 ((u, o) :: β) q.1 false false hq').2 (asgOfBnd q.1) hadm (ext_asgOfBnd q.1)
    have hx := (ext_cons_fresh hβu).1 hs.1
    refine ⟨asgOfBnd q.1, hx.1, hx.2, hadm, by simpa using hs.2, ?_⟩
    simp only [restrictTo, canonOf]
    apply List.map_congr_left
    intro k hk
    obtain ⟨a, ha⟩ := bound_iff.1 (htot k ((mem_freeIds c u k).1 hk).1)
    simp [asgOfBnd, ha]
  · rintro ⟨α, hαu, hβα, hv, hden, rfl⟩
    have hext : Ext ((u, o) :: β) α := (ext_cons_fresh hβu).2 ⟨hαu, hβα⟩
    obtain ⟨q, hq, he⟩ := hsc.2 ((u, o) :: β) α false hext hv (Or.inr hden)
    have hs := (hsc.1 ((u, o) :: β) q.1 q.2 false hq)
    have hq2 : q.2 = false := hs.1 rfl
    have hq' : (q.1, false) ∈ evalCond W D c ((u, o) :: β) false := by
      have e : (q.1, false) = q := by rw [← hq2]
      rw [e]; exact hq
    have htot := true_output_total W D c hf hu ((u, o) :: β) q.1 false hq'
    refine ⟨q, ⟨hq, by simp [hq2]⟩, ?_⟩
    simp only [restrictTo, canonOf]
    apply List.map_congr_left
    intro k hk
    obtain ⟨a, ha⟩ := bound_iff.1 (htot k ((mem_freeIds c u k).1 hk).1)
    rw [ha, he k a ha]

/-- Membership in the final solution set = membership under every universal value. -/
theorem forall_stage_mem (u : VarId) (c : Cond V) (hD : D u ≠ []) (β : Bnd V)
    (hβu : β.lookup u = none) (β' : Bnd V) :
    β' ∈ evalForAll W D u c β ↔
      ∃ d0, (∀ o ∈ D u, d0 ∈ solsUnder W D c (freeIds c u) ((u, o) :: β)) ∧ β' = mergeBack d0 β := by
  have huv : evalTerm W D (.var u) β = (D u).map fun o => ((u, o) :: β, o) := by
    simp [evalTerm, hβu]
  simp only [evalForAll, huv]
  cases hDu : D u with
  | nil => exact absurd hDu hD
  | cons o1 os =>
    simp only [List.map_cons, List.mem_map]
    constructor
    · rintro ⟨d0, hd0, rfl⟩
      rw [foldl_filter_mem (fun (p' : Bnd V × V) d => (solsUnder W D c (freeIds c u) p'.1).contains d)] at hd0
      refine ⟨d0, ?_, rfl⟩
      intro o ho
      rcases List.mem_cons.1 ho with rfl | ho
      · exact hd0.1
      · have := hd0.2 ((u, o) :: β, o) (List.mem_map.2 ⟨o, ho, rfl⟩)
        simpa using this
    · rintro ⟨d0, hd0, rfl⟩
      refine ⟨d0, ?_, rfl⟩
      rw [foldl_filter_mem (fun (p' : Bnd V × V) d => (solsUnder W D c (freeIds c u) p'.1).contains d)]
      refine ⟨hd0 o1 List.mem_cons_self, ?_⟩
      intro p' hp'
      obtain ⟨o, ho, rfl⟩ := List.mem_map.1 hp'
      simpa using hd0 o (List.mem_cons_of_mem _ ho)

theorem evalForAllN_single (u : VarId) (c : Cond V) (β : Bnd V) :
    evalForAllN W D [u] c β = evalForAll W D u c β := by
  have hids : idsN c u [] = freeIds c u := by simp [idsN, freeIds]
  simp only [evalForAllN, evalForAllG, evalForAll, hids]
  have hs : ∀ ctx : Bnd V, (((evalCond W D c ctx false).filter fun q => !q.2).map (·.1)).map
      (restrictTo (freeIds c u)) = solsUnder W D c (freeIds c u) ctx := by
    intro ctx; simp [solsUnder, List.map_map, Function.comp_def]
  cases evalTerm W D (.var u) β with
  | nil => rfl
  | cons p ps => simp only [hs]

theorem lookup_none_of_not_bound' {β : Bnd V} {v : VarId} (h : ¬ bound β v = true) : β.lookup v = none := by
  unfold bound at h
  cases hl : β.lookup v with
  | none => rfl
  | some a => rw [hl] at h; simp at h

/-! ### Nested for_alls: `for_all(u₀, for_all(u₁, … c))` -/

/-- `for_all(u₀, for_all(u₁, … c))` read over a total assignment: `c` holds for EVERY combination of
    values of the universal variables. -/
def SemN : List VarId → Cond V → Asg V → Prop
  | [], c, α => denote W α c = true
  | u :: us, c, α => ∀ o ∈ D u, SemN us c (upd α u o)

theorem semN_congr (c : Cond V) (hf : c.noFlat = true) : ∀ (us : List VarId) (α α' : Asg V),
    (∀ v ∈ c.vars, v ∉ us → α v = α' v) → (SemN W D us c α ↔ SemN W D us c α') := by
  intro us
  induction us with
  | nil =>
    intro α α' h
    simp only [SemN]
    rw [denote_congr W c hf α α' (fun v hv => h v hv (by simp))]
  | cons u us ih =>
    intro α α' h
    simp only [SemN]
    have hag : ∀ o, ∀ v ∈ c.vars, v ∉ us → upd α u o v = upd α' u o v := by
      intro o v hv hn
      by_cases e : v = u
      · simp [upd, e]
      · simp only [upd, e, if_false]
        exact h v hv (by simp [e, hn])
    constructor
    · intro hs o ho; exact (ih _ _ (hag o)).1 (hs o ho)
    · intro hs o ho; exact (ih _ _ (hag o)).2 (hs o ho)

/-- What an output of a (nested) for_all binds: the non-universal variables of the condition, to the
    values of `α`; everything else as the incoming binding has it. -/
def LK (c : Cond V) (us : List VarId) (α : Asg V) (β β' : Bnd V) : Prop :=
  ∀ k, β'.lookup k = if k ∈ c.vars ∧ k ∉ us then some (α k) else β.lookup k

theorem mem_idsN (c : Cond V) (u : VarId) (us : List VarId) (v : VarId) :
    v ∈ idsN c u us ↔ ((v ∈ c.vars ∨ v ∈ us) ∧ v ≠ u) := by
  simp [idsN, List.mem_eraseDups]

theorem lookup_mergeBack_map (ids : List VarId) (f : VarId → Option V) (β : Bnd V) (k : VarId) :
    (mergeBack (ids.map fun j => (j, f j)) β).lookup k =
      if k ∈ ids ∧ (f k).isSome = true then f k else β.lookup k := by
  induction ids with
  | nil => simp [mergeBack]
  | cons j js ih =>
    simp only [mergeBack, List.map_cons, List.filterMap_cons] at ih ⊢
    cases hfj : f j with
    | none =>
      simp only [Option.map_none]
      rw [ih]
      by_cases e : k = j
      · subst e; simp [hfj]
      · simp [e]
    | some a =>
      simp only [Option.map_some, List.cons_append]
      by_cases e : k = j
      · subst e; simp [List.lookup, hfj]
      · have : (k == j) = false := by simp [e]
        simp only [List.lookup, this]
        rw [ih]
        simp [e]

/-- The level loop of `ForAll._evaluate__` over an arbitrary evaluation of its condition. -/
theorem forallG_mem (u : VarId) (ids : List VarId) (evalC : Bnd V → List (Bnd V)) (hD : D u ≠ [])
    (β : Bnd V) (hβu : β.lookup u = none) (β' : Bnd V) :
    β' ∈ evalForAllG W D u ids evalC β ↔
      ∃ d0, (∀ o ∈ D u, d0 ∈ (evalC ((u, o) :: β)).map (restrictTo ids)) ∧ β' = mergeBack d0 β := by
  have huv : evalTerm W D (.var u) β = (D u).map fun o => ((u, o) :: β, o) := by
    simp [evalTerm, hβu]
  simp only [evalForAllG, huv]
  cases hDu : D u with
  | nil => exact absurd hDu hD
  | cons o1 os =>
    simp only [List.map_cons]
    rw [List.mem_map]
    constructor
    · rintro ⟨d0, hd0, rfl⟩
      rw [foldl_filter_mem (fun (p' : Bnd V × V) d => ((evalC p'.1).map (restrictTo ids)).contains d)] at hd0
      refine ⟨d0, ?_, rfl⟩
      intro o ho
      rcases List.mem_cons.1 ho with rfl | ho
      · exact hd0.1
      · have := hd0.2 ((u, o) :: β, o) (List.mem_map.2 ⟨o, ho, rfl⟩)
        simpa using this
    · rintro ⟨d0, hd0, rfl⟩
      refine ⟨d0, ?_, rfl⟩
      rw [foldl_filter_mem (fun (p' : Bnd V × V) d => ((evalC p'.1).map (restrictTo ids)).contains d)]
      refine ⟨hd0 o1 List.mem_cons_self, ?_⟩
      intro p' hp'
      obtain ⟨o, ho, rfl⟩ := List.mem_map.1 hp'
      simpa using hd0 o (List.mem_cons_of_mem _ ho)

/-- The restriction a level computes from an output of the level below. -/
def canonG (c : Cond V) (us ids : List VarId) (α : Asg V) (β : Bnd V) : List (VarId × Option V) :=
  ids.map fun k => (k, if k ∈ c.vars ∧ k ∉ us then some (α k) else β.lookup k)

theorem restrict_lk (c : Cond V) (u : VarId) (us : List VarId) (o : V) (α : Asg V) (β β'' : Bnd V)
    (h : LK c us α ((u, o) :: β) β'') :
    restrictTo (idsN c u us) β'' = canonG c us (idsN c u us) α β := by
  simp only [restrictTo, canonG]
  apply List.map_congr_left
  intro k hk
  have hne : k ≠ u := ((mem_idsN c u us k).1 hk).2
  rw [h k, lookup_cons_ne β o hne]

theorem lk_merge (c : Cond V) (u : VarId) (us : List VarId) (α : Asg V) (β : Bnd V) :
    LK c (u :: us) α β (mergeBack (canonG c us (idsN c u us) α β) β) := by
  intro k
  simp only [canonG]
  rw [lookup_mergeBack_map]
  by_cases hA : k ∈ c.vars ∧ k ∉ u :: us
  · have hk : k ∈ idsN c u us := (mem_idsN c u us k).2 ⟨Or.inl hA.1, by intro e; exact hA.2 (by simp [e])⟩
    have hB : k ∈ c.vars ∧ k ∉ us := ⟨hA.1, fun h => hA.2 (List.mem_cons_of_mem _ h)⟩
    simp [hk, hB, hA]
  · rw [if_neg hA]
    by_cases hk : k ∈ idsN c u us
    · have hne : k ≠ u := ((mem_idsN c u us k).1 hk).2
      have hB : ¬ (k ∈ c.vars ∧ k ∉ us) := by
        intro hB; exact hA ⟨hB.1, by simp [hne, hB.2]⟩
      simp only [hB, if_false]
      split
      · rfl
      · rfl
    · simp [hk]

/-- The base level: the true outputs of the condition itself. -/
theorem lk_base (c : Cond V) (hf : c.noFlat = true) (hu : Cond.uniformOr c) (ctx β'' : Bnd V)
    (hq : (β'', false) ∈ evalCond W D c ctx false) (α : Asg V) (he : Ext β'' α) :
    LK c [] α ctx β'' := by
  intro k
  have htot := true_output_total W D c hf hu ctx β'' false hq
  have hsub := cond_sub W D c hf ctx β'' false false hq
  have hsupp := cond_supp W D c hf ctx β'' false false hq
  by_cases hk : k ∈ c.vars
  · obtain ⟨a, ha⟩ := bound_iff.1 (htot k hk)
    simp [hk, ha, he k a ha]
  · simp only [hk, false_and, if_false]
    cases hl : ctx.lookup k with
    | some a => exact hsub k a hl
    | none =>
      apply lookup_none_of_not_bound'
      intro hb
      rcases hsupp.1 k hb with h1 | h1
      · rw [bound_iff] at h1; obtain ⟨a, ha⟩ := h1; rw [hl] at ha; cases ha
      · exact hk h1

theorem nested_sound (c : Cond V) (hf : c.noFlat = true) (hu : Cond.uniformOr c) :
    ∀ (us : List VarId), us.Nodup → (∀ u ∈ us, D u ≠ []) → ∀ (β : Bnd V), BOk D β →
    (∀ u ∈ us, β.lookup u = none) → ∀ β', β' ∈ evalForAllN W D us c β →
    ∃ α, Ext β α ∧ (∀ v ∈ c.vars, v ∉ us → α v ∈ D v) ∧ SemN W D us c α ∧ LK c us α β β' := by
  intro us
  induction us with
  | nil =>
    intro _ _ β hb _ β' h
    simp only [evalForAllN, List.mem_map, List.mem_filter] at h
    obtain ⟨q, ⟨hq, hq2⟩, rfl⟩ := h
    have hq2' : q.2 = false := by simpa using hq2
    have hq' : (q.1, false) ∈ evalCond W D c β false := by
      have e : (q.1, false) = q := by rw [← hq2']
      rw [e]; exact hq
    have htot := true_output_total W D c hf hu β q.1 false hq'
    have hbq := cond_bok W D c hf β q.1 false false hb hq'
    have hadm : ∀ v ∈ c.vars, asgOfBnd q.1 v ∈ D v := by
      intro v hv
      obtain ⟨a, ha⟩ := bound_iff.1 (htot v hv)
      simp only [asgOfBnd, ha, Option.getD_some]
      exact hbq v a ha
    have hs := ((cond_sound_complete W D c hf).1 β q.1 false false hq').2 (asgOfBnd q.1) hadm (ext_asgOfBnd q.1)
    exact ⟨asgOfBnd q.1, hs.1, fun v hv _ => hadm v hv, by simpa [SemN] using hs.2,
      lk_base W D c hf hu β q.1 hq' _ (ext_asgOfBnd q.1)⟩
  | cons u us ih =>
    intro hnd hDs β hb hc β' h
    have hnd' := List.nodup_cons.1 hnd
    have hDu : D u ≠ [] := hDs u List.mem_cons_self
    have hβu : β.lookup u = none := hc u List.mem_cons_self
    simp only [evalForAllN] at h
    obtain ⟨d0, hd0, rfl⟩ := (forallG_mem W D u _ _ hDu β hβu β').1 h
    -- what the level below says under one universal value
    have hlev : ∀ o ∈ D u, ∃ α, α u = o ∧ Ext β α ∧ (∀ v ∈ c.vars, v ∉ us → α v ∈ D v) ∧ SemN W D us c α ∧
        d0 = canonG c us (idsN c u us) α β := by
      intro o ho
      obtain ⟨β'', hβ'', hr⟩ := List.mem_map.1 (hd0 o ho)
      have hc' : ∀ w ∈ us, List.lookup w ((u, o) :: β) = none := by
        intro w hw
        have : w ≠ u := by intro e; subst e; exact hnd'.1 hw
        rw [lookup_cons_ne β o this]; exact hc w (List.mem_cons_of_mem _ hw)
      obtain ⟨α, hext, hadm, hsem, hlk⟩ := ih hnd'.2 (fun w hw => hDs w (List.mem_cons_of_mem _ hw))
        ((u, o) :: β) (bok_cons hb ho) hc' β'' hβ''
      have hx := (ext_cons_fresh hβu).1 hext
      exact ⟨α, hx.1, hx.2, hadm, hsem, by rw [← hr]; exact restrict_lk c u us o α β β'' hlk⟩
    obtain ⟨o1, ho1⟩ : ∃ o1, o1 ∈ D u := by
      cases hDu' : D u with
      | nil => exact absurd hDu' hDu
      | cons o1 os => exact ⟨o1, List.mem_cons_self⟩
    obtain ⟨α1, _, hext1, hadm1, _, hd1⟩ := hlev o1 ho1
    refine ⟨α1, hext1, fun v hv hn => hadm1 v hv (fun h => hn (List.mem_cons_of_mem _ h)), ?_, ?_⟩
    · intro o ho
      obtain ⟨αo, hαu, _, _, hsem, hdo⟩ := hlev o ho
      refine (semN_congr W D c hf us _ _ ?_).2 hsem
      intro v hv hn
      by_cases e : v = u
      · subst e; simp [upd, hαu]
      · simp only [upd, e, if_false]
        have hk : v ∈ idsN c u us := (mem_idsN c u us v).2 ⟨Or.inl hv, e⟩
        have := List.map_inj_left.1 (hd1.symm.trans hdo) v hk
        simpa [hv, hn] using this
    · rw [hd1]; exact lk_merge c u us α1 β

theorem nested_complete (c : Cond V) (hf : c.noFlat = true) (hu : Cond.uniformOr c) :
    ∀ (us : List VarId), us.Nodup → (∀ u ∈ us, D u ≠ []) → ∀ (β : Bnd V), BOk D β →
    (∀ u ∈ us, β.lookup u = none) → ∀ (α : Asg V), Ext β α → (∀ v ∈ c.vars, v ∉ us → α v ∈ D v) →
    SemN W D us c α → ∃ β' ∈ evalForAllN W D us c β, LK c us α β β' := by
  intro us
  induction us with
  | nil =>
    intro _ _ β hb _ α hext hadm hsem
    have hsc := cond_sound_complete W D c hf
    obtain ⟨q, hq, he⟩ := hsc.2 β α false hext (fun v hv => hadm v hv (by simp)) (Or.inr (by simpa [SemN] using hsem))
    have hq2 : q.2 = false := (hsc.1 β q.1 q.2 false hq).1 rfl
    have hq' : (q.1, false) ∈ evalCond W D c β false := by
      have e : (q.1, false) = q := by rw [← hq2]
      rw [e]; exact hq
    refine ⟨q.1, ?_, lk_base W D c hf hu β q.1 hq' α he⟩
    simp only [evalForAllN, List.mem_map, List.mem_filter]
    exact ⟨q, ⟨hq, by simp [hq2]⟩, rfl⟩
  | cons u us ih =>
    intro hnd hDs β hb hc α hext hadm hsem
    have hnd' := List.nodup_cons.1 hnd
    have hDu : D u ≠ [] := hDs u List.mem_cons_self
    have hβu : β.lookup u = none := hc u List.mem_cons_self
    refine ⟨mergeBack (canonG c us (idsN c u us) α β) β, ?_, lk_merge c u us α β⟩
    simp only [evalForAllN]
    refine (forallG_mem W D u _ _ hDu β hβu _).2 ⟨_, ?_, rfl⟩
    intro o ho
    have hc' : ∀ w ∈ us, List.lookup w ((u, o) :: β) = none := by
      intro w hw
      have : w ≠ u := by intro e; subst e; exact hnd'.1 hw
      rw [lookup_cons_ne β o this]; exact hc w (List.mem_cons_of_mem _ hw)
    have hext' : Ext ((u, o) :: β) (upd α u o) := by
      refine (ext_cons_fresh hβu).2 ⟨by simp [upd], ?_⟩
      intro v a hva
      have : v ≠ u := by intro e; subst e; rw [hβu] at hva; cases hva
      simp only [upd, this, if_false]; exact hext v a hva
    have hadm' : ∀ v ∈ c.vars, v ∉ us → upd α u o v ∈ D v := by
      intro v hv hn
      by_cases e : v = u
      · subst e; simpa [upd] using ho
      · simp only [upd, e, if_false]; exact hadm v hv (by simp [e, hn])
    obtain ⟨β'', hβ'', hlk⟩ := ih hnd'.2 (fun w hw => hDs w (List.mem_cons_of_mem _ hw))
      ((u, o) :: β) (bok_cons hb ho) hc' (upd α u o) hext' hadm' (hsem o ho)
    refine List.mem_map.2 ⟨β'', hβ'', ?_⟩
    rw [restrict_lk c u us o _ β β'' hlk]
    simp only [canonG]
    apply List.map_congr_left
    intro k hk
    have hne : k ≠ u := ((mem_idsN c u us k).1 hk).2
    simp [upd, hne]

/-- What a conjunct says about a total assignment. -/
def Stage.sem : Stage V → Asg V → Prop
  | .cond c, α => denote W α c = true
  | .forAll us c, α => SemN W D us c α

/-- The conjuncts the theorem covers; `U` = the universal variables of the chain (mentioned by no
    ordinary conjunct, and by a for_all only as one of its own universal variables). -/
def Stage.ok (U : List VarId) : Stage V → Prop
  | .cond c => c.noFlat = true ∧ ∀ v ∈ c.vars, v ∉ U
  | .forAll us c => c.noFlat = true ∧ Cond.uniformOr c ∧ us.Nodup ∧ (∀ u ∈ us, D u ≠ [] ∧ u ∈ U) ∧
      ∀ v ∈ c.vars, v ∈ U → v ∈ us

/-- The non-universal variables of a conjunct. -/
def Stage.vars : Stage V → List VarId
  | .cond c => c.vars
  | .forAll us c => c.vars.filter fun v => !us.contains v

theorem lookup_none_of_not_bound {β : Bnd V} {v : VarId} (h : ¬ bound β v = true) : β.lookup v = none := by
  unfold bound at h
  cases hl : β.lookup v with
  | none => rfl
  | some a => rw [hl] at h; simp at h

theorem stage_sound (U VS : List VarId) (s : Stage V) (hok : Stage.ok D U s)
    (hvs : ∀ v ∈ s.vars, v ∈ VS) (β β' : Bnd V) (hb : BOk D β) (hc : ∀ u ∈ U, β.lookup u = none)
    (h : β' ∈ evalStage W D s β) :
    BOk D β' ∧ (∀ u ∈ U, β'.lookup u = none) ∧
      ∀ α, (∀ v ∈ VS, α v ∈ D v) → Ext β' α → Ext β α ∧ Stage.sem W D s α := by
  match s, hok, hvs, h with
  | .cond c, hok, hvs, h =>
    obtain ⟨hf, hcu⟩ := hok
    simp only [evalStage, List.mem_map, List.mem_filter] at h
    obtain ⟨q, ⟨hq, hq2⟩, rfl⟩ := h
    have hq2' : q.2 = false := by simpa using hq2
    have hq' : (q.1, false) ∈ evalCond W D c β false := by
      have e : (q.1, false) = q := by rw [← hq2']
      rw [e]; exact hq
    refine ⟨cond_bok W D c hf β q.1 false false hb hq', ?_, ?_⟩
    · intro u hu
      apply lookup_none_of_not_bound
      intro hbd
      rcases (cond_supp W D c hf β q.1 false false hq').1 u hbd with h1 | h1
      · rw [bound_iff] at h1; obtain ⟨a, ha⟩ := h1; rw [hc u hu] at ha; cases ha
      · exact hcu u h1 hu
    · intro α hadm hext
      have := ((cond_sound_complete W D c hf).1 β q.1 false false hq').2 α
        (fun v hv => hadm v (hvs v hv)) hext
      exact ⟨this.1, by simpa [Stage.sem] using this.2⟩
  | .forAll us c, hok, hvs, h =>
    obtain ⟨hf, hu, hnd, hUs, hcu⟩ := hok
    simp only [evalStage] at h
    obtain ⟨α1, hext1, hadm1, hsem1, hlk⟩ := nested_sound W D c hf hu us hnd (fun w hw => (hUs w hw).1) β hb
      (fun w hw => hc w (hUs w hw).2) β' h
    refine ⟨?_, ?_, ?_⟩
    · intro v a hva
      rw [hlk v] at hva
      split at hva
      · rename_i hm; injection hva with hva; rw [← hva]; exact hadm1 v hm.1 hm.2
      · exact hb v a hva
    · intro w hw
      rw [hlk w]
      split
      · rename_i hm; exact absurd (hcu w hm.1 hw) hm.2
      · exact hc w hw
    · intro α _ hext
      have hagree : ∀ k ∈ c.vars, k ∉ us → α k = α1 k := by
        intro k hk hn
        exact hext k (α1 k) (by rw [hlk k]; simp [hk, hn])
      refine ⟨?_, ?_⟩
      · intro v a hva
        by_cases hm : v ∈ c.vars ∧ v ∉ us
        · rw [hagree v hm.1 hm.2]; exact hext1 v a hva
        · exact hext v a (by rw [hlk v]; simp only [hm, if_false]; exact hva)
      · exact (semN_congr W D c hf us α α1 hagree).2 hsem1

theorem stage_complete (U VS : List VarId) (s : Stage V) (hok : Stage.ok D U s)
    (hvs : ∀ v ∈ s.vars, v ∈ VS) (β : Bnd V) (hb : BOk D β) (hc : ∀ u ∈ U, β.lookup u = none)
    (α : Asg V) (hadm : ∀ v ∈ VS, α v ∈ D v) (hext : Ext β α) (hsem : Stage.sem W D s α) :
    ∃ β' ∈ evalStage W D s β, Ext β' α := by
  match s, hok, hvs, hsem with
  | .cond c, hok, hvs, hsem =>
    obtain ⟨hf, _⟩ := hok
    have hsc := cond_sound_complete W D c hf
    obtain ⟨p, hp, hpe⟩ := hsc.2 β α false hext (fun v hv => hadm v (hvs v hv)) (Or.inr hsem)
    have hp2 : p.2 = false := (hsc.1 β p.1 p.2 false hp).1 rfl
    refine ⟨p.1, ?_, hpe⟩
    simp only [evalStage, List.mem_map, List.mem_filter]
    exact ⟨p, ⟨hp, by simp [hp2]⟩, rfl⟩
  | .forAll us c, hok, hvs, hsem =>
    obtain ⟨hf, hu, hnd, hUs, hcu⟩ := hok
    have hadm' : ∀ v ∈ c.vars, v ∉ us → α v ∈ D v := by
      intro v hv hn
      apply hadm v (hvs v _)
      simp only [Stage.vars, List.mem_filter]
      exact ⟨hv, by simpa using hn⟩
    obtain ⟨β', hβ', hlk⟩ := nested_complete W D c hf hu us hnd (fun w hw => (hUs w hw).1) β hb
      (fun w hw => hc w (hUs w hw).2) α hext hadm' hsem
    refine ⟨β', hβ', ?_⟩
    intro v a hva
    rw [hlk v] at hva
    split at hva
    · injection hva
    · exact hext v a hva

/-- The invariant of the left-to-right evaluation of the chain. -/
theorem stages_inv (U VS : List VarId) : ∀ (stages done : List (Stage V)) (bs : List (Bnd V)),
    (∀ s ∈ stages, Stage.ok D U s ∧ ∀ v ∈ s.vars, v ∈ VS) →
    (∀ β ∈ bs, BOk D β ∧ (∀ u ∈ U, β.lookup u = none) ∧
      ∀ α, (∀ v ∈ VS, α v ∈ D v) → Ext β α → ∀ s ∈ done, Stage.sem W D s α) →
    (∀ α, (∀ v ∈ VS, α v ∈ D v) → (∀ s ∈ done, Stage.sem W D s α) → ∃ β ∈ bs, Ext β α) →
    (∀ β ∈ stages.foldl (fun bs s => bs.flatMap (evalStage W D s)) bs,
      BOk D β ∧ (∀ u ∈ U, β.lookup u = none) ∧
      ∀ α, (∀ v ∈ VS, α v ∈ D v) → Ext β α → ∀ s ∈ done ++ stages, Stage.sem W D s α) ∧
    (∀ α, (∀ v ∈ VS, α v ∈ D v) → (∀ s ∈ done ++ stages, Stage.sem W D s α) →
      ∃ β ∈ stages.foldl (fun bs s => bs.flatMap (evalStage W D s)) bs, Ext β α) := by
  intro stages
  induction stages with
  | nil =>
    intro done bs _ h1 h2
    simp only [List.foldl_nil, List.append_nil]
    exact ⟨h1, h2⟩
  | cons s rest ih =>
    intro done bs hok h1 h2
    have hs := hok s List.mem_cons_self
    have := ih (done ++ [s]) (bs.flatMap (evalStage W D s))
      (fun t ht => hok t (List.mem_cons_of_mem _ ht)) ?_ ?_
    · simpa [List.append_assoc] using this
    · intro β' hβ'
      obtain ⟨β, hβ, hβ'⟩ := List.mem_flatMap.1 hβ'
      obtain ⟨hb, hc, hd⟩ := h1 β hβ
      obtain ⟨hb', hc', hs'⟩ := stage_sound W D U VS s hs.1 hs.2 β β' hb hc hβ'
      refine ⟨hb', hc', ?_⟩
      intro α hadm hext t ht
      obtain ⟨hext0, hsem⟩ := hs' α hadm hext
      rcases List.mem_append.1 ht with ht | ht
      · exact hd α hadm hext0 t ht
      · simp at ht; subst ht; exact hsem
    · intro α hadm hall
      obtain ⟨β, hβ, hext⟩ := h2 α hadm (fun t ht => hall t (List.mem_append.2 (Or.inl ht)))
      obtain ⟨hb, hc, _⟩ := h1 β hβ
      obtain ⟨β', hβ', hext'⟩ := stage_complete W D U VS s hs.1 hs.2 β hb hc α hadm hext
        (hall s (List.mem_append.2 (Or.inr (by simp))))
      exact ⟨β', List.mem_flatMap.2 ⟨β, hβ, hβ'⟩, hext'⟩

/-- **C10, combined with other conditions by `and_`.**  For a chain of conjuncts - ordinary
    conditions and for_alls whose conditions have uniform disjunctions, over non-empty domains,
    in ANY order, several for_alls over the same universal variable and NESTED for_alls
    `for_all(u₀, for_all(u₁, … c))` included -
    `an(set_of(sel, s₁, s₂, …))` returns exactly the projections of the assignments that satisfy
    every ordinary conjunct and satisfy every for_all's condition for EVERY (combination of) value(s)
    of its universal variable(s).  (Partial: non-uniform disjunctions inside a for_all - C10-F1 - and
    conjuncts that mention a universal variable free are outside the statement.) -/
theorem c10_and_chain_partial (sel : List (Term V)) (stages : List (Stage V)) (U VS : List VarId)
    (hfs : Terms.noFlat sel = true) (hok : ∀ s ∈ stages, Stage.ok D U s)
    (hvs : ∀ s ∈ stages, ∀ v ∈ s.vars, v ∈ VS) (hsel : ∀ v ∈ Terms.vars sel, v ∈ VS)
    (hne : ∀ v ∈ VS, D v ≠ []) (r : List V) :
    r ∈ rowsStages W D sel stages ↔
      ∃ α, (∀ v ∈ VS, α v ∈ D v) ∧ (∀ s ∈ stages, Stage.sem W D s α) ∧ r = termsVal W α sel := by
  have hinv := stages_inv W D U VS stages [] [[]] (fun s hs => ⟨hok s hs, hvs s hs⟩)
    (by
      intro β hβ
      simp at hβ; subst hβ
      exact ⟨bok_nil D, fun _ _ => rfl, fun _ _ _ s hs => by simp at hs⟩)
    (by
      intro α _ _
      exact ⟨[], by simp, fun v a h => by simp [List.lookup] at h⟩)
  simp only [List.nil_append] at hinv
  simp only [rowsStages, evalStages, List.mem_flatMap, List.mem_map]
  constructor
  · rintro ⟨β, hβ, q, hq, rfl⟩
    obtain ⟨hb, _, hsems⟩ := hinv.1 β hβ
    have hbq := args_bok W D sel hfs β q.1 q.2 hb hq
    let α : Asg V := fun v => (q.1.lookup v).getD ((D v).headD default)
    have hextq : Ext q.1 α := by intro v a h; simp [α, h]
    have hadm : ∀ v ∈ VS, α v ∈ D v := by
      intro v hv
      cases hl : q.1.lookup v with
      | some a => simp only [α, hl, Option.getD_some]; exact hbq v a hl
      | none =>
        simp only [α, hl, Option.getD_none]
        cases hDv : D v with
        | nil => exact absurd hDv (hne v hv)
        | cons o os => simp
    have hs := args_sound W D sel hfs β q.1 q.2 hq α hextq
    exact ⟨α, hadm, hsems α hadm hs.1, hs.2.symm⟩
  · rintro ⟨α, hadm, hsems, rfl⟩
    obtain ⟨β, hβ, hext⟩ := hinv.2 α hadm hsems
    obtain ⟨q, hq, he⟩ := args_complete W D sel hfs β α hext (fun v hv => hadm v (hsel v hv))
    exact ⟨β, hβ, q, hq, (args_sound W D sel hfs β q.1 q.2 hq α he).2.symm⟩

/-- `and_(d, for_all(u, c))` as the driver's legacy entry point computes it is the two-conjunct chain. -/
theorem rowsForAll_eq_stages (sel : List (Term V)) (d : Cond V) (hd : d.noFlat = true) (u : VarId) (c : Cond V) :
    rowsForAll W D sel (some d) u c = rowsStages W D sel [.cond d, .forAll [u] c] := by
  have hfil : ((evalCond W D d [] false).filter fun q => !q.2) = evalCond W D d [] false := by
    apply List.filter_eq_self.2
    intro q hq
    have := ((cond_sound_complete W D d hd).1 [] q.1 q.2 false hq).1 rfl
    simp [this]
  simp only [rowsForAll, rowsStages, evalStages, List.foldl_cons, List.foldl_nil, List.flatMap_cons,
    List.flatMap_nil, List.append_nil, evalStage, hfil]
  have hfun : (fun β => evalForAll W D u c β) = fun β => evalForAllN W D [u] c β := by
    funext β; exact (evalForAllN_single W D u c β).symm
  rw [hfun]
  rfl

theorem rowsForAll_eq_stages_none (sel : List (Term V)) (u : VarId) (c : Cond V) :
    rowsForAll W D sel none u c = rowsStages W D sel [.forAll [u] c] := by
  simp only [rowsForAll, rowsStages, evalStages, List.foldl_cons, List.foldl_nil, List.flatMap_cons,
    List.flatMap_nil, List.append_nil, evalStage, evalForAllN_single]

end Chain

/-- Non-vacuity of the chain theorem: an ordinary conjunct written AFTER two for_alls over the same
    universal variable; the answer is neither empty nor everything. -/
example :
    let D : VarId → List Nat := fun v => if v = 0 then [1, 2, 3, 4] else [1, 2]
    rowsStages natWorld D [.var 0]
      [.forAll [1] (.cmp .ge (.var 0) (.var 1)), .forAll [1] (.cmp .ne (.var 0) (.var 1)),
       .cond (.cmp .lt (.var 0) (.lit 4))] = [[3]] := by decide

/-- … and a nested for_all: `for_all(u, for_all(v, x ≥ u ∧ u ≥ v))` - an instance of the chain theorem
    (its hypotheses are met: next example). -/
example :
    let D : VarId → List Nat := fun v => if v = 0 then [1, 2, 3] else if v = 1 then [2, 3] else [1, 2]
    rowsStages natWorld D [.var 0]
      [.forAll [1, 2] (.and (.cmp .ge (.var 0) (.var 1)) (.cmp .ge (.var 1) (.var 2)))] = [[3]] := by decide

example :
    let D : VarId → List Nat := fun v => if v = 0 then [1, 2, 3] else if v = 1 then [2, 3] else [1, 2]
    Stage.ok D [1, 2] (Stage.forAll [1, 2]
      (Cond.and (.cmp .ge (.var 0) (.var 1)) (.cmp .ge (.var 1) (.var 2)) : Cond Nat)) := by
  intro D
  refine ⟨by decide, ?_, by decide, ?_, ?_⟩
  · simp [Cond.uniformOr]
  · intro u hu
    simp only [List.mem_cons, List.not_mem_nil, or_false] at hu
    rcases hu with rfl | rfl <;> simp [D]
  · intro v hv hU; exact hU

end Eql
