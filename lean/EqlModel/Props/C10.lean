/-
  C10 — `for_all` yields exactly the bindings whose condition holds for every value.

  Model: `EqlModel/ForAll.lean` (transliteration of `ForAll._evaluate__` after fix 877c1d1).
    c10_forall_uniform_partial   for a non-empty universal domain and a condition in which every
        disjunction mentions the same variables on both sides (then every TRUE output of the
        condition binds all of its variables), `an(set_of(sel, for_all(u, c)))` returns exactly the
        projections of the assignments `f` of the other variables with `c(f, u ↦ o)` true for
        EVERY `o` of the universal domain — whatever else the form of `c` (conjunctions,
        negations, comparisons between free and universal variables, conditions mentioning only
        free variables).
    c10_nonuniform_witness       the unrestricted statement is false of the code (known finding
        C10-F1): `for_all(u, or_(x.a == u.a, y.a > 2))`.
  The statement under an outer conjunct `and_(d, for_all(u, c))` and caching are covered by the
  correspondence check (see C05-F3 for caching).
-/
import EqlModel.ForAll
import EqlModel.Lemmas.Support
import EqlModel.Props.C02
import EqlModel.NatWorld

namespace Eql
variable {V : Type}

/-- Every disjunction mentions the same variables on both sides. -/
def Cond.uniformOr : Cond V → Prop
  | .cmp _ _ _ => True
  | .truth _ _ => True
  | .pred _ _ _ => True
  | .and l r => Cond.uniformOr l ∧ Cond.uniformOr r
  | .elseIf l r => (∀ v, v ∈ l.vars ↔ v ∈ r.vars) ∧ Cond.uniformOr l ∧ Cond.uniformOr r
  | .sub _ c => Cond.uniformOr c

variable (W : World V) (D : VarId → List V)

/-- A true output of a uniform condition binds every variable of the condition. -/
theorem true_output_total : ∀ (c : Cond V), c.noFlat = true → Cond.uniformOr c →
    ∀ (β β' : Bnd V) (ywf : Bool), (β', false) ∈ evalCond W D c β ywf →
    ∀ v ∈ c.vars, bound β' v = true := by
  intro c
  induction c with
  | cmp op l r =>
    intro hf _ β β' ywf h v hv
    simp only [Cond.noFlat, Bool.and_eq_true] at hf
    simp only [evalCond] at h
    simp only [Cond.vars, List.mem_append] at hv
    split at h
    · simp only [List.mem_flatMap] at h
      obtain ⟨p1, hp1, p2, hp2, h3⟩ := h
      split at h3 <;> simp at h3
      obtain ⟨h31, _⟩ := h3; subst h31
      have a1 := term_supp W D r hf.2 β p1.1 p1.2 hp1
      have a2 := term_supp W D l hf.1 p1.1 p2.1 p2.2 hp2
      rcases hv with hv | hv
      · exact (a2 v).2 (Or.inr hv)
      · exact (a2 v).2 (Or.inl ((a1 v).2 (Or.inr hv)))
    · simp only [List.mem_flatMap] at h
      obtain ⟨p1, hp1, p2, hp2, h3⟩ := h
      split at h3 <;> simp at h3
      obtain ⟨h31, _⟩ := h3; subst h31
      have a1 := term_supp W D l hf.1 β p1.1 p1.2 hp1
      have a2 := term_supp W D r hf.2 p1.1 p2.1 p2.2 hp2
      rcases hv with hv | hv
      · exact (a2 v).2 (Or.inl ((a1 v).2 (Or.inr hv)))
      · exact (a2 v).2 (Or.inr hv)
  | truth inv t =>
    intro hf _ β β' ywf h v hv
    simp only [Cond.noFlat] at hf
    simp only [evalCond, List.mem_flatMap] at h
    obtain ⟨p, hp, h3⟩ := h
    split at h3 <;> simp at h3
    obtain ⟨h31, _⟩ := h3; subst h31
    exact (term_supp W D t hf β p.1 p.2 hp v).2 (Or.inr (by simpa [Cond.vars] using hv))
  | pred inv n args =>
    intro hf _ β β' ywf h v hv
    simp only [Cond.noFlat] at hf
    simp only [evalCond, List.mem_flatMap] at h
    obtain ⟨p, hp, h3⟩ := h
    split at h3 <;> simp at h3
    obtain ⟨h31, _⟩ := h3; subst h31
    exact (args_supp W D args hf β p.1 p.2 hp v).2 (Or.inr (by simpa [Cond.vars] using hv))
  | and l r ihl ihr =>
    intro hf hu β β' ywf h v hv
    simp only [Cond.noFlat, Bool.and_eq_true] at hf
    simp only [evalCond, List.mem_flatMap] at h
    obtain ⟨p, hp, h3⟩ := h
    simp only [Cond.vars, List.mem_append] at hv
    split at h3
    · simp at h3
    · rename_i hc
      have hp2 : p.2 = false := by
        cases hy : ywf
        · exact ((cond_sound_complete W D l hf.1).1 β p.1 p.2 ywf hp).1 hy
        · simp [hy] at hc; exact hc
      have hl := ihl hf.1 hu.1 β p.1 ywf (by rw [← hp2]; exact hp)
      have hr := ihr hf.2 hu.2 p.1 β' ywf h3
      rcases hv with hv | hv
      · exact (cond_supp W D r hf.2 p.1 β' false ywf h3).2 v (hl v hv)
      · exact hr v hv
  | elseIf l r ihl ihr =>
    intro hf hu β β' ywf h v hv
    simp only [Cond.noFlat, Bool.and_eq_true] at hf
    simp only [evalCond] at h
    have hv' : v ∈ r.vars := by
      simp only [Cond.vars, List.mem_append] at hv
      rcases hv with hv | hv
      · exact (hu.1 v).1 hv
      · exact hv
    split at h
    · exact ihr hf.2 hu.2.2 β β' ywf h v hv'
    · simp only [List.mem_flatMap] at h
      obtain ⟨p, hp, h3⟩ := h
      split at h3
      · exact ihr hf.2 hu.2.2 p.1 β' ywf h3 v hv'
      · rename_i hc
        have h31 : β' = p.1 := by simpa using h3
        subst h31
        have hp2 : p.2 = false := by simpa using hc
        exact ihl hf.1 hu.2.1 β p.1 true (by rw [← hp2]; exact hp) v ((hu.1 v).2 hv')
  | sub sel c ih =>
    intro hf hu β β' ywf h v hv
    simp only [Cond.noFlat, Bool.and_eq_true] at hf
    simp only [evalCond, List.mem_flatMap, List.mem_map] at h
    obtain ⟨p, hp, q, hq, he⟩ := h
    have h1 : q.1 = β' := by injection he
    have h2 : p.2 = false := by injection he
    subst h1
    simp only [Cond.vars, List.mem_append] at hv
    have a2 := args_supp W D sel hf.2 p.1 q.1 q.2 hq
    rcases hv with hv | hv
    · exact (a2 v).2 (Or.inl (ih hf.1 hu β p.1 ywf (by rw [← h2]; exact hp) v hv))
    · exact (a2 v).2 (Or.inr hv)

/-- The truth of a condition depends only on the values of its variables. -/
theorem denote_congr : ∀ (c : Cond V), c.noFlat = true → ∀ (α α' : Asg V),
    (∀ v ∈ c.vars, α v = α' v) → denote W α c = denote W α' c := by
  have termsVal_congr : ∀ (ts : List (Term V)), Terms.noFlat ts = true → ∀ (α α' : Asg V),
      (∀ v ∈ Terms.vars ts, α v = α' v) → termsVal W α ts = termsVal W α' ts := by
    intro ts
    induction ts with
    | nil => intro _ _ _ _; rfl
    | cons t ts ih =>
      intro hf α α' h
      simp only [Terms.noFlat, Bool.and_eq_true] at hf
      simp only [termsVal]
      rw [termVal_congr W t hf.1 α α' (fun v hv => h v (by simp [Terms.vars, hv])),
        ih hf.2 α α' (fun v hv => h v (by simp [Terms.vars, hv]))]
  intro c
  induction c with
  | cmp op l r =>
    intro hf α α' h
    simp only [Cond.noFlat, Bool.and_eq_true] at hf
    simp only [denote]
    rw [termVal_congr W l hf.1 α α' (fun v hv => h v (by simp [Cond.vars, hv])),
      termVal_congr W r hf.2 α α' (fun v hv => h v (by simp [Cond.vars, hv]))]
  | truth inv t =>
    intro hf α α' h
    simp only [Cond.noFlat] at hf
    simp only [denote]
    rw [termVal_congr W t hf α α' (fun v hv => h v (by simp [Cond.vars, hv]))]
  | pred inv n args =>
    intro hf α α' h
    simp only [Cond.noFlat] at hf
    simp only [denote]
    rw [termsVal_congr args hf α α' (fun v hv => h v (by simp [Cond.vars, hv]))]
  | and l r ihl ihr =>
    intro hf α α' h
    simp only [Cond.noFlat, Bool.and_eq_true] at hf
    simp only [denote]
    rw [ihl hf.1 α α' (fun v hv => h v (by simp [Cond.vars, hv])),
      ihr hf.2 α α' (fun v hv => h v (by simp [Cond.vars, hv]))]
  | elseIf l r ihl ihr =>
    intro hf α α' h
    simp only [Cond.noFlat, Bool.and_eq_true] at hf
    simp only [denote]
    rw [ihl hf.1 α α' (fun v hv => h v (by simp [Cond.vars, hv])),
      ihr hf.2 α α' (fun v hv => h v (by simp [Cond.vars, hv]))]
  | sub sel c ih =>
    intro hf α α' h
    simp only [Cond.noFlat, Bool.and_eq_true] at hf
    simp only [denote]
    exact ih hf.1 α α' (fun v hv => h v (by simp [Cond.vars, hv]))

theorem foldl_filter_mem {γ δ : Type} (P : δ → γ → Bool) : ∀ (ps : List δ) (init : List γ) (d : γ),
    d ∈ ps.foldl (fun acc p => acc.filter (P p)) init ↔ (d ∈ init ∧ ∀ p ∈ ps, P p d = true) := by
  intro ps
  induction ps with
  | nil => intro init d; simp
  | cons p ps ih =>
    intro init d
    simp only [List.foldl_cons, ih, List.mem_filter, List.mem_cons, forall_eq_or_imp]
    constructor
    · rintro ⟨⟨h1, h2⟩, h3⟩; exact ⟨h1, h2, h3⟩
    · rintro ⟨h1, h2, h3⟩; exact ⟨⟨h1, h2⟩, h3⟩

/-- The canonical restriction of a total assignment. -/
def canonOf (ids : List VarId) (α : Asg V) : List (VarId × Option V) := ids.map fun k => (k, some (α k))

theorem mergeBack_canon (ids : List VarId) (α : Asg V) :
    mergeBack (canonOf ids α) ([] : Bnd V) = ids.map fun k => (k, α k) := by
  induction ids with
  | nil => rfl
  | cons k ks ih =>
    simp only [mergeBack, canonOf, List.map_cons, List.filterMap_cons, Option.map, List.append_nil] at ih ⊢
    rw [ih]

theorem lookup_map_ids (ids : List VarId) (α : Asg V) (k : VarId) :
    List.lookup k (ids.map fun k => (k, α k)) = if k ∈ ids then some (α k) else none := by
  induction ids with
  | nil => simp [List.lookup]
  | cons j js ih =>
    by_cases e : k = j
    · subst e; simp [List.lookup]
    · have : (k == j) = false := by simp [e]
      simp [List.lookup, this, ih, e]

theorem ext_map_ids (ids : List VarId) (α : Asg V) : Ext (ids.map fun k => (k, α k)) α := by
  intro v a h
  rw [lookup_map_ids] at h
  split at h
  · injection h
  · cases h

theorem mem_freeIds (c : Cond V) (u v : VarId) : v ∈ freeIds c u ↔ (v ∈ c.vars ∧ v ≠ u) := by
  simp [freeIds, List.mem_eraseDups]

/-- Updating the universal variable. -/
def upd (α : Asg V) (u : VarId) (o : V) : Asg V := fun v => if v = u then o else α v

variable [BEq V] [LawfulBEq V]

/-- Under one universal value, the restricted true outputs are exactly the canonical restrictions
    of the admissible assignments that satisfy the condition. -/
theorem sols_mem [Inhabited V] (u : VarId) (o : V) (ho : o ∈ D u) (c : Cond V) (hf : c.noFlat = true)
    (hu : Cond.uniformOr c) (d : List (VarId × Option V)) :
    d ∈ solsUnder W D c (freeIds c u) [(u, o)] ↔
      ∃ α, α u = o ∧ (∀ v ∈ c.vars, α v ∈ D v) ∧ denote W α c = true ∧ d = canonOf (freeIds c u) α := by
  have hsc := cond_sound_complete W D c hf
  have hbok : BOk D [(u, o)] := bok_cons (bok_nil D) ho
  simp only [solsUnder, List.mem_map, List.mem_filter]
  constructor
  · rintro ⟨q, ⟨hq, hq2⟩, rfl⟩
    have hq2' : q.2 = false := by simpa using hq2
    have hq' : (q.1, false) ∈ evalCond W D c [(u, o)] false := by
      have e : (q.1, false) = q := by rw [← hq2']
      rw [e]; exact hq
    have htot := true_output_total W D c hf hu [(u, o)] q.1 false hq'
    have hb := cond_bok W D c hf [(u, o)] q.1 false false hbok hq'
    refine ⟨asgOfBnd q.1, ?_, ?_, ?_, ?_⟩
    · have := (hsc.1 [(u, o)] q.1 false false hq').2 (asgOfBnd q.1) ?_ (ext_asgOfBnd q.1)
      · exact this.1 u o (lookup_cons_self [] u o)
      · intro v hv
        obtain ⟨a, ha⟩ := bound_iff.1 (htot v hv)
        simp only [asgOfBnd, ha, Option.getD_some]
        exact hb v a ha
    · intro v hv
      obtain ⟨a, ha⟩ := bound_iff.1 (htot v hv)
      simp only [asgOfBnd, ha, Option.getD_some]
      exact hb v a ha
    · have := (hsc.1 [(u, o)] q.1 false false hq').2 (asgOfBnd q.1) ?_ (ext_asgOfBnd q.1)
      · simpa using this.2
      · intro v hv
        obtain ⟨a, ha⟩ := bound_iff.1 (htot v hv)
        simp only [asgOfBnd, ha, Option.getD_some]
        exact hb v a ha
    · simp only [restrictTo, canonOf]
      apply List.map_congr_left
      intro k hk
      obtain ⟨a, ha⟩ := bound_iff.1 (htot k ((mem_freeIds c u k).1 hk).1)
      simp [asgOfBnd, ha]
  · rintro ⟨α, hαu, hv, hden, rfl⟩
    have hext : Ext [(u, o)] α := by
      intro v a h
      by_cases e : v = u
      · subst e; rw [lookup_cons_self] at h; injection h with h; rw [← h, hαu]
      · rw [lookup_cons_ne [] o e] at h; simp [List.lookup] at h
    obtain ⟨q, hq, he⟩ := hsc.2 [(u, o)] α false hext hv (Or.inr hden)
    have hs := (hsc.1 [(u, o)] q.1 q.2 false hq)
    have hq2 : q.2 = false := hs.1 rfl
    have hq' : (q.1, false) ∈ evalCond W D c [(u, o)] false := by
      have e : (q.1, false) = q := by rw [← hq2]
      rw [e]; exact hq
    have htot := true_output_total W D c hf hu [(u, o)] q.1 false hq'
    refine ⟨q, ⟨hq, by simp [hq2]⟩, ?_⟩
    simp only [restrictTo, canonOf]
    apply List.map_congr_left
    intro k hk
    obtain ⟨a, ha⟩ := bound_iff.1 (htot k ((mem_freeIds c u k).1 hk).1)
    rw [ha, he k a ha]

theorem bok_map_ids (ids : List VarId) (α : Asg V) (h : ∀ k ∈ ids, α k ∈ D k) :
    BOk D (ids.map fun k => (k, α k)) := by
  intro v a hv
  rw [lookup_map_ids] at hv
  split at hv
  · rename_i hm; injection hv with hv; rw [← hv]; exact h v hm
  · cases hv

theorem canonOf_inj (ids : List VarId) (α α' : Asg V) (h : canonOf ids α = canonOf ids α') :
    ∀ k ∈ ids, α k = α' k := by
  intro k hk
  have := List.map_inj_left.1 h k hk
  simpa using this

/-- **C10.** For a non-empty universal domain and a condition whose disjunctions are uniform,
    `for_all(u, c)` yields exactly the bindings of the other variables for which `c` is true for
    every value of `u` (projected on the selected expressions). -/
theorem c10_forall_uniform_partial [Inhabited V] (sel : List (Term V)) (u : VarId) (c : Cond V)
    (hf : c.noFlat = true) (hfs : Terms.noFlat sel = true) (hu : Cond.uniformOr c)
    (hD : D u ≠ []) (r : List V) :
    r ∈ rowsForAll W D sel none u c ↔
      ∃ α, (∀ v ∈ freeIds c u ++ Terms.vars sel, α v ∈ D v) ∧
           (∀ o ∈ D u, denote W (upd α u o) c = true) ∧ r = termsVal W α sel := by
  -- the universal values
  have huv : evalTerm W D (.var u) [] = (D u).map fun o => ([(u, o)], o) := by
    simp [evalTerm, List.lookup]
  -- membership in the final solution set = membership under every universal value
  have hfinal : ∀ d, d ∈ evalForAll W D u c [] ↔
      ∃ d0, (∀ o ∈ D u, d0 ∈ solsUnder W D c (freeIds c u) [(u, o)]) ∧ d = mergeBack d0 [] := by
    intro d
    simp only [evalForAll, huv]
    cases hDu : D u with
    | nil => exact absurd hDu hD
    | cons o1 os =>
      simp only [List.map_cons, List.mem_map]
      constructor
      · rintro ⟨d0, hd0, rfl⟩
        rw [foldl_filter_mem (fun (p' : Bnd V × V) d => (solsUnder W D c (freeIds c u) p'.1).contains d)] at hd0
        refine ⟨d0, ?_, rfl⟩
        intro o ho
        rcases List.mem_cons.1 ho with rfl | ho
        · exact hd0.1
        · have := hd0.2 ([(u, o)], o) (List.mem_map.2 ⟨o, ho, rfl⟩)
          simpa using this
      · rintro ⟨d0, hd0, rfl⟩
        refine ⟨d0, ?_, rfl⟩
        rw [foldl_filter_mem (fun (p' : Bnd V × V) d => (solsUnder W D c (freeIds c u) p'.1).contains d)]
        refine ⟨hd0 o1 List.mem_cons_self, ?_⟩
        intro p' hp'
        obtain ⟨o, ho, rfl⟩ := List.mem_map.1 hp'
        simpa using hd0 o (List.mem_cons_of_mem _ ho)
  simp only [rowsForAll, List.flatMap_cons, List.flatMap_nil, List.append_nil, List.mem_flatMap, List.mem_map]
  constructor
  · rintro ⟨β, hβ, q, hq, rfl⟩
    obtain ⟨d0, hd0, rfl⟩ := (hfinal β).1 hβ
    -- the witness of the first universal value fixes the canonical restriction
    obtain ⟨o1, ho1⟩ : ∃ o1, o1 ∈ D u := by
      cases hDu : D u with
      | nil => exact absurd hDu hD
      | cons o1 os => exact ⟨o1, List.mem_cons_self⟩
    obtain ⟨α1, _, hv1, _, rfl⟩ := (sols_mem W D u o1 ho1 c hf hu d0).1 (hd0 o1 ho1)
    rw [mergeBack_canon] at hq
    have hids : ∀ k ∈ freeIds c u, α1 k ∈ D k := fun k hk => hv1 k ((mem_freeIds c u k).1 hk).1
    have hb0 := bok_map_ids D (freeIds c u) α1 hids
    have hb := args_bok W D sel hfs _ q.1 q.2 hb0 hq
    have hs := args_sound W D sel hfs _ q.1 q.2 hq (asgOfBnd q.1) (ext_asgOfBnd q.1)
    have hsupp := args_supp W D sel hfs _ q.1 q.2 hq
    have hagree : ∀ k ∈ freeIds c u, asgOfBnd q.1 k = α1 k := by
      intro k hk
      have := hs.1 k (α1 k) (by rw [lookup_map_ids]; simp [hk])
      exact this
    refine ⟨asgOfBnd q.1, ?_, ?_, hs.2.symm⟩
    · intro v hv
      rcases List.mem_append.1 hv with hv | hv
      · rw [hagree v hv]; exact hids v hv
      · obtain ⟨a, ha⟩ := bound_iff.1 ((hsupp v).2 (Or.inr hv))
        simp only [asgOfBnd, ha, Option.getD_some]
        exact hb v a ha
    · intro o ho
      obtain ⟨αo, hαu, _, hden, hcan⟩ := (sols_mem W D u o ho c hf hu _).1 (hd0 o ho)
      rw [← hden]
      apply denote_congr W c hf
      intro v hv
      by_cases e : v = u
      · subst e; simp [upd, hαu]
      · have hm : v ∈ freeIds c u := (mem_freeIds c u v).2 ⟨hv, e⟩
        simp only [upd, e, if_false]
        rw [hagree v hm, canonOf_inj _ _ _ hcan v hm]
  · rintro ⟨α, hv, hall, rfl⟩
    have hids : ∀ k ∈ freeIds c u, α k ∈ D k := fun k hk => hv k (List.mem_append.2 (Or.inl hk))
    refine ⟨mergeBack (canonOf (freeIds c u) α) [], (hfinal _).2 ⟨canonOf (freeIds c u) α, ?_, rfl⟩, ?_⟩
    · intro o ho
      refine (sols_mem W D u o ho c hf hu _).2 ⟨upd α u o, by simp [upd], ?_, hall o ho, ?_⟩
      · intro v hvc
        by_cases e : v = u
        · subst e; simpa [upd] using ho
        · simp only [upd, e, if_false]; exact hids v ((mem_freeIds c u v).2 ⟨hvc, e⟩)
      · simp only [canonOf]
        apply List.map_congr_left
        intro k hk
        have : k ≠ u := ((mem_freeIds c u k).1 hk).2
        simp [upd, this]
    · rw [mergeBack_canon]
      obtain ⟨q, hq, he⟩ := args_complete W D sel hfs _ α (ext_map_ids (freeIds c u) α)
        (fun v hvs => hv v (List.mem_append.2 (Or.inr hvs)))
      exact ⟨q, hq, (args_sound W D sel hfs _ q.1 q.2 hq α he).2.symm⟩

/-- **Counter-witness to the unrestricted statement** (known finding C10-F1):
    `for_all(u, or_(x == u, y > 2))` with X = [1], Y = [3, 4], U = [1, 2].  For every value of `u`
    the condition holds of (x, y) = (1, 3) and (1, 4), but the evaluation returns nothing: the true
    output for u = 1 leaves `y` unbound, the one for u = 2 binds it, and the intersection compares
    bindings of different shapes. -/
theorem c10_nonuniform_witness :
    let D : VarId → List Nat := fun v => if v = 0 then [1] else if v = 1 then [3, 4] else [1, 2]
    let c : Cond Nat := .elseIf (.cmp .eq (.var 0) (.var 2)) (.cmp .gt (.var 1) (.lit 2))
    rowsForAll natWorld D [.var 0, .var 1] none 2 c = [] ∧
    (∀ o ∈ D 2, denote natWorld (upd (fun v => if v = 0 then 1 else 3) 2 o) c = true) ∧
    ¬ Cond.uniformOr c := by
  refine ⟨by decide, by decide, ?_⟩
  intro h
  have := (h.1 1).2 (by simp [Cond.vars, Term.vars])
  simp [Cond.vars, Term.vars] at this

/-- Non-vacuity of the partial theorem: a uniform condition relating the free and the universal
    variable, two universal values, a non-trivial answer. -/
example :
    let D : VarId → List Nat := fun v => if v = 0 then [1, 2, 3] else [1, 2]
    rowsForAll natWorld D [.var 0] none 1 (.cmp .ge (.var 0) (.var 1)) = [[2], [3]] := by decide

end Eql
