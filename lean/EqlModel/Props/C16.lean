/-
  C16 — `flatten` behaves as UNNEST: one row per inner element, correlated with its parent.

  `e = flatten(t)` where `t` (e.g. `p.items`) is an expression over the parent variable `p`;
  `items v` are the elements of a value (`is_iterable` else singleton).  LIST equalities (order:
  parents in domain order, then inner order; multiplicities kept):
    c16_unnest_pair        set_of([p, e])                 = [(p, x) | p ∈ parents, x ∈ items(t(p))]
    c16_unnest_elem        entity(e)                      = [x | p ∈ parents, x ∈ items(t(p))]
    c16_unnest_parent_cond set_of([p, e], c(p))           = the same, restricted to parents with c
    c16_unnest_elem_cond   set_of([p, e], e ⋈ k)          = the same, restricted to elements with ⋈ k
    c16_unnest_both_cond   set_of([p, e], and_(c(p), e ⋈ k)) = restricted to parents with c AND elements with ⋈ k
    c16_unnest_elem_vs_parent  set_of([p, e], e ⋈ t₂(p)) = per parent, the elements that compare with ITS value of t₂
    c16_nonempty_singleton a non-iterable value counts as a single element (given `items v = [v]`)
  Other combinations (disjunctions, overlapping collections) are covered by the correspondence check.  (`or_` over a repeated element inside ONE collection suppresses the
  duplicate: set equality only — measured, see DESIGN.)
-/
import EqlModel.Lemmas.Closed

namespace Eql
variable {V : Type}
variable (W : World V) (D : VarId → List V)

/-- The expression under `flatten` mentions the parent variable and nothing else. -/
structure FlatWF (p f : VarId) (t : Term V) : Prop where
  noFlat : t.noFlat = true
  vars : ∀ v ∈ t.vars, v = p
  nonempty : t.vars ≠ []
  fresh : f ≠ p

private theorem lookup_single_ne (p f : VarId) (o : V) (h : f ≠ p) :
    List.lookup f [(p, o)] = none := by
  have : (f == p) = false := by simp [h]
  simp [List.lookup, this]

private theorem term_under_parent (p f : VarId) (t : Term V) (h : FlatWF p f t) (o : V) :
    evalTerm W D t [(p, o)] = [([(p, o)], termVal W (constAsg o) t)] :=
  term_closed W D t h.noFlat [(p, o)] (constAsg o) (ext_single p o)
    (fun v hv => by rw [h.vars v hv]; exact bound_single p o)

/-- The inner elements of the parent `o`. -/
def inner (t : Term V) (o : V) : List V := W.items (termVal W (constAsg o) t)

private theorem lk_self (p : VarId) (o : V) (β : Bnd V) : List.lookup p ((p, o) :: β) = some o :=
  lookup_cons_self β p o

private theorem lk_under (p f : VarId) (o e : V) (h : f ≠ p) :
    List.lookup p [(f, e), (p, o)] = some o := by
  rw [lookup_cons_ne _ e (Ne.symm h)]; exact lookup_cons_self [] p o

/-- `flatten(t)` under a bound parent: one output per inner element. -/
private theorem flat_under_parent (p f : VarId) (t : Term V) (h : FlatWF p f t) (o : V) :
    evalTerm W D (.flatten f t) [(p, o)] =
      (inner W t o).map fun e => ([(f, e), (p, o)], e) := by
  simp only [evalTerm, lookup_single_ne p f o h.fresh, term_under_parent W D p f t h o,
    List.flatMap_cons, List.flatMap_nil, List.append_nil, inner]

/-- `flatten(t)` with nothing bound: parents in domain order, then inner order. -/
private theorem flat_unbound [Inhabited V] (p f : VarId) (t : Term V) (h : FlatWF p f t) :
    evalTerm W D (.flatten f t) [] =
      (D p).flatMap fun o => (inner W t o).map fun e => ([(f, e), (p, o)], e) := by
  have hl : List.lookup f ([] : Bnd V) = none := rfl
  simp only [evalTerm, hl, term_dist W D p t h.noFlat h.vars h.nonempty, List.flatMap_map, inner]

private theorem args_pair_under_parent (p f : VarId) (t : Term V) (h : FlatWF p f t) (o : V) :
    evalArgs W D [.var p, .flatten f t] [(p, o)] =
      (inner W t o).map fun e => ([(f, e), (p, o)], [o, e]) := by
  have h1 : evalTerm W D (.var p) [(p, o)] = [([(p, o)], o)] := by
    simp only [evalTerm, lk_self]
  simp only [evalArgs, h1, List.flatMap_cons, List.flatMap_nil, List.append_nil,
    flat_under_parent W D p f t h o, List.flatMap_map, List.map_cons, List.map_nil, List.map_flatMap]
  induction inner W t o with
  | nil => rfl
  | cons e es ih => simp [ih]

private theorem args_pair_under_both (p f : VarId) (t : Term V) (h : FlatWF p f t) (o e : V) :
    evalArgs W D [.var p, .flatten f t] [(f, e), (p, o)] = [([(f, e), (p, o)], [o, e])] := by
  have h1 : evalTerm W D (.var p) [(f, e), (p, o)] = [([(f, e), (p, o)], o)] := by
    simp only [evalTerm, lk_under p f o e h.fresh]
  have h2 : evalTerm W D (.flatten f t) [(f, e), (p, o)] = [([(f, e), (p, o)], e)] := by
    simp only [evalTerm, lk_self]
  simp only [evalArgs, h1, h2, List.flatMap_cons, List.flatMap_nil, List.append_nil, List.map_cons,
    List.map_nil]

private theorem map_snd_pairs (p f : VarId) (o : V) (es : List V) :
    (es.map fun e => (([(f, e), (p, o)] : Bnd V), [o, e])).map (·.2) = es.map fun e => [o, e] := by
  simp [List.map_map]

theorem c16_unnest_pair (p f : VarId) (t : Term V) (h : FlatWF p f t) :
    rows W D ⟨[.var p, .flatten f t], none⟩ =
      (D p).flatMap fun o => (inner W t o).map fun e => [o, e] := by
  have hl : List.lookup p ([] : Bnd V) = none := rfl
  simp only [rows, List.flatMap_cons, List.flatMap_nil, List.append_nil]
  -- unfold the first selected expression, keep the rest as evalArgs under the bound parent
  have hstep : evalArgs W D [.var p, .flatten f t] [] =
      (D p).flatMap fun o => evalArgs W D [.var p, .flatten f t] [(p, o)] := by
    have hv : ∀ o, evalTerm W D (.var p) [(p, o)] = [([(p, o)], o)] := by
      intro o; simp only [evalTerm, lk_self]
    simp only [evalArgs, evalTerm, hl, List.flatMap_map, lk_self, List.flatMap_cons, List.flatMap_nil,
      List.append_nil]
  rw [hstep, List.map_flatMap]
  apply flatMap_fun_congr
  intro o
  rw [args_pair_under_parent W D p f t h o, map_snd_pairs]

theorem c16_unnest_elem [Inhabited V] (p f : VarId) (t : Term V) (h : FlatWF p f t) :
    rows W D ⟨[.flatten f t], none⟩ = (D p).flatMap fun o => (inner W t o).map fun e => [e] := by
  simp only [rows, List.flatMap_cons, List.flatMap_nil, List.append_nil, evalArgs,
    flat_unbound W D p f t h, List.map_flatMap, List.flatMap_assoc, List.flatMap_map, List.map_cons,
    List.map_nil]
  apply flatMap_fun_congr
  intro o
  induction inner W t o with
  | nil => rfl
  | cons e es ih => simp [ih]

theorem c16_unnest_parent_cond [Inhabited V] (p f : VarId) (t : Term V) (h : FlatWF p f t)
    (c : Cond V) (hc : c.noFlat = true) (hs : Cond.single p c) :
    rows W D ⟨[.var p, .flatten f t], some c⟩ =
      ((D p).filter fun o => denote W (constAsg o) c).flatMap fun o =>
        (inner W t o).map fun e => [o, e] := by
  simp only [rows]
  rw [cond_dist W D p c hc hs false, List.flatMap_assoc]
  induction D p with
  | nil => rfl
  | cons o os ih =>
    rw [List.flatMap_cons, ih, List.filter_cons]
    rcases Bool.eq_false_or_eq_true (denote W (constAsg o) c) with hd | hd
    · simp only [singleOut, closedOut, hd, Bool.true_or, if_true, List.flatMap_cons, List.flatMap_nil,
        List.append_nil, args_pair_under_parent W D p f t h o, map_snd_pairs]
    · simp [singleOut, closedOut, hd]

theorem c16_unnest_elem_cond [Inhabited V] (p f : VarId) (t : Term V) (h : FlatWF p f t)
    (op : CmpOp) (k : V) :
    rows W D ⟨[.var p, .flatten f t], some (.cmp op (.flatten f t) (.lit k))⟩ =
      (D p).flatMap fun o => ((inner W t o).filter fun e => W.cmp op e k).map fun e => [o, e] := by
  have hrf : rightFirst ([] : Bnd V) (.lit k) = false := by simp [rightFirst, Term.vars]
  have hlit : ∀ β : Bnd V, evalTerm W D (.lit k) β = [(β, k)] := fun β => rfl
  simp only [rows, evalCond, hrf, Bool.false_eq_true, if_false, flat_unbound W D p f t h, hlit,
    List.flatMap_assoc, List.flatMap_map, List.flatMap_cons, List.flatMap_nil, List.append_nil,
    Bool.or_false]
  apply flatMap_fun_congr
  intro o
  induction inner W t o with
  | nil => rfl
  | cons e es ih =>
    rw [List.flatMap_cons, ih, List.filter_cons]
    rcases Bool.eq_false_or_eq_true (W.cmp op e k) with hc | hc
    · simp [hc, args_pair_under_both W D p f t h o e]
    · simp [hc]

/-- The element condition under a bound parent: one true output per qualifying element. -/
private theorem elem_cond_under_parent (p f : VarId) (t : Term V) (h : FlatWF p f t) (op : CmpOp) (k : V) (o : V) :
    evalCond W D (.cmp op (.flatten f t) (.lit k)) [(p, o)] false =
      ((inner W t o).filter fun e => W.cmp op e k).map fun e => ([(f, e), (p, o)], false) := by
  have hrf : rightFirst ([(p, o)] : Bnd V) (.lit k) = false := by simp [rightFirst, Term.vars]
  have hlit : ∀ β : Bnd V, evalTerm W D (.lit k) β = [(β, k)] := fun β => rfl
  simp only [evalCond, hrf, Bool.false_eq_true, if_false, flat_under_parent W D p f t h o, hlit,
    List.flatMap_map, List.flatMap_cons, List.flatMap_nil, List.append_nil, Bool.or_false]
  induction inner W t o with
  | nil => rfl
  | cons e es ih =>
    rw [List.flatMap_cons, ih, List.filter_cons]
    rcases Bool.eq_false_or_eq_true (W.cmp op e k) with hc | hc
    · simp [hc]
    · simp [hc]

/-- Conditions on the parent AND on the element: `set_of([p, e], and_(c(p), e ⋈ k))`. -/
theorem c16_unnest_both_cond [Inhabited V] (p f : VarId) (t : Term V) (h : FlatWF p f t)
    (c : Cond V) (hc : c.noFlat = true) (hs : Cond.single p c) (op : CmpOp) (k : V) :
    rows W D ⟨[.var p, .flatten f t], some (.and c (.cmp op (.flatten f t) (.lit k)))⟩ =
      ((D p).filter fun o => denote W (constAsg o) c).flatMap fun o =>
        ((inner W t o).filter fun e => W.cmp op e k).map fun e => [o, e] := by
  have hand : evalCond W D (.and c (.cmp op (.flatten f t) (.lit k))) [] false =
      (evalCond W D c [] false).flatMap fun q => evalCond W D (.cmp op (.flatten f t) (.lit k)) q.1 false := by
    rw [evalCond]; simp
  simp only [rows, hand]
  rw [cond_dist W D p c hc hs false, List.flatMap_assoc, List.flatMap_assoc]
  induction D p with
  | nil => rfl
  | cons o os ih =>
    rw [List.flatMap_cons, ih, List.filter_cons]
    rcases Bool.eq_false_or_eq_true (denote W (constAsg o) c) with hd | hd
    · simp only [singleOut, closedOut, hd, Bool.true_or, if_true, List.flatMap_cons, List.flatMap_nil,
        List.append_nil, elem_cond_under_parent W D p f t h op k o, List.flatMap_map]
      congr 1
      induction (inner W t o).filter fun e => W.cmp op e k with
      | nil => rfl
      | cons e es ih2 =>
        simp only [List.flatMap_cons, List.map_cons, ih2, args_pair_under_both W D p f t h o e,
          List.map_nil, List.singleton_append]
    · simp [singleOut, closedOut, hd]

/-- The element compared with an expression over its OWN parent: `set_of([p, e], e ⋈ t₂(p))` keeps, for
    each parent, the elements that compare with that parent's value. -/
theorem c16_unnest_elem_vs_parent [Inhabited V] (p f : VarId) (t t2 : Term V) (h : FlatWF p f t)
    (h2 : FlatWF p f t2) (op : CmpOp) :
    rows W D ⟨[.var p, .flatten f t], some (.cmp op (.flatten f t) t2)⟩ =
      (D p).flatMap fun o =>
        ((inner W t o).filter fun e => W.cmp op e (termVal W (constAsg o) t2)).map fun e => [o, e] := by
  have hrf : rightFirst ([] : Bnd V) t2 = false := by
    simp only [rightFirst, List.any_eq_false]
    intro v _; simp [bound, List.lookup]
  -- the right operand with parent and element bound
  have hr : ∀ o e, evalTerm W D t2 [(f, e), (p, o)] = [([(f, e), (p, o)], termVal W (constAsg o) t2)] := by
    intro o e
    refine term_closed_on W D t2 h2.noFlat [(f, e), (p, o)] (constAsg o) ?_
    intro v hv
    rw [h2.vars v hv, lk_under p f o e h.fresh]
    rfl
  simp only [rows, evalCond, hrf, Bool.false_eq_true, if_false, flat_unbound W D p f t h,
    List.flatMap_assoc, List.flatMap_map, hr, List.flatMap_cons, List.flatMap_nil, List.append_nil,
    Bool.or_false]
  apply flatMap_fun_congr
  intro o
  induction inner W t o with
  | nil => rfl
  | cons e es ih =>
    rw [List.flatMap_cons, ih, List.filter_cons]
    rcases Bool.eq_false_or_eq_true (W.cmp op e (termVal W (constAsg o) t2)) with hc | hc
    · simp [hc, args_pair_under_both W D p f t h o e]
    · simp [hc]

/-- A non-iterable value counts as a single element. -/
theorem c16_nonempty_singleton (p f : VarId) (t : Term V) (h : FlatWF p f t)
    (hitems : ∀ o ∈ D p, W.items (termVal W (constAsg o) t) = [termVal W (constAsg o) t]) :
    rows W D ⟨[.var p, .flatten f t], none⟩ = (D p).map fun o => [o, termVal W (constAsg o) t] := by
  rw [c16_unnest_pair W D p f t h]
  have key : ∀ l : List V, (∀ o ∈ l, W.items (termVal W (constAsg o) t) = [termVal W (constAsg o) t]) →
      (l.flatMap fun o => (inner W t o).map fun e => [o, e]) = l.map fun o => [o, termVal W (constAsg o) t] := by
    intro l
    induction l with
    | nil => intro _; rfl
    | cons o os ih =>
      intro hl
      have ih' := ih (fun o' ho' => hl o' (List.mem_cons_of_mem _ ho'))
      have ho : inner W t o = [termVal W (constAsg o) t] := hl o List.mem_cons_self
      rw [List.flatMap_cons, ih', ho]
      rfl
  exact key (D p) hitems

end Eql
