/-
  C16 — `flatten` behaves as UNNEST: one row per inner element, correlated with its parent.

  `e = flatten(t)` where `t` (e.g. `p.items`) is an expression over the parent variable `p`;
  `items v` are the elements of a value (`is_iterable` else singleton).  LIST equalities (order:
  parents in domain order, then inner order; multiplicities kept):
    c16_unnest_pair        set_of([p, e])                 = [(p, x) | p ∈ parents, x ∈ items(t(p))]
    c16_unnest_elem        entity(e)                      = [x | p ∈ parents, x ∈ items(t(p))]
    c16_unnest_parent_cond set_of([p, e], c(p))           = the same, restricted to parents with c
    c16_unnest_elem_cond   set_of([p, e], e ⋈ k)          = the same, restricted to elements with ⋈ k
    c16_unnest_both_cond   set_of([p, e], and_(c(p), e ⋈ k)) = restricted to parents with c AND elements with ⋈ k
    c16_unnest_elem_vs_parent  set_of([p, e], e ⋈ t₂(p)) = per parent, the elements that compare with ITS value of t₂
    c16_nonempty_singleton a non-iterable value counts as a single element (given `items v = [v]`)
  ANY condition and selection (set level, `Lemmas/Flat.lean`: the soundness / completeness lemmas of the L1
  evaluator re-proved WITH flatten nodes - an assignment also gives every flatten node the element it stands
  for, admissible when that element belongs to the collection its operand denotes under the same assignment):
    c16_unnest_complete_general   no (parent, element, …) combination is lost: every admissible assignment that
                                  satisfies the condition contributes its row
    c16_unnest_sound_general      every row comes from one output binding and equals the selected values under
                                  EVERY admissible assignment extending it, which satisfies the condition
                                  (elements stay correlated with their parents: one binding carries both)
    c16_unnest_rows_iff           THE EQUIVALENCE, for every condition whose disjunctions bind the same ids on
                                  both sides (`Cond.uniformB`): a row is produced iff some admissible
                                  assignment satisfies the condition and the row is the selected values under
                                  it.  The forward witness is the output binding itself: `Lemmas/FlatAdm.lean`
                                  proves that evaluation only ever produces admissible bindings (`Adm`:
                                  variables hold members of their domains, flatten nodes hold elements of
                                  what their operand denotes under the SAME binding) and that a true output
                                  binds every id of a uniform condition.
  Multiplicities of other combinations (disjunctions, overlapping collections) are covered by the correspondence check.  (`or_` over a repeated element inside ONE collection suppresses the
  duplicate: set equality only — measured, see DESIGN.)
    c16_same_element_twice / c16_pred_same_element   two arguments that are the SAME flatten node are the same element
                          (the second is read from the binding the first made), so a predicate P(e, e) is decided on
                          (e, e) and never pairs an element with a sibling - under every incoming binding
-/
import EqlModel.Lemmas.Closed
import EqlModel.Lemmas.Flat
import EqlModel.Lemmas.FlatAdm

namespace Eql
variable {V : Type}
variable (W : World V) (D : VarId → List V)

/-- The expression under `flatten` mentions the parent variable and nothing else. -/
structure FlatWF (p f : VarId) (t : Term V) : Prop where
  noFlat : t.noFlat = true
  vars : ∀ v ∈ t.vars, v = p
  nonempty : t.vars ≠ []
  fresh : f ≠ p

private theorem lookup_single_ne (p f : VarId) (o : V) (h : f ≠ p) :
    List.lookup f [(p, o)] = none := by
  have : (f == p) = false := by simp [h]
  simp [List.lookup, this]

private theorem term_under_parent (p f : VarId) (t : Term V) (h : FlatWF p f t) (o : V) :
    evalTerm W D t [(p, o)] = [([(p, o)], termVal W (constAsg o) t)] :=
  term_closed W D t h.noFlat [(p, o)] (constAsg o) (ext_single p o)
    (fun v hv => by rw [h.vars v hv]; exact bound_single p o)

/-- The inner elements of the parent `o`. -/
def inner (t : Term V) (o : V) : List V := W.items (termVal W (constAsg o) t)

private theorem lk_self (p : VarId) (o : V) (β : Bnd V) : List.lookup p ((p, o) :: β) = some o :=
  lookup_cons_self β p o

private theorem lk_under (p f : VarId) (o e : V) (h : f ≠ p) :
    List.lookup p [(f, e), (p, o)] = some o := by
  rw [lookup_cons_ne _ e (Ne.symm h)]; exact lookup_cons_self [] p o

/-- `flatten(t)` under a bound parent: one output per inner element. -/
private theorem flat_under_parent (p f : VarId) (t : Term V) (h : FlatWF p f t) (o : V) :
    evalTerm W D (.flatten f t) [(p, o)] =
      (inner W t o).map fun e => ([(f, e), (p, o)], e) := by
  simp only [evalTerm, lookup_single_ne p f o h.fresh, term_under_parent W D p f t h o,
    List.flatMap_cons, List.flatMap_nil, List.append_nil, inner]

/-- `flatten(t)` with nothing bound: parents in domain order, then inner order. -/
private theorem flat_unbound [Inhabited V] (p f : VarId) (t : Term V) (h : FlatWF p f t) :
    evalTerm W D (.flatten f t) [] =
      (D p).flatMap fun o => (inner W t o).map fun e => ([(f, e), (p, o)], e) := by
  have hl : List.lookup f ([] : Bnd V) = none := rfl
  simp only [evalTerm, hl, term_dist W D p t h.noFlat h.vars h.nonempty, List.flatMap_map, inner]

private theorem args_pair_under_parent (p f : VarId) (t : Term V) (h : FlatWF p f t) (o : V) :
    evalArgs W D [.var p, .flatten f t] [(p, o)] =
      (inner W t o).map fun e => ([(f, e), (p, o)], [o, e]) := by
  have h1 : evalTerm W D (.var p) [(p, o)] = [([(p, o)], o)] := by
    simp only [evalTerm, lk_self]
  simp only [evalArgs, h1, List.flatMap_cons, List.flatMap_nil, List.append_nil,
    flat_under_parent W D p f t h o, List.flatMap_map, List.map_cons, List.map_nil, List.map_flatMap]
  induction inner W t o with
  | nil => rfl
  | cons e es ih => simp [ih]

private theorem args_pair_under_both (p f : VarId) (t : Term V) (h : FlatWF p f t) (o e : V) :
    evalArgs W D [.var p, .flatten f t] [(f, e), (p, o)] = [([(f, e), (p, o)], [o, e])] := by
  have h1 : evalTerm W D (.var p) [(f, e), (p, o)] = [([(f, e), (p, o)], o)] := by
    simp only [evalTerm, lk_under p f o e h.fresh]
  have h2 : evalTerm W D (.flatten f t) [(f, e), (p, o)] = [([(f, e), (p, o)], e)] := by
    simp only [evalTerm, lk_self]
  simp only [evalArgs, h1, h2, List.flatMap_cons, List.flatMap_nil, List.append_nil, List.map_cons,
    List.map_nil]

private theorem map_snd_pairs (p f : VarId) (o : V) (es : List V) :
    (es.map fun e => (([(f, e), (p, o)] : Bnd V), [o, e])).map (·.2) = es.map fun e => [o, e] := by
  simp [List.map_map]

theorem c16_unnest_pair (p f : VarId) (t : Term V) (h : FlatWF p f t) :
    rows W D ⟨[.var p, .flatten f t], none⟩ =
      (D p).flatMap fun o => (inner W t o).map fun e => [o, e] := by
  have hl : List.lookup p ([] : Bnd V) = none := rfl
  simp only [rows, List.flatMap_cons, List.flatMap_nil, List.append_nil]
  -- unfold the first selected expression, keep the rest as evalArgs under the bound parent
  have hstep : evalArgs W D [.var p, .flatten f t] [] =
      (D p).flatMap fun o => evalArgs W D [.var p, .flatten f t] [(p, o)] := by
    have hv : ∀ o, evalTerm W D (.var p) [(p, o)] = [([(p, o)], o)] := by
      intro o; simp only [evalTerm, lk_self]
    simp only [evalArgs, evalTerm, hl, List.flatMap_map, lk_self, List.flatMap_cons, List.flatMap_nil,
      List.append_nil]
  rw [hstep, List.map_flatMap]
  apply flatMap_fun_congr
  intro o
  rw [args_pair_under_parent W D p f t h o, map_snd_pairs]

theorem c16_unnest_elem [Inhabited V] (p f : VarId) (t : Term V) (h : FlatWF p f t) :
    rows W D ⟨[.flatten f t], none⟩ = (D p).flatMap fun o => (inner W t o).map fun e => [e] := by
  simp only [rows, List.flatMap_cons, List.flatMap_nil, List.append_nil, evalArgs,
    flat_unbound W D p f t h, List.map_flatMap, List.flatMap_assoc, List.flatMap_map, List.map_cons,
    List.map_nil]
  apply flatMap_fun_congr
  intro o
  induction inner W t o with
  | nil => rfl
  | cons e es ih => simp [ih]

theorem c16_unnest_parent_cond [Inhabited V] (p f : VarId) (t : Term V) (h : FlatWF p f t)
    (c : Cond V) (hc : c.noFlat = true) (hs : Cond.single p c) :
    rows W D ⟨[.var p, .flatten f t], some c⟩ =
      ((D p).filter fun o => denote W (constAsg o) c).flatMap fun o =>
        (inner W t o).map fun e => [o, e] := by
  simp only [rows]
  rw [cond_dist W D p c hc hs false, List.flatMap_assoc]
  induction D p with
  | nil => rfl
  | cons o os ih =>
    rw [List.flatMap_cons, ih, List.filter_cons]
    rcases Bool.eq_false_or_eq_true (denote W (constAsg o) c) with hd | hd
    · simp only [singleOut, closedOut, hd, Bool.true_or, if_true, List.flatMap_cons, List.flatMap_nil,
        List.append_nil, args_pair_under_parent W D p f t h o, map_snd_pairs]
    · simp [singleOut, closedOut, hd]

theorem c16_unnest_elem_cond [Inhabited V] (p f : VarId) (t : Term V) (h : FlatWF p f t)
    (op : CmpOp) (k : V) :
    rows W D ⟨[.var p, .flatten f t], some (.cmp op (.flatten f t) (.lit k))⟩ =
      (D p).flatMap fun o => ((inner W t o).filter fun e => W.cmp op e k).map fun e => [o, e] := by
  have hrf : rightFirst ([] : Bnd V) (.lit k) = false := by simp [rightFirst, Term.vars]
  have hlit : ∀ β : Bnd V, evalTerm W D (.lit k) β = [(β, k)] := fun β => rfl
  simp only [rows, evalCond, hrf, Bool.false_eq_true, if_false, flat_unbound W D p f t h, hlit,
    List.flatMap_assoc, List.flatMap_map, List.flatMap_cons, List.flatMap_nil, List.append_nil,
    Bool.or_false]
  apply flatMap_fun_congr
  intro o
  induction inner W t o with
  | nil => rfl
  | cons e es ih =>
    rw [List.flatMap_cons, ih, List.filter_cons]
    rcases Bool.eq_false_or_eq_true (W.cmp op e k) with hc | hc
    · simp [hc, args_pair_under_both W D p f t h o e]
    · simp [hc]

/-- The element condition under a bound parent: one true output per qualifying element. -/
private theorem elem_cond_under_parent (p f : VarId) (t : Term V) (h : FlatWF p f t) (op : CmpOp) (k : V) (o : V) :
    evalCond W D (.cmp op (.flatten f t) (.lit k)) [(p, o)] false =
      ((inner W t o).filter fun e => W.cmp op e k).map fun e => ([(f, e), (p, o)], false) := by
  have hrf : rightFirst ([(p, o)] : Bnd V) (.lit k) = false := by simp [rightFirst, Term.vars]
  have hlit : ∀ β : Bnd V, evalTerm W D (.lit k) β = [(β, k)] := fun β => rfl
  simp only [evalCond, hrf, Bool.false_eq_true, if_false, flat_under_parent W D p f t h o, hlit,
    List.flatMap_map, List.flatMap_cons, List.flatMap_nil, List.append_nil, Bool.or_false]
  induction inner W t o with
  | nil => rfl
  | cons e es ih =>
    rw [List.flatMap_cons, ih, List.filter_cons]
    rcases Bool.eq_false_or_eq_true (W.cmp op e k) with hc | hc
    · simp [hc]
    · simp [hc]

/-- Conditions on the parent AND on the element: `set_of([p, e], and_(c(p), e ⋈ k))`. -/
theorem c16_unnest_both_cond [Inhabited V] (p f : VarId) (t : Term V) (h : FlatWF p f t)
    (c : Cond V) (hc : c.noFlat = true) (hs : Cond.single p c) (op : CmpOp) (k : V) :
    rows W D ⟨[.var p, .flatten f t], some (.and c (.cmp op (.flatten f t) (.lit k)))⟩ =
      ((D p).filter fun o => denote W (constAsg o) c).flatMap fun o =>
        ((inner W t o).filter fun e => W.cmp op e k).map fun e => [o, e] := by
  have hand : evalCond W D (.and c (.cmp op (.flatten f t) (.lit k))) [] false =
      (evalCond W D c [] false).flatMap fun q => evalCond W D (.cmp op (.flatten f t) (.lit k)) q.1 false := by
    rw [evalCond]; simp
  simp only [rows, hand]
  rw [cond_dist W D p c hc hs false, List.flatMap_assoc, List.flatMap_assoc]
  induction D p with
  | nil => rfl
  | cons o os ih =>
    rw [List.flatMap_cons, ih, List.filter_cons]
    rcases Bool.eq_false_or_eq_true (denote W (constAsg o) c) with hd | hd
    · simp only [singleOut, closedOut, hd, Bool.true_or, if_true, List.flatMap_cons, List.flatMap_nil,
        List.append_nil, elem_cond_under_parent W D p f t h op k o, List.flatMap_map]
      congr 1
      induction (inner W t o).filter fun e => W.cmp op e k with
      | nil => rfl
      | cons e es ih2 =>
        simp only [List.flatMap_cons, List.map_cons, ih2, args_pair_under_both W D p f t h o e,
          List.map_nil, List.singleton_append]
    · simp [singleOut, closedOut, hd]

/-- The element compared with an expression over its OWN parent: `set_of([p, e], e ⋈ t₂(p))` keeps, for
    each parent, the elements that compare with that parent's value. -/
theorem c16_unnest_elem_vs_parent [Inhabited V] (p f : VarId) (t t2 : Term V) (h : FlatWF p f t)
    (h2 : FlatWF p f t2) (op : CmpOp) :
    rows W D ⟨[.var p, .flatten f t], some (.cmp op (.flatten f t) t2)⟩ =
      (D p).flatMap fun o =>
        ((inner W t o).filter fun e => W.cmp op e (termVal W (constAsg o) t2)).map fun e => [o, e] := by
  have hrf : rightFirst ([] : Bnd V) t2 = false := by
    simp only [rightFirst, List.any_eq_false]
    intro v _; simp [bound, List.lookup]
  -- the right operand with parent and element bound
  have hr : ∀ o e, evalTerm W D t2 [(f, e), (p, o)] = [([(f, e), (p, o)], termVal W (constAsg o) t2)] := by
    intro o e
    refine term_closed_on W D t2 h2.noFlat [(f, e), (p, o)] (constAsg o) ?_
    intro v hv
    rw [h2.vars v hv, lk_under p f o e h.fresh]
    rfl
  simp only [rows, evalCond, hrf, Bool.false_eq_true, if_false, flat_unbound W D p f t h,
    List.flatMap_assoc, List.flatMap_map, hr, List.flatMap_cons, List.flatMap_nil, List.append_nil,
    Bool.or_false]
  apply flatMap_fun_congr
  intro o
  induction inner W t o with
  | nil => rfl
  | cons e es ih =>
    rw [List.flatMap_cons, ih, List.filter_cons]
    rcases Bool.eq_false_or_eq_true (W.cmp op e (termVal W (constAsg o) t2)) with hc | hc
    · simp [hc, args_pair_under_both W D p f t h o e]
    · simp [hc]

/-- A non-iterable value counts as a single element. -/
theorem c16_nonempty_singleton (p f : VarId) (t : Term V) (h : FlatWF p f t)
    (hitems : ∀ o ∈ D p, W.items (termVal W (constAsg o) t) = [termVal W (constAsg o) t]) :
    rows W D ⟨[.var p, .flatten f t], none⟩ = (D p).map fun o => [o, termVal W (constAsg o) t] := by
  rw [c16_unnest_pair W D p f t h]
  have key : ∀ l : List V, (∀ o ∈ l, W.items (termVal W (constAsg o) t) = [termVal W (constAsg o) t]) →
      (l.flatMap fun o => (inner W t o).map fun e => [o, e]) = l.map fun o => [o, termVal W (constAsg o) t] := by
    intro l
    induction l with
    | nil => intro _; rfl
    | cons o os ih =>
      intro hl
      have ih' := ih (fun o' ho' => hl o' (List.mem_cons_of_mem _ ho'))
      have ho : inner W t o = [termVal W (constAsg o) t] := hl o List.mem_cons_self
      rw [List.flatMap_cons, ih', ho]
      rfl
  exact key (D p) hitems

/-! ### Any condition, any selection (set level) -/

/-- **C16, completeness for every query with flatten nodes.**  Whatever the condition (conjunctions,
    disjunctions, negations at the leaves, sub-queries, comparisons between elements, parents and other
    variables) and whatever is selected: every assignment of the variables to members of their domains
    and of the flatten nodes to ELEMENTS OF THEIR PARENT'S COLLECTION (`CondOk`, `TermsOk`) that satisfies
    the condition contributes its row - no (parent, element) combination is lost. -/
theorem c16_unnest_complete_general (q : Query V) (c : Cond V) (hq : q.cond = some c)
    (hc : Cond.okF c = true) (hs : Terms.okF q.sel = true) (α : Asg V)
    (hadm : CondOk W D α c) (hsel : TermsOk W D α q.sel) (hden : denote W α c = true) :
    termsVal W α q.sel ∈ rows W D q := by
  obtain ⟨p, hp, hpe⟩ := (cond_sound_complete_f W D c hc).2 [] α false (ext_nil α) hadm (Or.inr hden)
  obtain ⟨s, hsm, hse⟩ := args_complete_f W D q.sel hs p.1 α hpe hsel
  have := (args_sound_f W D q.sel hs p.1 s.1 s.2 hsm α hse).2
  simp only [rows, hq, List.mem_flatMap, List.mem_map]
  exact ⟨p, hp, s, hsm, this.symm⟩

/-- **C16, soundness for every query with flatten nodes.**  Every row comes from ONE output binding - the
    parent, the element of each flatten node and the other variables are bound together - and under every
    admissible assignment that extends it the condition holds and the row is the selected values: elements
    stay correlated with their parents, nothing is invented. -/
theorem c16_unnest_sound_general (q : Query V) (c : Cond V) (hq : q.cond = some c)
    (hc : Cond.okF c = true) (hs : Terms.okF q.sel = true) (r : List V) (hr : r ∈ rows W D q) :
    ∃ β : Bnd V, ∀ α, CondOk W D α c → Ext β α → denote W α c = true ∧ r = termsVal W α q.sel := by
  simp only [rows, hq, List.mem_flatMap, List.mem_map] at hr
  obtain ⟨p, hp, s, hsm, rfl⟩ := hr
  refine ⟨s.1, ?_⟩
  intro α hadm hext
  have h2 := args_sound_f W D q.sel hs p.1 s.1 s.2 hsm α hext
  have hsc := (cond_sound_complete_f W D c hc).1 [] p.1 p.2 false hp
  have hp2 : p.2 = false := hsc.1 rfl
  have h1 := hsc.2 α hadm h2.1
  exact ⟨by rw [h1.2, hp2]; rfl, h2.2.symm⟩

/-- The element a flatten node is bound to IS an element of its operand's value (one output per element). -/
theorem c16_flatten_binds_an_element (id : VarId) (t : Term V) (ht : (Term.flatten id t).okF = true)
    (β β' : Bnd V) (e : V) (hfree : β.lookup id = none) (h : (β', e) ∈ evalTerm W D (.flatten id t) β) :
    β'.lookup id = some e ∧ ∀ α, Ext β' α → e ∈ W.items (termVal W α t) := by
  simp only [Term.okF, Bool.and_eq_true] at ht
  simp only [evalTerm, hfree, List.mem_flatMap, List.mem_map] at h
  obtain ⟨p, hp, e', he', heq⟩ := h
  cases heq
  refine ⟨lookup_cons_self _ _ _, ?_⟩
  intro α hα
  have hfr : p.1.lookup id = none := by
    cases hp1 : p.1.lookup id with
    | none => rfl
    | some b =>
      exfalso
      have hb : bound p.1 id = true := by simp [bound, hp1]
      rcases term_binds_f W D t ht.1 β p.1 p.2 hp id hb with h1 | h1
      · simp [bound, hfree] at h1
      · have := ht.2; simp at this; exact this h1
  have hx := (ext_cons_fresh hfr).1 hα
  rw [(term_sound_f W D t ht.1 β p.1 p.2 hp α hx.2).2]
  exact he'

/-- **C16 as an equivalence, for every query whose disjunctions bind the same ids on both sides.**
    A row is produced IF AND ONLY IF some assignment gives every variable a member of its domain and every
    flatten node an ELEMENT OF THE COLLECTION ITS OPERAND DENOTES UNDER THE SAME ASSIGNMENT (so elements
    are paired with their own parent), satisfies the condition, and the row is the selected values under
    it.  `Sh` says which ids are variables and which are flatten nodes (each with one operand).
    The witness of the forward direction is the output binding itself (`Lemmas/FlatAdm.lean`). -/
theorem c16_unnest_rows_iff [Inhabited V] (Sh : Shape V) (q : Query V) (c : Cond V) (hq : q.cond = some c)
    (hc : Cond.okF c = true) (hs : Terms.okF q.sel = true) (hcs : Cond.shaped Sh c)
    (hss : Terms.shaped Sh q.sel) (hu : Cond.uniformB c) (r : List V) :
    r ∈ rows W D q ↔
      ∃ α : Asg V, CondOk W D α c ∧ TermsOk W D α q.sel ∧ denote W α c = true ∧ r = termsVal W α q.sel := by
  constructor
  · intro hr
    simp only [rows, hq, List.mem_flatMap, List.mem_map] at hr
    obtain ⟨p, hp, s, hsm, rfl⟩ := hr
    have hsc := (cond_sound_complete_f W D c hc).1 [] p.1 p.2 false hp
    have hp2 : p.2 = false := hsc.1 rfl
    have hadm1 : Adm W D Sh p.1 := cond_adm W D Sh c hc hcs [] p.1 p.2 false (adm_nil W D Sh) hp
    have hadm2 : Adm W D Sh s.1 := args_adm W D Sh q.sel hs hss p.1 s.1 s.2 hadm1 hsm
    have hsub := args_sub_f W D q.sel hs p.1 s.1 s.2 hsm
    have hp' : (p.1, false) ∈ evalCond W D c [] false := by
      have e : p = (p.1, false) := by rw [← hp2]
      rw [← e]; exact hp
    have hb1 : ∀ v ∈ c.binds, bound s.1 v = true := fun v hv =>
      bound_of_sub hsub (true_output_total_f W D Sh c hc hcs hu [] p.1 false (adm_nil W D Sh)
        hp' v hv)
    have hb2 := args_covers_f W D Sh q.sel hs hss p.1 s.1 s.2 hadm1 hsm
    have hext := ext_asgOf s.1
    have hok := condOk_of_bound W D Sh c hcs s.1 hadm2 hb1 (asgOf s.1) hext
    have h2 := args_sound_f W D q.sel hs p.1 s.1 s.2 hsm (asgOf s.1) hext
    have h1 := hsc.2 (asgOf s.1) hok h2.1
    exact ⟨asgOf s.1, hok, termsOk_of_bound W D Sh q.sel hss s.1 hadm2 hb2 (asgOf s.1) hext,
      by rw [h1.2, hp2]; rfl, h2.2.symm⟩
  · rintro ⟨α, hadm, hsel, hden, rfl⟩
    exact c16_unnest_complete_general W D q c hq hc hs α hadm hsel hden

/-- The hypotheses of `c16_unnest_rows_iff` are satisfiable:
    `set_of([p, e], e == 3 or contains(e, p))` with `e = flatten(p.xs)`. -/
example :
    let e : Term Nat := .flatten 1 (.attr "xs" (.var 0))
    let c : Cond Nat := .elseIf (.cmp .eq e (.lit 3)) (.pred false "contains" [e, .var 0])
    let Sh : Shape Nat := fun id => if id = 1 then some (.attr "xs" (.var 0)) else none
    Cond.okF c = true ∧ Terms.okF [.var 0, e] = true ∧ Cond.shaped Sh c ∧ Terms.shaped Sh [.var 0, e] ∧
      Cond.uniformB c := by
  refine ⟨by decide, by decide, ?_, ?_, ?_⟩
  · simp [Cond.shaped, Terms.shaped, Term.shaped]
  · simp [Terms.shaped, Term.shaped]
  · simp [Cond.uniformB, Cond.binds, Terms.binds, Term.binds]

/-- Every output of a flatten node carries the node's own binding: the element it yields. -/
theorem flatten_binds_self (id : VarId) (t : Term V) (β : Bnd V) :
    ∀ p ∈ evalTerm W D (.flatten id t) β, p.1.lookup id = some p.2 := by
  intro p hp
  simp only [evalTerm] at hp
  cases hl : β.lookup id with
  | some a =>
    rw [hl] at hp
    simp only [List.mem_singleton] at hp
    subst hp; exact hl
  | none =>
    rw [hl] at hp
    simp only [List.mem_flatMap, List.mem_map] at hp
    obtain ⟨q, _, e, _, rfl⟩ := hp
    exact lookup_cons_self _ _ _

/-- **C16, the same flattened element used twice.**  Two arguments that are the SAME flatten node
    (`P(e, e)` with `e = flatten(p.items)`) are evaluated one after the other, the second under the
    binding the first one made: it is the same element, never a sibling - under every incoming binding. -/
theorem c16_same_element_twice (id : VarId) (t : Term V) (β : Bnd V) :
    evalArgs W D [.flatten id t, .flatten id t] β =
      (evalTerm W D (.flatten id t) β).map fun p => (p.1, [p.2, p.2]) := by
  have hself := flatten_binds_self W D id t β
  simp only [evalArgs]
  generalize evalTerm W D (.flatten id t) β = outs at hself ⊢
  induction outs with
  | nil => rfl
  | cons p ps ih =>
    have hp : p.1.lookup id = some p.2 := hself p List.mem_cons_self
    have hrest : ∀ q ∈ ps, q.1.lookup id = some q.2 := fun q hq => hself q (List.mem_cons_of_mem _ hq)
    rw [List.flatMap_cons, ih hrest, List.map_cons]
    simp [evalTerm, hp]

/-- ... so a predicate over two arguments taken from one flattened element is decided on `(e, e)`:
    one output per element (when false outputs are asked for), none that pairs an element with a sibling. -/
theorem c16_pred_same_element (inv : Bool) (name : String) (id : VarId) (t : Term V) (β : Bnd V) :
    evalCond W D (.pred inv name [.flatten id t, .flatten id t]) β true =
      (evalTerm W D (.flatten id t) β).map fun p => (p.1, W.truthy (W.fn name [p.2, p.2]) == inv) := by
  simp only [evalCond, c16_same_element_twice, Bool.or_true, if_true, List.flatMap_map]
  induction evalTerm W D (.flatten id t) β with
  | nil => rfl
  | cons p ps ih => simp [ih]

end Eql
