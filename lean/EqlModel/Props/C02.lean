import EqlModel.Eval
import EqlModel.Build
namespace Eql
theorem c02_placeholder : True := trivial
end Eql
