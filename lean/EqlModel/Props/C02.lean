/-
  C02 — a multi-variable query returns exactly the satisfying assignments.

  Theorems about the L1 model (`rows`), for an arbitrary `World`:
    c02_rows_sound     every returned row is the projection of a satisfying assignment
    c02_rows_complete  the projection of every satisfying assignment is returned
    c02_rows_nodup     when every variable is selected no row is returned twice
    c02_l2_all_selected  the same at the STATEFUL layer (L2 machine, `Machine.lean`: the evaluator
                       with its duplicate-tracking sets, result cache disabled): when every variable
                       of the condition is selected, every one of any number of consecutive
                       evaluations of the query object returns exactly the L1 rows, in order - the
                       duplicate check never fires (induction over the tree with the invariant
                       "every stored duplicate key clashes with the binding being evaluated",
                       `Lemmas/MachineNoDup.lean`); hence sound, complete and duplicate-free too
                       (c02_l2_nodup)
  Scope: flatten-free queries (flatten is C16); `c02_rows_sound` needs the hypothesis that every
  variable that is not selected has a non-empty domain — at the excluded point the implementation
  really differs from the relational reading (known finding C02-F1, `c02_empty_domain_witness`).
-/
import EqlModel.Lemmas.Disjoint
import EqlModel.Lemmas.MachineNoDup
import EqlModel.NatWorld

namespace Eql
variable {V : Type}
variable (W : World V) (D : VarId → List V)

/-- Truth of a query's condition (a query without conditions is always true). -/
def Query.holds (q : Query V) (α : Asg V) : Bool :=
  match q.cond with
  | none => true
  | some c => denote W α c

def Query.condVars (q : Query V) : List VarId :=
  match q.cond with
  | none => []
  | some c => c.vars

def Query.noFlat (q : Query V) : Bool :=
  Terms.noFlat q.sel && (match q.cond with | none => true | some c => c.noFlat)

/-- An assignment is admissible for a query: every variable takes a value of its domain. -/
def Query.Adm (q : Query V) (α : Asg V) : Prop :=
  ∀ v ∈ q.condVars ++ Terms.vars q.sel, α v ∈ D v

/-- **Soundness.** Every row is the projection of an admissible assignment that satisfies the
    condition. -/
theorem c02_rows_sound [Inhabited V] (q : Query V) (hf : q.noFlat = true)
    (hne : ∀ v ∈ q.condVars, v ∉ Terms.vars q.sel → D v ≠ [])
    (r : List V) (hr : r ∈ rows W D q) :
    ∃ α, q.Adm D α ∧ q.holds W α = true ∧ r = termsVal W α q.sel := by
  obtain ⟨sel, cond⟩ := q
  simp only [Query.noFlat, Bool.and_eq_true] at hf
  simp only [rows, List.mem_flatMap, List.mem_map] at hr
  obtain ⟨p, hp, q2, hq2, hre⟩ := hr
  -- the final binding and the assignment read off it
  let α : Asg V := fun v => match q2.1.lookup v with
    | some a => a
    | none => (D v).head?.getD default
  have hext : Ext q2.1 α := by
    intro v a h; simp only [α, h]
  have hb1 : BOk D p.1 := by
    cases cond with
    | none => simp at hp; rw [hp]; exact bok_nil D
    | some c => exact cond_bok W D c hf.2 [] p.1 p.2 false (bok_nil D) hp
  have hb2 : BOk D q2.1 := args_bok W D sel hf.1 p.1 q2.1 q2.2 hb1 hq2
  have hs2 := args_sound W D sel hf.1 p.1 q2.1 q2.2 hq2 α hext
  have hsupp := args_supp W D sel hf.1 p.1 q2.1 q2.2 hq2
  have hadm : ∀ v ∈ Query.condVars ⟨sel, cond⟩ ++ Terms.vars sel, α v ∈ D v := by
    intro v hv
    cases hl : q2.1.lookup v with
    | some a => simp only [α, hl]; exact hb2 v a hl
    | none =>
      have hnb : bound q2.1 v = false := by simp [bound, hl]
      have hnsel : v ∉ Terms.vars sel := by
        intro h; have := (hsupp v).2 (Or.inr h); rw [hnb] at this; cases this
      have hcv : v ∈ Query.condVars ⟨sel, cond⟩ := by
        rcases List.mem_append.1 hv with h | h
        · exact h
        · exact absurd h hnsel
      have := hne v hcv hnsel
      simp only [α, hl]
      cases hd : D v with
      | nil => exact absurd hd this
      | cons o os => simp
  refine ⟨α, hadm, ?_, ?_⟩
  · cases cond with
    | none => rfl
    | some c =>
      have hs := (cond_sound_complete W D c hf.2).1 [] p.1 p.2 false hp
      have hf2 : p.2 = false := hs.1 rfl
      have := (hs.2 α (fun v hv => hadm v (by simp [Query.condVars, hv])) hs2.1).2
      simpa [Query.holds, hf2] using this
  · rw [← hre, hs2.2]

/-- **Completeness.** The projection of every admissible satisfying assignment is returned. -/
theorem c02_rows_complete (q : Query V) (hf : q.noFlat = true)
    (α : Asg V) (hadm : q.Adm D α) (hh : q.holds W α = true) :
    termsVal W α q.sel ∈ rows W D q := by
  obtain ⟨sel, cond⟩ := q
  simp only [Query.noFlat, Bool.and_eq_true] at hf
  simp only [rows, List.mem_flatMap, List.mem_map]
  have hsel : ∀ v ∈ Terms.vars sel, α v ∈ D v := fun v hv => hadm v (by simp [hv])
  cases cond with
  | none =>
    obtain ⟨q2, hq2, e2⟩ := args_complete W D sel hf.1 [] α (ext_nil α) hsel
    have hs2 := args_sound W D sel hf.1 [] q2.1 q2.2 hq2 α e2
    exact ⟨([], false), by simp, q2, hq2, hs2.2.symm⟩
  | some c =>
    have hcv : ∀ v ∈ c.vars, α v ∈ D v := fun v hv => hadm v (by simp [Query.condVars, hv])
    obtain ⟨p, hp, e1⟩ := (cond_sound_complete W D c hf.2).2 [] α false (ext_nil α) hcv
      (Or.inr (by simpa [Query.holds] using hh))
    obtain ⟨q2, hq2, e2⟩ := args_complete W D sel hf.1 p.1 α e1 hsel
    have hs2 := args_sound W D sel hf.1 p.1 q2.1 q2.2 hq2 α e2
    exact ⟨p, hp, q2, hq2, hs2.2.symm⟩

/-- The assignment read off a binding. -/
def asgOfBnd [Inhabited V] (β : Bnd V) : Asg V := fun v => (β.lookup v).getD default

theorem ext_asgOfBnd [Inhabited V] (β : Bnd V) : Ext β (asgOfBnd β) := by
  intro v a h; simp [asgOfBnd, h]

theorem termsVal_vars (α : Asg V) (vs : List VarId) :
    termsVal W α (vs.map Term.var) = vs.map α := by
  induction vs with
  | nil => rfl
  | cons v vs ih => simp [termsVal, termVal, ih]

theorem terms_vars_vars (vs : List VarId) : Terms.vars (vs.map (Term.var (V := V))) = vs := by
  induction vs with
  | nil => rfl
  | cons v vs ih => simp [Terms.vars, Term.vars, ih]

theorem terms_noFlat_vars (vs : List VarId) : Terms.noFlat (vs.map (Term.var (V := V))) = true := by
  induction vs with
  | nil => rfl
  | cons v vs ih => simp [Terms.noFlat, Term.noFlat, ih]

/-- Two final bindings that bind only selected variables and produce the same row are extended
    by one assignment. -/
private theorem same_row_compat [Inhabited V] (vs : List VarId) (β1 β2 b1 b2 : Bnd V) (r1 r2 : List V)
    (h1 : (b1, r1) ∈ evalArgs W D (vs.map Term.var) β1)
    (h2 : (b2, r2) ∈ evalArgs W D (vs.map Term.var) β2)
    (hsupp : ∀ w, bound b2 w = true → w ∈ vs) (he : r1 = r2) :
    ∃ α, Ext b1 α ∧ Ext b2 α := by
  refine ⟨asgOfBnd b1, ext_asgOfBnd b1, ?_⟩
  have s1 := (args_sound W D _ (terms_noFlat_vars vs) β1 b1 r1 h1 _ (ext_asgOfBnd b1)).2
  have s2 := (args_sound W D _ (terms_noFlat_vars vs) β2 b2 r2 h2 _ (ext_asgOfBnd b2)).2
  rw [termsVal_vars] at s1 s2
  have hm : vs.map (asgOfBnd b1) = vs.map (asgOfBnd b2) := by rw [s1, s2, he]
  intro v a hv
  have hvs : v ∈ vs := hsupp v (by simp [bound, hv])
  have := List.map_inj_left.1 hm v hvs
  rw [this]
  exact ext_asgOfBnd b2 v a hv

private theorem nodup_of_outs [Inhabited V] (hD : ∀ v, (D v).Nodup) (vs : List VarId)
    (outs : List (Bnd V × Bool)) (hpw : outs.Pairwise Inc)
    (hsupp : ∀ p ∈ outs, ∀ w, bound p.1 w = true → w ∈ vs) :
    (outs.flatMap fun p => (evalArgs W D (vs.map Term.var) p.1).map (·.2)).Pairwise (fun x y => x ≠ y) := by
  rw [List.pairwise_flatMap]
  have hfinal : ∀ p ∈ outs, ∀ q2 ∈ evalArgs W D (vs.map Term.var) p.1,
      ∀ w, bound q2.1 w = true → w ∈ vs := by
    intro p hp q2 hq2 w hw
    rcases (args_supp W D _ (terms_noFlat_vars vs) p.1 q2.1 q2.2 hq2 w).1 hw with h | h
    · exact hsupp p hp w h
    · rwa [terms_vars_vars] at h
  constructor
  · intro p hp
    rw [List.pairwise_map]
    refine List.Pairwise.imp_of_mem ?_ (args_pairwise W D hD _ (terms_noFlat_vars vs) p.1)
    intro q2 q2' h2 h2' hinc he
    obtain ⟨α, e1, e2⟩ := same_row_compat W D vs p.1 p.1 q2.1 q2'.1 q2.2 q2'.2 h2 h2'
      (hfinal p hp q2' h2') he
    exact hinc α e1 e2
  · refine List.Pairwise.imp_of_mem ?_ hpw
    intro p p' hp hp' hinc x hx y hy he
    simp only [List.mem_map] at hx hy
    obtain ⟨q2, h2, rfl⟩ := hx
    obtain ⟨q2', h2', rfl⟩ := hy
    obtain ⟨α, e1, e2⟩ := same_row_compat W D vs p.1 p'.1 q2.1 q2'.1 q2.2 q2'.2 h2 h2'
      (hfinal p' hp' q2' h2') he
    exact hinc α
      ((args_sound W D _ (terms_noFlat_vars vs) p.1 q2.1 q2.2 h2 α e1).1)
      ((args_sound W D _ (terms_noFlat_vars vs) p'.1 q2'.1 q2'.2 h2' α e2).1)

/-- **No row twice.** When every variable of the query is selected (and the domains list
    distinct objects) the rows are pairwise different, so the row count is the number of
    satisfying assignments. -/
theorem c02_rows_nodup [Inhabited V] (q : Query V) (hf : q.noFlat = true)
    (hD : ∀ v, (D v).Nodup) (vs : List VarId) (hsel : q.sel = vs.map Term.var)
    (hall : ∀ v ∈ q.condVars, v ∈ vs) : (rows W D q).Nodup := by
  obtain ⟨sel, cond⟩ := q
  simp only at hsel
  subst hsel
  simp only [Query.noFlat, Bool.and_eq_true] at hf
  rw [List.nodup_iff_pairwise_ne]
  cases cond with
  | none =>
    simp only [rows]
    refine nodup_of_outs W D hD vs _ (List.pairwise_singleton _ _) ?_
    intro p hp w hw; simp at hp; subst hp; simp [bound, List.lookup] at hw
  | some c =>
    simp only [rows]
    refine nodup_of_outs W D hD vs _ (cond_pairwise W D hD c hf.2 [] false) ?_
    intro p hp w hw
    rcases (cond_supp W D c hf.2 [] p.1 p.2 false hp).1 w hw with h | h
    · simp [bound, List.lookup] at h
    · exact hall w (by simpa [Query.condVars] using h)

/-- **An empty domain of a selected variable empties the answer**: the product of the domains is empty, so
    there is no row - whatever the condition (the statement a change that takes an explicit empty domain for
    "no domain given" breaks). -/
theorem c02_empty_domain_no_rows [Inhabited V] (q : Query V) (hf : q.noFlat = true)
    (hne : ∀ v ∈ q.condVars, v ∉ Terms.vars q.sel → D v ≠ [])
    (v : VarId) (hv : v ∈ Terms.vars q.sel) (hE : D v = []) :
    rows W D q = [] := by
  cases hr : rows W D q with
  | nil => rfl
  | cons r rs =>
    exfalso
    obtain ⟨α, ha, _, _⟩ := c02_rows_sound W D q hf hne r (by rw [hr]; exact List.mem_cons_self)
    have := ha v (List.mem_append_right _ hv)
    rw [hE] at this
    cases this

/-- **The excluded point is real** (known finding C02-F1): `x` over [1, 2, 3], `z` over the empty
    domain, `an(entity(x, or_(x > 1, z > 1)))`.  The model (like the implementation) returns 2 and
    3, although no admissible assignment of (x, z) exists at all. -/
theorem c02_empty_domain_witness :
    let D : VarId → List Nat := fun v => if v = 0 then [1, 2, 3] else []
    let q : Query Nat := ⟨[.var 0], some (.elseIf (.cmp .gt (.var 0) (.lit 1)) (.cmp .gt (.var 1) (.lit 1)))⟩
    rows natWorld D q = [[2], [3]] ∧ ¬ ∃ α, q.Adm D α := by
  refine ⟨by decide, ?_⟩
  rintro ⟨α, h⟩
  have := h 1 (by simp [Query.condVars, Cond.vars, Term.vars])
  simp at this

/-- Non-vacuity: a two-variable join whose hypotheses hold and whose answer is not trivial. -/
example :
    let D : VarId → List Nat := fun v => if v = 0 then [1, 2, 3] else [2, 3, 4]
    rows natWorld D ⟨[.var 0, .var 1], some (.and (.cmp .lt (.var 0) (.var 1)) (.cmp .ne (.var 1) (.lit 4)))⟩
      = [[1, 2], [1, 3], [2, 3]] := by decide

/-- **C02 at the stateful layer.**  With the result cache disabled and every variable of the condition
    selected, the evaluator WITH its duplicate tracking returns, on the first and on every later
    evaluation of the same query object, exactly the rows of the L1 evaluation (in order). -/
theorem c02_l2_all_selected [BEq V] (P : Machine.Params V) (hinj : Function.Injective P.rank)
    (hK : KeysNodup P.toKey D) (q : Query V) (c : Cond V) (hq : q.cond = some c) (hf : c.noFlat = true)
    (hall : ∀ v ∈ c.vars, v ∈ q.sel.flatMap Term.binds) (n : Nat) :
    (Machine.rowsM W D P false q (Machine.afterEvals W D P q n [])).1 = rows W D q :=
  Machine.rowsM_off_all_selected_iter W D P hinj hK q c hq hf hall n [] Machine.dedupClean_nil

/-- … in particular no row is returned twice (with `c02_rows_nodup`). -/
theorem c02_l2_nodup [BEq V] [Inhabited V] (P : Machine.Params V) (hinj : Function.Injective P.rank)
    (hK : KeysNodup P.toKey D) (hD : ∀ v, (D v).Nodup) (q : Query V) (c : Cond V) (hq : q.cond = some c)
    (hf : q.noFlat = true) (vs : List VarId) (hsel : q.sel = vs.map Term.var) (hall : ∀ v ∈ c.vars, v ∈ vs)
    (n : Nat) :
    (Machine.rowsM W D P false q (Machine.afterEvals W D P q n [])).1.Nodup := by
  have hfc : c.noFlat = true := by
    simp only [Query.noFlat, hq, Bool.and_eq_true] at hf; exact hf.2
  have hall' : ∀ v ∈ c.vars, v ∈ q.sel.flatMap Term.binds := by
    intro v hv
    rw [hsel]
    simp only [List.mem_flatMap, List.mem_map]
    exact ⟨.var v, ⟨v, hall v hv, rfl⟩, by simp [Term.binds]⟩
  rw [c02_l2_all_selected W D P hinj hK q c hq hfc hall' n]
  exact c02_rows_nodup W D q hf hD vs hsel (by simpa [Query.condVars, hq] using hall)

/-- Non-vacuity: a disjunction over two selected variables (duplicate tracking is active on the right
    branch of the ElseIf); three evaluations in a row give the L1 rows. -/
example :
    let D : VarId → List Nat := fun v => if v = 0 then [1, 2] else [2, 3]
    let P : Machine.Params Nat := { rank := id, toKey := id, ofKey := id }
    let q : Query Nat := ⟨[.var 0, .var 1], some (.elseIf (.cmp .lt (.var 0) (.var 1)) (.cmp .eq (.var 0) (.var 1)))⟩
    (Machine.rowsM natWorld D P false q (Machine.afterEvals natWorld D P q 2 [])).1 = rows natWorld D q ∧
    rows natWorld D q = [[1, 2], [1, 3], [2, 2], [2, 3]] := by decide

end Eql
