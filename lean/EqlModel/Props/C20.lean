/-
  C20 — the result-cache index returns exactly the stored entries matching a lookup.

  Model: `EqlModel/Cache.lean` (transliteration of `SeenSet` / `IndexedCache`).  Histories are
  arbitrary finite sequences of inserts (full or partial bindings, overwrites) and clears.
    c20_entries_spec              after any history the trie holds exactly the last output written
                                  under each binding since the last clear, each binding once
    c20_check                     a coverage check for a lookup that binds a key succeeds exactly
                                  when some stored binding is contained in it
    c20_retrieve_uniform_partial  on a PREFIX-UNIFORM trie (at every node the children are all
                                  concrete or a single wildcard — in particular when all inserts
                                  are full) retrieval returns every stored entry that agrees with
                                  the lookup on the shared keys, each once, paired with its binding
                                  merged into the lookup, and nothing else
    c20_clear                     clearing empties it
    c20_wildcard_witness          the full statement (without "prefix-uniform") is FALSE of the
                                  code: known finding C20-F1 / C05-F1
  An insert under the empty binding goes to the flat store and an empty-binding `check` poisons the
  seen set: both are outside the statement ("binds at least one key"), modelled, not claimed.
-/
import EqlModel.Lemmas.CacheLemmas
import EqlModel.Gen.Tables

namespace Eql.Cache
variable {A O : Type} [DecidableEq A]
open Trie

inductive Op (A O : Type) where
  | insert (a : Asg A) (o : O)
  | clear

def step (c : Cache A O) : Op A O → Cache A O
  | .insert a o => c.insert a o
  | .clear => c.clear

def run (c : Cache A O) (h : List (Op A O)) : Cache A O := h.foldl step c

def init (keys : List Nat) : Cache A O := { keys := keys }

/-- Reference: the last output written under each path since the last clear. -/
def specStep (keys : List Nat) (S : List (Key A) → Option O) : Op A O → (List (Key A) → Option O)
  | .insert a o => if a.isEmpty then S else fun p => if p = Cache.path keys a then some o else S p
  | .clear => fun _ => none

def spec (keys : List Nat) (h : List (Op A O)) : List (Key A) → Option O :=
  h.foldl (specStep keys) (fun _ => none)

/-- Reference for the seen set: the non-empty bindings inserted since the last clear. -/
def specSeen : List (Op A O) → List (Asg A) → List (Asg A)
  | [], acc => acc
  | .insert a _ :: h, acc => specSeen h (if a.isEmpty then acc else acc ++ [a])
  | .clear :: h, _ => specSeen h []

/-- State invariant relating a cache to the reference store. -/
structure Rel (keys : List Nat) (c : Cache A O) (S : List (Key A) → Option O) : Prop where
  keys_eq : c.keys = keys
  ws : WS keys.length c.trie
  entries : ∀ p o, (p, o) ∈ toEntries c.trie ↔ S p = some o

theorem path_length (keys : List Nat) (a : Asg A) : (Cache.path keys a).length = keys.length := by
  simp [Cache.path]

theorem rel_step (keys : List Nat) (hk : keys ≠ []) (c : Cache A O) (S) (op : Op A O)
    (h : Rel keys c S) : Rel keys (step c op) (specStep keys S op) := by
  cases op with
  | clear =>
    refine ⟨h.keys_eq, ?_, ?_⟩
    · cases keys with
      | nil => exact absurd rfl hk
      | cons k ks => simp [step, Cache.clear, WS]
    · intro p o; simp [step, Cache.clear, toEntries, specStep]
  | insert a o =>
    simp only [step, Cache.insert, specStep]
    by_cases he : a.isEmpty = true
    · simp only [he, if_true]; exact ⟨h.keys_eq, h.ws, h.entries⟩
    · simp only [he, Bool.false_eq_true, if_false]
      have hlen := path_length keys a
      refine ⟨h.keys_eq, ?_, ?_⟩
      · have := ws_insert o c.trie (Cache.path keys a) (by rw [hlen]; exact h.ws)
        rw [hlen] at this; rw [h.keys_eq]; exact this
      · intro p o'
        rw [h.keys_eq, mem_toEntries_insert o c.trie (Cache.path keys a) (by rw [hlen]; exact h.ws)]
        by_cases hp : p = Cache.path keys a
        · simp only [hp, if_true, Option.some.injEq, ne_eq, not_true_eq_false, false_and, or_false,
            true_and]
          exact eq_comm
        · simp only [hp, if_false, false_and, false_or, ne_eq, not_false_eq_true, true_and]
          exact h.entries p o'

theorem rel_run (keys : List Nat) (hk : keys ≠ []) : ∀ (h : List (Op A O)) (c : Cache A O) (S),
    Rel keys c S → Rel keys (run c h) (h.foldl (specStep keys) S) := by
  intro h
  induction h with
  | nil => intro c S hr; exact hr
  | cons op h ih => intro c S hr; exact ih _ _ (rel_step keys hk c S op hr)

theorem rel_init (keys : List Nat) (hk : keys ≠ []) :
    Rel keys (init keys : Cache A O) (fun _ => none) := by
  refine ⟨rfl, ?_, ?_⟩
  · cases keys with
    | nil => exact absurd rfl hk
    | cons k ks => simp [init, WS]
  · intro p o; simp [init, toEntries]

/-- **Stored entries.** After any history the trie holds exactly the last output written under
    each binding since the last clear, and no binding twice. -/
theorem c20_entries_spec (keys : List Nat) (hk : keys ≠ []) (h : List (Op A O)) :
    (∀ p o, (p, o) ∈ toEntries (run (init keys) h).trie ↔ spec keys h p = some o) ∧
    ((toEntries (run (init keys : Cache A O) h).trie).map (·.1)).Nodup := by
  have hr := rel_run keys hk h (init keys) _ (rel_init keys hk)
  exact ⟨hr.entries, paths_nodup _ _ hr.ws⟩

/-- **Retrieval on prefix-uniform tries.**  There is a duplicate-free list `es` of exactly the
    stored entries whose binding agrees with the lookup on every shared key, and retrieval returns
    those entries — all of them, each once, each paired with its binding merged into the lookup —
    and nothing else. -/
theorem c20_retrieve_uniform_partial (keys : List Nat) (hk : keys ≠ []) (h : List (Op A O))
    (a : Asg A) (hu : Uniform (run (init keys : Cache A O) h).trie = true) :
    ∃ es : List (List (Key A) × O),
      (es.map (·.1)).Nodup ∧
      (∀ p o, (p, o) ∈ es ↔ (spec keys h p = some o ∧ agree a keys p = true)) ∧
      (run (init keys) h).retrieve a = es.map fun e => (image a keys e.1 a, e.2) := by
  have hr := rel_run keys hk h (init keys : Cache A O) _ (rel_init keys hk)
  refine ⟨(toEntries (run (init keys : Cache A O) h).trie).filter (fun e => agree a keys e.1), ?_, ?_, ?_⟩
  · have := paths_nodup _ _ hr.ws
    rw [List.nodup_iff_pairwise_ne] at this ⊢
    rw [List.pairwise_map] at this ⊢
    exact this.sublist List.filter_sublist
  · intro p o
    simp only [List.mem_filter]
    rw [hr.entries p o]
    rfl
  · simp only [Cache.retrieve]
    have hret := retr_uniform a keys (run (init keys : Cache A O) h).trie a hr.ws hu
    rw [hr.keys_eq]
    cases htrie : (run (init keys : Cache A O) h).trie with
    | nil => simp [isEmptyNode, toEntries]
    | leaf o => rw [htrie] at hret; simpa [isEmptyNode] using hret
    | cons k c rest => rw [htrie] at hret; simpa [isEmptyNode] using hret

/-- The seen set after a history. -/
theorem seen_run : ∀ (h : List (Op A O)) (c : Cache A O), c.seen.allSeen = false →
    (run c h).seen.allSeen = false ∧ (run c h).seen.seen = specSeen h c.seen.seen := by
  intro h
  induction h with
  | nil => intro c hc; exact ⟨hc, rfl⟩
  | cons op h ih =>
    intro c hc
    cases op with
    | clear =>
      have := ih (step c .clear) (by simp [step, Cache.clear])
      simpa [run, specSeen, step, Cache.clear] using this
    | insert a o =>
      by_cases he : a.isEmpty = true
      · have := ih (step c (.insert a o)) (by simp [step, Cache.insert, he, hc])
        simpa [run, specSeen, step, Cache.insert, he] using this
      · have := ih (step c (.insert a o))
          (by simp [step, Cache.insert, he, SeenSet.add, hc])
        simpa [run, specSeen, step, Cache.insert, he, SeenSet.add, hc] using this

/-- **Coverage check.** For a lookup that binds at least one cache key, the check succeeds exactly
    when some binding stored since the last clear is contained in the lookup. -/
theorem c20_check (keys : List Nat) (h : List (Op A O)) (a : Asg A)
    (hne : (a.filter fun kv => keys.contains kv.1) ≠ []) :
    ((run (init keys : Cache A O) h).check a).1 = true ↔
      ∃ b ∈ specSeen h [], ∀ kv ∈ b, Asg.get (a.filter fun kv => keys.contains kv.1) kv.1 = some kv.2 := by
  have hs := seen_run h (init keys : Cache A O) rfl
  have hkeys : (run (init keys : Cache A O) h).keys = keys := by
    have : ∀ (h : List (Op A O)) (c : Cache A O), (run c h).keys = c.keys := by
      intro h
      induction h with
      | nil => intro c; rfl
      | cons op h ih =>
        intro c
        simp only [run, List.foldl_cons] at ih ⊢
        rw [ih]
        cases op <;> simp [step, Cache.insert, Cache.clear] <;> split <;> rfl
    rw [this]; rfl
  simp only [Cache.check, SeenSet.check, hs.1, hkeys, Bool.false_eq_true, if_false]
  have : ((a.filter fun kv => keys.contains kv.1).isEmpty) = false := by
    cases hf : a.filter fun kv => keys.contains kv.1 with
    | nil => exact absurd hf hne
    | cons x xs => rfl
  simp only [this, Bool.false_eq_true, if_false, List.any_eq_true, SeenSet.covers, List.all_eq_true,
    beq_iff_eq, init]
  have h2 : (run ({ keys := keys } : Cache A O) h).seen.seen = specSeen h [] := hs.2
  rw [h2]

/-- **Clearing empties it.** -/
theorem c20_clear (keys : List Nat) (h : List (Op A O)) (a : Asg A)
    (hne : (a.filter fun kv => keys.contains kv.1) ≠ []) :
    (run (init keys : Cache A O) (h ++ [.clear])).retrieve a = [] ∧
    ((run (init keys : Cache A O) (h ++ [.clear])).check a).1 = false := by
  constructor
  · simp [run, List.foldl_append, step, Cache.clear, Cache.retrieve, isEmptyNode]
  · have hc := (c20_check keys (h ++ [.clear]) a hne)
    have hseen : ∀ (h : List (Op A O)) acc, specSeen (h ++ [.clear]) acc = [] := by
      intro h
      induction h with
      | nil => intro acc; rfl
      | cons op h ih => intro acc; cases op <;> simp [specSeen, ih]
    cases hb : ((run (init keys : Cache A O) (h ++ [.clear])).check a).1 with
    | false => rfl
    | true =>
      obtain ⟨b, hb', _⟩ := hc.1 hb
      rw [hseen] at hb'; cases hb'

/-- A full binding has a concrete value under every key: such tries are prefix-uniform, so the
    partial theorem applies to every history of FULL inserts (non-vacuity of its hypothesis). -/
example : Uniform (run (init [1, 2] : Cache Nat Nat)
    [.insert [(1, 5), (2, 6)] 0, .insert [(1, 5), (2, 7)] 1, .insert [(1, 4), (2, 6)] 2]).trie = true := by
  decide

/-- **Counter-witness to the unrestricted statement** (known finding C20-F1): after
    `insert {1:5, 2:6} ↦ 0; insert {2:6} ↦ 1` both stored bindings agree with the lookup
    `{1:5, 2:6}`, but retrieval returns only the first; and the lookup `{}` returns only the
    second.  The trie is not prefix-uniform. -/
theorem c20_wildcard_witness :
    let c := run (init [1, 2] : Cache Nat Nat) [.insert [(1, 5), (2, 6)] 0, .insert [(2, 6)] 1]
    c.retrieve [(1, 5), (2, 6)] = [([(1, 5), (2, 6)], 0)] ∧
    c.retrieve [] = [([(2, 6)], 1)] ∧
    agree [(1, 5), (2, 6)] [1, 2] [.all, .val 6] = true ∧
    spec [1, 2] [.insert [(1, 5), (2, 6)] 0, .insert [(2, 6)] (1 : Nat)] [.all, .val 6] = some 1 ∧
    Uniform c.trie = false := by
  decide

/-! ### Caches without keys (repair R34) -/

/-- With at least one key the repaired check IS the check all theorems above speak of ... -/
theorem checkK_eq_check (c : Cache A O) (a : Asg A) (h : c.keys ≠ []) : c.checkK a = c.check a := by
  unfold Cache.checkK
  cases hk : c.keys with
  | nil => exact absurd hk h
  | cons k ks => simp

/-- ... and a cache without keys (the result cache of a comparison between constants) never claims coverage and is not
    changed by being asked: the operator is simply evaluated. -/
theorem c20_keyless_never_covers (c : Cache A O) (a : Asg A) (h : c.keys = []) : c.checkK a = (false, c) := by
  unfold Cache.checkK; simp [h]

/-- Tie to the source (regenerated): `IndexedCache.check` begins with `if not self.keys: return False`. -/
theorem c20_keyless_guard_tied : Gen.cacheCheckGuardsKeyless = true := by decide

end Eql.Cache
