/-
  C04 — a query's answer does not depend on what was evaluated before it.

  What an evaluation can leave behind, and why it cannot change a later answer:
   (1) the memoised, lazily consumed DOMAINS (`HashedIterable`): model `Iter.lean`.
         c04_domain_independent   whatever sequence of full evaluations, evaluations abandoned
             after k results, and evaluations aborted by an exception happened on the variables'
             domains, iterating a domain yields the same sequence as on a fresh one; since the L1
             semantics (`rows`, `runThe`, `ruleRows`, `rowsForAll`) is a function of the query and of
             what the domains yield, every later answer equals the fresh answer
         c04_dup_domain           a domain that lists an object more than once yields it once, on
             the first and on every later evaluation (fix 4141bff)
   (2) DUPLICATE-TRACKING sets and RESULT CACHES on the expression nodes: `Lifecycle` transliterates
       `An.evaluate`/`The.evaluate`'s `finally: _reset_after_evaluation_(completed)` (fix 504ded8).
         c04_lifecycle_clean      after EVERY evaluation — completed, closed early, or raised — the
             duplicate-tracking state is reset, and the caches are either those of completed passes
             or empty: never a cache that claims coverage of a pass that did not complete
       That a clean node state gives the fresh answer is the L1 semantics itself with caching off;
       with caching on it is C05's (partial) statement.
         c04_conj_any_state       at the stateful layer (L2 machine, `Machine.lean`), caching disabled:
             a conjunctive query evaluated from ANY node state - whatever earlier evaluations left
             behind - returns exactly the rows of the L1 evaluation, in order (no duplicate check is
             reached in this fragment; partial: disjunctions, where duplicate tracking acts, are
             covered by the correspondence of the machine with the implementation only).
   (3) the user's collections and objects: the `World` and the raw domains are parameters of the
       model, not part of any state: no operation can change them (frame property by construction;
       on the implementation the harness snapshots them).
-/
import EqlModel.Props.C07
import EqlModel.SpecExec
import EqlModel.Eval
import EqlModel.Lemmas.MachineConj
import EqlModel.Gen.Tables

namespace Eql
variable {V : Type} [BEq V] [LawfulBEq V]

open Iter

/-- **Domains.** After any per-variable history, what the domains yield is what fresh domains yield. -/
theorem c04_domain_independent (W : World V) (raw : VarId → List V)
    (qv : VarId → V → Bool) (hist : VarId → List (Option Nat)) (q : Query V) :
    rows W (fun v => contents (runHistory (qv v) (init (raw v)) (hist v))) q =
      rows W (fun v => fresh [] (raw v)) q := by
  have : (fun v => contents (runHistory (qv v) (init (raw v)) (hist v))) = fun v => fresh [] (raw v) := by
    funext v
    rw [c07_contents_invariant]
    simp [contents, init]
  rw [this]

theorem fresh_eq_dedupFrom : ∀ (l seen seen' : List V), (∀ x, x ∈ seen ↔ x ∈ seen') →
    fresh seen l = dedupFrom seen' l := by
  intro l
  induction l with
  | nil => intro _ _ _; rfl
  | cons a as ih =>
    intro seen seen' h
    have hc : seen.contains a = seen'.contains a := by
      rcases Bool.eq_false_or_eq_true (seen'.contains a) with h1 | h1
      · rw [h1]; simpa using (h a).2 (by simpa using h1)
      · rw [h1]
        have : a ∉ seen' := by simpa using h1
        simpa using fun hm => this ((h a).1 hm)
    simp only [fresh, dedupFrom, hc]
    split
    · exact ih seen seen' h
    · rw [ih (seen ++ [a]) (a :: seen')]
      intro x
      simp only [List.mem_append, List.mem_cons, List.not_mem_nil, or_false, h x]
      exact or_comm

/-- **Duplicated objects.** What a domain yields is the supplied collection with every object
    listed once (first occurrence), on the first and on every later evaluation. -/
theorem c04_dup_domain (raw : List V) (q : V → Bool) (h : List (Option Nat)) :
    contents (runHistory q (init raw) h) = dedupFrom [] raw := by
  rw [c07_contents_invariant]
  simp only [contents, init, List.nil_append]
  exact fresh_eq_dedupFrom raw [] [] (fun _ => Iff.rfl)

/-! ### Life-cycle of the per-node state -/

namespace Lifecycle

inductive CacheSt where
  | empty          -- no result cache content
  | complete       -- filled by passes that ran to the end
  | partialPass    -- holds coverage claims of a pass that did not run to the end
  deriving DecidableEq, Repr

structure NodeSt where
  dedupDirty : Bool := false
  caches : CacheSt := .empty
  deriving DecidableEq, Repr

inductive Ending where
  | completed | closedEarly | raised
  deriving DecidableEq, Repr

/-- While an evaluation runs it populates the duplicate-tracking sets and (with caching) the
    caches; a pass that stops early leaves coverage claims over an incomplete set of results. -/
def during (caching : Bool) (s : NodeSt) (e : Ending) : NodeSt :=
  { dedupDirty := true,
    caches := if !caching then s.caches
              else match e with
                | .completed => .complete
                | _ => .partialPass }

/-- `finally: self._reset_after_evaluation_(completed)`. -/
def resetAfter (s : NodeSt) (completed : Bool) : NodeSt :=
  { dedupDirty := false, caches := if completed then s.caches else .empty }

/-- One `evaluate()` call of `An` (exhausted, closed early, or an exception propagating) or `The`
    (returns, or raises NoSolutionFound / MultipleSolutionFound / a user exception). -/
def evaluate (caching : Bool) (s : NodeSt) (e : Ending) : NodeSt :=
  resetAfter (during caching s e) (e == .completed)

def Clean (s : NodeSt) : Prop := s.dedupDirty = false ∧ s.caches ≠ .partialPass

theorem clean_step (caching : Bool) (s : NodeSt) (e : Ending) (h : Clean s) : Clean (evaluate caching s e) := by
  cases e <;> cases caching <;> simp [evaluate, resetAfter, during, Clean, h.2]

/-- After every history of evaluations the node state is clean. -/
theorem c04_lifecycle_clean : ∀ (hist : List (Bool × Ending)),
    Clean (hist.foldl (fun s p => evaluate p.1 s p.2) {}) := by
  have gen : ∀ (hist : List (Bool × Ending)) (s : NodeSt), Clean s →
      Clean (hist.foldl (fun s p => evaluate p.1 s p.2) s) := by
    intro hist
    induction hist with
    | nil => intro s h; exact h
    | cons p ps ih => intro s h; exact ih _ (clean_step p.1 s p.2 h)
  intro hist
  exact gen hist {} ⟨rfl, by simp⟩

/-! #### Evaluations that are abandoned WITHOUT being closed

An `An` result iterator that is neither exhausted nor closed stays suspended: its `finally` block has not run, the
node state is what the partial pass left.  `An.evaluate` marks the query as running (`_running_evaluation_`) and a
later `evaluate()` that finds the mark first resets as after an incomplete pass (repair R31). -/

inductive Ending' where
  | completed | closedEarly | raised
  | suspended     -- k results taken, the iterator kept alive and never advanced again
  deriving DecidableEq, Repr

/-- The state of a query object: its nodes, and whether an evaluation is marked as running. -/
structure QSt where
  node : NodeSt := {}
  running : Bool := false
  deriving DecidableEq, Repr

/-- `if self._running_evaluation_ is not None: self._reset_after_evaluation_(completed=False)`. -/
def start (s : QSt) : NodeSt := if s.running then resetAfter s.node false else s.node

def duringQ (caching : Bool) (n : NodeSt) (e : Ending') : NodeSt :=
  { dedupDirty := true,
    caches := if !caching then n.caches
              else match e with
                | .completed => .complete
                | _ => .partialPass }

/-- One `An.evaluate()` call on a query object. -/
def evaluateQ (caching : Bool) (s : QSt) (e : Ending') : QSt :=
  let n := duringQ caching (start s) e
  match e with
  | .suspended => { node := n, running := true }                -- the `finally` block does not run
  | _ => { node := resetAfter n (e == .completed), running := false }

/-- Either an evaluation is marked as running, or the node state is clean. -/
def Ready (s : QSt) : Prop := s.running = false → Clean s.node

theorem clean_start (s : QSt) (h : Ready s) : Clean (start s) := by
  unfold start
  cases hr : s.running
  · simpa using h hr
  · simp [resetAfter, Clean]

theorem ready_step (caching : Bool) (s : QSt) (e : Ending') (h : Ready s) : Ready (evaluateQ caching s e) := by
  have hc := clean_start s h
  cases e <;> cases caching <;> simp [evaluateQ, duringQ, resetAfter, Ready, Clean, hc.2]

/-- **C04, life-cycle with suspended iterators.**  After every history of evaluations of a query object - run to the
    end, closed early, aborted by an exception, or ABANDONED WITHOUT BEING CLOSED - the next evaluation starts from a
    clean node state (no duplicate-tracking entries, no coverage claims of an incomplete pass). -/
theorem c04_lifecycle_clean_suspended (hist : List (Bool × Ending')) :
    Clean (start (hist.foldl (fun s p => evaluateQ p.1 s p.2) {})) := by
  have gen : ∀ (hist : List (Bool × Ending')) (s : QSt), Ready s →
      Ready (hist.foldl (fun s p => evaluateQ p.1 s p.2) s) := by
    intro hist
    induction hist with
    | nil => intro s h; exact h
    | cons p ps ih => intro s h; exact ih _ (ready_step p.1 s p.2 h)
  exact clean_start _ (gen hist {} (fun _ => ⟨rfl, by simp⟩))

/-- Without the start-of-evaluation reset the statement is false: a suspended pass with caching on leaves coverage
    claims behind (the defect R31 repaired). -/
example : ¬ Clean (evaluateQ true {} .suspended).node := by
  simp [evaluateQ, duringQ, start, Clean]

/-! #### A query that supplies a variable's domain (repair R32)

`y = let(T, domain=inner)`: the outer query evaluates `inner` on the way.  Two query objects, the nodes `o` only the
outer query reaches and the nodes `i` of the inner query (reached by both).  An evaluation marks every query it
evaluates as running; its start-of-evaluation reset and its final reset cover every node it reaches. -/

structure Sys where
  o : NodeSt := {}
  i : NodeSt := {}
  runO : Bool := false
  runI : Bool := false
  deriving DecidableEq, Repr

inductive Which where
  | outer | inner
  deriving DecidableEq, Repr

/-- What may happen to a query object: an evaluation with some ending, or the iterator of an earlier suspended
    evaluation being closed / finalised later (its `finally` block runs then; `mine`: its marks are still its own). -/
inductive SysOp where
  | eval (w : Which) (caching : Bool) (e : Ending')
  | closeOld (w : Which) (mine : Bool)
  deriving DecidableEq, Repr

/-- The state an evaluation of `w` starts from. -/
def startSys (s : Sys) : Which → Sys
  | .outer => if s.runO || s.runI then { s with o := resetAfter s.o false, i := resetAfter s.i false } else s
  | .inner => if s.runI then { s with i := resetAfter s.i false } else s

def stepSys (s : Sys) : SysOp → Sys
  | .eval .outer caching e =>
      let s1 := startSys s .outer
      let o' := duringQ caching s1.o e
      let i' := duringQ caching s1.i e
      match e with
      | .suspended => { o := o', i := i', runO := true, runI := true }
      | _ => { o := resetAfter o' (e == .completed), i := resetAfter i' (e == .completed), runO := false, runI := false }
  | .eval .inner caching e =>
      let s1 := startSys s .inner
      let i' := duringQ caching s1.i e
      match e with
      | .suspended => { s1 with i := i', runI := true }
      | _ => { s1 with i := resetAfter i' (e == .completed), runI := false }
  | .closeOld .outer mine =>
      if mine then { o := resetAfter s.o false, i := resetAfter s.i false, runO := false, runI := false } else s
  | .closeOld .inner mine =>
      if mine then { s with i := resetAfter s.i false, runI := false } else s

/-- A query that is not marked as running has clean nodes. -/
def ReadySys (s : Sys) : Prop := (s.runO = false → Clean s.o) ∧ (s.runI = false → Clean s.i)

theorem startSys_inner_o (s : Sys) : (startSys s .inner).o = s.o := by
  simp only [startSys]; split <;> rfl

theorem startSys_inner_runO (s : Sys) : (startSys s .inner).runO = s.runO := by
  simp only [startSys]; split <;> rfl

theorem clean_reset_false (n : NodeSt) : Clean (resetAfter n false) := by simp [resetAfter, Clean]

theorem clean_startSys (s : Sys) (h : ReadySys s) :
    (Clean (startSys s .outer).o ∧ Clean (startSys s .outer).i) ∧ Clean (startSys s .inner).i := by
  obtain ⟨h1, h2⟩ := h
  refine ⟨?_, ?_⟩
  · unfold startSys
    cases hO : s.runO <;> cases hI : s.runI <;>
      simp [clean_reset_false, h1, h2, hO, hI]
  · unfold startSys
    cases hI : s.runI <;> simp [clean_reset_false, h2, hI]

theorem clean_after (caching : Bool) (n : NodeSt) (e : Ending') (h : Clean n) (he : e ≠ .suspended) :
    Clean (resetAfter (duringQ caching n e) (e == .completed)) := by
  cases e <;> cases caching <;> simp_all [duringQ, resetAfter, Clean]

theorem readySys_step (s : Sys) (op : SysOp) (h : ReadySys s) : ReadySys (stepSys s op) := by
  have hc := clean_startSys s h
  cases op with
  | eval w caching e =>
    cases w with
    | outer =>
      by_cases he : e = .suspended
      · subst he; simp [stepSys, ReadySys]
      · have a := clean_after caching _ e hc.1.1 he
        have b := clean_after caching _ e hc.1.2 he
        cases e <;> simp_all [stepSys, ReadySys]
    | inner =>
      by_cases he : e = .suspended
      · subst he
        refine ⟨?_, by simp [stepSys]⟩
        intro hr
        have : (startSys s .inner).o = s.o := startSys_inner_o s
        have hr' : s.runO = false := by
          simpa [stepSys, startSys_inner_runO] using hr
        simpa [stepSys, this] using h.1 hr'
      · have b := clean_after caching _ e hc.2 he
        have ho : (startSys s .inner).o = s.o := startSys_inner_o s
        have hro : (startSys s .inner).runO = s.runO := startSys_inner_runO s
        cases e <;> simp_all [stepSys, ReadySys]
  | closeOld w mine =>
    cases w <;> cases mine <;> simp [stepSys, ReadySys, clean_reset_false, h.1, h.2]
    · exact h
    · exact h
    · exact h.1

/-- **C04, life-cycle with a query that supplies a domain.**  After every history of evaluations of the outer and of
    the inner query - run to the end, closed early, aborted, left suspended - and of late finalisations of suspended
    iterators, the next evaluation of EITHER query starts with every node it reaches clean. -/
theorem c04_lifecycle_clean_query_domain (hist : List SysOp) :
    let s := hist.foldl stepSys {}
    (Clean (startSys s .outer).o ∧ Clean (startSys s .outer).i) ∧ Clean (startSys s .inner).i := by
  have gen : ∀ (hist : List SysOp) (s : Sys), ReadySys s → ReadySys (hist.foldl stepSys s) := by
    intro hist
    induction hist with
    | nil => intro s h; exact h
    | cons p ps ih => intro s h; exact ih _ (readySys_step s p h)
  exact clean_startSys _ (gen hist {} ⟨fun _ => ⟨rfl, by simp⟩, fun _ => ⟨rfl, by simp⟩⟩)

/-- What R32 repaired: if the outer query's resets did not reach the inner query's nodes, a COMPLETED outer evaluation
    would leave them dirty (the inner query evaluated by itself afterwards returned too few rows). -/
example : ¬ Clean (duringQ false ({} : NodeSt) .completed) := by simp [duringQ, Clean]

end Lifecycle

/-- **Node state, L2, conjunctive fragment.**  With the result cache disabled, the stateful evaluator
    started from two arbitrary node states returns the same rows - those of the L1 evaluation. -/
theorem c04_conj_any_state_partial (W : World V) (D : VarId → List V) (P : Machine.Params V)
    (q : Query V) (c : Cond V) (hq : q.cond = some c) (hc : Machine.Cond.conj c = true)
    (hf : c.noFlat = true) (st₁ st₂ : Machine.St) :
    (Machine.rowsM W D P false q st₁).1 = (Machine.rowsM W D P false q st₂).1 ∧
    (Machine.rowsM W D P false q st₁).1 = rows W D q := by
  rw [Machine.rowsM_conj_off W D P q c hq hc hf st₁, Machine.rowsM_conj_off W D P q c hq hc hf st₂]
  exact ⟨rfl, rfl⟩

/-! ### Tie to the source (regenerated on every run, `Gen/Tables.lean`) -/

/-- The transliterated life-cycle: both entry points reset in a `finally`, `An.evaluate` resets at its start when a
    query it evaluates is marked as running, and the reset follows a variable's symbolic domain source. -/
theorem c04_lifecycle_tied :
    (Gen.anResetsInFinally && Gen.theResetsInFinally && Gen.anResetsAtStartWhenRunning && Gen.resetReachesDomainSources)
      = true := by decide

end Eql
