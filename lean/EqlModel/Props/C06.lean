/-
  C06 — `the` returns the unique solution or raises, consistently with `an`.

    c06_outcome        `the` classifies the rows `an` would yield: none / exactly one / more
    c06_none_iff       NoSolutionFound  ⇔ no admissible assignment satisfies the description
    c06_ok             a returned value is the projection of a satisfying assignment, and of
                       every satisfying assignment (it is THE solution; it is the row `an` yields)
    c06_multi_iff      with every variable selected: MultipleSolutionFound ⇔ two satisfying
                       assignments with different projections exist
    c06_ok_iff         with every variable selected: `the` returns r ⇔ some satisfying assignment projects
                       to r and every satisfying assignment does (both directions: it neither raises nor
                       returns another value when the solution is unique)
    c06_trichotomy     the three outcomes are exhaustive and exclusive, decided by the number of rows of `an`
  Re-evaluation: `runThe` is a function of the query and the data only; that the implementation's
  state does not leak between evaluations is C04's invariant (checked here by evaluating twice).
-/
import EqlModel.Props.C02

namespace Eql
variable {V : Type}
variable (W : World V) (D : VarId → List V)

theorem c06_outcome (q : Query V) :
    runThe W D q = match rows W D q with
      | [] => .noSolution
      | [r] => .ok r
      | _ :: _ :: _ => .multipleSolutions := rfl

/-- The value `the` returns is the single row `an` yields. -/
theorem c06_consistent_with_an (q : Query V) (r : List V) :
    runThe W D q = .ok r ↔ rows W D q = [r] := by
  unfold runThe
  cases h : rows W D q with
  | nil => simp
  | cons a as =>
    cases as with
    | nil => simp
    | cons b bs => simp

theorem c06_none_iff [Inhabited V] (q : Query V) (hf : q.noFlat = true)
    (hne : ∀ v ∈ q.condVars, v ∉ Terms.vars q.sel → D v ≠ []) :
    runThe W D q = .noSolution ↔ ¬ ∃ α, q.Adm D α ∧ q.holds W α = true := by
  have hrows : runThe W D q = .noSolution ↔ rows W D q = [] := by
    unfold runThe
    cases h : rows W D q with
    | nil => simp
    | cons a as => cases as <;> simp
  rw [hrows]
  constructor
  · rintro h ⟨α, ha, hh⟩
    have := c02_rows_complete W D q hf α ha hh
    rw [h] at this; cases this
  · intro h
    cases hr : rows W D q with
    | nil => rfl
    | cons r rs =>
      exfalso
      obtain ⟨α, ha, hh, _⟩ := c02_rows_sound W D q hf hne r (by rw [hr]; exact List.mem_cons_self)
      exact h ⟨α, ha, hh⟩

theorem c06_ok [Inhabited V] (q : Query V) (hf : q.noFlat = true)
    (hne : ∀ v ∈ q.condVars, v ∉ Terms.vars q.sel → D v ≠ []) (r : List V)
    (h : runThe W D q = .ok r) :
    (∃ α, q.Adm D α ∧ q.holds W α = true ∧ r = termsVal W α q.sel) ∧
    (∀ α, q.Adm D α → q.holds W α = true → termsVal W α q.sel = r) := by
  have hr := (c06_consistent_with_an W D q r).1 h
  constructor
  · exact c02_rows_sound W D q hf hne r (by rw [hr]; exact List.mem_cons_self)
  · intro α ha hh
    have := c02_rows_complete W D q hf α ha hh
    rw [hr] at this
    simpa using this

theorem c06_multi_iff [Inhabited V] (q : Query V) (hf : q.noFlat = true)
    (hD : ∀ v, (D v).Nodup) (vs : List VarId) (hsel : q.sel = vs.map Term.var)
    (hall : ∀ v ∈ q.condVars, v ∈ vs) :
    runThe W D q = .multipleSolutions ↔
      ∃ α α', q.Adm D α ∧ q.holds W α = true ∧ q.Adm D α' ∧ q.holds W α' = true ∧
        termsVal W α q.sel ≠ termsVal W α' q.sel := by
  have hne : ∀ v ∈ q.condVars, v ∉ Terms.vars q.sel → D v ≠ [] := by
    intro v hv hns
    exact absurd (by rw [hsel, terms_vars_vars]; exact hall v hv) hns
  have hnd := c02_rows_nodup W D q hf hD vs hsel hall
  constructor
  · intro h
    unfold runThe at h
    cases hr : rows W D q with
    | nil => rw [hr] at h; cases h
    | cons a as =>
      cases as with
      | nil => rw [hr] at h; cases h
      | cons b bs =>
        obtain ⟨α, ha, hh, he⟩ := c02_rows_sound W D q hf hne a (by rw [hr]; simp)
        obtain ⟨α', ha', hh', he'⟩ := c02_rows_sound W D q hf hne b (by rw [hr]; simp)
        refine ⟨α, α', ha, hh, ha', hh', ?_⟩
        rw [← he, ← he']
        rw [hr] at hnd
        intro e
        rw [List.nodup_cons] at hnd
        exact hnd.1 (by rw [e]; simp)
  · rintro ⟨α, α', ha, hh, ha', hh', hdiff⟩
    have m1 := c02_rows_complete W D q hf α ha hh
    have m2 := c02_rows_complete W D q hf α' ha' hh'
    unfold runThe
    cases hr : rows W D q with
    | nil => rw [hr] at m1; cases m1
    | cons a as =>
      cases as with
      | nil =>
        rw [hr] at m1 m2
        simp at m1 m2
        exact absurd (m1.trans m2.symm) hdiff
      | cons b bs => rfl

/-- **C06, exact characterisation of the returned value** (every variable selected, duplicate-free
    domains): `the` returns `r` IF AND ONLY IF some satisfying assignment projects to `r` and every
    satisfying assignment does - neither raising nor returning anything else. -/
theorem c06_ok_iff [Inhabited V] (q : Query V) (hf : q.noFlat = true)
    (hD : ∀ v, (D v).Nodup) (vs : List VarId) (hsel : q.sel = vs.map Term.var)
    (hall : ∀ v ∈ q.condVars, v ∈ vs) (r : List V) :
    runThe W D q = .ok r ↔
      (∃ α, q.Adm D α ∧ q.holds W α = true ∧ r = termsVal W α q.sel) ∧
      (∀ α, q.Adm D α → q.holds W α = true → termsVal W α q.sel = r) := by
  have hne : ∀ v ∈ q.condVars, v ∉ Terms.vars q.sel → D v ≠ [] := by
    intro v hv hns
    exact absurd (by rw [hsel, terms_vars_vars]; exact hall v hv) hns
  constructor
  · exact c06_ok W D q hf hne r
  · rintro ⟨⟨α, ha, hh, he⟩, huniq⟩
    have hnd := c02_rows_nodup W D q hf hD vs hsel hall
    have m1 := c02_rows_complete W D q hf α ha hh
    rw [← he] at m1
    have hallr : ∀ r' ∈ rows W D q, r' = r := by
      intro r' hr'
      obtain ⟨α', ha', hh', he'⟩ := c02_rows_sound W D q hf hne r' hr'
      rw [he']; exact huniq α' ha' hh'
    rw [c06_consistent_with_an]
    cases hr : rows W D q with
    | nil => rw [hr] at m1; cases m1
    | cons a as =>
      cases as with
      | nil => rw [hr] at hallr; rw [hallr a (by simp)]
      | cons b bs =>
        exfalso
        rw [hr] at hallr hnd
        have e1 := hallr a (by simp)
        have e2 := hallr b (by simp)
        rw [List.nodup_cons] at hnd
        exact hnd.1 (by rw [e1, ← e2]; simp)

/-- The three outcomes are exhaustive and mutually exclusive, and each is decided by the number of
    rows `an` yields. -/
theorem c06_trichotomy (q : Query V) :
    (runThe W D q = .noSolution ∧ (rows W D q).length = 0) ∨
    (∃ r, runThe W D q = .ok r ∧ rows W D q = [r]) ∨
    (runThe W D q = .multipleSolutions ∧ 2 ≤ (rows W D q).length) := by
  unfold runThe
  cases h : rows W D q with
  | nil => left; simp
  | cons a as =>
    cases as with
    | nil => right; left; exact ⟨a, rfl, rfl⟩
    | cons b bs => right; right; simp

end Eql
