/-
  C11 — rule inference builds one instance per satisfying binding, from that binding.

  `infer(entity(T(f1=e1, …, fn=en), conditions))`: the selected variable is inferred, so for every
  true output of the conditions the argument expressions are evaluated under that binding and T is
  instantiated with them (`Variable._evaluate__`, inferred branch; `Rules.ruleRows` with a single
  leaf).  An instance is identified with (class tag, field values).
    c11_rows              the instances are the rows of the query that selects e1 … en, tagged
    c11_sound             every instance carries the values of e1 … en under ONE admissible
                          assignment that satisfies the conditions (fields are never mixed, none is
                          built for a non-satisfying assignment)
    c11_complete          every satisfying assignment has its instance
    c11_one_per_binding   when the conditions bind every variable the head mentions, each true
                          output of the conditions yields exactly one instance, built from it
    c11_count             with distinct domain objects and a head whose arguments are all the
                          variables of the rule, no instance is built twice: there are exactly as many
                          instances as satisfying assignments
  Existing objects are reused as field values: values are passed through (`termVal`), nothing in the
  model can copy an object; on the implementation the harness compares by identity.
-/
import EqlModel.Rules
import EqlModel.Props.C10

namespace Eql
variable {V : Type}
variable (W : World V) (D : VarId → List V)

theorem c11_rows (i tag : Nat) (c : Cond V) (hf : c.noFlat = true) (args : List (Term V)) :
    ruleRows W D (.leaf i c tag) args = (rows W D ⟨args, some c⟩).map fun r => (tag, r) := by
  have hfl : ∀ p ∈ evalCond W D c [] false, p.2 = false :=
    fun p hp => ((cond_sound_complete W D c hf).1 [] p.1 p.2 false hp).1 rfl
  simp only [ruleRows, evalR, rows, List.flatMap_map, List.map_flatMap]
  generalize evalCond W D c [] false = L at hfl
  induction L with
  | nil => rfl
  | cons p ps ih =>
    have hp := hfl p List.mem_cons_self
    simp only [List.flatMap_cons, ih (fun q hq => hfl q (List.mem_cons_of_mem _ hq)), hp,
      Bool.false_eq_true, if_false, List.map_map]
    rfl

theorem c11_sound [Inhabited V] (i tag : Nat) (c : Cond V) (hf : c.noFlat = true) (args : List (Term V))
    (hfa : Terms.noFlat args = true)
    (hne : ∀ v ∈ c.vars, v ∉ Terms.vars args → D v ≠ []) (inst : Nat × List V)
    (h : inst ∈ ruleRows W D (.leaf i c tag) args) :
    inst.1 = tag ∧ ∃ α, (∀ v ∈ c.vars ++ Terms.vars args, α v ∈ D v) ∧ denote W α c = true ∧
      inst.2 = termsVal W α args := by
  rw [c11_rows W D i tag c hf args, List.mem_map] at h
  obtain ⟨r, hr, rfl⟩ := h
  refine ⟨rfl, ?_⟩
  obtain ⟨α, ha, hh, he⟩ := c02_rows_sound W D ⟨args, some c⟩
    (by simp [Query.noFlat, hfa, hf]) (by simpa [Query.condVars] using hne) r hr
  exact ⟨α, by simpa [Query.Adm, Query.condVars] using ha, by simpa [Query.holds] using hh, he⟩

theorem c11_complete (i tag : Nat) (c : Cond V) (hf : c.noFlat = true) (args : List (Term V))
    (hfa : Terms.noFlat args = true) (α : Asg V)
    (hadm : ∀ v ∈ c.vars ++ Terms.vars args, α v ∈ D v) (hh : denote W α c = true) :
    (tag, termsVal W α args) ∈ ruleRows W D (.leaf i c tag) args := by
  rw [c11_rows W D i tag c hf args, List.mem_map]
  exact ⟨termsVal W α args, c02_rows_complete W D ⟨args, some c⟩ (by simp [Query.noFlat, hfa, hf]) α
    (by simpa [Query.Adm, Query.condVars] using hadm) (by simpa [Query.holds] using hh), rfl⟩

/-- One instance per true output of the conditions, built from that output's binding. -/
theorem c11_one_per_binding [Inhabited V] (i tag : Nat) (c : Cond V) (hf : c.noFlat = true)
    (hu : Cond.uniformOr c) (args : List (Term V)) (hfa : Terms.noFlat args = true)
    (hsub : ∀ v ∈ Terms.vars args, v ∈ c.vars) :
    ruleRows W D (.leaf i c tag) args =
      (evalCond W D c [] false).map fun p => (tag, termsVal W (asgOfBnd p.1) args) := by
  have hfl : ∀ p ∈ evalCond W D c [] false, p.2 = false :=
    fun p hp => ((cond_sound_complete W D c hf).1 [] p.1 p.2 false hp).1 rfl
  have htot : ∀ p ∈ evalCond W D c [] false, ∀ v ∈ c.vars, bound p.1 v = true := by
    intro p hp v hv
    have h2 := hfl p hp
    exact true_output_total W D c hf hu [] p.1 false (by
      have e : (p.1, false) = p := by rw [← h2]
      rw [e]; exact hp) v hv
  simp only [ruleRows, evalR, List.flatMap_map]
  generalize evalCond W D c [] false = L at hfl htot
  induction L with
  | nil => rfl
  | cons p ps ih =>
    have hp := hfl p List.mem_cons_self
    have hcl := args_closed W D args hfa p.1 (asgOfBnd p.1) (ext_asgOfBnd p.1)
      (fun v hv => htot p List.mem_cons_self v (hsub v hv))
    simp only [List.flatMap_cons, List.map_cons, hp, Bool.false_eq_true, if_false, hcl, List.map_nil,
      List.singleton_append]
    rw [ih (fun q hq => hfl q (List.mem_cons_of_mem _ hq)) (fun q hq => htot q (List.mem_cons_of_mem _ hq))]

/-- No instance twice: as many instances as satisfying assignments. -/
theorem c11_count [Inhabited V] (i tag : Nat) (c : Cond V) (hf : c.noFlat = true)
    (hD : ∀ v, (D v).Nodup) (vs : List VarId) (hall : ∀ v ∈ c.vars, v ∈ vs) :
    (ruleRows W D (.leaf i c tag) (vs.map Term.var)).Nodup := by
  rw [c11_rows W D i tag c hf]
  have := c02_rows_nodup W D ⟨vs.map Term.var, some c⟩
    (by simp [Query.noFlat, terms_noFlat_vars, hf]) hD vs rfl (by simpa [Query.condVars] using hall)
  rw [List.nodup_iff_pairwise_ne] at this ⊢
  rw [List.pairwise_map]
  exact this.imp (fun h e => h (by injection e))

end Eql
