/-
  C17 — `concatenate` yields a single value: all inner elements, in order.

  `concatenate(t)` where `t` (e.g. `p.items`) is an expression over one variable `p`:
    c17_concat_value      it evaluates to exactly ONE output whose value is the list of all
                          elements of `t` over all objects of the domain, in domain order then
                          inner order, with multiplicity (a non-iterable counts as one element)
    c17_concat_rows       an(entity(concatenate(t))) yields that single row
    c17_member            entity(o, in_(o, concatenate(t))) selects exactly the domain objects of
                          `o` that are in the combined list, in domain order
    c17_not_member        the negated test selects exactly the others (the complement)
    c17_concat_value_frame   the single value is the same under EVERY outer binding that leaves the operand's
                          variable unbound (the aggregation is not correlated with anything outside it)
    c17_concat_value_bound   once bound, the node answers with its binding (no second aggregation)
    c17_concat_after_var / c17_concat_before_var   selected next to another variable, in either order: one
                          row per object of that variable, every row carrying the same combined list
-/
import EqlModel.Lemmas.Closed
import EqlModel.Props.C03

namespace Eql
variable {V : Type}
variable (W : World V) (D : VarId → List V)

/-- The combined list. -/
def combined (p : VarId) (t : Term V) : V :=
  W.mkList ((D p).flatMap fun o => W.items (termVal W (constAsg o) t))

structure ConcatWF (p g : VarId) (t : Term V) : Prop where
  noFlat : t.noFlat = true
  vars : ∀ v ∈ t.vars, v = p
  nonempty : t.vars ≠ []

theorem c17_concat_value [Inhabited V] (p g : VarId) (t : Term V) (h : ConcatWF p g t) :
    evalTerm W D (.concat g t) [] = [([(g, combined W D p t)], combined W D p t)] := by
  have hl : List.lookup g ([] : Bnd V) = none := rfl
  simp only [evalTerm, hl, term_dist W D p t h.noFlat h.vars h.nonempty, List.flatMap_map, combined]

theorem c17_concat_rows [Inhabited V] (p g : VarId) (t : Term V) (h : ConcatWF p g t) :
    rows W D ⟨[.concat g t], none⟩ = [[combined W D p t]] := by
  simp only [rows, List.flatMap_cons, List.flatMap_nil, List.append_nil, evalArgs,
    c17_concat_value W D p g t h, List.map_cons, List.map_nil]

/-- Membership of an outer variable `o` against the combined list, with operator `op`
    (`contains` for `in_`, `not_contains` after `not_`). -/
theorem c17_member_op [Inhabited V] (p g x : VarId) (t : Term V) (h : ConcatWF p g t) (hx : x ≠ g)
    (op : CmpOp) :
    rows W D ⟨[.var x], some (.cmp op (.concat g t) (.var x))⟩ =
      ((D x).filter fun o => W.cmp op (combined W D p t) o).map fun o => [o] := by
  have hrf : rightFirst ([] : Bnd V) (.var x) = false := by simp [rightFirst, Term.vars, bound, List.lookup]
  have hlx : List.lookup x [(g, combined W D p t)] = none := by
    have : (x == g) = false := by simp [hx]
    simp [List.lookup, this]
  have hv : evalTerm W D (.var x) [(g, combined W D p t)] =
      (D x).map fun o => ((x, o) :: [(g, combined W D p t)], o) := by
    simp only [evalTerm, hlx]
  simp only [rows, evalCond, hrf, Bool.false_eq_true, if_false]
  rw [c17_concat_value W D p g t h]
  simp only [List.flatMap_cons, List.flatMap_nil, List.append_nil, hv, List.flatMap_map, Bool.or_false,
    List.flatMap_assoc]
  induction D x with
  | nil => rfl
  | cons o os ih =>
    rw [List.flatMap_cons, ih, List.filter_cons]
    rcases Bool.eq_false_or_eq_true (W.cmp op (combined W D p t) o) with hc | hc
    · simp [hc, evalArgs, evalTerm, lookup_cons_self]
    · simp [hc]

theorem c17_member [Inhabited V] (p g x : VarId) (t : Term V) (h : ConcatWF p g t) (hx : x ≠ g) :
    rows W D ⟨[.var x], some (build (.in_ (.var x) (.concat g t)))⟩ =
      ((D x).filter fun o => W.cmp .contains (combined W D p t) o).map fun o => [o] := by
  simp only [build, buildIn, Gen.inCmp, if_true]
  exact c17_member_op W D p g x t h hx .contains

theorem c17_not_member [Inhabited V] (hW : W.Lawful) (p g x : VarId) (t : Term V) (h : ConcatWF p g t)
    (hx : x ≠ g) :
    rows W D ⟨[.var x], some (build (.not (.in_ (.var x) (.concat g t))))⟩ =
      ((D x).filter fun o => !W.cmp .contains (combined W D p t) o).map fun o => [o] := by
  simp only [build, buildIn, Gen.inCmp, if_true, neg, Gen.invOp]
  rw [c17_member_op W D p g x t h hx .notContains]
  simp only [hW.nc_c]

/-- The single value does not depend on what else is bound: under every binding that leaves the
    operand's variable and the node itself unbound, `concatenate(t)` has one output, the combined list. -/
theorem c17_concat_value_frame [Inhabited V] (p g : VarId) (t : Term V) (h : ConcatWF p g t)
    (β : Bnd V) (hp : β.lookup p = none) (hg : β.lookup g = none) :
    evalTerm W D (.concat g t) β = [((g, combined W D p t) :: β, combined W D p t)] := by
  simp only [evalTerm, hg, term_dist_frame W D p β hp t h.noFlat h.vars h.nonempty, List.flatMap_map,
    combined]

/-- Once computed the node answers with its own binding (no second aggregation). -/
theorem c17_concat_value_bound [Inhabited V] (g : VarId) (t : Term V) (β : Bnd V) (a : V)
    (hg : β.lookup g = some a) :
    evalTerm W D (.concat g t) β = [(β, a)] := by
  simp only [evalTerm, hg]

/-- Selected NEXT TO another variable: one row per object of that variable, each carrying the
    same combined list - in either order of selection. -/
theorem c17_concat_after_var [Inhabited V] (p g x : VarId) (t : Term V) (h : ConcatWF p g t)
    (hxp : x ≠ p) (hxg : x ≠ g) :
    rows W D ⟨[.var x, .concat g t], none⟩ = (D x).map fun o => [o, combined W D p t] := by
  have hx : List.lookup x ([] : Bnd V) = none := rfl
  have hv : evalTerm W D (.var x) [] = (D x).map fun o => ([(x, o)], o) := by
    simp only [evalTerm, hx]
  have hstep : ∀ o : V, evalArgs W D [.concat g t] [(x, o)] =
      [((g, combined W D p t) :: [(x, o)], [combined W D p t])] := by
    intro o
    have hp : List.lookup p [(x, o)] = none := by
      have : (p == x) = false := by simp [Ne.symm hxp]
      simp [List.lookup, this]
    have hg : List.lookup g [(x, o)] = none := by
      have : (g == x) = false := by simp [Ne.symm hxg]
      simp [List.lookup, this]
    simp only [evalArgs, c17_concat_value_frame W D p g t h [(x, o)] hp hg, List.flatMap_cons,
      List.flatMap_nil, List.append_nil, List.map_cons, List.map_nil]
  have hargs : evalArgs W D [.var x, .concat g t] [] =
      (D x).map fun o => ((g, combined W D p t) :: [(x, o)], [o, combined W D p t]) := by
    rw [evalArgs, hv, List.flatMap_map]
    simp only [hstep, List.map_cons, List.map_nil]
    induction D x with
    | nil => rfl
    | cons o os ih => simp [ih]
  simp only [rows, List.flatMap_cons, List.flatMap_nil, List.append_nil, hargs, List.map_map]
  rfl

theorem c17_concat_before_var [Inhabited V] (p g x : VarId) (t : Term V) (h : ConcatWF p g t)
    (hxg : x ≠ g) :
    rows W D ⟨[.concat g t, .var x], none⟩ = (D x).map fun o => [combined W D p t, o] := by
  have hlx : List.lookup x [(g, combined W D p t)] = none := by
    have : (x == g) = false := by simp [hxg]
    simp [List.lookup, this]
  have hv : evalArgs W D [.var x] [(g, combined W D p t)] =
      (D x).map fun o => ((x, o) :: [(g, combined W D p t)], [o]) := by
    simp only [evalArgs, evalTerm, hlx, List.flatMap_map, List.map_cons, List.map_nil]
    induction D x with
    | nil => rfl
    | cons o os ih => simp [ih]
  have hargs : evalArgs W D [.concat g t, .var x] [] =
      (D x).map fun o => ((x, o) :: [(g, combined W D p t)], [combined W D p t, o]) := by
    rw [evalArgs, c17_concat_value W D p g t h]
    simp only [List.flatMap_cons, List.flatMap_nil, List.append_nil, hv, List.map_map]
    rfl
  simp only [rows, List.flatMap_cons, List.flatMap_nil, List.append_nil, hargs, List.map_map]
  rfl

end Eql
