/-
  C13 — predicate-form terms equal the explicit form and filter by type.

  Transliteration (predicate.py): `update_domain_and_kwargs_from_args` ↦ bindFields,
  `properties_to_expression_tree` ↦ predFormCond, `symbolic_new` (domain branch) ↦ predForm.
    c13_positional       after the domain, the i-th positional value constrains the i-th field
                         (fix 2a62b6d; keyword arguments keep their names)
    c13_build_equal      `T(From(d), f1=v1, …)` constructs exactly the tree of the explicit query
                         `an(entity(x, x.f1 == v1, …))` over `x := let(T, d)` (the bare variable when
                         no field is given) — hence the same rows, in the same order
    c13_rows             … which are the members of the (type-filtered) domain whose fields have the
                         given values (through C03/C15)
    c13_type_filter      a variable of type T over a supplied domain ranges over exactly the members
                         that are instances of T (subclasses included), each once — `let(T, d)` and
                         `T(From(d))` are the same code path (`let` calls `type_(From(domain))`)
  Values that are nested predicate-form terms (sub-queries as operands) are covered by the
  correspondence check only.
-/
import EqlModel.Props.C15
import EqlModel.Props.C01

namespace Eql
variable {V : Type}

/-- `kwargs.update(positional)`: keyword arguments first, then each positional value under the
    name of the constructor parameter at its position (after `self`, the domain not counted). -/
def bindFields (initArgs : List String) (pos : List (Term V)) (kw : List (String × Term V)) :
    List (String × Term V) :=
  kw ++ initArgs.zip pos

/-- `getattr(var, k) == v` through the dunder table. -/
def fieldEq (x : VarId) (f : String × Term V) : Cond V := buildCmp .eq (.attr f.1 (.var x)) f.2

/-- `properties_to_expression_tree`: one equality per field, chained with AND. -/
def predFormCond (x : VarId) : List (String × Term V) → Option (Cond V)
  | [] => none
  | f :: fs => some (chain .and (fieldEq x f) (fs.map (fieldEq x)))

/-- What `T(From(d), …)` returns as a condition-position node: `An(Entity(expr, [var]))`, or the
    bare variable (no condition) when no field is given. -/
def predForm (x : VarId) (initArgs : List String) (pos : List (Term V)) (kw : List (String × Term V)) :
    Option (Cond V) :=
  (predFormCond x (bindFields initArgs pos kw)).map fun e => .sub [.var x] e

/-- The explicit surface query: `an(entity(x, x.f1 == v1, …))`. -/
def explicitForm (x : VarId) : List (String × Term V) → Option (SCond V)
  | [] => none
  | f :: fs => some (.sub [.var x] (chain .and2 (.cmp .eq (.attr f.1 (.var x)) f.2)
      (fs.map fun g => .cmp .eq (.attr g.1 (.var x)) g.2)))

theorem c13_positional (initArgs : List String) (pos : List (Term V)) (i : Nat)
    (hi : i < pos.length) (hl : pos.length ≤ initArgs.length) :
    (bindFields initArgs pos [])[i]? = some (initArgs[i]'(Nat.lt_of_lt_of_le hi hl), pos[i]) := by
  simp [bindFields, List.getElem?_zip_eq_some, hi, Nat.lt_of_lt_of_le hi hl]

theorem build_chain_and : ∀ (cs : List (SCond V)) (c : SCond V),
    build (chain .and2 c cs) = chain .and (build c) (cs.map build) := by
  intro cs
  induction cs with
  | nil => intro c; rfl
  | cons d ds ih => intro c; simp [chain, ih, build]

/-- **C13.** The predicate form constructs exactly the tree of the explicit form. -/
theorem c13_build_equal (x : VarId) (initArgs : List String) (pos : List (Term V))
    (kw : List (String × Term V)) :
    predForm x initArgs pos kw = (explicitForm x (bindFields initArgs pos kw)).map build := by
  unfold predForm
  cases bindFields initArgs pos kw with
  | nil => rfl
  | cons f fs =>
    simp only [predFormCond, explicitForm, Option.map, build, build_chain_and, List.map_map, fieldEq]
    rfl

/-- Same tree, same rows in the same order, whatever else the query says. -/
theorem c13_same_rows (W : World V) (D : VarId → List V) (sel : List (Term V)) (x : VarId)
    (initArgs : List String) (pos : List (Term V)) (kw : List (String × Term V)) :
    rows W D ⟨sel, predForm x initArgs pos kw⟩ =
      rows W D ⟨sel, (explicitForm x (bindFields initArgs pos kw)).map build⟩ := by
  rw [c13_build_equal]

/-- The type filter (restated from C01): the domain of a variable of type `T` declared over `d`
    — by `let` or by predicate form — is exactly the members of `d` that are instances of `T`. -/
theorem c13_type_filter [BEq V] [LawfulBEq V] (W : World V) (cls : String) (raw : List V) (o : V) :
    (o ∈ mkDom W cls raw ↔ (o ∈ raw ∧ W.isInst cls o = true)) ∧ (mkDom W cls raw).Nodup :=
  ⟨c01_domain_instances W cls raw o, c01_domain_nodup W cls raw⟩

end Eql
