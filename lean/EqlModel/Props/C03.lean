/-
  C03 — negation returns the exact complement, at any nesting depth.

  Over the REGENERATED tables (`Gen.invOp`, `Gen.dunder`, `Gen.inCmp`, the `Not` dispatch):
    invOp_negates / invOp_involutive     every operator is replaced by its true inverse
    neg_denote                           `Not` distributes correctly over and/or, comparisons,
                                         boolean expressions and predicates, at any depth
    neg_involutive                       negating a negated condition restores the condition
    build_denote                         the constructed tree means what the surface syntax says
    c03_rows_iff / c03_not_rows_iff / c03_not_not_rows   rows (via C02): exact complement
-/
import EqlModel.Lemmas.BuildLemmas
import EqlModel.Props.C02

namespace Eql
variable {V : Type}
variable (W : World V)

theorem invOp_negates (hW : W.Lawful) (op : CmpOp) (a b : V) :
    W.cmp (Gen.invOp op) a b = !W.cmp op a b := by
  cases op <;> simp [Gen.invOp, hW.ne_eq, hW.ge_lt, hW.le_gt, hW.nc_c]

theorem invOp_involutive (op : CmpOp) : Gen.invOp (Gen.invOp op) = op := by
  cases op <;> rfl

/-- The `Not` dispatch is total and in the order the model assumes. -/
theorem not_dispatch_order :
    Gen.notDispatch = [.resultQuantifier, .entity, .setOf, .and, .or, .other] := by decide

/-- `Not` means logical negation, for every constructed condition. -/
theorem neg_denote (hW : W.Lawful) (α : Asg V) : ∀ (c : Cond V),
    denote W α (neg c) = !denote W α c := by
  intro c
  induction c with
  | cmp op l r => simp [neg, denote, invOp_negates W hW]
  | truth inv t => cases inv <;> simp [neg, Gen.notTogglesFlag, denote]
  | pred inv n args => cases inv <;> simp [neg, Gen.notTogglesFlag, denote]
  | and l r ihl ihr => simp [neg, Gen.notAndBuildsElseIf, denote, ihl, ihr]
  | elseIf l r ihl ihr => simp [neg, Gen.notOrBuildsAnd, denote, ihl, ihr]
  | sub sel c ih => simp [neg, denote, ih]

/-- Negating a negated condition restores the original condition (structurally). -/
theorem neg_involutive : ∀ (c : Cond V), neg (neg c) = c := by
  intro c
  induction c with
  | cmp op l r => simp [neg, invOp_involutive]
  | truth inv t => simp [neg, Gen.notTogglesFlag]
  | pred inv n args => simp [neg, Gen.notTogglesFlag]
  | and l r ihl ihr => simp [neg, Gen.notAndBuildsElseIf, Gen.notOrBuildsAnd, ihl, ihr]
  | elseIf l r ihl ihr => simp [neg, Gen.notAndBuildsElseIf, Gen.notOrBuildsAnd, ihl, ihr]
  | sub sel c ih => simp [neg, ih]

/-- A comparison written with a plain value on either side, through the dunder table and
    CPython's reflection rule, means what it says. -/
theorem buildCmp_denote (hW : W.Lawful) (α : Asg V) (op : SurfOp) (l r : Term V) :
    denote W α (buildCmp op l r) = applySurf W op (termVal W α l) (termVal W α r) := by
  unfold buildCmp
  split
  · cases op <;>
      simp [SurfOp.mirror, Gen.dunder, denote, applySurf, hW.gt_lt, hW.ge_lt, hW.le_gt, hW.ne_eq,
        hW.eq_comm (termVal W α r) (termVal W α l)]
  · cases op <;> simp [Gen.dunder, denote, applySurf]

/-- The constructed tree denotes what the surface condition says under ordinary Python semantics. -/
theorem build_denote (hW : W.Lawful) (α : Asg V) : ∀ (c : SCond V),
    denote W α (build c) = sdenote W α c := by
  intro c
  induction c with
  | cmp op l r => simp [build, sdenote, buildCmp_denote W hW]
  | in_ i c => simp [build, buildIn, Gen.inCmp, denote, sdenote]
  | contains c i => simp [build, buildContains, buildIn, Gen.inCmp, Gen.containsDelegatesSwapped, denote, sdenote]
  | truth t => simp [build, denote, sdenote]
  | pred n args => simp [build, denote, sdenote]
  | and2 l r ihl ihr => simp [build, denote, sdenote, ihl, ihr]
  | or2 l r ihl ihr => simp [build, denote, sdenote, ihl, ihr]
  | not c ih => simp [build, sdenote, neg_denote W hW, ih]
  | sub sel c ih => simp [build, denote, sdenote, ih]

/-- `contains(c, i)` and `in_(i, c)` construct the same tree. -/
theorem contains_in_same (c i : Term V) :
    build (SCond.contains c i) = build (SCond.in_ i c) := by
  simp [build, buildContains, Gen.containsDelegatesSwapped]

variable (D : VarId → List V)

/-- An assignment is admissible for a surface query. -/
def SAdm (sel : List (Term V)) (sc : SCond V) (α : Asg V) : Prop :=
  ∀ v ∈ sc.vars ++ Terms.vars sel, α v ∈ D v

/-- **Rows of a surface query** = projections of the admissible assignments that satisfy the
    surface condition (C02 transported through `build`). -/
theorem c03_rows_iff [Inhabited V] (hW : W.Lawful) (sel : List (Term V)) (sc : SCond V)
    (hfs : Terms.noFlat sel = true) (hfc : sc.noFlat = true)
    (hne : ∀ v ∈ sc.vars, v ∉ Terms.vars sel → D v ≠ []) (r : List V) :
    r ∈ rows W D ⟨sel, some (build sc)⟩ ↔
      ∃ α, SAdm D sel sc α ∧ sdenote W α sc = true ∧ r = termsVal W α sel := by
  have hf : (Query.noFlat ⟨sel, some (build sc)⟩ : Bool) = true := by
    simp [Query.noFlat, hfs, build_noFlat, hfc]
  have hadm : ∀ α, Query.Adm D ⟨sel, some (build sc)⟩ α ↔ SAdm D sel sc α := by
    intro α
    simp only [Query.Adm, SAdm, Query.condVars, List.mem_append]
    constructor
    · intro h v hv
      exact h v (hv.imp (fun h => (build_vars_mem sc v).2 h) id)
    · intro h v hv
      exact h v (hv.imp (fun h => (build_vars_mem sc v).1 h) id)
  constructor
  · intro hr
    obtain ⟨α, ha, hh, he⟩ := c02_rows_sound W D ⟨sel, some (build sc)⟩ hf
      (by intro v hv hns
          exact hne v ((build_vars_mem sc v).1 (by simpa [Query.condVars] using hv)) hns) r hr
    refine ⟨α, (hadm α).1 ha, ?_, he⟩
    simpa [Query.holds, build_denote W hW] using hh
  · rintro ⟨α, ha, hh, rfl⟩
    exact c02_rows_complete W D ⟨sel, some (build sc)⟩ hf α ((hadm α).2 ha)
      (by simpa [Query.holds, build_denote W hW] using hh)

/-- **Exact complement.** The rows of `not_(c)` are the projections of exactly the admissible
    assignments that do NOT satisfy `c`. -/
theorem c03_not_rows_iff [Inhabited V] (hW : W.Lawful) (sel : List (Term V)) (sc : SCond V)
    (hfs : Terms.noFlat sel = true) (hfc : sc.noFlat = true)
    (hne : ∀ v ∈ sc.vars, v ∉ Terms.vars sel → D v ≠ []) (r : List V) :
    r ∈ rows W D ⟨sel, some (build (.not sc))⟩ ↔
      ∃ α, SAdm D sel sc α ∧ sdenote W α sc = false ∧ r = termsVal W α sel := by
  rw [c03_rows_iff W D hW sel (.not sc) hfs (by simpa [SCond.noFlat] using hfc)
    (by simpa [SCond.vars] using hne) r]
  constructor
  · rintro ⟨α, ha, hh, he⟩
    exact ⟨α, by simpa [SAdm, SCond.vars] using ha, by simpa [sdenote] using hh, he⟩
  · rintro ⟨α, ha, hh, he⟩
    exact ⟨α, by simpa [SAdm, SCond.vars] using ha, by simpa [sdenote] using hh, he⟩

/-- **Double negation.** `not_(not_(c))` constructs exactly the tree of `c`, hence returns the
    same rows in the same order. -/
theorem c03_not_not_rows (sel : List (Term V)) (sc : SCond V) :
    rows W D ⟨sel, some (build (.not (.not sc)))⟩ = rows W D ⟨sel, some (build sc)⟩ := by
  simp [build, neg_involutive]

end Eql
