/-
  EqlModel.Spec — layer L0: what a condition and a query *mean*.

  `termVal`/`denote` give the value of an expression and the truth of a condition under a
  total assignment, by ordinary structural recursion: this is the "brute-force product filter"
  of the properties, stated without reference to the evaluation algorithm.
-/
import EqlModel.Basic

namespace Eql

variable {V : Type}

def termVal (W : World V) (α : Asg V) : Term V → V
  | .var v => α v
  | .lit c => c
  | .attr n t => W.attr n (termVal W α t)
  | .index k t => W.index (termVal W α t) k
  | .call m args t => W.call m args (termVal W α t)
  | .flatten id _ => α id
  | .concat id _ => α id

def termsVal (W : World V) (α : Asg V) : List (Term V) → List V
  | [] => []
  | t :: ts => termVal W α t :: termsVal W α ts

/-- An assignment respects a term: every variable takes a value of its domain and every flatten
    node an element of the collection its operand denotes. -/
def TermOk (W : World V) (D : VarId → List V) (α : Asg V) : Term V → Prop
  | .var v => α v ∈ D v
  | .lit _ => True
  | .attr _ t => TermOk W D α t
  | .index _ t => TermOk W D α t
  | .call _ _ t => TermOk W D α t
  | .flatten id t => TermOk W D α t ∧ α id ∈ W.items (termVal W α t)
  | .concat _ _ => True

def TermsOk (W : World V) (D : VarId → List V) (α : Asg V) : List (Term V) → Prop
  | [] => True
  | t :: ts => TermOk W D α t ∧ TermsOk W D α ts

/-- Truth of a constructed condition under a total assignment. -/
def denote (W : World V) (α : Asg V) : Cond V → Bool
  | .cmp op l r => W.cmp op (termVal W α l) (termVal W α r)
  | .truth inv t => W.truthy (termVal W α t) != inv
  | .pred inv name args => W.truthy (W.fn name (termsVal W α args)) != inv
  | .and l r => denote W α l && denote W α r
  | .elseIf l r => denote W α l || denote W α r
  | .sub _ c => denote W α c

def CondOk (W : World V) (D : VarId → List V) (α : Asg V) : Cond V → Prop
  | .cmp _ l r => TermOk W D α l ∧ TermOk W D α r
  | .truth _ t => TermOk W D α t
  | .pred _ _ args => TermsOk W D α args
  | .and l r => CondOk W D α l ∧ CondOk W D α r
  | .elseIf l r => CondOk W D α l ∧ CondOk W D α r
  | .sub sel c => CondOk W D α c ∧ TermsOk W D α sel

end Eql
