/-
  EqlModel.ForAll — `ForAll._evaluate__` (symbolic.py, after fix 877c1d1), layer L1.

    for var_val in self.variable._evaluate__(sources):          ↦ universal values: evalTerm (.var u) β
        self.condition._reset_cache_()                           (de-dup state is not in L1)
        current = [restriction of every TRUE output of the condition to the free variable ids]
        first value: solution_set = current; later: keep the members that are also in current
    yield solution ∪ sources for the remaining solutions         ↦ mergeBack

  `condition_unique_variable_ids` = variables of the condition that are not the universal
  variable's, literals excluded ↦ freeIds.
-/
import EqlModel.Eval
import EqlModel.Lemmas.Cond

namespace Eql
variable {V : Type} [BEq V]

/-- A binding restricted to the given ids (a missing id stays visible as `none`, like a missing
    dictionary key makes two dictionaries differ). -/
def restrictTo (ids : List VarId) (β : Bnd V) : List (VarId × Option V) :=
  ids.map fun k => (k, β.lookup k)

def freeIds (c : Cond V) (u : VarId) : List VarId :=
  (c.vars.eraseDups).filter fun v => v != u

/-- `out = copy(sol); out.update(sources)` -/
def mergeBack (d : List (VarId × Option V)) (β : Bnd V) : Bnd V :=
  (d.filterMap fun p => p.2.map fun a => (p.1, a)) ++ β

/-- The restrictions of the true outputs of the condition under one universal value. -/
def solsUnder (W : World V) (D : VarId → List V) (c : Cond V) (ids : List VarId) (ctx : Bnd V) :
    List (List (VarId × Option V)) :=
  ((evalCond W D c ctx false).filter fun q => !q.2).map fun q => restrictTo ids q.1

def evalForAll (W : World V) (D : VarId → List V) (u : VarId) (c : Cond V) (β : Bnd V) : List (Bnd V) :=
  let ids := freeIds c u
  match evalTerm W D (.var u) β with
  | [] => []
  | p :: ps =>
      let final := ps.foldl (fun acc p' => acc.filter fun d => (solsUnder W D c ids p'.1).contains d)
        (solsUnder W D c ids p.1)
      final.map fun d => mergeBack d β

/-- The same loop over an arbitrary evaluation of the condition (`evalC ctx` = the bindings of its
    TRUE outputs under `ctx`): what `ForAll._evaluate__` does when its condition is itself a
    `ForAll` node. -/
def evalForAllG (W : World V) (D : VarId → List V) (u : VarId) (ids : List VarId)
    (evalC : Bnd V → List (Bnd V)) (β : Bnd V) : List (Bnd V) :=
  match evalTerm W D (.var u) β with
  | [] => []
  | p :: ps =>
      let sols := fun (ctx : Bnd V) => (evalC ctx).map (restrictTo ids)
      let final := ps.foldl (fun acc p' => acc.filter fun d => (sols p'.1).contains d) (sols p.1)
      final.map fun d => mergeBack d β

/-- `condition_unique_variable_ids` of the level whose universal variable is `u` and whose condition
    is `for_all(us₀, for_all(us₁, … c))`: the condition's variables (the inner universal variables
    included) without `u`. -/
def idsN (c : Cond V) (u : VarId) (us : List VarId) : List VarId :=
  ((c.vars ++ us).eraseDups).filter fun v => v != u

/-- `for_all(u₀, for_all(u₁, … c))`. -/
def evalForAllN (W : World V) (D : VarId → List V) : List VarId → Cond V → Bnd V → List (Bnd V)
  | [], c, β => ((evalCond W D c β false).filter fun q => !q.2).map (·.1)
  | u :: us, c, β => evalForAllG W D u (idsN c u us) (evalForAllN W D us c) β

/-- One conjunct of the top-level `and_` chain: an ordinary condition, or a (nested) for_all. -/
inductive Stage (V : Type) where
  | cond (c : Cond V)
  | forAll (us : List VarId) (c : Cond V)

def evalStage (W : World V) (D : VarId → List V) : Stage V → Bnd V → List (Bnd V)
  | .cond c, β => ((evalCond W D c β false).filter fun q => !q.2).map (·.1)
  | .forAll us c, β => evalForAllN W D us c β

/-- `and_(s₁, s₂, …)` is left-nested: each conjunct is evaluated under every true output of the
    conjuncts before it. -/
def evalStages (W : World V) (D : VarId → List V) (stages : List (Stage V)) (β : Bnd V) : List (Bnd V) :=
  stages.foldl (fun bs s => bs.flatMap (evalStage W D s)) [β]

/-- Rows of `an(set_of(sel, s₁, s₂, …))`. -/
def rowsStages (W : World V) (D : VarId → List V) (sel : List (Term V)) (stages : List (Stage V)) :
    List (List V) :=
  (evalStages W D stages []).flatMap fun β => (evalArgs W D sel β).map (·.2)

/-- Rows of `an(set_of(sel, for_all(u, c)))`, optionally under an outer conjunct `d`:
    `and_(d, for_all(u, c))`. -/
def rowsForAll (W : World V) (D : VarId → List V) (sel : List (Term V)) (outer : Option (Cond V))
    (u : VarId) (c : Cond V) : List (List V) :=
  let starts : List (Bnd V) := match outer with
    | none => [[]]
    | some d => (evalCond W D d [] false).map (·.1)
  (starts.flatMap fun β => evalForAll W D u c β).flatMap fun β => (evalArgs W D sel β).map (·.2)

end Eql
