/-
  EqlModel.ForAll — `ForAll._evaluate__` (symbolic.py, after fix 877c1d1), layer L1.

    for var_val in self.variable._evaluate__(sources):          ↦ universal values: evalTerm (.var u) β
        self.condition._reset_cache_()                           (de-dup state is not in L1)
        current = [restriction of every TRUE output of the condition to the free variable ids]
        first value: solution_set = current; later: keep the members that are also in current
    yield solution ∪ sources for the remaining solutions         ↦ mergeBack

  `condition_unique_variable_ids` = variables of the condition that are not the universal
  variable's, literals excluded ↦ freeIds.
-/
import EqlModel.Eval
import EqlModel.Lemmas.Cond

namespace Eql
variable {V : Type} [BEq V]

/-- A binding restricted to the given ids (a missing id stays visible as `none`, like a missing
    dictionary key makes two dictionaries differ). -/
def restrictTo (ids : List VarId) (β : Bnd V) : List (VarId × Option V) :=
  ids.map fun k => (k, β.lookup k)

def freeIds (c : Cond V) (u : VarId) : List VarId :=
  (c.vars.eraseDups).filter fun v => v != u

/-- `out = copy(sol); out.update(sources)` -/
def mergeBack (d : List (VarId × Option V)) (β : Bnd V) : Bnd V :=
  (d.filterMap fun p => p.2.map fun a => (p.1, a)) ++ β

/-- The restrictions of the true outputs of the condition under one universal value. -/
def solsUnder (W : World V) (D : VarId → List V) (c : Cond V) (ids : List VarId) (ctx : Bnd V) :
    List (List (VarId × Option V)) :=
  ((evalCond W D c ctx false).filter fun q => !q.2).map fun q => restrictTo ids q.1

def evalForAll (W : World V) (D : VarId → List V) (u : VarId) (c : Cond V) (β : Bnd V) : List (Bnd V) :=
  let ids := freeIds c u
  match evalTerm W D (.var u) β with
  | [] => []
  | p :: ps =>
      let final := ps.foldl (fun acc p' => acc.filter fun d => (solsUnder W D c ids p'.1).contains d)
        (solsUnder W D c ids p.1)
      final.map fun d => mergeBack d β

/-- Rows of `an(set_of(sel, for_all(u, c)))`, optionally under an outer conjunct `d`:
    `and_(d, for_all(u, c))`. -/
def rowsForAll (W : World V) (D : VarId → List V) (sel : List (Term V)) (outer : Option (Cond V))
    (u : VarId) (c : Cond V) : List (List V) :=
  let starts : List (Bnd V) := match outer with
    | none => [[]]
    | some d => (evalCond W D d [] false).map (·.1)
  (starts.flatMap fun β => evalForAll W D u c β).flatMap fun β => (evalArgs W D sel β).map (·.2)

end Eql
