/-
  EqlModel.Build — what `entity.py` / `symbolic.py` construct from the surface syntax.

    dunder comparisons + CPython reflection      ↦ buildCmp   (table: Gen.dunder)
    in_ / contains                               ↦ buildIn    (table: Gen.inCmp, Gen.containsDelegatesSwapped)
    chained_logic                                ↦ chain
    and_/&, or_/| (`_optimize_or`)               ↦ .and, .elseIf
    Not (incl. Comparator._invert_ setter)       ↦ neg        (table: Gen.invOp, Gen.not*)

  `_optimize_or` compares two lazily filtered `HashedIterable`s whose memo is still empty, so it
  always answers "same variables" and always builds `ElseIf` (measured, DESIGN R15): `Union` is
  reachable only through `next_rule`.
-/
import EqlModel.Basic
import EqlModel.Spec
import EqlModel.Gen.Tables

namespace Eql

variable {V : Type}

/-- Surface conditions: what a user writes inside a symbolic block. -/
inductive SCond (V : Type) where
  | cmp      (op : SurfOp) (l r : Term V)          -- `l op r`
  | in_      (item container : Term V)            -- `in_(item, container)`
  | contains (container item : Term V)            -- `contains(container, item)`
  | truth    (t : Term V)                         -- a boolean-valued expression as a condition
  | pred     (name : String) (args : List (Term V))
  | and2     (l r : SCond V)                      -- `and_(l, r)`, `l & r`
  | or2      (l r : SCond V)                      -- `or_(l, r)`, `l | r`
  | not      (c : SCond V)                        -- `not_(c)`
  | sub      (sel : List (Term V)) (c : SCond V)  -- `an(entity(v, c))` / `an(set_of(vs, c))` as a condition
  deriving Inhabited

def Term.isLit : Term V → Bool
  | .lit _ => true
  | _ => false

/-- `chained_logic(operator, *conditions)`: a left fold. -/
def chain {α : Type} (op : α → α → α) : α → List α → α
  | c, [] => c
  | c, d :: ds => chain op (op c d) ds

/-- `l op r` through the dunder table; a plain value on the left is answered by the reflected
    method of the right operand. -/
def buildCmp (op : SurfOp) (l r : Term V) : Cond V :=
  if l.isLit && !r.isLit then
    let d := Gen.dunder op.mirror
    if d.2 then .cmp d.1 l r else .cmp d.1 r l
  else
    let d := Gen.dunder op
    if d.2 then .cmp d.1 r l else .cmp d.1 l r

/-- `in_(item, container)`. -/
def buildIn (item container : Term V) : Cond V :=
  if Gen.inCmp.2 then .cmp Gen.inCmp.1 container item else .cmp Gen.inCmp.1 item container

/-- `contains(container, item)`. -/
def buildContains (container item : Term V) : Cond V :=
  if Gen.containsDelegatesSwapped then buildIn item container else buildIn container item

/-- `Not(operand)` on a constructed tree. -/
def neg : Cond V → Cond V
  | .cmp op l r => .cmp (Gen.invOp op) l r
  | .truth inv t => .truth (if Gen.notTogglesFlag then !inv else true) t
  | .pred inv n args => .pred (if Gen.notTogglesFlag then !inv else true) n args
  | .and l r => if Gen.notAndBuildsElseIf then .elseIf (neg l) (neg r) else .and (neg l) (neg r)
  | .elseIf l r => if Gen.notOrBuildsAnd then .and (neg l) (neg r) else .elseIf (neg l) (neg r)
  | .sub sel c => .sub sel (neg c)

/-- Construction of the expression tree from the surface condition. -/
def build : SCond V → Cond V
  | .cmp op l r => buildCmp op l r
  | .in_ i c => buildIn i c
  | .contains c i => buildContains c i
  | .truth t => .truth false t
  | .pred n args => .pred false n args
  | .and2 l r => .and (build l) (build r)
  | .or2 l r => .elseIf (build l) (build r)
  | .not c => neg (build c)
  | .sub sel c => .sub sel (build c)

/-- Meaning of the surface syntax under ordinary Python semantics (the oracle of C01–C03). -/
def applySurf (W : World V) : SurfOp → V → V → Bool
  | .eq, a, b => W.cmp .eq a b
  | .ne, a, b => W.cmp .ne a b
  | .lt, a, b => W.cmp .lt a b
  | .le, a, b => W.cmp .le a b
  | .gt, a, b => W.cmp .gt a b
  | .ge, a, b => W.cmp .ge a b

/-- Truth of a surface condition under a total assignment, read as ordinary Python. -/
def sdenote (W : World V) (α : Asg V) : SCond V → Bool
  | .cmp op l r => applySurf W op (termVal W α l) (termVal W α r)
  | .in_ i c => W.cmp .contains (termVal W α c) (termVal W α i)
  | .contains c i => W.cmp .contains (termVal W α c) (termVal W α i)
  | .truth t => W.truthy (termVal W α t)
  | .pred n args => W.truthy (W.fn n (termsVal W α args))
  | .and2 l r => sdenote W α l && sdenote W α r
  | .or2 l r => sdenote W α l || sdenote W α r
  | .not c => !sdenote W α c
  | .sub _ c => sdenote W α c

end Eql
