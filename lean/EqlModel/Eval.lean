/-
  EqlModel.Eval — layer L1: pure list semantics of the `_evaluate__` methods.

  A Python generator becomes the list of what it yields, in order.  The mutable `_is_false_`
  flag a parent reads right after each yield becomes a `Bool` paired with the yielded binding
  (`true` = the node is false for this binding).  `yield_when_false` is the argument `ywf`.
  Duplicate suppression and the result caches are NOT in this layer (see Machine/Cache).

  Transliteration map (symbolic.py, after the `fix:` commits):
    Variable._evaluate__ / __iter__            ↦ evalTerm (.var)
    DomainMapping._evaluate__ (value position) ↦ evalTerm (.attr/.index/.call/.flatten)
    DomainMapping._evaluate__ (condition)      ↦ evalCond (.truth)
    Comparator._evaluate__, get_first_second_operands ↦ evalCond (.cmp)
    Variable (predicate) ._evaluate__          ↦ evalCond (.pred), evalArgs
    AND._evaluate__                            ↦ evalCond (.and)
    ElseIf._evaluate__ (incl. `any_left`)      ↦ evalCond (.elseIf)
    An/Entity/SetOf._evaluate__ as a condition ↦ evalCond (.sub)
    QueryObjectDescriptor._evaluate_ / _bind_selected_variables_ ↦ bindSel, rows
    The._evaluate_                             ↦ runThe
-/
import EqlModel.Basic

namespace Eql

variable {V : Type}

/-- Evaluate a value-position expression under a binding: every output extends the binding by
    the variables (and flatten nodes) the term had to bind and carries the term's value. -/
def evalTerm (W : World V) (D : VarId → List V) : Term V → Bnd V → List (Bnd V × V)
  | .var v, β =>
      match β.lookup v with
      | some a => [(β, a)]
      | none => (D v).map fun o => ((v, o) :: β, o)
  | .lit c, β => [(β, c)]
  | .attr n t, β => (evalTerm W D t β).map fun p => (p.1, W.attr n p.2)
  | .index k t, β => (evalTerm W D t β).map fun p => (p.1, W.index p.2 k)
  | .call m args t, β => (evalTerm W D t β).map fun p => (p.1, W.call m args p.2)
  | .flatten id t, β =>
      match β.lookup id with
      | some a => [(β, a)]
      | none => (evalTerm W D t β).flatMap fun p =>
          (W.items p.2).map fun e => ((id, e) :: p.1, e)
  | .concat id t, β =>
      -- Concatenate._evaluate__: exactly one output, the list of all inner elements in order
      match β.lookup id with
      | some a => [(β, a)]
      | none =>
          let all := W.mkList ((evalTerm W D t β).flatMap fun p => W.items p.2)
          [((id, all) :: β, all)]

/-- Evaluate a list of argument / selected expressions one after the other, each under the
    bindings made by the ones before it (`_bind_selected_variables_`,
    `_generate_combinations_for_child_vars_values_`). -/
def evalArgs (W : World V) (D : VarId → List V) : List (Term V) → Bnd V → List (Bnd V × List V)
  | [], β => [(β, [])]
  | t :: ts, β => (evalTerm W D t β).flatMap fun p =>
      (evalArgs W D ts p.1).map fun q => (q.1, p.2 :: q.2)

/-- `Comparator.get_first_second_operands`: the right operand is evaluated first iff one of its
    variables is already bound. -/
def rightFirst (β : Bnd V) (r : Term V) : Bool := r.vars.any (bound β)

/-- Evaluate a condition.  Each output is a binding paired with the node's `_is_false_`. -/
def evalCond (W : World V) (D : VarId → List V) : Cond V → Bnd V → Bool → List (Bnd V × Bool)
  | .cmp op l r, β, ywf =>
      if rightFirst β r then
        (evalTerm W D r β).flatMap fun p1 =>
          (evalTerm W D l p1.1).flatMap fun p2 =>
            let res := W.cmp op p2.2 p1.2
            if res || ywf then [(p2.1, !res)] else []
      else
        (evalTerm W D l β).flatMap fun p1 =>
          (evalTerm W D r p1.1).flatMap fun p2 =>
            let res := W.cmp op p1.2 p2.2
            if res || ywf then [(p2.1, !res)] else []
  | .truth inv t, β, ywf =>
      (evalTerm W D t β).flatMap fun p =>
        let isFalse := W.truthy p.2 == inv
        if !isFalse || ywf then [(p.1, isFalse)] else []
  | .pred inv name args, β, ywf =>
      (evalArgs W D args β).flatMap fun p =>
        let isFalse := W.truthy (W.fn name p.2) == inv
        if !isFalse || ywf then [(p.1, isFalse)] else []
  | .and l r, β, ywf =>
      (evalCond W D l β ywf).flatMap fun p =>
        if ywf && p.2 then [(p.1, true)] else evalCond W D r p.1 ywf
  | .elseIf l r, β, ywf =>
      let ls := evalCond W D l β true
      if ls.isEmpty then evalCond W D r β ywf
      else ls.flatMap fun p =>
        if p.2 then evalCond W D r p.1 ywf else [(p.1, false)]
  | .sub sel c, β, ywf =>
      (evalCond W D c β ywf).flatMap fun p =>
        (evalArgs W D sel p.1).map fun q => (q.1, p.2)

/-- A query: selected expressions and an optional condition (`Entity` has one selected
    expression, `SetOf` several). -/
structure Query (V : Type) where
  sel  : List (Term V)
  cond : Option (Cond V)

/-- The rows `an(...)` yields, in order: the values of the selected expressions. -/
def rows (W : World V) (D : VarId → List V) (q : Query V) : List (List V) :=
  let outs := match q.cond with
    | none => [([], false)]
    | some c => evalCond W D c [] false
  outs.flatMap fun p => (evalArgs W D q.sel p.1).map (·.2)

/-- Outcome of `the(...).evaluate()`. -/
inductive TheOutcome (V : Type) where
  | ok (row : List V)
  | noSolution
  | multipleSolutions

/-- `The._evaluate_`: fail on the second solution, fail when there is none. -/
def runThe (W : World V) (D : VarId → List V) (q : Query V) : TheOutcome V :=
  match rows W D q with
  | [] => .noSolution
  | [r] => .ok r
  | _ :: _ :: _ => .multipleSolutions

end Eql
