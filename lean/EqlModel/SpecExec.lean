/-
  EqlModel.SpecExec — an executable reading of the specification (brute-force product filter),
  printed by the driver next to the model's answer so that the Python oracle used for shrinking
  is itself diffed against the Lean specification on every batch.
-/
import EqlModel.Spec
import EqlModel.Build

namespace Eql
variable {V : Type}

/-- `HashedIterable.__iter__`: an element whose id is already memoised (`seen`) is skipped. -/
def dedupFrom [BEq V] (seen : List V) : List V → List V
  | [] => []
  | a :: as => if seen.contains a then dedupFrom seen as else a :: dedupFrom (a :: seen) as

/-- `let(T, domain)`: the members of the supplied collection that are instances of `T`
    (predicate.py filters with `isinstance`), each object once (`HashedIterable`). -/
def mkDom [BEq V] (W : World V) (cls : String) (raw : List V) : List V :=
  dedupFrom [] (raw.filter (W.isInst cls))

/-- All total bindings of the listed variables, first variable outermost. -/
def allBnds (D : VarId → List V) : List VarId → List (Bnd V)
  | [] => [[]]
  | v :: vs => (D v).flatMap fun o => (allBnds D vs).map fun β => (v, o) :: β

def asgOf [Inhabited V] (β : Bnd V) : Asg V := fun v => (β.lookup v).getD default

/-- Flatten nodes of a term, innermost first. -/
def Term.flats : Term V → List (VarId × Term V)
  | .var _ => []
  | .lit _ => []
  | .attr _ t => t.flats
  | .index _ t => t.flats
  | .call _ _ t => t.flats
  | .flatten id t => t.flats ++ [(id, t)]
  | .concat _ _ => []

def Terms.flats : List (Term V) → List (VarId × Term V)
  | [] => []
  | t :: ts => t.flats ++ Terms.flats ts

def SCond.flats : SCond V → List (VarId × Term V)
  | .cmp _ l r => l.flats ++ r.flats
  | .in_ i c => i.flats ++ c.flats
  | .contains c i => c.flats ++ i.flats
  | .truth t => t.flats
  | .pred _ args => Terms.flats args
  | .and2 l r => l.flats ++ r.flats
  | .or2 l r => l.flats ++ r.flats
  | .not c => c.flats
  | .sub sel c => c.flats ++ Terms.flats sel

/-- Variables that occur outside a `concatenate` (the operand's variable is aggregated away). -/
def Term.free : Term V → List VarId
  | .var v => [v]
  | .lit _ => []
  | .attr _ t => t.free
  | .index _ t => t.free
  | .call _ _ t => t.free
  | .flatten _ t => t.free
  | .concat _ _ => []

def Terms.free : List (Term V) → List VarId
  | [] => []
  | t :: ts => t.free ++ Terms.free ts

def SCond.free : SCond V → List VarId
  | .cmp _ l r => l.free ++ r.free
  | .in_ i c => i.free ++ c.free
  | .contains c i => c.free ++ i.free
  | .truth t => t.free
  | .pred _ args => Terms.free args
  | .and2 l r => l.free ++ r.free
  | .or2 l r => l.free ++ r.free
  | .not c => c.free
  | .sub sel c => c.free ++ Terms.free sel

/-- Concatenate nodes of a term with their operand. -/
def Term.concats : Term V → List (VarId × Term V)
  | .var _ => []
  | .lit _ => []
  | .attr _ t => t.concats
  | .index _ t => t.concats
  | .call _ _ t => t.concats
  | .flatten _ t => t.concats
  | .concat id t => [(id, t)]

def Terms.concats : List (Term V) → List (VarId × Term V)
  | [] => []
  | t :: ts => t.concats ++ Terms.concats ts

def SCond.concats : SCond V → List (VarId × Term V)
  | .cmp _ l r => l.concats ++ r.concats
  | .in_ i c => i.concats ++ c.concats
  | .contains c i => c.concats ++ i.concats
  | .truth t => t.concats
  | .pred _ args => Terms.concats args
  | .and2 l r => l.concats ++ r.concats
  | .or2 l r => l.concats ++ r.concats
  | .not c => c.concats
  | .sub sel c => c.concats ++ Terms.concats sel

/-- The single value of a `concatenate(t)`: all inner elements over all bindings of `t`'s variables. -/
def concatVal [Inhabited V] (W : World V) (D : VarId → List V) (t : Term V) : V :=
  W.mkList ((allBnds D t.vars.eraseDups).flatMap fun β => W.items (termVal W (asgOf β) t))

/-- Extend a binding by every element of every flatten node (UNNEST), skipping ids already bound. -/
def extendFlats [Inhabited V] (W : World V) : List (VarId × Term V) → Bnd V → List (Bnd V)
  | [], β => [β]
  | (id, t) :: fs, β =>
      if bound β id then extendFlats W fs β
      else (W.items (termVal W (asgOf β) t)).flatMap fun e => extendFlats W fs ((id, e) :: β)

/-- The specification's rows: filter of the (dependent) product, projected on the selection. -/
def specRows [Inhabited V] (W : World V) (D : VarId → List V) (vars : List VarId)
    (sel : List (Term V)) (sc : Option (SCond V)) : List (List V) :=
  let flats := (match sc with | some c => c.flats | none => []) ++ Terms.flats sel
  let concs := (match sc with | some c => c.concats | none => []) ++ Terms.concats sel
  let free := (match sc with | some c => c.free | none => []) ++ Terms.free sel
  let base : Bnd V := concs.map fun p => (p.1, concatVal W D p.2)
  let bs := ((allBnds D (vars.filter free.contains)).map (· ++ base)).flatMap (extendFlats W flats)
  let ok := bs.filter fun β => match sc with
    | some c => sdenote W (asgOf β) c
    | none => true
  ok.map fun β => termsVal W (asgOf β) sel

/-- The specification of `for_all(u, c)` (optionally `and_(d, for_all(u, c))`): the assignments of
    the other variables for which `c` holds under EVERY value of `u` (and `d` holds). -/
def specRowsForAll [Inhabited V] (W : World V) (D : VarId → List V) (vars : List VarId)
    (sel : List (Term V)) (outer : Option (SCond V)) (u : VarId) (sc : SCond V) : List (List V) :=
  let free := ((match outer with | some c => c.free | none => []) ++ sc.free ++ Terms.free sel).filter (· != u)
  let bs := allBnds D (vars.filter free.contains)
  let ok := bs.filter fun β =>
    (match outer with | some d => sdenote W (asgOf β) d | none => true) &&
    (D u).all fun o => sdenote W (asgOf ((u, o) :: β)) sc
  ok.map fun β => termsVal W (asgOf β) sel

/-- All assignments of the given universal variables (first listed = first in the binding). -/
def allUniv {V : Type} (D : VarId → List V) : List VarId → List (Bnd V)
  | [] => [[]]
  | u :: us => (D u).flatMap fun o => (allUniv D us).map fun β => (u, o) :: β

/-- The specification of `and_(d?, for_all(us₁, c₁), for_all(us₂, c₂), …)` (conjuncts in any order):
    the assignments of the free variables for which `d` holds and every `cᵢ` holds under EVERY
    assignment of its universal variables (for SOME element of every flatten node inside `cᵢ`: the
    element is not among the bindings a for_all keeps). -/
def specRowsStages [Inhabited V] (W : World V) (D : VarId → List V) (vars : List VarId)
    (sel : List (Term V)) (outer : Option (SCond V)) (fas : List (List VarId × SCond V)) : List (List V) :=
  let free := (match outer with | some c => c.free | none => []) ++ Terms.free sel ++
    fas.flatMap fun p => p.2.free.filter fun v => !p.1.contains v
  let bs := allBnds D (vars.filter free.contains)
  let ok := bs.filter fun β =>
    (match outer with | some d => sdenote W (asgOf β) d | none => true) &&
    fas.all fun p => (allUniv D p.1).all fun ub =>
      -- a flatten node inside the for_all's condition is existential: some element satisfies it
      (extendFlats W p.2.flats (ub ++ β)).any fun β' => sdenote W (asgOf β') p.2
  ok.map fun β => termsVal W (asgOf β) sel

end Eql
