/-
  EqlModel.Mode — symbolic mode, the expression stack and result iterators as a state machine.

  Transliteration (symbolic.py, after the `fix:` commits):
    _symbolic_mode (ContextVar), _set_symbolic_mode, in_symbolic_mode      ↦ MState.mode
    SymbolicExpression._symbolic_expression_stack_                         ↦ MState.stack (its length)
    symbolic_mode(query, mode) / rule_mode(query)  __enter__               ↦ Op.enterSym  (saves prev mode, pushes the query)
    SymbolicExpression.__enter__ (`with query:`)                           ↦ Op.enterWith
    leaving either block, normally or by an exception (the `finally`)       ↦ Op.leave
    An.evaluate(): create the generator / next() / close() or finalisation ↦ Op.iterCreate / iterAdvance / iterClose
      next(): `with symbolic_mode(mode=None)` around the computation of ONE result, left before
      the result is handed to the caller
    symbol / hybrid_new, CanBehaveLikeAVariable operators                  ↦ construct, applyOperator
-/
namespace Eql.Mode

inductive EMode where
  | query | rule
  deriving DecidableEq, Repr

/-- An open `with` block: a symbolic/rule-mode block remembers the previous mode and whether it
    pushed a query on the expression stack; a `with query:` block only pushed. -/
inductive Frame where
  | block (prev : Option EMode) (mode : EMode) (pushed : Bool)
  | withQuery
  deriving DecidableEq, Repr

inductive IterState where
  | fresh | suspended | done
  deriving DecidableEq, Repr

structure MState where
  mode : Option EMode := none
  stack : Nat := 0
  frames : List Frame := []
  iters : List (Nat × IterState) := []
  deriving Repr

inductive Op where
  | enterSym (m : EMode) (withQuery : Bool)
  | enterWith
  | leave
  | iterCreate (i : Nat)
  | iterAdvance (i : Nat) (exhausted : Bool)
  | iterClose (i : Nat)
  deriving Repr

def setIter (its : List (Nat × IterState)) (i : Nat) (st : IterState) : List (Nat × IterState) :=
  (i, st) :: its.filter (fun p => p.1 != i)

/-- `with symbolic_mode(mode=None): <compute one result>`: the mode seen by user code while the
    query computes, and the mode after the block is left. -/
def duringAdvance (_ambient : Option EMode) : Option EMode := none
def afterAdvance (ambient : Option EMode) : Option EMode := ambient   -- `finally: _set_symbolic_mode(prev_mode)`

def step (s : MState) : Op → MState
  | .enterSym m wq =>
      { s with mode := some m,
               stack := if wq then s.stack + 1 else s.stack,
               frames := .block s.mode m wq :: s.frames }
  | .enterWith => { s with stack := s.stack + 1, frames := .withQuery :: s.frames }
  | .leave =>
      match s.frames with
      | [] => s
      | .block prev _ pushed :: fs =>
          { s with mode := prev, stack := if pushed then s.stack - 1 else s.stack, frames := fs }
      | .withQuery :: fs => { s with stack := s.stack - 1, frames := fs }
  | .iterCreate i => { s with iters := setIter s.iters i .fresh }
  | .iterAdvance i exhausted =>
      { s with mode := afterAdvance s.mode,
               iters := setIter s.iters i (if exhausted then .done else .suspended) }
  | .iterClose i => { s with iters := setIter s.iters i .done }

def run (s : MState) (ops : List Op) : MState := ops.foldl step s

/-- What a user can observe after a step. -/
structure Obs where
  inSymbolic : Bool      -- in_symbolic_mode()
  inRule : Bool          -- in_symbolic_mode(EQLMode.Rule)
  constructsConcrete : Bool   -- type(SymbolClass(...)) is SymbolClass
  operatorsRejected : Bool    -- `x == 1` on a variable raises
  stackLen : Nat
  deriving DecidableEq, Repr

def observe (s : MState) : Obs :=
  { inSymbolic := s.mode.isSome, inRule := s.mode == some .rule,
    constructsConcrete := s.mode.isNone, operatorsRejected := s.mode.isNone, stackLen := s.stack }

/-! ### Reference: a stack machine in which only block entry/exit touch the mode -/

/-- The mode of the innermost enclosing symbolic/rule block. -/
def innermost : List Frame → Option EMode
  | [] => none
  | .block _ m _ :: _ => some m
  | .withQuery :: fs => innermost fs

/-- The number of queries the open blocks pushed. -/
def pushes : List Frame → Nat
  | [] => 0
  | .block _ _ p :: fs => (if p then 1 else 0) + pushes fs
  | .withQuery :: fs => 1 + pushes fs

def refFrames (fs : List Frame) : Op → List Frame
  | .enterSym m wq => .block none m wq :: fs      -- (the saved mode is not part of the reference)
  | .enterWith => .withQuery :: fs
  | .leave => fs.tail
  | _ => fs

end Eql.Mode
