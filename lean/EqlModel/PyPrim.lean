/-
  EqlModel.PyPrim — the concrete `World` used by the driver: the Python values the harness
  generates and CPython's `==`, `<`, `in`, `bool()` on them.  NOT used by any theorem; it is
  validated against CPython exhaustively over the generators' value alphabet on every run.
-/
import EqlModel.Basic

namespace Eql

inductive PVal where
  | int  (n : Int)
  | str  (s : String)
  | bool (b : Bool)
  | none
  | obj  (i : Nat)
  | list (xs : List PVal)
  | tup  (xs : List PVal)
  | err  (msg : String)      -- a primitive that would raise in Python
  deriving Inhabited, Repr

namespace PVal

mutual
  def beq : PVal → PVal → Bool
    | .int a, .int b => a == b
    | .int a, .bool b => a == (if b then 1 else 0)
    | .bool a, .int b => (if a then (1:Int) else 0) == b
    | .bool a, .bool b => a == b
    | .str a, .str b => a == b
    | .none, .none => true
    | .obj a, .obj b => a == b
    | .list a, .list b => beqL a b
    | .tup a, .tup b => beqL a b
    | _, _ => false
  def beqL : List PVal → List PVal → Bool
    | [], [] => true
    | a :: as, b :: bs => beq a b && beqL as bs
    | _, _ => false
end

def asInt? : PVal → Option Int
  | .int n => some n
  | .bool b => some (if b then 1 else 0)
  | _ => Option.none

/-- `a < b`; `none` when Python raises `TypeError`. -/
def lt? : PVal → PVal → Option Bool
  | .str a, .str b => some (a < b)
  | a, b => match asInt? a, asInt? b with
    | some x, some y => some (x < y)
    | _, _ => Option.none

def truthy : PVal → Bool
  | .int n => n != 0
  | .str s => s != ""
  | .bool b => b
  | .none => false
  | .obj _ => true
  | .list xs => !xs.isEmpty
  | .tup xs => !xs.isEmpty
  | .err _ => false

def isErr : PVal → Bool
  | .err _ => true
  | _ => false

/-- substring test for `str in str` -/
def isSubstr (needle hay : String) : Bool :=
  let n := needle.toList
  let h := hay.toList
  let rec go : List Char → Nat → Bool
    | l, fuel => match fuel with
      | 0 => n.isPrefixOf l
      | fuel + 1 => n.isPrefixOf l || (match l with | [] => false | _ :: t => go t fuel)
  go h h.length

/-- `item in container` -/
def contains (c i : PVal) : Bool :=
  match c with
  | .list xs => xs.any (fun x => beq x i)
  | .tup xs => xs.any (fun x => beq x i)
  | .str s => match i with | .str t => isSubstr t s | _ => false
  | _ => false

def cmp (op : CmpOp) (a b : PVal) : Bool :=
  match op with
  | .eq => beq a b
  | .ne => !beq a b
  | .lt => (lt? a b).getD false
  | .ge => !(lt? a b).getD false
  | .gt => (lt? b a).getD false
  | .le => !(lt? b a).getD false
  | .contains => contains a b
  | .notContains => !contains a b

/-- Would Python raise for this comparison?  The harness never generates such inputs in the
    decisive streams; the driver reports them so a mismatch is a harness error, not a verdict. -/
def cmpRaises (op : CmpOp) (a b : PVal) : Bool :=
  match op with
  | .lt | .ge => (lt? a b).isNone
  | .gt | .le => (lt? b a).isNone
  | .contains | .notContains => match a with | .list _ | .tup _ => false | .str _ => (match b with | .str _ => false | _ => true) | _ => true
  | _ => false

def items : PVal → List PVal
  | .list xs => xs
  | .tup xs => xs
  | v => [v]

partial def render : PVal → String
  | .int n => s!"i{n}"
  | .str s => s!"s{s}"
  | .bool b => if b then "b1" else "b0"
  | .none => "n"
  | .obj i => s!"o{i}"
  | .list xs => "l[" ++ ",".intercalate (xs.map render) ++ "]"
  | .tup xs => "t[" ++ ",".intercalate (xs.map render) ++ "]"
  | .err m => s!"ERR:{m}"

end PVal

/-- One generated object: class name and attribute table. -/
structure PObj where
  cls   : String
  attrs : List (String × PVal)
  deriving Inhabited

/-- The dataset of one case. -/
structure PData where
  /-- class ↦ base class ("" for none) -/
  classes : List (String × String)
  objs    : List PObj
  deriving Inhabited

namespace PData

def getObj (d : PData) (i : Nat) : Option PObj := d.objs[i]?

def attrOf (d : PData) (name : String) : PVal → PVal
  | .obj i => match d.getObj i with
    | some o => (o.attrs.lookup name).getD (.err s!"AttributeError:{name}")
    | Option.none => .err "noobj"
  | .int n => if name == "real" then .int n else .err s!"AttributeError:{name}"     -- (5).real == 5
  | _ => .err s!"AttributeError:{name}"

/-- `sub c base`: is `c` `base` or a descendant of it (fuel = number of classes). -/
def isSub (d : PData) (c base : String) : Bool :=
  let rec go (c : String) : Nat → Bool
    | 0 => c == base
    | f + 1 => c == base || (match d.classes.lookup c with
        | some p => p != "" && go p f
        | Option.none => false)
  go c d.classes.length

def isInst (d : PData) (cls : String) : PVal → Bool
  | .obj i => match d.getObj i with
    | some o => d.isSub o.cls cls
    | Option.none => false
  | .int _ => cls == "int"
  | .str _ => cls == "str"
  | _ => false

def intAttr (d : PData) (name : String) (v : PVal) : Option Int := (d.attrOf name v).asInt?

/-- The fixed repertoire of methods every generated class defines (see harness/surface.py). -/
def callM (d : PData) (m : String) (args : List PVal) (recv : PVal) : PVal :=
  match m, args with
  -- methods of plain VALUES (an attribute value used as the receiver of a call): list.count, tuple.count, str.upper
  | "count", [k] => match recv with
      | .list xs => .int (xs.filter fun x => PVal.beq x k).length
      | .tup xs => .int (xs.filter fun x => PVal.beq x k).length
      | _ => .err "count"
  | "upper", [] => match recv with
      | .str t => .str t.toUpper
      | _ => .err "upper"
  | "gt", [k] => match d.intAttr "a" recv, k.asInt? with      -- def gt(self, k): return self.a > k
      | some a, some k => .bool (a > k) | _, _ => .err "gt"
  | "plus", [k] => match d.intAttr "a" recv, k.asInt? with    -- def plus(self, k): return self.a + k
      | some a, some k => .int (a + k) | _, _ => .err "plus"
  | "is_even", [] => match d.intAttr "a" recv with            -- def is_even(self): return self.a % 2 == 0
      | some a => .bool (a % 2 == 0) | _ => .err "is_even"
  | "get_b", [] => d.attrOf "b" recv                          -- def get_b(self): return self.b
  | _, _ => .err s!"method:{m}"

/-- The fixed repertoire of user predicates (see harness/surface.py). -/
def fnP (d : PData) (name : String) (args : List PVal) : PVal :=
  match name, args with
  | "is_big", [o] => match d.intAttr "a" o with               -- return o.a >= 2
      | some a => .bool (a >= 2) | _ => .err "is_big"
  | "lt", [p, q] => match PVal.lt? p q with                   -- return p < q
      | some r => .bool r | _ => .err "lt"
  | "same_b", [o1, o2] => .bool (PVal.beq (d.attrOf "b" o1) (d.attrOf "b" o2))   -- return o1.b == o2.b
  | "val_a", [o] => d.attrOf "a" o                            -- return o.a   (truthiness of a value)
  | "val_b", [o] => d.attrOf "b" o                            -- return o.b
  | _, _ => .err s!"fn:{name}"

def indexP (v k : PVal) : PVal :=
  match v, k with
  | .list xs, .int n => if n >= 0 then (xs[n.toNat]?).getD (.err "IndexError") else .err "IndexError"
  | .tup xs, .int n => if n >= 0 then (xs[n.toNat]?).getD (.err "IndexError") else .err "IndexError"
  | _, _ => .err "index"

def world (d : PData) : World PVal where
  attr := d.attrOf
  index := indexP
  call := d.callM
  cmp := PVal.cmp
  truthy := PVal.truthy
  items := PVal.items
  isInst := d.isInst
  fn := d.fnP
  mkList := PVal.list

end PData
end Eql
