/-
  Driver — line protocol: one S-expression case per input line, one canonical line out.
  Run as a compiled executable (`lake build driver`) or with `lake env lean --run Driver.lean`.
-/
import EqlModel.Decode
import EqlModel.Eval
import EqlModel.SpecExec
import EqlModel.Cache
import EqlModel.Lemmas.CacheDefs
import EqlModel.Mode
import EqlModel.Registry
import EqlModel.ForAll
import EqlModel.Rules
import EqlModel.RulesExt
import EqlModel.Iter
import EqlModel.Machine

open Eql Eql.Sexp

instance : BEq PVal := ⟨PVal.beq⟩

def renderRow (r : List PVal) : String := ",".intercalate (r.map PVal.render)
def renderRows (rs : List (List PVal)) : String := ";".intercalate (rs.map renderRow)

def showOp : CmpOp → String
  | .eq => "eq" | .ne => "ne" | .lt => "lt" | .le => "le" | .gt => "gt" | .ge => "ge"
  | .contains => "contains" | .notContains => "not_contains"

def showTerm : Term PVal → String
  | .var v => s!"(var {v})"
  | .lit c => s!"(lit {c.render})"
  | .attr n t => s!"(attr {n} {showTerm t})"
  | .index k t => s!"(idx {k.render} {showTerm t})"
  | .call m args t => s!"(call {m} ({" ".intercalate (args.map PVal.render)}) {showTerm t})"
  | .flatten id t => s!"(flat {id} {showTerm t})"
  | .concat id t => s!"(concat {id} {showTerm t})"

def showBool (b : Bool) : String := if b then "1" else "0"

/-- The constructed tree, in the same notation the harness prints the real tree in. -/
def showCond : Cond PVal → String
  | .cmp op l r => s!"(cmp {showOp op} {showTerm l} {showTerm r})"
  | .truth inv t => s!"(truth {showBool inv} {showTerm t})"
  | .pred inv n args => s!"(pred {showBool inv} {n} {" ".intercalate (args.map showTerm)})"
  | .and l r => s!"(AND {showCond l} {showCond r})"
  | .elseIf l r => s!"(ElseIf {showCond l} {showCond r})"
  | .sub sel c => s!"(sub ({" ".intercalate (sel.map showTerm)}) {showCond c})"

def field? (name : String) (xs : List Sexp) : Option (List Sexp) :=
  xs.findSome? fun x => match x.headed? with
    | some (h, args) => if h == name then some args else none
    | none => none

/-- `(q id (classes ..) (objs ..) (vars ..) (quant an|the) (sel t..) (cond c..)?)` -/
def runQuery (args : List Sexp) : Option String := do
  let id ← (← args.head?).atom?
  let data ← decData (← field? "classes" args) (← field? "objs" args)
  let vars ← decVars (← field? "vars" args)
  let quant ← (← (← field? "quant" args).head?).atom?
  let sel ← (← field? "sel" args).mapM decTerm
  let sc ← match field? "cond" args with
    | some (c :: cs) => do
        let c ← decSCond c
        let cs ← cs.mapM decSCond
        pure (some (chain SCond.and2 c cs))
    | _ => pure none
  let W := data.world
  let D : VarId → List PVal := fun v =>
    match vars.find? (·.1 == v) with
    | some (_, cls, raw) => mkDom W cls raw
    | none => []
  -- for_all(u, c), optionally under an outer conjunct: `(forall u c...)`
  match field? "forall" args with
  | some (uv :: fc :: fcs) =>
      let u ← uv.nat?
      let fcond := chain SCond.and2 (← decSCond fc) (← fcs.mapM decSCond)
      let rs := rowsForAll W D sel (sc.map build) u (build fcond)
      let spec := specRowsForAll W D (vars.map (·.1)) sel sc u fcond
      return s!"{id}\tR\t{renderRows rs}\tS\t{renderRows spec}\tB\t-"
  | _ => pure ()
  -- and_(d?, for_all(us, c)...) in either order: `(foralls ((us..) c..) ...)`, `(fafirst 0|1)`
  match field? "foralls" args with
  | some entries =>
      let fas ← entries.mapM fun e => do
        let parts ← e.list?
        let us ← (← (← parts.head?).list?).mapM Sexp.nat?
        match parts.tail with
        | fc :: fcs => pure (us, chain SCond.and2 (← decSCond fc) (← fcs.mapM decSCond))
        | [] => none
      let first := match field? "fafirst" args with
        | some (x :: _) => x.nat? == some 1
        | _ => false
      let faStages : List (Stage PVal) := fas.map fun p => .forAll p.1 (build p.2)
      let cStage : List (Stage PVal) := match sc with | some c => [.cond (build c)] | none => []
      let stages := if first then faStages ++ cStage else cStage ++ faStages
      let rs := rowsStages W D sel stages
      let spec := specRowsStages W D (vars.map (·.1)) sel sc fas
      return s!"{id}\tR\t{renderRows rs}\tS\t{renderRows spec}\tB\t-"
  | none => pure ()
  let q : Query PVal := { sel := sel, cond := sc.map build }
  let spec := specRows W D (vars.map (·.1)) sel sc
  -- L2: the cache- and de-dup-aware machine, two evaluations with caching on and two with caching off
  let decl : List Nat := match field? "decl" args with
    | some ds => ds.filterMap Sexp.nat?
    | none => vars.map (·.1)
  let P : Machine.Params PVal :=
    { rank := fun v => (decl.idxOf v),
      -- `HashedValue.id_`: objects by identity; equal small ints / None / booleans are the same Python object
      toKey := fun x => match x with
        | .obj i => i
        | .int n => 1000 + 2 * n.natAbs + (if n < 0 then 1 else 0)
        | .bool b => 900 + b.toNat
        | .none => 899
        | other => 100000 + (hash other.render).toNat % 100000,
      ofKey := fun i => .obj i }
  let on1 := Machine.rowsM W D P true q []
  let on2 := Machine.rowsM W D P true q on1.2
  let off1 := Machine.rowsM W D P false q []
  let off2 := Machine.rowsM W D P false q off1.2
  let on3 := Machine.rowsM W D P true q on2.2
  let off3 := Machine.rowsM W D P false q off2.2
  let l2 := s!"\tM\t{renderRows on1.1}\t{renderRows on2.1}\t{renderRows off1.1}\t{renderRows off2.1}\t{renderRows on3.1}\t{renderRows off3.1}"
  if quant == "the" then
    let out := match runThe W D q with
      | .ok r => "ok " ++ renderRow r
      | .noSolution => "none"
      | .multipleSolutions => "multi"
    return s!"{id}\tT\t{out}\tS\t{renderRows spec}\tB\t{(q.cond.map showCond).getD "-"}{l2}"
  else
    return s!"{id}\tR\t{renderRows (rows W D q)}\tS\t{renderRows spec}\tB\t{(q.cond.map showCond).getD "-"}{l2}"

-- ---------------------------------------------------------------- cache histories (C20)

open Eql.Cache in
def decAsg (s : Sexp) : Option (Cache.Asg Nat) := do
  let xs ← s.list?
  xs.mapM fun x => match x with
    | .list [k, v] => do pure ((← k.nat?), (← v.nat?))
    | _ => none

def showAsg (a : Cache.Asg Nat) : String :=
  let sorted := a.mergeSort (fun x y => x.1 ≤ y.1)
  ",".intercalate (sorted.map fun kv => s!"{kv.1}={kv.2}")

def showRetr (rs : List (Cache.Asg Nat × Nat)) : String :=
  let strs := rs.map fun r => s!"{showAsg r.1}>{r.2}"
  "+".intercalate (strs.mergeSort (fun x y => x ≤ y))

/-- `(cache id (keys k..) (ops (ins ((k v)..) out) (clr) ..) (lookups ((k v)..) ..))`:
    after every operation, for every lookup: coverage check, retrieval, complete reference retrieval,
    and whether the trie is prefix-uniform. -/
def runCache (args : List Sexp) : Option String := do
  let id ← (← args.head?).atom?
  let keys ← (← field? "keys" args).mapM Sexp.nat?
  let ops ← field? "ops" args
  let lookups ← (← field? "lookups" args).mapM decAsg
  let mut c : Cache.Cache Nat Nat := { keys := keys }
  let mut outs : List String := []
  for op in ops do
    match op.headed? with
    | some ("ins", [a, o]) => c := c.insert (← decAsg a) (← o.nat?)
    | some ("clr", []) => c := c.clear
    | _ => none
    let uniform := Cache.Uniform c.trie
    let entries := Cache.Trie.toEntries c.trie
    let per := lookups.map fun a =>
      let chk := if a.isEmpty then "-" else (if (c.check a).1 then "1" else "0")
      let got := showRetr (c.retrieve a)
      let ref := showRetr ((entries.filter fun e => Cache.agree a keys e.1).map
        fun e => (Cache.image a keys e.1 a, e.2))
      s!"{chk}:{got}:{ref}"
    outs := outs ++ [(if uniform then "U" else "N") ++ "/" ++ ";".intercalate per]
  return s!"{id}\t{"|".intercalate outs}"

-- ---------------------------------------------------------------- mode histories (C08)

def decModeOp (s : Sexp) : Option Mode.Op := do
  let (h, args) ← s.headed?
  match h, args with
  | "es", [m, wq] =>
      let m ← m.atom?
      return .enterSym (if m == "r" then .rule else .query) ((← wq.nat?) != 0)
  | "ew", [] => return .enterWith
  | "lv", [] => return .leave
  | "ic", [i] => return .iterCreate (← i.nat?)
  | "ia", [i, e] => return .iterAdvance (← i.nat?) ((← e.nat?) != 0)
  | "cl", [i] => return .iterClose (← i.nat?)
  | _, _ => none

def showObs (o : Mode.Obs) : String :=
  s!"{showBool o.inSymbolic}{showBool o.inRule}{showBool o.constructsConcrete}{showBool o.operatorsRejected}{o.stackLen}"

/-- `(mode id (ops ..))`: the observation after every step. -/
def runMode (args : List Sexp) : Option String := do
  let id ← (← args.head?).atom?
  let ops ← (← field? "ops" args).mapM decModeOp
  let mut s : Mode.MState := {}
  let mut outs : List String := []
  for op in ops do
    s := Mode.step s op
    outs := outs ++ [showObs (Mode.observe s)]
  return s!"{id}\t{"|".intercalate outs}"

-- ---------------------------------------------------------------- registry histories (C14)

/-- `(reg id (classes (c base|-) ..) (ops (c cls) (s cls) (clr) (q cls) ..))`: classes are numbered;
    the answer of every `q` (instance numbers, sorted) and the final init count. -/
def runReg (args : List Sexp) : Option String := do
  let id ← (← args.head?).atom?
  -- `(n -)` a root, `(n p)` single inheritance, `(n p q)` multiple inheritance
  let classes ← (← field? "classes" args).mapM fun c => match c with
    | .list (n :: ps) => do
        pure ((← n.nat?), ps.filterMap fun b => b.atom?.bind String.toNat?)
    | _ => none
  let parents : Nat → List Nat := fun c => (classes.lookup c).getD []
  let sub : Nat → Nat → Bool := fun c t =>
    let rec go (c : Nat) : Nat → Bool
      | 0 => c == t
      | f + 1 => c == t || (parents c).any fun p => go p f
    go c classes.length
  let ops ← field? "ops" args
  let mut s : Registry.RState := {}
  let mut outs : List String := []
  for op in ops do
    match op.headed? with
    | some ("c", [c]) => s := Registry.step s (.concrete (← c.nat?))
    | some ("s", [c]) => s := Registry.step s (.symbolic (← c.nat?))
    | some ("clr", []) => s := Registry.step s .clear
    | some ("infself", [c, t]) =>
        -- a rule creating one instance of `c` per instance of `t` (and subclasses) constructed so far
        let k := (Registry.query sub s (← t.nat?)).length
        let c ← c.nat?
        s := (List.replicate k (Registry.Op.concrete c)).foldl Registry.step s
        outs := outs ++ [s!"N{k}"]
    | some ("q", [c]) =>
        let r := (Registry.query sub s (← c.nat?)).mergeSort (fun a b => a ≤ b)
        outs := outs ++ [",".intercalate (r.map toString)]
    | _ => none
  return s!"{id}\t{"|".intercalate outs}\t{s.inits}"

-- ---------------------------------------------------------------- rule trees (C11, C12)

/-- `(kind tag (cond c..) (kids ..))*` → first-child / next-sibling surface program -/
partial def decKids : List Sexp → Option (SRule PVal)
  | [] => some .nil
  | k :: rest => do
    let (h, args) ← k.headed?
    let kind ← (if h == "ref" then some Kind.ref else if h == "alt" then some Kind.alt else none)
    match args with
    | [tag, .list (.atom "cond" :: c :: cs), .list (.atom "kids" :: inner)] =>
        let cond := build (chain SCond.and2 (← decSCond c) (← cs.mapM decSCond))
        return .cons kind cond (← tag.nat?) (← decKids inner) (← decKids rest)
    | _ => none

def showRTree : RTree PVal → String
  | .leaf _ c tag => s!"(leaf {tag} {showCond c})"
  | .exceptIf l r => s!"(ExceptIf {showRTree l} {showRTree r})"
  | .alternative l r => s!"(Alternative {showRTree l} {showRTree r})"

def renderTagged (rs : List (Nat × List PVal)) : String :=
  ";".intercalate (rs.map fun r => s!"{r.1}:{renderRow r.2}")

/-- `(rule id (classes..) (objs..) (vars..) (args t..) (base tag c..) (kids ..))` -/
def runRule (args : List Sexp) : Option String := do
  let id ← (← args.head?).atom?
  let data ← decData (← field? "classes" args) (← field? "objs" args)
  let vars ← decVars (← field? "vars" args)
  let cargs ← (← field? "args" args).mapM decTerm
  let base ← field? "base" args
  let (tag0, bconds) ← match base with
    | t :: c :: cs => do pure ((← t.nat?), chain SCond.and2 (← decSCond c) (← cs.mapM decSCond))
    | _ => none
  let kids ← decKids (← field? "kids" args)
  let W := data.world
  let D : VarId → List PVal := fun v =>
    match vars.find? (·.1 == v) with
    | some (_, cls, raw) => mkDom W cls raw
    | none => []
  -- optional `(nargs (tag t..) ..)`: argument expressions per conclusion (branches that introduce variables)
  let nargs : List (Nat × List (Term PVal)) ← match field? "nargs" args with
    | none => pure []
    | some es => es.mapM fun e => do
        match e with
        | .list (t :: ts) => pure ((← t.nat?), (← ts.mapM decTerm))
        | _ => none
  let argsOf : Nat → List (Term PVal) := fun tag => (nargs.lookup tag).getD cargs
  let c0 := build bconds
  let tree := buildRule c0 tag0 kids
  let rows := ruleRowsA W D tree argsOf
  -- reference: ripple-down rules on the surface program, per binding of the base variables (the variables of
  -- the base conditions and of the default argument expressions); a block may introduce further variables (fireExtRule)
  let baseVars := (vars.map (·.1)).filter fun v => c0.vars.contains v || (Terms.vars cargs).contains v
  let spec := specRuleRowsExt W D baseVars c0 tag0 kids argsOf
  if nargs.isEmpty && baseVars.length == vars.length then
    -- every condition mentions declared base variables only: the reference the C12 theorems are about
    let spec0 := (allBnds D (vars.map (·.1))).filterMap fun β =>
      (fireRule W (asgOf β) c0 tag0 kids).map fun tag => (tag, termsVal W (asgOf β) cargs)
    if renderTagged spec0 != renderTagged spec then
      return s!"ERR the two ripple-down references disagree on {id}: {renderTagged spec0} vs {renderTagged spec}"
  return s!"{id}\tR\t{renderTagged rows}\tS\t{renderTagged spec}\tB\t{showRTree tree}"

-- ---------------------------------------------------------------- lazy domains (C07, C04)

/-- `(iter id (dom n..) (qual n..) (hist k..))`: objects are numbers, `qual` lists the qualifying
    ones, every history entry is the number of results taken before closing (`-1`: to completion).
    Per entry: the results delivered, the pull-log length when each result was delivered, and the
    log length after the evaluation ended. -/
def runIter (args : List Sexp) : Option String := do
  let id ← (← args.head?).atom?
  let dom ← (← field? "dom" args).mapM Sexp.nat?
  let qual ← (← field? "qual" args).mapM Sexp.nat?
  let hist ← (← field? "hist" args).mapM Sexp.int?
  let q : Nat → Bool := fun o => qual.contains o
  let mut s : Iter.DomSt Nat := Iter.init dom
  let mut outs : List String := []
  for k in hist do
    let kk : Option Nat := if k < 0 then none else some k.toNat
    let r := Iter.take q kk s
    -- log length at the delivery of the j-th result of this evaluation
    let per := (List.range r.1.length).map fun j => (Iter.take q (some (j + 1)) s).2.log.length
    outs := outs ++ [s!"{",".intercalate (r.1.map toString)}/{",".intercalate (per.map toString)}/{r.2.log.length}"]
    s := r.2
  return s!"{id}\t{"|".intercalate outs}"

def process (line : String) : String :=
  match Sexp.parse line with
  | some [.list (.atom "q" :: args)] => (runQuery args).getD "ERR decode"
  | some [.list (.atom "cache" :: args)] => (runCache args).getD "ERR decode"
  | some [.list (.atom "mode" :: args)] => (runMode args).getD "ERR decode"
  | some [.list (.atom "reg" :: args)] => (runReg args).getD "ERR decode"
  | some [.list (.atom "rule" :: args)] => (runRule args).getD "ERR decode"
  | some [.list (.atom "iter" :: args)] => (runIter args).getD "ERR decode"
  | some _ => "ERR unknown-command"
  | none => "ERR parse"

partial def loop (h : IO.FS.Stream) (out : IO.FS.Stream) : IO Unit := do
  let line ← h.getLine
  if line.isEmpty then return ()
  let l := line.trimAscii.toString
  if !l.isEmpty then
    out.putStrLn (process l)
  loop h out

def main : IO Unit := do
  let out ← IO.getStdout
  loop (← IO.getStdin) out
  out.flush
