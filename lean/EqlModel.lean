-- This module serves as the root of the `EqlModel` library.
-- Import modules here that should be built as part of the library.
import EqlModel.Basic
