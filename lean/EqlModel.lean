import EqlModel.Basic
import EqlModel.Spec
import EqlModel.Eval
import EqlModel.Build
import EqlModel.PyPrim
