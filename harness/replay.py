"""
./check <property> --replay <path>: re-run one stored case on the implementation, the Lean model and the
specification; exit 1 (with a VIOLATION line) if the property still fails on it, 0 otherwise.
"""
import json
import os
import sys

from . import common


def detuple(x):
    """JSON turned every tuple into a list: restore tuples (dicts stay dicts)."""
    if isinstance(x, list):
        return tuple(detuple(y) for y in x)
    if isinstance(x, dict):
        return {k: detuple(v) for k, v in x.items()}
    return x


def fix_case(case):
    case = detuple(case)
    if 'objs' in case:
        case['objs'] = tuple((o[0], o[1], dict(o[2])) for o in case['objs'])
    for k in ('sel', 'cond', 'vars', 'classes', 'args', 'hist', 'pool', 'lookups', 'ops', 'keys'):
        if k in case and case[k] is not None and not isinstance(case[k], list):
            case[k] = list(case[k])
    if 'vars' in case:
        case['vars'] = [(v[0], v[1], list(v[2])) for v in case['vars']]
    if 'pform' in case:
        case['pform'] = {int(k): {'pos': list(v.get('pos', ())), 'kw': list(v.get('kw', ()))} for k, v in case['pform'].items()}
    for k in ('domq', 'domq_cls'):
        if isinstance(case.get(k), dict):
            # JSON turned the variable ids (dictionary keys) into strings
            case[k] = {int(kk): (list(v) if isinstance(v, (list, tuple)) else v) for kk, v in case[k].items()}
    if 'explicit' in case:
        case['explicit'] = fix_case(case['explicit'])
    if case.get('foralls'):
        case['foralls'] = [(list(us), list(cs)) for us, cs in case['foralls']]
    if 'forall' in case and case['forall']:
        case['forall'] = (case['forall'][0], list(case['forall'][1]))
    return case


Q_OPTS = {
    'C01': dict(opts={'caching': (False, True), 'evals': 2, 'ordered': True}, judge=dict(ordered=True)),
    'C17': dict(opts={'caching': (False, True), 'evals': 2, 'ordered': True}, judge=dict(ordered=True)),
    'C03': dict(opts={'caching': (False, True), 'evals': 2}, judge=dict(check_tree=True)),
    'C15': dict(opts={'caching': (False, True), 'evals': 1}, judge=dict(check_tree=True)),
    'C09': dict(opts={'caching': (False, True), 'evals': 2, 'ambients': (None, 'query', 'rule', 'split:query', 'split:rule', 'query+q', 'rule+q')}, judge={}),
}


def run(pid, path, quiet=False):
    if quiet:
        import contextlib
        import io
        with contextlib.redirect_stdout(io.StringIO()):
            return run(pid, path)
    if not os.path.isabs(path):
        path = os.path.join(common.VERIF, path)
    payload = json.load(open(path))
    if 'case' not in payload:
        print(f'[{pid}] replay {path}: this replay names a broken proof obligation / correspondence, there is no input to '
              f're-run: {payload.get("broken")}')
        return 1
    case = fix_case(payload['case'])
    findings = common.load_findings()
    report = common.Report(pid, 'replay', int(payload.get('seed', 0)))
    ok, log = common.lake_build(['driver'])
    if not ok:
        print('HARNESS-ERROR: the driver does not build', file=sys.stderr)
        return 2
    from . import props_q, props_q2, props_m, props_r, qcheck, surface
    try:
        if pid in ('C11', 'C12'):
            opts_r = {'caching': (False, True), 'evals': 2}
            if pid == 'C11':
                opts_r['ambients'] = (None, 'query', 'rule', 'query+q', 'rule+q')
            res = props_r.rule_impl((case, opts_r))
            line = common.run_driver([props_r.rule_sexp(case)])[0]
            props_r.judge_rules(report, [case], [res], [line], findings, pid, lambda c, r: True)
        elif pid == 'C20':
            res = props_m.c20_impl(case)
            line = common.run_driver([props_m.c20_sexp(case)])[0]
            print('implementation:', res[-1][:4], '...')
            print('model         :', line[:300])
            # re-judge through the handler's logic on this single case
            rng = None
            orig = props_m.c20_gen
            props_m.c20_gen = lambda *_a, **_k: case
            try:
                import random
                props_m.n_cases_saved = props_m.n_cases
                props_m.n_cases = lambda *_a: 1
                props_m.c20(report, random.Random(0), 'quick', findings)
            finally:
                props_m.c20_gen = orig
                props_m.n_cases = props_m.n_cases_saved
        elif pid == 'C08':
            obs = [o for o in props_m.c08_impl(case) if not o.startswith('RAISED:')]
            line = common.run_driver([props_m.c08_sexp(case)])[0]
            model = line.split('\t')[1].split('|')
            print('observed:', obs)
            print('expected:', model)
            if obs != model:
                report.violations.append(('mode history still differs', payload))
        elif pid == 'C14':
            outs, inits = props_m.c14_impl(case)
            line = common.run_driver([props_m.c14_sexp(case)])[0]
            print('observed:', outs, inits)
            print('model   :', line)
            _, body, m_inits = line.split('\t')
            nq = sum(1 for o in case['ops'] if o[0] in ('q', 'infself', 'qe'))
            model = (body.split('|') + [''] * nq)[:nq] if nq else []
            if outs != model or str(inits) != m_inits:
                report.violations.append(('registry history still differs', payload))
        elif pid == 'C07':
            res = props_m.c07_impl(case)
            print('observed:', res.get('steps'), res.get('exc'))
            line = common.run_driver([surface.sexp(('iter', case['id'], ('dom',) + tuple(v[1] for v in case['vars'][0][2]),
                                                    ('qual',) + tuple(res.get('qual', ())), ('hist',) + tuple(case['hist'])))])[0]
            print('model   :', line)
            model = line.split('\t')[1].split('|')
            for st, m in zip(res.get('steps', []), model):
                m_res, m_per, m_after = m.split('/')
                if st['res'] != [int(x) for x in m_res.split(',') if x] or st['per'] != [int(x) for x in m_per.split(',') if x] \
                        or st['after'] != int(m_after):
                    report.violations.append(('pull history still differs', payload))
                    break
        elif pid == 'C04' or 'pool' in case:
            # (a pool of queries with a history: C04, and the shared-expression pools of C19)
            res = props_q2.c04_impl((case, {'caching': (False, True)}))
            print(json.dumps(res, default=str)[:2000])
            for key, run_ in res.get('runs', {}).items():
                for kind, qi, rows_ in run_.get('steps', []):
                    if kind in ('full', 'noraise') and sorted(set(rows_)) != sorted(set(res['specs'][qi])):
                        report.violations.append((f'history still gives a different answer ({key})', payload))
        else:
            cfg = Q_OPTS.get(pid, dict(opts={'caching': (False, True), 'evals': 2}, judge={}))
            jk = dict(cfg['judge'])
            if case.get('set_level'):
                # (a case of a stream that is compared as a SET of rows, whatever the property's main stream does)
                jk.pop('ordered', None)
                cfg = {**cfg, 'opts': {k: v for k, v in cfg['opts'].items() if k != 'ordered'}}
            if pid == 'C06' or case.get('quant') == 'the':
                jk['expected'] = props_q2.the_expected
            if pid == 'C17' and case.get('set_level'):
                judge = props_q2.J17(report, findings, 'C17')
            elif pid in props_q2.REPLAY_JUDGES:
                judge = props_q2.REPLAY_JUDGES[pid](report, findings)
            elif 'operand_quant' in case:
                # a sub-query in OPERAND position (C15's second stream): rows against the oracle of the explicit twin only
                jk.pop('check_tree', None)

                class OJ(props_q.QueryJudge):
                    def __call__(self, case_, res, drv):
                        drv = {**drv}
                        drv.pop('l2', None)
                        super().__call__(case_, res, drv)
                judge = OJ(report, findings, pid, **jk)
            else:
                judge = props_q.QueryJudge(report, findings, pid, **jk)
            qcheck.run_query_cases(report, [case], cfg['opts'], judge)
            if 'rewritten' in payload:
                rw = fix_case(payload['rewritten'])
                qcheck.run_query_cases(report, [rw], cfg['opts'], judge)
    except common.HarnessError as e:
        print(f'HARNESS-ERROR {pid}: {e}', file=sys.stderr)
        return 2
    for fid, n in report.known.items():
        print(f'KNOWN-FINDING: property={pid} {fid} {report.known_text.get(fid, "")}')
    if report.violations or report.corr_disagreements:
        for what, _ in report.violations[:3]:
            print('  still failing:', what)
        for d in report.corr_disagreements[:2]:
            print('  model and implementation still disagree:', json.dumps(d, default=str)[:600])
        print(f'VIOLATION property={pid} replay={os.path.relpath(path, common.VERIF)}')
        return 1
    print(f'[{pid}] replay {os.path.relpath(path, common.VERIF)}: the property holds on this case now')
    return 0
