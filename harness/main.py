"""
./check <property> [--tier quick|thorough] [--replay path]
exit 0: the property held on everything explored; exit 1: VIOLATION line; exit 2: harness trouble.
"""
import argparse
import json
import os
import random
import sys
import traceback

from . import common


def handlers():
    from . import props_q
    h = {'C01': props_q.c01, 'C02': props_q.c02}
    for mod in ('props_q2', 'props_m', 'props_r'):
        try:
            m = __import__('harness.' + mod, fromlist=['HANDLERS'])
            h.update(m.HANDLERS)
        except ImportError:
            pass
    return h


def main():
    ap = argparse.ArgumentParser()
    ap.add_argument('prop')
    ap.add_argument('--tier', default=os.environ.get('VERIF_TIER', 'quick'))
    ap.add_argument('--replay')
    ap.add_argument('--no-proof', action='store_true', help='skip the Lean build/audit (development only)')
    args = ap.parse_args()
    seed = int(os.environ.get('VERIF_SEED', '0') or 0)
    pid = args.prop.upper()
    hs = handlers()
    if pid not in hs:
        print(f'unknown property {pid}', file=sys.stderr)
        return 2
    if args.replay:
        from . import replay
        common.prepare_driver()
        return replay.run(pid, args.replay)
    report = common.Report(pid, args.tier, seed)
    findings = common.load_findings()
    rng = random.Random(f'{pid}-{seed}')
    try:
        # 1. proof obligations: regenerate tables, build, audit  (before the sampling so a broken
        #    obligation is known when disagreements are classified)
        proof = None
        # handlers return (modules, assumptions) after running the correspondence; the modules are
        # static, so ask for them first through the attribute when present
        mods = getattr(hs[pid], 'modules', None)
        if not args.no_proof and mods:
            proof = common.prove(mods, args.tier)
        if proof is None:
            common.prepare_driver()
        res = hs[pid](report, rng, args.tier, findings)
        mods2, assumptions = res
        if proof is None and not args.no_proof:
            proof = common.prove(mods2, args.tier)
        # regression corpus: minimised inputs of past failures (repaired defects) are re-run on every check
        import glob
        from . import replay
        for path in sorted(glob.glob(os.path.join(common.VERIF, 'corpus', f'{pid}-*.json'))):
            try:
                payload = json.load(open(path))
            except Exception:
                continue
            if 'case' not in payload:
                continue
            report.count('corpus_inputs')
            rc = replay.run(pid, path, quiet=True)
            if rc == 2:
                raise common.HarnessError(f'corpus input {path} could not be replayed')
            if rc == 1:
                report.violations.append((f'corpus input {os.path.basename(path)} fails again',
                                          {**payload, 'what': 'a repaired defect is back: ' + str(payload.get('what'))}))
        return report.finish(proof, assumptions)
    except common.HarnessError as e:
        print(f'HARNESS-ERROR {pid}: {e}', file=sys.stderr)
        return 2
    except Exception:
        traceback.print_exc()
        return 2


if __name__ == '__main__':
    sys.exit(main())
