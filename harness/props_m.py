"""
Handlers for the state-machine properties: C20 (cache index), C08 (mode), C14 (registry), ...
"""
import itertools
import random

from .common import pmap, run_driver, HarnessError
from .surface import sexp


def n_cases(tier, quick, thorough):
    # quick is sized to finish in well under a minute on 16 cores; thorough is ~12x deeper
    return int(quick * 2.5) if tier == 'quick' else thorough * 3


# ------------------------------------------------------------------------------------------- C20

def c20_gen(rng, cid, tier):
    nk = rng.choice((1, 2, 2, 3, 3, 4 if tier != 'quick' else 3))
    keys = sorted(rng.sample(range(1, 9), nk))
    alphabet = (0, 1, 2)
    style = rng.choice(('full', 'mixed', 'mixed', 'uniform_partial'))
    n_ops = rng.randint(1, 8 if tier == 'quick' else 12)
    bound_sets = None
    if style == 'uniform_partial':
        # all inserts bind the same subset of keys: partial bindings, still prefix-uniform
        k = rng.randint(1, nk)
        bound_sets = sorted(rng.sample(keys, k))
    ops = []
    for j in range(n_ops):
        if rng.random() < 0.08:
            ops.append(('clr',))
            continue
        if style == 'full':
            ks = keys
        elif style == 'uniform_partial':
            ks = bound_sets
        else:
            ks = [k for k in keys if rng.random() < 0.7]
        a = tuple((k, rng.choice(alphabet)) for k in ks)
        if rng.random() < 0.2 and ops:
            prev = [o for o in ops if o[0] == 'ins']
            if prev:
                a = rng.choice(prev)[1]          # overwrite an existing binding
        ops.append(('ins', a, j))
    lookups = []
    for vals in itertools.product((None,) + alphabet, repeat=nk):
        lookups.append(tuple((k, v) for k, v in zip(keys, vals) if v is not None))
    return {'id': cid, 'keys': keys, 'ops': ops, 'lookups': lookups, 'style': style}


def c20_sexp(case):
    return sexp(('cache', case['id'], ('keys',) + tuple(case['keys']), ('ops',) + tuple(case['ops']),
                 ('lookups',) + tuple(case['lookups'])))


def show_asg(d):
    return ','.join(f'{k}={v}' for k, v in sorted(d.items()))


def show_retr(rs):
    return '+'.join(sorted(f'{show_asg(a)}>{o}' for a, o in rs))


def c20_impl(case):
    """Drive the real IndexedCache; after every op evaluate every lookup."""
    from . import impl  # noqa: F401  (puts /repo/src first on sys.path and asserts it)
    from entity_query_language.cache_data import IndexedCache
    cache = IndexedCache(list(case['keys']))
    out = []
    store = {}          # reference: binding (frozenset of items) -> output, since last clear
    for op in case['ops']:
        if op[0] == 'clr':
            cache.clear()
            store.clear()
        else:
            a = dict(op[1])
            cache.insert(dict(a), op[2])
            if a:
                store[frozenset(a.items())] = op[2]
        per = []
        for lk in case['lookups']:
            a = dict(lk)
            if a:
                chk = '1' if cache.check(dict(a)) else '0'
                ref_chk = '1' if any(all(a.get(k) == v for k, v in b) for b in store) else '0'
            else:
                chk = ref_chk = '-'
            try:
                got = show_retr([(dict(r), o) for r, o in cache.retrieve(dict(a))])
            except Exception as e:
                got = f'EXC:{type(e).__name__}'
            ref = show_retr([({**a, **dict(b)}, o) for b, o in store.items()
                             if all(a.get(k, v) == v for k, v in b)])
            per.append((chk, got, ref_chk, ref))
        out.append(per)
    return out


def c20(report, rng, tier, findings):
    n = n_cases(tier, 400, 6000)
    cases = [c20_gen(rng, f'h{i}', tier) for i in range(n)]
    impl_res = pmap(c20_impl, cases)
    lines = run_driver([c20_sexp(c) for c in cases])
    fnd = {f['id']: f for f in findings.get('findings', []) if f.get('status', 'open') == 'open'}
    report.rule = ("random histories of 1-8 (thorough: 12) inserts/clears on an IndexedCache with 1-4 keys and a 3-value alphabet: "
                   "full bindings, mixed partial bindings, one fixed partial shape, overwrites; after EVERY operation EVERY full and "
                   "partial lookup is enumerated and check/retrieve of the real cache are compared with the model and with a "
                   "list-of-(binding, output) reference; non-trivial = the history stores at least two entries and at least one "
                   "partial binding or overwrite")
    for case, res, line in zip(cases, impl_res, lines):
        report.evaluations += 1
        report.count('style_' + case['style'])
        report.count('n_keys_%d' % len(case['keys']))
        if line.startswith('ERR'):
            raise HarnessError('driver: ' + line + ' :: ' + c20_sexp(case))
        cid, body = line.split('\t')
        steps = body.split('|')
        ins = [o for o in case['ops'] if o[0] == 'ins']
        if len(ins) >= 2 and (any(len(o[1]) < len(case['keys']) for o in ins) or len({o[1] for o in ins}) < len(ins)):
            report.nontrivial.add(c20_sexp({**case, 'id': 'x'}))
        report.add_sample(c20_sexp(case)[:1200])
        done = False
        for si, (step, per) in enumerate(zip(steps, res)):
            uni, rest = step.split('/', 1)
            mods = rest.split(';')
            if uni == 'N':
                report.count('steps_nonuniform')
            else:
                report.count('steps_uniform')
            for lk, m, (chk, got, ref_chk, ref) in zip(case['lookups'], mods, per):
                report.traces += 1
                m_chk, m_got, m_ref = m.split(':')
                if m_ref != ref:
                    raise HarnessError(f'Python reference and Lean reference disagree: {m_ref} vs {ref} :: {c20_sexp(case)}')
                what = None
                if chk != ref_chk:
                    what = f'coverage check for {dict(lk)} after op {si}: got {chk}, stored bindings say {ref_chk}'
                elif got != ref:
                    if uni == 'N' and got == m_got and 'C20-F1' in fnd:
                        report.known['C20-F1'] = report.known.get('C20-F1', 0) + 1
                        report.known_text['C20-F1'] = fnd['C20-F1']['what']
                    else:
                        what = f'retrieve({dict(lk)}) after op {si}: got [{got}], stored entries say [{ref}]'
                if what is None and (got != m_got or chk != m_chk):
                    report.corr_disagreements.append({'case': c20_sexp(case), 'op': si, 'lookup': lk,
                                                      'impl': [chk, got], 'model': [m_chk, m_got]})
                if what:
                    report.violations.append((what, {'what': what, 'case': case, 'case_sexp': c20_sexp(case),
                                                     'op_index': si, 'lookup': lk, 'model': [m_chk, m_got],
                                                     'trie_prefix_uniform': uni == 'U'}))
                    done = True
                    break
            if done:
                break
    return ['EqlModel.Props.C20'], [
        "key lists are non-empty; bindings mention cache keys only",
        "retrieval is claimed exact on prefix-uniform tries (c20_retrieve_uniform_partial); elsewhere known finding C20-F1",
        "empty-binding insert (flat store) and empty-binding check (poisons the seen set) are modelled, not claimed"]


# ------------------------------------------------------------------------------------------- C08

def c08_gen(rng, cid, tier):
    """A well-bracketed history with iterator operations anywhere."""
    n = rng.randint(2, 10 if tier == 'quick' else 16)
    ops, depth = [], 0
    n_iters = rng.randint(0, 3)
    iters = {}        # id -> ('fresh'|'live'|'done', advances)
    next_it = 0
    # some of the iterators belong to queries whose evaluation RAISES at the second result
    raising = sorted(rng.sample(range(n_iters), rng.randint(1, n_iters))) if n_iters and rng.random() < 0.6 else []
    for _ in range(n):
        choices = ['es', 'es', 'ew']
        if depth > 0:
            choices += ['lv', 'lv', 'lvx']
        if next_it < n_iters:
            choices += ['ic']
        live = [i for i, (st, _) in iters.items() if st != 'dropped']
        if live:
            choices += ['ia', 'ia', 'cl', 'drop']
        c = rng.choice(choices)
        if c == 'es':
            ops.append(('es', rng.choice('qr'), rng.randint(0, 1)))
            depth += 1
        elif c == 'ew':
            ops.append(('ew',))
            depth += 1
        elif c in ('lv', 'lvx'):
            ops.append((c,))
            depth -= 1
        elif c == 'ic':
            ops.append(('ic', next_it))
            iters[next_it] = ('fresh', 0)
            next_it += 1
        elif c == 'ia':
            i = rng.choice(live)
            hot = [j for j in live if j in raising and iters[j][1] < 2]
            if hot and rng.random() < 0.85:
                i = rng.choice(hot)          # drive a raising evaluation to the point where it raises
            st, adv = iters[i]
            exhausted = 1 if (st == 'done' or adv >= 2) else 0
            ops.append(('ia', i, exhausted))
            iters[i] = ('done' if exhausted else 'live', adv + 1)
        elif c == 'cl':
            i = rng.choice(live)
            ops.append(('cl', i))
            iters[i] = ('done', iters[i][1])
        elif c == 'drop':
            i = rng.choice(live)
            ops.append(('drop', i))
            iters[i] = ('dropped', iters[i][1])
    while depth > 0:
        ops.append((rng.choice(('lv', 'lvx')),))
        depth -= 1
    case = {'id': cid, 'ops': ops}
    if raising:
        case['raising'] = raising
    return case


def c08_template(rng, cid):
    """Template history: the iterator of a query that runs a USER PREDICATE for every result (query 1) is advanced once
    or twice - suspended on a result - and then closed / dropped INSIDE a block (possibly a nested one), created inside
    or outside it; a later block follows."""
    ops = []
    outside = rng.random() < 0.5
    if outside:
        ops += [('ic', 0), ('ic', 1)]
    ops.append(('es', rng.choice('qr'), rng.randint(0, 1)))
    if not outside:
        ops += [('ic', 0), ('ic', 1)]
    ops.append(('ia', 1, 0))
    if rng.random() < 0.4:
        ops.append(('ia', 1, 0))
    nest = rng.random() < 0.4
    if nest:
        ops.append(('es', rng.choice('qr'), 0))
    ops.append((rng.choice(('cl', 'drop')), 1))
    if nest:
        ops.append(('lv',))
    ops += [('es', 'q', 0), ('lv',)]
    ops.append((rng.choice(('lv', 'lvx')),))
    return {'id': cid, 'ops': ops}


def c08_sexp(case):
    conv = []
    for op in case['ops']:
        if op[0] == 'lvx':
            conv.append(('lv',))
        elif op[0] == 'drop':
            conv.append(('cl', op[1]))
        else:
            conv.append(op)
    return sexp(('mode', case['id'], ('ops',) + tuple(conv)))


class _LeaveByException(Exception):
    pass


def c08_impl(case):
    """Interpret the history with REAL `with` statements (recursively), observing after every step."""
    import gc
    from dataclasses import dataclass
    from . import impl
    from entity_query_language import symbol, let, an, entity, symbolic_mode, rule_mode, predicate
    from entity_query_language.symbolic import in_symbolic_mode, SymbolicExpression
    from entity_query_language.enums import EQLMode
    impl.reset_library_state()
    base_stack = len(SymbolicExpression._symbolic_expression_stack_)

    @symbol
    @dataclass(eq=False)
    class S:
        a: int = 0

    objs = [S(1), S(2)]
    objs2 = [S(1), S('s'), S(2)]
    x = let(S, objs)
    with symbolic_mode():
        # two of the four queries (the first and the third) take their variable's DOMAIN from another query: advancing
        # their iterator advances a nested evaluation (one evaluate() running inside another)
        queries = []

        @predicate
        def fine(o):
            return o.a != 's'

        @predicate
        def touchy(o):
            if o.a == 's':
                raise ValueError('user predicate raises')
            return True
        for j in range(4):
            if j in (case.get('raising') or ()):
                # the evaluation RAISES at its second result (a comparison of mixed data / a user predicate that raises):
                # the advance that raises is one more path on which nothing about the mode may change
                v = let(S, objs2)
                queries.append(an(entity(v, v.a > 0)) if j % 2 == 0 else an(entity(v, touchy(v))))
            elif j % 2 == 0:
                inner = let(S, objs)
                inner_q = an(entity(inner, inner.a > 0))
                queries.append(an(entity(let(S, inner_q.evaluate()), x.a > 0)))     # a live result iterator as domain
            else:
                # a query whose evaluation runs a USER PREDICATE for every result (the evaluation is inside the library's
                # predicate machinery while the iterator is suspended)
                v = let(S, objs)
                queries.append(an(entity(v, fine(v))))
        ctxq = an(entity(x, x.a > 0))
    its = {}
    obs = []
    raised = []
    ops = case['ops']

    def observe():
        try:
            inst = S(5)
            concrete = isinstance(inst, S)
        except Exception:
            concrete = False
        # ... and calling a @predicate function with a CONCRETE argument: ordinary Python (a bool) outside every block, an
        # expression inside one; both observables must agree (2 = one is concrete and the other symbolic)
        try:
            pr_ = fine(objs[0])
            pred_concrete = isinstance(pr_, bool)
        except Exception:
            pred_concrete = None
        if pred_concrete is None or bool(pred_concrete) != bool(concrete):
            concrete = 2
        # every symbolic operator of a variable (CanBehaveLikeAVariable): comparison, attribute access (an attribute that
        # WAS accessed inside a block before, and one that never was), indexing, calling, membership - all rejected outside
        # a block, none rejected inside one (2 = some are and some are not)
        probes = (lambda: x == 1, lambda: x != 1, lambda: x < 1, lambda: x >= 1, lambda: x <= 1, lambda: x > 1, lambda: x.a, lambda: x.never_seen,
                  lambda: x[0], lambda: x(), lambda: 1 in x, lambda: x.a.real)
        n_rej = 0
        for pr in probes:
            try:
                pr()
            except AttributeError:
                n_rej += 1
        rejected = 1 if n_rej == len(probes) else (0 if n_rej == 0 else 2)
        obs.append('%d%d%d%d%d' % (in_symbolic_mode(), in_symbolic_mode(EQLMode.Rule), concrete, rejected,
                                   len(SymbolicExpression._symbolic_expression_stack_) - base_stack))

    def run(i):
        """process ops from index i until the leave that closes the current block; returns (next index, by_exception)"""
        while i < len(ops):
            op = ops[i]
            k = op[0]
            if k == 'es':
                cm = (rule_mode if op[1] == 'r' else symbolic_mode)
                arg = ctxq if op[2] else None
                try:
                    with cm(arg):
                        observe()
                        i, exc = run(i + 1)
                        if exc:
                            raise _LeaveByException()
                except _LeaveByException:
                    pass
                observe()
            elif k == 'ew':
                try:
                    with ctxq:
                        observe()
                        i, exc = run(i + 1)
                        if exc:
                            raise _LeaveByException()
                except _LeaveByException:
                    pass
                observe()
            elif k in ('lv', 'lvx'):
                return i + 1, k == 'lvx'
            else:
                if k == 'ic':
                    its[op[1]] = queries[op[1]].evaluate()
                elif k == 'ia':
                    try:
                        next(its[op[1]])
                    except StopIteration:
                        pass
                    except Exception as e:
                        # an exception from the data layer (two live iterators over queries that share a lazily
                        # consumed domain) is not a statement about the MODE: the iterator is finished, the mode is
                        # observed as after any other step; counted in the evidence
                        raised.append(type(e).__name__)
                elif k == 'cl':
                    its[op[1]].close()
                elif k == 'drop':
                    del its[op[1]]
                    gc.collect()
                observe()
                i += 1
                continue
            # after a block: i already points past its leave
        return i, False

    try:
        run(0)
    except Exception as e:
        obs.append(f'EXC:{type(e).__name__}:{e}')
    finally:
        its.clear()
        gc.collect()
        impl.reset_library_state()
    return obs + ['RAISED:' + r for r in raised]


def c08(report, rng, tier, findings):
    n = n_cases(tier, 300, 4000)
    import random as _random
    cases = [c08_gen(rng, f'm{i}', tier) if i % 8 != 7 else c08_template(_random.Random(getattr(report, 'seed', 0) * 1009 + i), f'm{i}')
             for i in range(n)]
    impl_res = pmap(c08_impl, cases)
    lines = run_driver([c08_sexp(c) for c in cases])
    report.rule = ("random well-bracketed histories (2-10 steps, thorough 16) of entering/leaving symbolic_mode / rule_mode blocks "
                   "(with and without a query) and `with query:` blocks - leaving normally or by raising - interleaved with creating, "
                   "advancing, exhausting, closing and dropping (gc) result iterators (half of them over a query whose domain is supplied by another query: nested evaluation; in 60% of the histories with iterators some belong to queries whose evaluation RAISES at the second result - mixed data, a raising user predicate - the exception being caught where it surfaces) at any point; executed with REAL with-statements; "
                   "after every step in_symbolic_mode(), in_symbolic_mode(Rule), type(Symbol(..)), whether `x == 1` raises and the "
                   "expression-stack length are compared with the model and the reference; non-trivial = the history has an iterator "
                   "operation inside a block or after the block it was created in")
    for case, obs, line in zip(cases, impl_res, lines):
        report.evaluations += 1
        if line.startswith('ERR'):
            raise HarnessError('driver: ' + line + ' :: ' + c08_sexp(case))
        for r in [o for o in obs if o.startswith('RAISED:')]:
            report.count('iterator_advance_raised_' + r[7:])
        obs = [o for o in obs if not o.startswith('RAISED:')]
        model = line.split('\t')[1].split('|')
        # the implementation observes at enter, (inner...), after leave: same sequence as one observation per op
        kinds = [op[0] for op in case['ops']]
        for k in kinds:
            report.count('op_' + k)
        if any(k in ('ia', 'cl', 'drop') for k in kinds) and any(k in ('es', 'ew') for k in kinds):
            report.nontrivial.add(c08_sexp({**case, 'id': 'x'}))
        report.add_sample(c08_sexp(case))
        report.traces += len(obs)
        if obs != model:
            # the reference stack machine is what the model is proved equal to (c08_confined): a difference is a violation
            step = next((j for j, (a, b) in enumerate(zip(obs, model)) if a != b), min(len(obs), len(model)))
            what = (f'after step {step} ({case["ops"][step] if step < len(case["ops"]) else "end"}): observed '
                    f'{obs[step] if step < len(obs) else None}, expected {model[step] if step < len(model) else None} '
                    '(in_symbolic, in_rule, concrete construction, operators rejected, stack length)')
            report.violations.append((what, {'what': what, 'case': case, 'case_sexp': c08_sexp(case),
                                             'observed': obs, 'expected': model}))
    return ['EqlModel.Props.C08'], [
        "single thread (other threads / asyncio tasks have their own context)",
        "CPython runs a generator's finally block at close()/finalisation; the position of that step is universally quantified",
        "an exception raised when an iterator is advanced - by design (raising queries) or by the data layer - is counted as "
        "iterator_advance_raised_* and is one more step after which the mode observables are compared"]


# ------------------------------------------------------------------------------------------- C14

def c14_gen(rng, cid, tier):
    n_cls = rng.randint(1, 5)
    classes = []
    def parents_of(x):
        p = classes[x][1]
        return [] if p is None else (list(p) if isinstance(p, tuple) else [p])

    def is_anc(a, x):              # a is x or an ancestor of x
        return a == x or any(is_anc(a, q) for q in parents_of(x))
    for c in range(n_cls):
        parent = rng.choice([None] + list(range(c))) if c > 0 else None
        style = rng.choice(('dataclass', 'dataclass', 'handwritten'))
        if c >= 2 and rng.random() < 0.3:
            # MULTIPLE inheritance (a diamond when the two parents share an ancestor): two parents none of which is an
            # ancestor of the other
            pairs = [(a, b) for a in range(c) for b in range(a + 1, c) if not is_anc(a, b) and not is_anc(b, a)]
            if pairs:
                parent = rng.choice(pairs)
                style = 'dataclass'
        decorated = True if parent is None else rng.random() < 0.5
        classes.append((c, parent, decorated, style))
    ops = []
    n_ops = rng.randint(3, 14 if tier == 'quick' else 24)
    for _ in range(n_ops):
        r = rng.random()
        c = rng.randrange(n_cls)
        if r < 0.4:
            ops.append(('c', c, rng.choice(('pos', 'kw', 'default'))))
        elif r < 0.55:
            ops.append(('s', c, rng.choice(('kw', 'default'))))
        elif r < 0.64:
            ops.append(('inf', c, rng.randint(0, 2)))
        elif r < 0.70:
            # a rule whose body ranges, WITHOUT a domain, over the registry of a class (possibly the very class - or an
            # ancestor of the class - it creates instances of): one new instance per instance constructed so far
            # (the class it creates instances of is either the ranged-over class itself, that class having no subclass - the
            #  instances created during the evaluation are then not visited, or it would never end - or outside its
            #  subtree; whether instances created during the evaluation in ANOTHER class of the ranged-over subtree are
            #  visited is left open by the property: not generated)
            def in_subtree(x, root):
                return is_anc(root, x)
            leaf = not any(in_subtree(x, c) for x in range(n_cls) if x != c)
            ts = [t for t in range(n_cls) if (t == c and leaf) or not in_subtree(c, t)]
            if ts:
                ops.append(('infself', c, rng.choice(ts)))
        elif r < 0.75:
            ops.append(('clr',))
        elif r < 0.85:
            # a no-domain query that is ABANDONED after k results, or a the(...) that may raise: neither may change what
            # later queries range over (no observable of its own)
            ops.append(('qa', c, rng.randint(0, 2)) if rng.random() < 0.7 else ('qthe', c))
        else:
            ops.append(('q', c))
    ops.append(('q', rng.randrange(n_cls)))
    if int(cid[1:]) % 2 == 1 and len(ops) >= 3:
        # a no-domain variable DECLARED on the still empty registry (first operation of the history) and evaluated later,
        # after instances were constructed: it takes its domain at evaluation time - every instance constructed so far
        pos = 2 + (int(cid[1:]) * 7) % (len(ops) - 1)
        ops = [('qd', (int(cid[1:]) // 2) % n_cls)] + ops[:pos - 1] + [('qe',)] + ops[pos - 1:]
        if int(cid[1:]) % 4 == 3 and pos >= 3:
            # ... or declared LATER, when some classes of the hierarchy have instances and others have none yet
            d = 1 + (int(cid[1:]) * 5) % (pos - 1)
            ops = ops[1:d + 1] + [ops[0]] + ops[d + 1:]
    case = {'id': cid, 'classes': classes, 'ops': ops}
    if rng.random() < 0.25:
        # SIZED classes: some root classes define __len__ (= the field a), so instances constructed with defaults / a=0 are
        # FALSY objects (an empty container); an instance is an instance whatever its truth value
        case['sized'] = [c for c, parent, _, _ in classes if parent is None and rng.random() < 0.7]
    return case


def c14_sexp(case):
    cl = tuple((c,) + (('-',) if p is None else tuple(p) if isinstance(p, (tuple, list)) else (p,))
               for c, p, _, _ in case['classes'])
    ops = []
    for op in case['ops']:
        if op[0] == 'c':
            ops.append(('c', op[1]))
        elif op[0] == 's':
            ops.append(('s', op[1]))
        elif op[0] == 'inf':
            ops += [('c', op[1])] * op[2]
        elif op[0] in ('qa', 'qthe', 'qd'):
            continue                 # an abandoned / failed query, and a mere declaration, are invisible to the registry
        elif op[0] == 'qe':
            ops.append(('q', next(o[1] for o in case['ops'] if o[0] == 'qd')))      # evaluated here: the registry as it is NOW
        else:
            ops.append(op)           # ('q', c) ('clr',) ('infself', c, t)
    return sexp(('reg', case['id'], ('classes',) + cl, ('ops',) + tuple(ops)))


def c14_impl(case):
    from dataclasses import dataclass
    from . import impl
    from entity_query_language import symbol, let, an, entity, symbolic_mode, rule_mode, infer
    from entity_query_language.symbolic import Variable, SymbolicExpression
    impl.reset_library_state()
    counter = {'inits': 0}
    built = {}
    for c, parent, decorated, style in case['classes']:
        bases = (object,) if parent is None else tuple(built[q] for q in parent) if isinstance(parent, (tuple, list)) \
            else (built[parent],)
        extra = {'__len__': (lambda self: self.a)} if c in (case.get('sized') or ()) else {}
        if style == 'handwritten':
            def __init__(self, a=0):
                counter['inits'] += 1
                self.a = a
            cls = type(f'K{c}', bases, {'__init__': __init__, **extra})
        else:
            def __post_init__(self):
                counter['inits'] += 1
            cls = dataclass(eq=False)(type(f'K{c}', bases, {'__annotations__': {'a': int}, 'a': 0,
                                                           '__post_init__': __post_init__, **extra}))
        if decorated:
            cls = symbol(cls)
        built[c] = cls

    @symbol
    @dataclass(eq=False)
    class Helper:
        v: int = 0
    helpers = [Helper(0), Helper(1)]
    ids = {}            # id(obj) -> construction number
    keep = []
    outs = []
    n = 0
    try:
        for op in case['ops']:
            k = op[0]
            if k == 'c':
                cls = built[op[1]]
                o = cls(3) if op[2] == 'pos' else (cls(a=3) if op[2] == 'kw' else cls())
                assert type(o) is cls
                ids[id(o)] = n
                keep.append(o)
                n += 1
            elif k == 's':
                before = counter['inits']
                with symbolic_mode():
                    e = built[op[1]](a=3) if op[2] == 'kw' else built[op[1]]()
                if isinstance(e, built[op[1]]) or counter['inits'] != before:
                    outs.append('SYMBOLIC-CONSTRUCTION-NOT-INERT')
            elif k == 'inf':
                src = let(Helper, helpers[:op[2]])
                with rule_mode():
                    q = infer(entity(built[op[1]](a=src.v), src.v >= 0))
                made = list(q.evaluate())
                for o in made:
                    ids[id(o)] = n
                    keep.append(o)
                    n += 1
                if len(made) != op[2]:
                    outs.append(f'INFER-COUNT-{len(made)}')
            elif k == 'infself':
                with rule_mode():
                    src = let(built[op[2]])
                    q = infer(entity(built[op[1]](a=src.a), src.a >= 0))
                made = list(q.evaluate())
                for o in made:
                    if type(o) is not built[op[1]]:
                        outs.append('NOT-AN-INSTANCE:' + type(o).__name__)
                    ids[id(o)] = n
                    keep.append(o)
                    n += 1
                outs.append(f'N{len(made)}')
            elif k == 'clr':
                for c in list(Variable._cache_.values()):
                    c.clear()
                Variable._cache_.clear()
            elif k == 'qa':
                it = an(entity(let(built[op[1]]))).evaluate()
                for _ in range(op[2]):
                    if next(it, None) is None:
                        break
                it.close()
            elif k == 'qthe':
                from entity_query_language import the
                from entity_query_language.failures import MultipleSolutionFound, NoSolutionFound
                try:
                    the(entity(let(built[op[1]]))).evaluate()
                except (MultipleSolutionFound, NoSolutionFound):
                    pass
            elif k == 'q':
                res = list(an(entity(let(built[op[1]]))).evaluate())
                outs.append(','.join(str(x) for x in sorted(ids.get(id(o), -1) for o in res)))
            elif k == 'qd':
                declared = an(entity(let(built[op[1]])))        # declared now (nothing constructed yet), evaluated at 'qe'
            elif k == 'qe':
                res = list(declared.evaluate())
                outs.append(','.join(str(x) for x in sorted(ids.get(id(o), -1) for o in res)))
    except Exception as e:
        outs.append(f'EXC:{type(e).__name__}:{e}')
    finally:
        impl.reset_library_state()
    return outs, counter['inits']


def c14(report, rng, tier, findings):
    n = n_cases(tier, 300, 4000)
    cases = [c14_gen(rng, f'r{i}', tier) for i in range(n)]
    impl_res = pmap(c14_impl, cases)
    lines = run_driver([c14_sexp(c) for c in cases])
    report.rule = ("random hierarchies of 1-5 classes (decorated roots, decorated and undecorated subclasses, single and MULTIPLE inheritance "
                   "incl. diamonds, dataclasses and a hand-written __init__) and histories of 3-14 (thorough 24) operations: concrete construction by position / keyword / "
                   "default, symbolic construction, rule inference creating 0-2 instances, rule inference whose body ranges without a "
                   "domain over the registry of a class (also the class it creates instances of: one new instance per instance "
                   "constructed so far), registry clearing and no-domain queries "
                   "(declare-and-evaluate); every query answer is compared BY IDENTITY with the harness's own construction log through "
                   "the model, and the number of __init__ runs is compared; non-trivial = the history queries a class after at "
                   "least one concrete construction of it or of a subclass")
    for case, (outs, inits), line in zip(cases, impl_res, lines):
        report.evaluations += 1
        if line.startswith('ERR'):
            raise HarnessError('driver: ' + line + ' :: ' + c14_sexp(case))
        _, body, m_inits = line.split('\t')
        model = body.split('|') if body else []
        if len(model) == 1 and model[0] == '' and sum(1 for o in case['ops'] if o[0] in ('q', 'infself', 'qe')) == 1:
            model = ['']
        for op in case['ops']:
            report.count('op_' + op[0])
        if case.get('sized'):
            report.count('sized_classes_with_falsy_instances')
        if any(x for x in model):
            report.nontrivial.add(c14_sexp({**case, 'id': 'x'}))
        report.add_sample(c14_sexp(case))
        report.traces += len(outs)
        nq = sum(1 for o in case['ops'] if o[0] in ('q', 'infself', 'qe'))
        model = (body.split('|') + [''] * nq)[:nq] if nq else []
        if outs != model or str(inits) != m_inits:
            what = (f'no-domain queries returned {outs} (instances numbered by construction order), the registry log says '
                    f'{model}; __init__ ran {inits} times, concrete constructions: {m_inits}')
            report.violations.append((what, {'what': what, 'case': case, 'case_sexp': c14_sexp(case),
                                             'observed': outs, 'expected': model}))
    return ['EqlModel.Props.C14'], [
        "declare-and-evaluate atomically (the property's observe_at); stale readings are not part of the verdict",
        "every construction style reaches the same patched __new__ (checked by the correspondence over styles)"]


# ------------------------------------------------------------------------------------------- C07

def c07_impl(case):
    """Single-variable query over a logging ONE-SHOT iterator; a history of partial/full evaluations."""
    from . import impl, surface
    from entity_query_language import an, entity, let, symbolic_mode
    impl.reset_library_state()
    out = {'id': case['id']}
    try:
        o = surface.Oracle(case)
        qual = {r[0][1] for r in o.rows()}           # object indices satisfying the condition (and the type)
        out['qual'] = sorted(qual)
    except Exception as e:
        out['spec_exc'] = str(e)
        return out
    held = []
    try:
        b = impl.Built(case)
        log = []
        vid, cls, raw = case['vars'][0]

        def one_shot():
            for v in raw:
                obj = b.decode(v)
                log.append(v[1])
                yield obj
        with symbolic_mode():
            x = let(b.classes[cls], one_shot())
            b.vars[vid] = x
            conds = [b.cond(c) for c in (case.get('cond') or [])]
            q = an(entity(x, *conds))
        steps = []
        for k in case['hist']:
            it = q.evaluate()
            created = len(log)
            res, per = [], []
            if k != 0:
                try:
                    while k < 0 or len(res) < k:
                        r = next(it)
                        res.append(b.obj_index[id(r)])
                        per.append(len(log))
                except StopIteration:
                    pass
            at_last = len(log)
            if case.get('hold') and k > 0:
                held.append(it)      # a partial evaluation whose iterator is NOT closed: it stays suspended while the
                                     # evaluations that follow run (never resumed)
            else:
                it.close()
            steps.append({'created_pulls': created, 'res': res, 'per': per, 'after': len(log),
                          'at_last': at_last})
        out['steps'] = steps
        while held:
            held.pop().close()       # closing an abandoned iterator must not raise (an exception here is reported)
    except Exception as e:
        out['exc'] = f'{type(e).__name__}: {e}'
    finally:
        for it_ in held:
            try:
                it_.close()
            except Exception:
                pass
        impl.reset_library_state()
    return out


def c07(report, rng, tier, findings):
    from . import gen, surface
    n = n_cases(tier, 300, 4000)
    cases = []
    for i in range(n):
        long_ = i % 12 == 11       # a LONG one-shot domain (more than 20 elements), most of it pulled by an early partial evaluation
        cfg = gen.Cfg(n_vars=(1, 1), n_objs=(24, 30) if long_ else (3, 8), depth=2, subclasses=0.3, empty_domain=0.0)
        case = gen.gen_case(rng, cfg, f'd{i}')
        r_c = rng.random()
        if long_ and i % 24 == 11:
            r_c = 0.0                # half of them without a condition
        if r_c < 0.15:
            case['cond'] = None                                  # condition-less query
        elif r_c < 0.35:
            # the condition that binds the variable is a two-argument predicate (function or class), the constant
            # argument first / last / by keyword, alone or as the first operand of and_/or_
            v0 = case['vars'][0][0]
            lit, xa = ('lit', ('i', rng.randint(0, 3))), ('attr', 'a', ('var', v0))
            p = (rng.choice(('pred', 'predc')), 'lt') + ((lit, xa) if rng.random() < 0.5 else (xa, lit))
            extra = ('cmp', rng.choice(('ge', 'ne')), ('attr', 'b', ('var', v0)), ('lit', ('i', rng.randint(0, 2))))
            case['cond'] = [rng.choice([p, ('and', p, extra), ('or', p, extra)])]
            case['pred_kw'] = rng.random() < 0.5
        if i % 10 == 7:
            # a membership test of an attribute against a CONSTANT list (its left operand, the list, mentions no variable),
            # alone or as the first operand of and_/or_
            v0 = case['vars'][0][0]
            xa = ('attr', 'a', ('var', v0))
            lst = ('lit', ('l',) + tuple(('i', k) for k in rng.sample(range(0, 5), rng.randint(1, 3))))
            mem = ('in', xa, lst) if rng.random() < 0.5 else ('contains', lst, xa)
            extra = ('cmp', rng.choice(('ge', 'ne')), ('attr', 'b', ('var', v0)), ('lit', ('i', rng.randint(0, 2))))
            case['cond'] = [rng.choice([mem, mem, ('and', mem, extra), ('or', mem, extra)])]
            report.count('membership_in_a_constant_list')
        vid, cls, raw = case['vars'][0]
        all_objs = [('o', j) for j, _, _ in case['objs']]
        raw = rng.sample(all_objs, len(all_objs))                 # distinct objects, mixed types
        case['vars'] = [(vid, cls, raw)]
        nh = rng.randint(1, 5 if tier == 'quick' else 8)
        case['hist'] = [rng.choice((0, 1, 1, 2, 3, -1)) for _ in range(nh)]
        if long_:
            case['hist'] = [rng.randint(21, 23)] + case['hist'][:3] + [rng.choice((1, 2, -1))]
            report.count('long_domain_mostly_pulled_by_an_early_partial_evaluation')
        # every third case: the iterators of its partial evaluations are NOT closed (they stay suspended while the later
        # evaluations run; never resumed) - chosen by position, not by the generator's random stream
        case['hold'] = i % 3 == 0
        if case['hold'] and any(k > 0 for k in case['hist'][:-1]):
            report.count('partial_evaluations_left_suspended')
        cases.append(case)
    impl_res = pmap(c07_impl, cases)
    good = [(c, r) for c, r in zip(cases, impl_res) if 'spec_exc' not in r]
    lines = run_driver([sexp(('iter', c['id'], ('dom',) + tuple(v[1] for v in c['vars'][0][2]),
                              ('qual',) + tuple(r['qual']), ('hist',) + tuple(c['hist']))) for c, r in good])
    report.rule = ("single-variable queries (random condition trees, also condition-less, 20% led by a two-argument predicate whose constant argument comes first, last or by keyword) whose domain is a logging ONE-SHOT "
                   "generator over 3-8 distinct objects of mixed classes; histories of 1-5 (thorough 8) evaluations, each creating "
                   "the iterator, taking 0/1/2/3 results (or all) and closing; compared with the model: pulls at creation (0), the "
                   "pull-log length at the delivery of EVERY result, after close, and the results themselves; non-trivial = the "
                   "history has a partial evaluation followed by another evaluation and the condition is not constant")
    for (case, res), line in zip(good, lines):
        report.evaluations += 1
        if 'exc' in res:
            report.violations.append((f'implementation raised {res["exc"]}', {'what': res['exc'], 'case': case,
                                                                              'case_sexp': surface.case_sexp(case)}))
            continue
        if line.startswith('ERR'):
            raise HarnessError('driver: ' + line)
        model = line.split('\t')[1].split('|')
        h = case['hist']
        nq = len(res['qual'])
        dom_n = len(case['vars'][0][2])
        if any(0 < k for k in h[:-1]) and 0 < nq < dom_n:
            report.nontrivial.add(surface.case_sexp({**case, 'id': 'x'}) + str(h))
        report.add_sample({'query': surface.case_sexp(case)[:600], 'history': h})
        report.count('hist_len_%d' % len(h))
        for si, (st, m) in enumerate(zip(res['steps'], model)):
            report.traces += 1
            m_res, m_per, m_after = m.split('/')
            exp_res = [int(x) for x in m_res.split(',') if x]
            exp_per = [int(x) for x in m_per.split(',') if x]
            created_before = res['steps'][si - 1]['after'] if si else 0
            what = None
            if st['created_pulls'] != created_before:
                what = (f'evaluation {si + 1}: creating the result iterator pulled {st["created_pulls"] - created_before} '
                        f'elements of the one-shot domain before any result was requested')
            elif st['res'] != exp_res:
                what = f'evaluation {si + 1} (take {h[si]}): results {st["res"]}, expected {exp_res}'
            elif st['per'] != exp_per:
                what = (f'evaluation {si + 1} (take {h[si]}): pull-log length at each delivered result {st["per"]}, '
                        f'expected {exp_per} (the prefix ending at the k-th qualifying element)')
            elif st['after'] != int(m_after):
                what = f'evaluation {si + 1}: {st["after"]} elements pulled after close, expected {m_after}'
            if what:
                report.violations.append((what, {'what': what, 'case': case, 'case_sexp': surface.case_sexp(case),
                                                 'history': h, 'observed': res['steps'], 'expected': model}))
                break
    return ['EqlModel.Props.C07'], [
        "CPython suspends a generator at yield and stops it at close() (the CPS reading of generators is trusted; the logging "
        "iterator measures it)",
        "single-variable queries; the condition is represented in the model by its truth on each object (c01 / cond_at)"]


HANDLERS = {'C20': c20, 'C08': c08, 'C14': c14, 'C07': c07}
