"""
Handlers for the state-machine properties: C20 (cache index), C08 (mode), C14 (registry), ...
"""
import itertools
import random

from .common import pmap, run_driver, HarnessError
from .surface import sexp


def n_cases(tier, quick, thorough):
    return quick if tier == 'quick' else thorough


# ------------------------------------------------------------------------------------------- C20

def c20_gen(rng, cid, tier):
    nk = rng.choice((1, 2, 2, 3, 3, 4 if tier != 'quick' else 3))
    keys = sorted(rng.sample(range(1, 9), nk))
    alphabet = (0, 1, 2)
    style = rng.choice(('full', 'mixed', 'mixed', 'uniform_partial'))
    n_ops = rng.randint(1, 8 if tier == 'quick' else 12)
    bound_sets = None
    if style == 'uniform_partial':
        # all inserts bind the same subset of keys: partial bindings, still prefix-uniform
        k = rng.randint(1, nk)
        bound_sets = sorted(rng.sample(keys, k))
    ops = []
    for j in range(n_ops):
        if rng.random() < 0.08:
            ops.append(('clr',))
            continue
        if style == 'full':
            ks = keys
        elif style == 'uniform_partial':
            ks = bound_sets
        else:
            ks = [k for k in keys if rng.random() < 0.7]
        a = tuple((k, rng.choice(alphabet)) for k in ks)
        if rng.random() < 0.2 and ops:
            prev = [o for o in ops if o[0] == 'ins']
            if prev:
                a = rng.choice(prev)[1]          # overwrite an existing binding
        ops.append(('ins', a, j))
    lookups = []
    for vals in itertools.product((None,) + alphabet, repeat=nk):
        lookups.append(tuple((k, v) for k, v in zip(keys, vals) if v is not None))
    return {'id': cid, 'keys': keys, 'ops': ops, 'lookups': lookups, 'style': style}


def c20_sexp(case):
    return sexp(('cache', case['id'], ('keys',) + tuple(case['keys']), ('ops',) + tuple(case['ops']),
                 ('lookups',) + tuple(case['lookups'])))


def show_asg(d):
    return ','.join(f'{k}={v}' for k, v in sorted(d.items()))


def show_retr(rs):
    return '+'.join(sorted(f'{show_asg(a)}>{o}' for a, o in rs))


def c20_impl(case):
    """Drive the real IndexedCache; after every op evaluate every lookup."""
    from . import impl  # noqa: F401  (puts /repo/src first on sys.path and asserts it)
    from entity_query_language.cache_data import IndexedCache
    cache = IndexedCache(list(case['keys']))
    out = []
    store = {}          # reference: binding (frozenset of items) -> output, since last clear
    for op in case['ops']:
        if op[0] == 'clr':
            cache.clear()
            store.clear()
        else:
            a = dict(op[1])
            cache.insert(dict(a), op[2])
            if a:
                store[frozenset(a.items())] = op[2]
        per = []
        for lk in case['lookups']:
            a = dict(lk)
            if a:
                chk = '1' if cache.check(dict(a)) else '0'
                ref_chk = '1' if any(all(a.get(k) == v for k, v in b) for b in store) else '0'
            else:
                chk = ref_chk = '-'
            try:
                got = show_retr([(dict(r), o) for r, o in cache.retrieve(dict(a))])
            except Exception as e:
                got = f'EXC:{type(e).__name__}'
            ref = show_retr([({**a, **dict(b)}, o) for b, o in store.items()
                             if all(a.get(k, v) == v for k, v in b)])
            per.append((chk, got, ref_chk, ref))
        out.append(per)
    return out


def c20(report, rng, tier, findings):
    n = n_cases(tier, 400, 6000)
    cases = [c20_gen(rng, f'h{i}', tier) for i in range(n)]
    impl_res = pmap(c20_impl, cases)
    lines = run_driver([c20_sexp(c) for c in cases])
    fnd = {f['id']: f for f in findings.get('findings', []) if f.get('status', 'open') == 'open'}
    report.rule = ("random histories of 1-8 (thorough: 12) inserts/clears on an IndexedCache with 1-4 keys and a 3-value alphabet: "
                   "full bindings, mixed partial bindings, one fixed partial shape, overwrites; after EVERY operation EVERY full and "
                   "partial lookup is enumerated and check/retrieve of the real cache are compared with the model and with a "
                   "list-of-(binding, output) reference; non-trivial = the history stores at least two entries and at least one "
                   "partial binding or overwrite")
    for case, res, line in zip(cases, impl_res, lines):
        report.evaluations += 1
        report.count('style_' + case['style'])
        report.count('n_keys_%d' % len(case['keys']))
        if line.startswith('ERR'):
            raise HarnessError('driver: ' + line + ' :: ' + c20_sexp(case))
        cid, body = line.split('\t')
        steps = body.split('|')
        ins = [o for o in case['ops'] if o[0] == 'ins']
        if len(ins) >= 2 and (any(len(o[1]) < len(case['keys']) for o in ins) or len({o[1] for o in ins}) < len(ins)):
            report.nontrivial.add(c20_sexp({**case, 'id': 'x'}))
        report.add_sample(c20_sexp(case)[:1200])
        done = False
        for si, (step, per) in enumerate(zip(steps, res)):
            uni, rest = step.split('/', 1)
            mods = rest.split(';')
            if uni == 'N':
                report.count('steps_nonuniform')
            else:
                report.count('steps_uniform')
            for lk, m, (chk, got, ref_chk, ref) in zip(case['lookups'], mods, per):
                report.traces += 1
                m_chk, m_got, m_ref = m.split(':')
                if m_ref != ref:
                    raise HarnessError(f'Python reference and Lean reference disagree: {m_ref} vs {ref} :: {c20_sexp(case)}')
                what = None
                if chk != ref_chk:
                    what = f'coverage check for {dict(lk)} after op {si}: got {chk}, stored bindings say {ref_chk}'
                elif got != ref:
                    if uni == 'N' and got == m_got and 'C20-F1' in fnd:
                        report.known['C20-F1'] = report.known.get('C20-F1', 0) + 1
                        report.known_text['C20-F1'] = fnd['C20-F1']['what']
                    else:
                        what = f'retrieve({dict(lk)}) after op {si}: got [{got}], stored entries say [{ref}]'
                if what is None and (got != m_got or chk != m_chk):
                    report.corr_disagreements.append({'case': c20_sexp(case), 'op': si, 'lookup': lk,
                                                      'impl': [chk, got], 'model': [m_chk, m_got]})
                if what:
                    report.violations.append((what, {'what': what, 'case': case, 'case_sexp': c20_sexp(case),
                                                     'op_index': si, 'lookup': lk, 'model': [m_chk, m_got],
                                                     'trie_prefix_uniform': uni == 'U'}))
                    done = True
                    break
            if done:
                break
    return ['EqlModel.Props.C20'], [
        "key lists are non-empty; bindings mention cache keys only",
        "retrieval is claimed exact on prefix-uniform tries (c20_retrieve_uniform_partial); elsewhere known finding C20-F1",
        "empty-binding insert (flat store) and empty-binding check (poisons the seen set) are modelled, not claimed"]


HANDLERS = {'C20': c20}
