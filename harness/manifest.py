"""Regenerates MANIFEST.json from the table below (run: /venv/bin/python -m harness.manifest)."""
import json
import os

from .common import VERIF

BASE_NOTE = ("Trusted base: Lean 4.33.0 kernel; axioms propext, Classical.choice, Quot.sound only (audited per run with "
             "#print axioms; sorry/native_decide/axiom/unsafe grep); the statements in lean/EqlModel/Props and Spec/Build(sdenote); "
             "the hand-written model is tied to /repo by (a) harness/translate.py regenerating Gen/Tables.lean from the source on "
             "every run and (b) a sampled correspondence check (implementation in-process vs Lean driver vs Lean spec vs Python "
             "oracle) - sampling, not proof. ")

CLAIMS = {
    'C01': dict(
        text="Theorems c01_filter / c01_filter_surface (list equality: order and multiplicity) for every single-variable condition "
             "tree whose leaves mention the variable, c01_each_once, c01_domain_*; proved by structural induction (cond_closed, "
             "cond_dist) for an arbitrary World. Correspondence: result SEQUENCES of the real library vs model vs spec, caching "
             "on/off, two evaluations.",
        note=BASE_NOTE + "Model layer L1 (no de-dup sets/caches); the cache-on clause is C05's c05_single_variable_tree (the L2 machine with caches and duplicate tracking returns the L1 rows on every evaluation, for and/or trees without sub-queries) and the correspondence. Leaves built "
             "from literals only are outside the theorem.",
        tech="Lean 4 proof (structural induction on the condition tree) + translator-regenerated tables + differential correspondence"),
    'C02': dict(
        text="Theorems c02_rows_sound, c02_rows_complete (set of rows = projections of satisfying assignments) and c02_rows_nodup "
             "(no row twice when all variables are selected; pairwise-incompatible outputs by induction) for arbitrary World, any "
             "number of variables, self-joins, conditions over variable subsets; c02_empty_domain_no_rows (an empty domain of a "
             "selected variable empties the answer, whatever the condition). Counter-witness c02_empty_domain_witness for the "
             "excluded point (known finding C02-F1). At the STATEFUL layer (L2 machine: the evaluator with its duplicate-tracking "
             "sets, result cache disabled): c02_l2_all_selected / c02_l2_nodup - when every variable of the condition is selected, "
             "each of any number of consecutive evaluations of the query object returns exactly the L1 rows, in order (the "
             "duplicate check never fires: induction over the tree, invariant 'every stored duplicate key clashes with the binding "
             "being evaluated', Lemmas/MachineNoDup.lean).",
        note=BASE_NOTE + "Hypotheses: flatten-free; every non-selected variable has a non-empty domain (else C02-F1); caching on is "
             "covered by correspondence and subject to known finding C05-F1. An expression object other than a variable stands at "
             "ONE place of a query: one comparison object reused at two places of one condition tree is known finding C02-F2 "
             "(attributed only when the same query built from separate objects gives the specified rows).",
        tech="Lean 4 proof (soundness/completeness/disjointness by induction) + differential correspondence"),
    'C03': dict(
        text="Over the regenerated inverse/dunder/Not tables: invOp_negates, invOp_involutive, neg_denote (any depth), "
             "neg_involutive (structural), build_denote, c03_not_rows_iff (exact complement), c03_not_not_rows. Correspondence: "
             "rows of c / not c / not not c and the constructed TREE of the real library vs the model's build/neg.",
        note=BASE_NOTE + "World.Lawful (complementary operator pairs, mirrored spellings) is assumed of the host values and "
             "validated on the generated universe each run.",
        tech="Lean 4 proof over translator-regenerated tables + tree-shape and row correspondence"),
    'C06': dict(
        text="c06_outcome, c06_consistent_with_an, c06_none_iff, c06_ok, c06_ok_iff (both directions), c06_multi_iff, c06_trichotomy: the three outcomes are exactly 0 / 1 / >=2 "
             "satisfying assignments and the value is the row an(...) yields. Correspondence on balanced 0/1/>=2 cases (30% of the "
             "one-variable descriptions in predicate form, the quantifier applied to the term: the(T(From(d), f=v))), two "
             "evaluations, caching on/off.",
        note=BASE_NOTE + "Re-evaluation consistency is C04's invariant; here it is checked by evaluating twice.",
        tech="Lean 4 proof (corollaries of C02) + differential correspondence"),
    'C15': dict(
        text="c15_sub_denote, c15_sub_forwards, inline_sdenote, c15_inline_rows: a sub-query in condition position at any depth "
             "under &,| returns the rows of the flattened query. c15_operand_pairs_survive (+ regenerated tie "
             "c15_operand_requirement_tied): the outputs of a correlated sub-query operand, de-duplicated on (other operand's value, "
             "solution), keep every pair that satisfies the comparison (R36). Correspondence: composed vs flattened vs oracle, tree shape.",
        note=BASE_NOTE + "Sub-queries as comparison operands / constructor arguments: correspondence only (rows against the oracle of "
             "the explicit twin: uncorrelated an / the operands, correlated the(...), correlated an(...) whose own variable is what "
             "the enclosing query selects (R36), a sub-query constraining a flattened element it does not select). A comparison with a "
             "CORRELATED sub-query operand on the left of a disjunction loses the outer values under which the sub-query has no "
             "solution: known finding C15-F1, attributed only when exactly those values are missing.",
        tech="Lean 4 proof + differential correspondence"),
    'C18': dict(
        text="Rewrite relation Rw (swap, re-association, mirroring, contains/in_, congruence, all compositions): rw_sdenote, "
             "c18_rows_invariant, c18_chain_and/or (chained_logic), c18_selection, c18_domain_perm; c18_flatten_in_disjunction_witness "
             "(conditions with a flatten are excluded for a reason: the excluded point is real, by decide). Correspondence: metamorphic, "
             "random rewrite sequences on the real library incl. declaration order, caching on and off.",
        note=BASE_NOTE + "Declaration order is invisible to the L1 model; with caching on it is exactly what flips known finding "
             "C05-F1, attributed only when a cache was not prefix-uniform.",
        tech="Lean 4 proof (invariance of the denotation + C02) + metamorphic correspondence"),
    'C19': dict(
        text="All C01/C02/C03 theorems hold for an arbitrary World with no truthiness hypothesis; c19_term_truthy_irrelevant, "
             "c19_rows_truthy_irrelevant (rows do not depend on truthy when values are used as values), c19_condition_position. "
             "Correspondence on datasets full of 0, '', None, False, [], () - attributes, tuple and dict entries, chains through "
             "values, user predicates used as values, sized classes whose instances are falsy; one expression object shared by two "
             "queries (condition position in one, value position in the other).",
        note=BASE_NOTE + "One expression object used BOTH as a bare condition and as an operand of the SAME query is known finding "
             "C19-F1 (the per-evaluation state of an expression lives on the object); attributed only when the same query built from "
             "two separate objects gives the specified rows.",
        tech="Lean 4 proof (frame lemma over the evaluator) + differential correspondence on falsy datasets"),
    'C20': dict(
        text="Transliterated SeenSet/IndexedCache trie (Cache.lean). For ALL histories of inserts (full/partial bindings, "
             "overwrites) and clears: c20_entries_spec (the trie holds exactly the last output per binding, no binding twice), "
             "c20_check (coverage check <-> some stored binding contained in the lookup), c20_clear, and "
             "c20_retrieve_uniform_partial (on prefix-uniform tries retrieval = all agreeing entries, each once, merged, nothing "
             "else; retr_uniform by induction on the key list). The unrestricted statement is false of the code: "
             "c20_wildcard_witness (by decide) = known finding C20-F1. Correspondence: real IndexedCache driven directly, every "
             "lookup after every operation.",
        note=BASE_NOTE + "Empty-binding insert/check are modelled but outside the statement. Inside the finding's scope a case is "
             "attributed to C20-F1 only if the model returns exactly what the implementation returns.",
        tech="Lean 4 proof (invariants by induction over operation histories, induction on the key list) + exhaustive-lookup differential correspondence"),
    'C08': dict(
        text="State machine Mode.lean (context variable, expression stack, open blocks, iterator life-cycle) transliterating "
             "symbolic_mode/rule_mode/__enter__/__exit__/An.evaluate. For ALL histories: c08_confined (mode = innermost enclosing "
             "block, stack = pushed queries), c08_outside_blocks, c08_inside_block, c08_iter_ops_invisible (create/advance/close/"
             "finalise anywhere changes nothing observable), c08_leave_restores (any balanced body, incl. exceptions). "
             "Regenerated ties: c08_operators_guarded (every dunder operator of CanBehaveLikeAVariable begins with the mode guard), "
             "c08_advance_guard_tied. Correspondence: random histories run with REAL with-statements, real iterators (also of queries "
             "that run user predicates, or whose evaluation raises) and gc; after every step: in_symbolic_mode(), the rule flag, what "
             "constructing a @symbol class and calling a @predicate function with a concrete argument give, whether EVERY operator of "
             "a variable is rejected, the stack length.",
        note=BASE_NOTE + "Single thread; the time at which CPython finalises a dropped iterator is covered by quantifying over the "
             "position of the close step.",
        tech="Lean 4 proof (invariant by induction over operation histories) + step-by-step differential correspondence"),
    'C09': dict(
        text="World.atMode models what user code sees under a mode (a predicate call builds an expression in symbolic mode); "
             "c09_an_ambient_irrelevant / c09_the_ambient_irrelevant: both entry points compute with the mode off, so the result "
             "under any ambient mode equals the L1 semantics; c09_symbolic_predicates_would_differ shows why. World.atEnv adds the "
             "stack of open expression contexts to what user code sees; c09_an_env_irrelevant / c09_the_env_irrelevant: the guard "
             "of both entry points hides mode AND contexts (repair R33), so the result under any ambient mode with any number of "
             "contexts open equals the L1 semantics. Correspondence: each query under ambient none / query / rule / block opened "
             "WITH the query as context (symbolic_mode(q), rule_mode(q)) / iterator started outside and continued inside a block, "
             "x an/the x caching, against the oracle; predicate bodies that run nested evaluations, open their own blocks and "
             "build queries of their own.",
        note=BASE_NOTE + "The theorem is about the transliterated entry points (duringAdvance/duringThe); that the mode is read "
             "only by hybrid_new / predicate.wrapper is an assumption checked by the correspondence, not proved.",
        tech="Lean 4 proof (frame lemma over the evaluator entry points) + differential correspondence across ambient modes"),
    'C14': dict(
        text="Registry.lean transliterates hybrid_new / instantiate_class_and_update_cache / get_cache_keys_for_class_ / "
             "yield_class_values_from_cache. For every hierarchy (arbitrary `sub`) and every history of concrete / symbolic "
             "constructions, inference and clears: c14_registry (query = logged constructions of T and subclasses since the last "
             "clear), c14_each_once, c14_symbolic_inert, c14_inits. Correspondence: identity sets vs the harness's own log over "
             "random hierarchies (single and multiple inheritance, decorated and undecorated subclasses, sized classes whose instances "
             "are falsy), construction styles, inference, clearing, abandoned / failing queries.",
        note=BASE_NOTE + "Reading: declare-and-evaluate atomically (observe_at); in addition a query DECLARED on the empty registry "
             "or at any later point of the history, and evaluated later, must see every instance constructed by the time it is evaluated "
             "(the library takes such a domain at evaluation time; before repair R37 it froze the list of classes at declaration). "
             "Construction styles are identified in the model "
             "(they reach the same patched __new__); that is checked by correspondence.",
        tech="Lean 4 proof (invariant by induction over operation histories) + identity-level differential correspondence"),
    'C16': dict(
        text="LIST equalities (order and multiplicity) c16_unnest_pair, c16_unnest_elem, c16_unnest_parent_cond, "
             "c16_unnest_elem_cond, c16_unnest_both_cond (and_ of a parent condition and an element condition), "
             "c16_unnest_elem_vs_parent (the element compared with an expression over its OWN parent), c16_same_element_twice / "
             "c16_pred_same_element (two arguments that are the same flatten node are the same element under every incoming "
             "binding: P(e, e) never pairs an element with a sibling), c16_nonempty_singleton: flatten(t) yields one row per inner element, correlated with its parent, "
             "with/without conditions on parent or element, parent selected or not; proved for an arbitrary World. For ANY condition and "
             "selection with flatten nodes (set level; Lemmas/Flat.lean re-proves soundness and completeness of the evaluator with "
             "flatten in the language, an assignment giving every flatten node an element of its operand's collection): "
             "c16_unnest_complete_general (no admissible (parent, element, ...) combination that satisfies the condition is lost), "
             "c16_unnest_sound_general (every row is the selection under every admissible assignment extending ONE output binding, which "
             "satisfies the condition), c16_flatten_binds_an_element, and THE EQUIVALENCE c16_unnest_rows_iff for every condition whose "
             "disjunctions bind the same ids on both sides: a row is produced iff some admissible assignment satisfies the condition "
             "and the row is the selection under it (Lemmas/FlatAdm.lean: evaluation only produces admissible bindings). Correspondence: "
             "parents with empty/overlapping/scalar/repeated/falsy inner values, every selection and condition shape incl. and_/or_, "
             "a parent that is an unselected query result (flatten(an(entity(p, c)).items)), the element constrained inside a "
             "sub-query that does not select it, a predicate (function / class form) whose two arguments are both the element.",
        note=BASE_NOTE + "Multiplicities for disjunctions and other combinations of conditions are covered by correspondence (the "
             "general theorems are set-level; the equivalence needs uniform disjunctions). With caching enabled a condition on "
             "the flattened element is subject to known finding C05-F2 (cache keyed on variables only).",
        tech="Lean 4 proof (list equalities by unfolding the evaluator + cond_dist) + differential correspondence"),
    'C17': dict(
        text="c17_concat_value / c17_concat_rows: concatenate(t) evaluates to exactly one output, the list of all inner elements in "
             "domain order then inner order with multiplicity; c17_member / c17_not_member: in_/not_(in_) of another variable against "
             "it select exactly the (non-)members, in domain order; c17_concat_value_frame: the single value is the same under every outer "
             "binding that leaves the operand's variable unbound (term_dist_frame), c17_concat_value_bound: a bound node is not "
             "aggregated again, c17_concat_after_var / c17_concat_before_var: selected next to another variable, in either order, one "
             "row per object each carrying the same combined list. Correspondence: the single value as a sequence, membership, "
             "non-membership, contains spelling, combined with conditions on the outer variable, selected next to it; inner collections "
             "that are lists / tuples / scalars / empty, elements that are containers themselves, a parent domain without any parent, "
             "a parent restricted by a sub-query or by an earlier conjunct (set level).",
        note=BASE_NOTE + "The implementation also rebinds the operand's variable to "
             "a list inside the output; using that variable afterwards is outside the property.",
        tech="Lean 4 proof (unfolding the evaluator on the concatenate node) + differential correspondence"),
    'C10': dict(
        text="ForAll.lean transliterates ForAll._evaluate__ (after fix 877c1d1). c10_forall_uniform_partial: for a non-empty "
             "universal domain and a condition whose disjunctions mention the same variables on both sides, the rows are exactly the "
             "projections of the assignments f with c(f, u) true for EVERY u (true_output_total, sols_mem, denote_congr by "
             "induction). The unrestricted statement is false of the code: c10_nonuniform_witness (by decide) = known finding "
             "C10-F1. c10_and_chain_partial: 'combined with other conditions by and_' - for a chain of conjuncts (ordinary "
             "conditions and for_alls, any order, several for_alls over one universal variable, NESTED for_alls for_all(u0, for_all(u1, ... c)) "
             "of any depth) the rows are exactly the assignments satisfying every conjunct, each for_all's condition for EVERY "
             "(combination of) universal value(s) (induction over the chain, soundness/completeness invariant stages_inv; nesting: "
             "nested_sound / nested_complete by induction over the list of universal variables with the exact lookup table of "
             "every level's outputs as invariant). Correspondence: c mentioning universal+free / only free / only "
             "universal variables, outer conjunct before or after, two for_alls, nested for_alls, caching.",
        note=BASE_NOTE + "A conjunct mentioning a universal variable free, and caching, are covered by correspondence only "
             "(cache: findings C05-F1, C05-F3).",
        tech="Lean 4 proof (induction on the condition; intersection invariant over the universal values) + differential correspondence"),
    'C13': dict(
        text="Transliteration of update_domain_and_kwargs_from_args / properties_to_expression_tree / symbolic_new: "
             "c13_positional (i-th positional after the domain binds the i-th field), c13_build_equal (T(From(d), ...) constructs "
             "exactly the tree of the explicit query: structural equality, hence same rows in the same order: c13_same_rows), "
             "c13_type_filter (domain = members that are instances of T, each once). Correspondence: mixed-type domains over a "
             "generated hierarchy - given as a list, tuple, generator, iterator or as a SINGLE OBJECT (R38, R39) -, keyword/positional "
             "fields, constants (falsy), earlier variables, nested predicate-form terms; "
             "rows vs oracle and constructed tree vs model.",
        note=BASE_NOTE + "Nested predicate-form values (sub-queries as operands) are compared with the flattened explicit query "
             "by correspondence only. Parameter order comes from inspect.signature (trusted).",
        tech="Lean 4 proof (structural equality of constructed trees) + tree-shape and row correspondence"),
    'C11': dict(
        text="c11_rows (the instances are the tagged rows of the query selecting the head's argument expressions), c11_sound "
             "(every instance carries the values under ONE admissible satisfying assignment: no mixing, none for a "
             "non-satisfying assignment), c11_complete, c11_one_per_binding (each true output of the body yields exactly one "
             "instance built from it), c11_count (no instance twice). Correspondence: heads with variables, object- and "
             "value-valued attribute expressions, falsy constants; bodies with and/or/not/predicates; ambient none/query/rule; "
             "caching on/off; twice; multiset of (class, field identities); the head's nested constructor argument also written "
             "as a body condition (one object), for half of those as the only one, after an abandoned evaluation (the stream that found "
             "the defect R40, repaired in /repo 45ff10d; its witness is re-run from corpus/ on every run).",
        note=BASE_NOTE + "Object reuse (no copying) is a frame property of the model; on the implementation fields are compared by "
             "dataset identity. type.__call__/dataclass construction is trusted.",
        tech="Lean 4 proof (reduction to C02 + closed-argument lemma) + differential correspondence"),
    'C12': dict(
        text="Rules.lean transliterates refinement()/alternative_or_next (refineAt, altAt: climb while left operand) and "
             "ExceptIf/Alternative evaluation. rt_closed (a constructed tree yields its truth and the conclusion the selectors "
             "prescribe), rt_dist, c12_rule_tree_rows (single-variable rules: one instance per firing object in domain order with "
             "exactly that conclusion), c12_expected_fire (the prescribed tree's conclusion IS the recursive ripple-down reference "
             "fireRule, any nesting of refinements and alternatives). c12_build_expected: the transliterated imperative "
             "construction (refineAt / altAt with climb-while-left-operand, buildKids) yields exactly the prescribed tree for EVERY "
             "surface program (induction over the program with a path/zipper invariant), hence c12_build_fire: the constructed "
             "tree selects the ripple-down conclusion. C12Rows.lean, ANY number of variables: rtree_sound_complete (every output "
             "of evalR speaks for exactly the admissible assignments extending it, true outputs bind every variable, every "
             "admissible assignment is covered), c12_rule_tree_rows_multi (the instances are exactly the (conclusion, argument "
             "values) of the assignments on which the tree selects a conclusion) and c12_program_rows: for every surface program "
             "whose base rule and chain alternatives mention every variable (refinements: any subset, any nesting) the instances "
             "yielded from the tree THE CONSTRUCTION builds are exactly those fireRule prescribes. RulesExt.lean: rule trees in which a refinement introduces a further "
             "variable (conclusions over different variable sets): ruleRowsA, the ripple-down reading over partial bindings "
             "fireExtRule, and fireExtRule_closed (on programs whose conditions mention bound variables only it IS fireRule). "
             "Tree-shape correspondence with the real tree on every run; the multiset of instances YIELDED and of instances "
             "CONSTRUCTED by each evaluation vs the reference, 30% of the trees after an abandoned evaluation.",
        note=BASE_NOTE + "Branch-closed conditions (uniform disjunctions), one Add per branch; list-level rows theorem for single-variable "
             "rules, set-level for any number of variables. A refinement that introduces a variable is decided by correspondence against the executable "
             "reference fireExtRule (one such block per tree, written as the first refinement on its path, refinements only below "
             "it: elsewhere C12 leaves open whether a block that does not mention the new variable fires once per base match or once "
             "per value). With caching enabled re-evaluation of trees with alternatives is known finding C05-F4. OUTSIDE the branch-closed "
             "programs - an alternative on the root's chain whose condition mentions fewer variables than its conclusion - the "
             "implementation loses conclusions: known finding C12-F1, exercised by its own stream (cache off) in which every "
             "deviation is that finding; the main stream stays branch-closed and fully claimed.",
        tech="Lean 4 proof (semantics of the selectors by induction; RDR reference by induction on the surface program) + "
             "kernel-checked small-scope test of the construction + tree-shape and conclusion correspondence"),
    'C04': dict(
        text="(1) Domains: Iter.lean models HashedIterable (memo + lazily consumed remainder); c04_domain_independent: after any "
             "history of full / abandoned / aborted evaluations the domains yield what fresh domains yield, and every L1 answer is "
             "a function of that; c04_dup_domain (an object listed twice is yielded once, first and later evaluations). (2) Node "
             "state: Lifecycle transliterates finally:_reset_after_evaluation_(completed); c04_lifecycle_clean for all histories; "
             "c04_lifecycle_clean_suspended (histories in which an iterator is abandoned WITHOUT being closed: the running mark and "
             "the start-of-evaluation reset of repair R31) and c04_lifecycle_clean_query_domain (two query objects, one supplying "
             "a variable's domain of the other, repair R32: after every history of evaluations of either - completed, closed, "
             "raised, suspended - and of late finalisations, the next evaluation of either starts with every node it reaches clean); "
             "c04_conj_any_state_partial: the L2 machine (evaluator with its caches and duplicate-tracking sets), caching disabled, "
             "returns the L1 rows of a conjunctive query from ANY node state. (3) user data is not part of any model state. Correspondence: pools of queries over shared variables, histories of "
             "full / take-k-then-close / take-k-and-keep-the-iterator-suspended / raise-at-j-th-predicate-call, duplicated domain objects, "
             "a variable ranging over a query of the pool, one expression object shared by two queries, user data snapshots.",
        note=BASE_NOTE + "That a clean node state yields the fresh answer is the L1 semantics (caching off), tied to the code by the "
             "history correspondence; caching on is subject to C05-F1. An abandoned iterator may stay suspended while later evaluations "
             "run; RESUMING it after another evaluation of its query started (interleaved advancing) is outside the property's "
             "operation list.",
        tech="Lean 4 proof (invariants over operation histories) + history-level differential correspondence"),
    'C05': dict(
        text="PARTIAL. Proved: (a) the cache index (C20: entries, check, exact retrieval on prefix-uniform tries, counter-witness) and "
             "c05_single_key_uniform / c05_single_key_exact (every operator cache of a single-variable query stays prefix-uniform, "
             "so its retrieval is exact after every history); (b) THE EVALUATOR with the result cache enabled, for EVERY "
             "single-variable tree of conjunctions and disjunctions over comparisons, truth tests and predicates (negations at the "
             "leaves, as not_ builds them; non-empty domain): c05_single_variable_tree - each of any number of consecutive evaluations "
             "of the query object by the L2 machine (Machine.lean: caching branches of Comparator / AND / ElseIf, coverage poisoning, "
             "update_cache, yield_final_output_from_cache, the duplicate tracking sets) returns exactly the L1 rows, in order - and "
             "c05_single_variable_tree_on_off (the same rows as with the cache disabled); c05_switch_off_after_cached_conj (conjunctive "
             "queries over any number of variables: after n cached evaluations an evaluation with the switch OFF returns the L1 "
             "rows - the switch is read at evaluation time and nothing the cached evaluations stored is consulted). Invariant per node: a cache specification "
             "(every stored pair is object identity -> the node's is_false for it, false entries only where false outputs are asked "
             "for) together with 'every stored duplicate key clashes with the object at hand' (MachineTree.lean: bound_ok_y; "
             "MachineTreeTop.lean: top_ok_y; the earlier conjunctive theorem c05_single_variable_conj is kept). NOT proved: "
             "several variables, flatten, for_all, sub-queries, rule trees - for "
             "which the full statement is false of the code: known findings C05-F1..F6). Decided there by the differential check: "
             "caching on vs off vs oracle vs the L2 machine, first and later evaluations (a third of the join cases after an "
             "abandoned evaluation; a third built with the switch on and evaluated after disable_caching()), over joins (1-4 variables, shuffled declaration order), disjunctions over equal/different "
             "variable sets, negation, sub-queries, for_all, flatten, rule trees, with the number of cache hits taken reported.",
        note=BASE_NOTE + "A difference is attributed to C05-F1/F2 only when the L2 machine, which transliterates the cache code, "
             "reproduces the implementation's rows (for C05-F1 also: a cache observed non-prefix-uniform at a lookup, in a "
             "query of several variables with a literal inside a non-first operand of an and_/or_ - where the machine's cache "
             "keys are known not to be the implementation's); to F3/F4/F5/F6 (no model reproduces them) only inside their scope and when caching "
             "off gives the specified rows: a mutation that changes behaviour inside those four scopes in a way that is still "
             "wrong may be masked (one seeded change, C12-right-cache-keys-drop-literals-..., is: it only brings C05-F4 forward by "
             "one evaluation).",
        tech="Lean 4 proof (cache index; evaluator with caches and duplicate tracking for every single-variable and/or tree, "
             "induction over the tree with a specification per operator cache) + differential (cache on/off/oracle/L2 machine) "
             "correspondence"),
    'C07': dict(
        text="Iter.lean: generator-style evaluation over a memoised one-shot domain. c07_no_work_before_first, c07_prefix (at the "
             "k-th result exactly the prefix ending at the k-th qualifying element has been pulled; list equality), c07_pull_once "
             "(all histories: log ++ remainder = original sequence), c07_contents_invariant, c07_full_after_history. "
             "Correspondence: logging one-shot generators, histories of create / take k / close / full (every third case: the "
             "partial evaluations' iterators are left suspended instead of closed), log length at EVERY delivered result.",
        note=BASE_NOTE + "That CPython suspends at yield and stops at close() is trusted (measured by the logging iterator). The "
             "condition is represented by its truth per object (justified by c01/cond_at).",
        tech="Lean 4 proof (induction on the domain list and on histories) + per-result differential correspondence"),
}

ALL = ['C%02d' % i for i in range(1, 21)]


def main():
    checks = []
    for pid in ALL:
        if pid not in CLAIMS:
            continue
        c = CLAIMS[pid]
        checks.append({
            'property_id': pid,
            'quick_cmd': f'./check {pid} --tier quick',
            'thorough_cmd': f'./check {pid} --tier thorough',
            'evidence_file': f'evidence/{pid}.json',
            'replay_cmd_template': f'./check {pid} --replay {{path}}',
            'engine': 'lean-model+correspondence',
            'level_claimed': {'category': c.get('category', 'proof'), 'text': c['text'], 'design_ref': f'DESIGN.md section 7 ({pid})'},
            'level_note': c['note'],
            'technique': c['tech'],
        })
    na = [{'property_id': pid, 'reason': 'check not built yet (work in progress; will be claimed)'}
          for pid in ALL if pid not in CLAIMS]
    m = {
        'version': 1,
        'setup_cmd': 'cd lean && lake build EqlModel driver',
        'hooks': {
            'guard': 'EQL_VERIF',
            'enable': 'no source hooks: every observation is made by run-time wrapping from the harness',
            'baseline_off_cmd': 'cd /repo && /venv/bin/python -m pytest -ra -q -p no:cacheprovider --timeout=900 --continue-on-collection-errors',
            'source_commits': [],
            'add_only': True,
        },
        'engines': [{'name': 'lean-model+correspondence', 'path': 'lean/ + harness/',
                     'serves_properties': sorted(CLAIMS),
                     'kind_free_text': 'Lean 4 model and theorems; translator + differential correspondence harness'}],
        'checks': checks,
        'notes': 'See DESIGN.md. Genuine defects repaired in /repo are listed in known_findings.json ("fixed").',
        'not_applicable': na,
    }
    with open(os.path.join(VERIF, 'MANIFEST.json'), 'w') as fh:
        json.dump(m, fh, indent=1)


if __name__ == '__main__':
    main()
