"""
Runs surface cases on the real implementation (public API only), in-process, from /repo/src.
"""
import operator
import os
import sys
from dataclasses import dataclass, field, make_dataclass

REPO_SRC = os.path.join(os.environ.get('EQL_REPO', '/repo'), 'src')
if REPO_SRC not in sys.path:
    sys.path.insert(0, REPO_SRC)

import entity_query_language as eql  # noqa: E402

assert os.path.realpath(eql.__file__).startswith(os.path.realpath(REPO_SRC)), eql.__file__

from entity_query_language import (an, the, entity, set_of, let, and_, or_, not_, in_, contains, flatten,  # noqa
                                   concatenate, for_all, symbol, Predicate, symbolic_mode, rule_mode, infer)
from entity_query_language.predicate import predicate  # noqa: E402
from entity_query_language.symbolic import Variable  # noqa: E402
from entity_query_language.cache_data import enable_caching, disable_caching  # noqa: E402
from entity_query_language.failures import MultipleSolutionFound, NoSolutionFound  # noqa: E402

OPS = {'eq': operator.eq, 'ne': operator.ne, 'lt': operator.lt, 'le': operator.le,
       'gt': operator.gt, 'ge': operator.ge}

FIELDS = ('a', 'b', 's', 'flag', 'items', 't', 'ref')


@dataclass(eq=False, repr=False)
class _KwBase:
    w: object = field(default=None, kw_only=True)


class _Methods:
    """The fixed method repertoire of every generated class (mirrored in PyPrim.lean: callM)."""

    def gt(self, k):
        return self.a > k

    def plus(self, k):
        return self.a + k

    def is_even(self):
        return self.a % 2 == 0

    def get_b(self):
        return self.b

    def __repr__(self):
        return f"{type(self).__name__}#{getattr(self, '_idx', '?')}"


class _Sized:
    """case['sized_objs']: the generated classes are SIZED (like a container class): an object whose field a is 0 is a
    FALSY object.  The library must treat domain objects, attribute values that are objects and results as values, never
    as truth values."""

    def __len__(self):
        a = getattr(self, 'a', None)
        return a if type(a) is int and a >= 0 else 1


# ---- user predicates (mirrored in PyPrim.lean: fnP) -------------------------------------------

def _is_big(o):
    return o.a >= 2


def _lt(p, q):
    return p < q


def _same_b(o1, o2):
    return o1.b == o2.b


def _val_a(o):
    return o.a


def _val_b(o):
    return o.b


RAW_FNS = {'is_big': _is_big, 'lt': _lt, 'same_b': _same_b, 'val_a': _val_a, 'val_b': _val_b}
FN_ARGS = {'is_big': ('o',), 'lt': ('p', 'q'), 'same_b': ('o1', 'o2'), 'val_a': ('o',), 'val_b': ('o',)}


class CallCounter:
    """Counts calls of user predicates and can raise at the j-th call (fault injection)."""

    def __init__(self):
        self.calls = 0
        self.raise_at = None
        self.probe = None          # run inside every predicate body (nested evaluation + concrete constructions)

    def tick(self):
        if self.probe is not None:
            self.probe()
        self.calls += 1
        if self.raise_at is not None and self.calls == self.raise_at:
            raise UserRaise(self.calls)


class UserRaise(Exception):
    pass


class ModeLeak(Exception):
    """Inside a predicate body (evaluation in progress) something behaved symbolically."""


class Built:
    """A case built on the real implementation."""

    def __init__(self, case, counter=None):
        self.case = case
        self.counter = counter or CallCounter()
        self.classes = {}
        self.objs = []
        self.obj_index = {}
        self.vars = {}
        self.flats = {}
        self.fn_preds = {}
        self.cls_preds = {}
        self._make_classes()
        self._make_objects()
        self._make_predicates()
        if case.get('nested_eval'):
            self._make_probe()

    # -- dataset -------------------------------------------------------------------------------
    def _make_classes(self):
        # case['value_eq']: the generated dataclasses compare by VALUE (dataclass default eq=True): two distinct objects
        # with equal fields are == but remain two objects (two solutions) for the library
        veq = bool(self.case.get('value_eq'))
        sized = (_Sized,) if self.case.get('sized_objs') else ()
        for name, base in self.case['classes']:
            if base == '-':
                # like the library's own test datasets: a base with a KEYWORD-ONLY field, declared before the
                # regular fields of the class (dataclasses.fields order != __init__ parameter order)
                cls = make_dataclass(name, [(f, object, field(default=None)) for f in FIELDS],
                                     bases=(_KwBase, _Methods) + sized, eq=veq, repr=False)
            else:
                cls = dataclass(eq=veq, repr=False)(type(name, (self.classes[base],), {}))
            # a subclass may be left UNDECORATED: it inherits the patched constructor of its @symbol ancestor
            self.classes[name] = cls if (base != '-' and name in (self.case.get('undecorated') or ())) else symbol(cls)

    def _make_objects(self):
        pending = []
        for idx, cls, attrs in self.case['objs']:
            o = self.classes[cls]()
            o._idx = idx
            self.objs.append(o)
            self.obj_index[id(o)] = idx
            pending.append((o, attrs))
        for o, attrs in pending:
            for k, v in attrs.items():
                setattr(o, k, self.decode(v))

    def _make_predicates(self):
        counter = self.counter
        for name, raw in RAW_FNS.items():
            def make(raw=raw, name=name):
                params = ', '.join(FN_ARGS[name])
                ns = {'counter': counter, 'raw': raw}
                exec(f"def {name}({params}):\n    counter.tick()\n    return raw({params})\n", ns)
                return predicate(ns[name])
            self.fn_preds[name] = make()

            def make_cls(raw=raw, name=name):
                fields = [(p, object) for p in FN_ARGS[name]]

                def call(self_):
                    counter.tick()
                    return raw(*[getattr(self_, p) for p in FN_ARGS[name]])
                # like the library's own HasType: a plain dataclass inheriting from Predicate
                return make_dataclass('P_' + name, fields, bases=(Predicate,), eq=False,
                                      namespace={'__call__': call})
            self.cls_preds[name] = make_cls()

    def _make_probe(self):
        """A user predicate whose body runs its OWN evaluate() and then uses a Predicate subclass concretely: whatever
        the ambient mode of the outer evaluate(), the body is ordinary Python."""
        root = self.case['classes'][0][0]
        cls0 = self.classes[root]
        members = [o for o in self.objs if isinstance(o, cls0)]
        with symbolic_mode():
            pz = let(cls0, list(members), name='probe')
            probe_q = an(entity(pz, pz.a == pz.a))
        big = self.cls_preds['is_big']
        raw_big = RAW_FNS['is_big']
        with symbolic_mode():
            pz2 = let(cls0, list(members), name='probe2')
            probe_q2 = an(entity(pz2, big(pz2)))           # a Predicate subclass as its condition: mode-sensitive
        want2 = [m for m in members if raw_big(m)]
        blocks = [symbolic_mode, rule_mode]
        busy = []
        built3 = []

        def probe():
            if busy or not members:
                return
            busy.append(1)
            try:
                rows = list(probe_q.evaluate())
                if len(rows) != len(members) or any(r is not m for r, m in zip(rows, members)):
                    raise ModeLeak('a nested evaluate() in a predicate body returned %r' % [type(r).__name__ for r in rows])
                p = big(members[0])
                if type(p) is not big:
                    raise ModeLeak('constructing a Predicate subclass in a predicate body gave a ' + type(p).__name__)
                if bool(p()) != bool(raw_big(members[0])):
                    raise ModeLeak('calling a Predicate subclass instance in a predicate body gave a wrong value')
                # ... and an evaluate() called INSIDE a block that the predicate body itself opens (query mode and rule
                # mode in turn) gives what it gives anywhere else
                blocks.reverse()
                with blocks[0]():
                    rows2 = list(probe_q2.evaluate())
                if len(rows2) != len(want2) or any(r is not m for r, m in zip(rows2, want2)):
                    raise ModeLeak('a nested evaluate() inside a block opened by a predicate body returned %r, expected %d rows'
                                   % ([type(r).__name__ for r in rows2], len(want2)))
                # ... and a query BUILT by the predicate body itself (inside a block it opens, with a Predicate subclass
                # as its condition) is a query of its own: the expression contexts that are open around the outer
                # evaluate() - `with symbolic_mode(q):`, `with rule_mode(q):` - are not its context
                # (built ONCE per evaluated configuration - by the first predicate call of the first evaluation, i.e. while
                #  the outer evaluate() runs under the configuration's ambient block - and evaluated on every call: building a
                #  query per predicate call makes the thorough tier hold millions of expression nodes)
                if not built3:
                    with symbolic_mode():
                        pz3 = let(cls0, list(members), name='probe3')
                        cond3 = big(pz3) if blocks[0] is symbolic_mode else big(o=pz3)     # positionally / by keyword in turn
                        built3.append(an(entity(pz3, cond3)))
                rows3 = list(built3[0].evaluate())
                if len(rows3) != len(want2) or any(r is not m for r, m in zip(rows3, want2)):
                    raise ModeLeak('a query built and evaluated by a predicate body returned %r, expected %d rows'
                                   % ([type(r).__name__ for r in rows3], len(want2)))
            finally:
                busy.pop()
        self.counter.probe = probe

    def decode(self, v):
        k = v[0]
        if k == 'i':
            return v[1]
        if k == 's':
            return v[1] if len(v) > 1 else ''
        if k == 'b':
            return bool(v[1])
        if k == 'n':
            return None
        if k == 'o':
            return self.objs[v[1]]
        if k == 'l':
            return [self.decode(x) for x in v[1:]]
        if k == 't':
            return tuple(self.decode(x) for x in v[1:])
        if k == 'dm':
            # a dict {0: v0, 1: v1, ...} (only ever indexed; the model sees the tuple of its values)
            return {i: self.decode(x) for i, x in enumerate(v[1:])}
        raise ValueError(v)

    def encode(self, x):
        if isinstance(x, bool):
            return ('b', 1 if x else 0)
        if isinstance(x, int):
            return ('i', x)
        if isinstance(x, str):
            return ('s', x) if x else ('s',)
        if x is None:
            return ('n',)
        if isinstance(x, list):
            return ('l',) + tuple(self.encode(y) for y in x)
        if isinstance(x, tuple):
            return ('t',) + tuple(self.encode(y) for y in x)
        if id(x) in self.obj_index:
            return ('o', self.obj_index[id(x)])
        return ('s', 'UNKNOWN_' + type(x).__name__)

    # -- expressions (must be called inside symbolic_mode) -------------------------------------
    def declare_vars(self, order=None):
        ids = [v[0] for v in self.case['vars']]
        by_id = {v[0]: v for v in self.case['vars']}
        from entity_query_language import From
        pform = self.case.get('pform') or {}
        for vid in (order or ids):
            _, cls, raw = by_id[vid]
            domq = (self.case.get('domq') or {}).get(vid)
            if domq is not None:
                # let(T, domain=an(entity(z, conds))): the variable ranges over the solutions of a sub-query
                z = 60 + vid
                zcls = (self.case.get('domq_cls') or {}).get(vid, cls)      # the sub-query may range over a BROADER type
                self.vars[z] = let(self.classes[zcls], [self.decode(v) for v in raw], name=f"v{z}")
                # no condition at all: the domain is the other VARIABLE itself
                sub = an(entity(self.vars[z], *[self.cond(c) for c in domq])) if domq else self.vars[z]
                if self.case.get('domq_form') == 'from':
                    self.vars[vid] = self.classes[cls](From(sub))
                else:
                    self.vars[vid] = let(self.classes[cls], domain=sub, name=f"v{vid}")
                continue
            if vid in pform:
                # predicate form: T(From(d), *positional, **keywords); values are constants, variables
                # declared earlier, or nested predicate-form terms
                spec = pform[vid]
                pos = [self.pform_value(v) for v in spec.get('pos', [])]
                kw = {k: self.pform_value(v) for k, v in spec.get('kw', [])}
                if vid in (self.case.get('nodom') or ()):
                    # no From(...): the variable ranges over every instance of the class known to the process,
                    # and its keyword constraints are attached lazily, at evaluation time
                    self.vars[vid] = self.classes[cls](*pos, **kw)
                    continue
                if self.case.get('share_from'):
                    # ONE From(...) object handed to every variable that ranges over the same collection
                    shared = self.__dict__.setdefault('_shared_from', {})
                    key = tuple(raw)
                    if key not in shared:
                        shared[key] = From([self.decode(v) for v in raw])
                    self.vars[vid] = self.classes[cls](shared[key], *pos, **kw)
                    continue
                self.vars[vid] = self.classes[cls](From(self.mk_domain([self.decode(v) for v in raw])), *pos, **kw)
            else:
                self.vars[vid] = let(self.classes[cls], self.mk_domain([self.decode(v) for v in raw]), name=f"v{vid}")

    def mk_domain(self, objs_):
        """The collection handed to the library as a domain: a list, or - case['dom_kind'] - a tuple, a generator
        expression or a plain iterator (one-shot, not sized) over the same objects."""
        kind = self.case.get('dom_kind') or 'list'
        if kind == 'tuple':
            return tuple(objs_)
        if kind == 'gen':
            return (o for o in list(objs_))
        if kind == 'iter':
            return iter(list(objs_))
        if kind == 'single' and len(objs_) == 1:
            return objs_[0]                 # the object itself, not a collection
        return list(objs_)

    def pform_value(self, v):
        from entity_query_language import From
        if v[0] == 'lit':
            return self.decode(v[1])
        if v[0] == 'var':
            return self.vars[v[1]]
        if v[0] == 'nested':
            _, cls, raw, kw = v
            return self.classes[cls](From([self.decode(x) for x in raw]), **{k: self.decode(val) for k, val in kw})
        raise ValueError(v)

    def term(self, t):
        """Build the expression of a term; with `self.share_terms` the SAME expression object is returned for
        structurally equal attribute/index/call terms (a user writing `val = x.v` and reusing `val`)."""
        if getattr(self, 'share_terms', None) is not None and t[0] in ('attr', 'idx', 'call'):
            key = repr(t)
            if key not in self.share_terms:
                self.share_terms[key] = self._term(t)
            return self.share_terms[key]
        return self._term(t)

    def _term(self, t):
        k = t[0]
        if k == 'var':
            return self.vars[t[1]]
        if k == 'lit':
            if t[1][0] == 'l':
                # a MUTABLE constant (a list): one Python object per written constant, remembered so that the harness can
                # check that a rule head passes on this very object (existing objects are reused, not copied)
                if not hasattr(self, 'list_constants'):
                    self.list_constants = {}
                return self.list_constants.setdefault(repr(t[1]), self.decode(t[1]))
            return self.decode(t[1])
        if k == 'attr':
            return getattr(self.term(t[2]), t[1])
        if k == 'idx':
            return self.term(t[2])[self.decode(t[1])]
        if k == 'call':
            return getattr(self.term(t[3]), t[1])(*[self.decode(a) for a in t[2]])
        if k == 'flat':
            if t[1] not in self.flats:
                self.flats[t[1]] = flatten(self.term(t[2]))
            return self.flats[t[1]]
        if k == 'concat':
            if t[1] not in self.flats:
                self.flats[t[1]] = concatenate(self.term(t[2]))
            return self.flats[t[1]]
        if k in ('fnv', 'fnvc'):
            # a user predicate (decorated function / Predicate subclass) used as a VALUE: val_b(x) == 0
            return (self.fn_preds if k == 'fnv' else self.cls_preds)[t[1]](self.term(t[2]))
        if k == 'nestedc':
            # a nested constructor argument of a rule head: C(field=e) - written in rule mode
            if self.case.get('nested_body') is not None:
                # the SAME predicate-form variable stands in the head and in the body (round 18): one object
                memo = self.__dict__.setdefault('nested_memo', {})
                if repr(t) not in memo:
                    memo[repr(t)] = self.classes[t[1]](**{t[2]: self.term(t[3])})
                return memo[repr(t)]
            return self.classes[t[1]](**{t[2]: self.term(t[3])})
        if k == 'subq':
            # a sub-query used as an OPERAND: ('subq', 'an'|'the', vid, cond...)
            quant = the if t[1] == 'the' else an
            selected = self.vars[t[2]] if isinstance(t[2], int) else self.term(t[2])     # a variable or an expression
            return quant(entity(selected, *[self.cond(c) for c in t[3:]]))
        raise ValueError(t)

    def cond(self, c):
        k = c[0]
        if k == 'cmp' and getattr(self, 'share_conds', None) is not None:
            # case['share_conds']: structurally equal comparisons are ONE condition object (c = a.x == b.x, reused)
            key = repr(c)
            if key not in self.share_conds:
                self.share_conds[key] = OPS[c[1]](self.term(c[2]), self.term(c[3]))
            return self.share_conds[key]
        if k == 'cmp':
            return OPS[c[1]](self.term(c[2]), self.term(c[3]))
        if k == 'in':
            return in_(self.term(c[1]), self.term(c[2]))
        if k == 'contains':
            return contains(self.term(c[1]), self.term(c[2]))
        if k == 'truth':
            return self.term(c[1])
        if k in ('pred', 'predc'):
            fn = (self.fn_preds if k == 'pred' else self.cls_preds)[c[1]]
            args = [self.term(t) for t in c[2:]]
            if self.case.get('pred_kw') and len(args) >= 2:
                # the same call with its LAST argument passed by keyword (lt(x.a, q=1))
                return fn(*args[:-1], **{FN_ARGS[c[1]][-1]: args[-1]})
            return fn(*args)
        if k == 'and':
            return and_(*[self.cond(x) for x in c[1:]])
        if k == 'or':
            return or_(*[self.cond(x) for x in c[1:]])
        if k == 'band':
            return self.cond(c[1]) & self.cond(c[2])
        if k == 'bor':
            return self.cond(c[1]) | self.cond(c[2])
        if k == 'not':
            return not_(self.cond(c[1]))
        if k == 'sub':
            sel = [self.term(t) for t in c[1]]
            conds = [self.cond(x) for x in c[2:]]
            if c[0] == 'sub' and len(sel) == 1:
                return an(entity(sel[0], *conds))
            return an(set_of(sel, *conds))
        raise ValueError(c)

    def query(self, order=None):
        case = self.case
        with symbolic_mode():
            self.declare_vars(order or case.get('decl_order'))
            self.sel = [self.term(t) for t in case['sel']]
            conds = [self.cond(c) for c in (case.get('cond') or [])]
            if case.get('forall'):
                u, fconds = case['forall']
                body = [self.cond(c) for c in fconds]
                uterm = case.get('forall_expr')
                universal = self.term(uterm) if uterm else self.vars[u]
                conds.append(for_all(universal, body[0] if len(body) == 1 else and_(*body)))
            if case.get('foralls'):
                fas = []
                for us, fconds in case['foralls']:
                    body = [self.cond(c) for c in fconds]
                    node = body[0] if len(body) == 1 else and_(*body)
                    for u in reversed(us):          # for_all(u0, for_all(u1, ... c))
                        node = for_all(self.vars[u], node)
                    fas.append(node)
                conds = (fas + conds) if case.get('fafirst') else (conds + fas)
            if case.get('direct'):
                # the quantifier applied straight to a predicate-form term: the(T(From(d), f=v)) / an(T(From(d), f=v))
                self.q = (the if case['quant'] == 'the' else an)(self.sel[0])
                return self.q
            if case.get('entity', len(self.sel) == 1):
                desc = entity(self.sel[0], *conds)
            else:
                desc = set_of(self.sel, *conds)
            self.q = the(desc) if case['quant'] == 'the' else an(desc)
        return self.q

    # -- the constructed tree, in the notation of the driver's showCond ---------------------------
    def show_term(self, e):
        from entity_query_language.symbolic import (Variable as Var, Literal, Attribute, Index, Call, Flatten)
        if isinstance(e, Literal):
            data = list(e._domain_source_.domain)
            return f"(lit {self.render(data[0])})"
        if isinstance(e, Var):
            for vid, v in self.vars.items():
                if v is e or getattr(v, '_var_', None) is e:
                    return f"(var {vid})"
            return f"(var ?{e._name__})"
        from entity_query_language.symbolic import ResultQuantifier as _RQ
        if isinstance(e, _RQ):
            return self.show_term(e._var_)
        if isinstance(e, Call):
            recv = e._child_
            args = ' '.join(self.render(a) for a in e._args_)
            return f"(call {recv._attr_name_} ({args}) {self.show_term(recv._child_)})"
        if isinstance(e, Attribute):
            return f"(attr {e._attr_name_} {self.show_term(e._child_)})"
        if isinstance(e, Index):
            return f"(idx {self.render(e._key_)} {self.show_term(e._child_)})"
        if isinstance(e, Flatten):
            for fid, f in self.flats.items():
                if f is e:
                    return f"(flat {fid} {self.show_term(e._child_)})"
            return f"(flat ? {self.show_term(e._child_)})"
        return f"(?term {type(e).__name__})"

    def render(self, x):
        from .surface import render_val
        return render_val(self.encode(x))

    def show_cond(self, e):
        from entity_query_language.symbolic import (Variable as Var, Literal, Comparator, AND, ElseIf, Union,
                                                    DomainMapping, ResultQuantifier, QueryObjectDescriptor)
        if isinstance(e, Comparator):
            return f"(cmp {e.operation.__name__} {self.show_term(e.left)} {self.show_term(e.right)})"
        from entity_query_language.conclusion_selector import ExceptIf as _EI
        if isinstance(e, _EI):
            return f"(ExceptIf {self.show_cond(e.left)} {self.show_cond(e.right)})"
        if isinstance(e, AND):
            return f"(AND {self.show_cond(e.left)} {self.show_cond(e.right)})"
        if isinstance(e, ElseIf):
            return f"({type(e).__name__} {self.show_cond(e.left)} {self.show_cond(e.right)})"
        if isinstance(e, Union):
            return f"({type(e).__name__} {self.show_cond(e.left)} {self.show_cond(e.right)})"
        if isinstance(e, DomainMapping):
            return f"(truth {1 if e._invert_ else 0} {self.show_term(e)})"
        if isinstance(e, Var) and e._predicate_type_ is not None and not isinstance(e, Literal):
            name = e._name__[2:] if e._name__.startswith('P_') else e._name__
            # arguments in the order of the predicate's PARAMETERS (the library collects keyword arguments before
            # positional ones; arguments are bound by name, their collection order is not part of the tree's meaning)
            order = {p: i for i, p in enumerate(FN_ARGS.get(name, ()))}
            kids = sorted(e._child_vars_.items(), key=lambda kv: order.get(kv[0], len(order)))
            args = ' '.join(self.show_term(v) for _, v in kids)
            return f"(pred {1 if e._invert_ else 0} {name} {args})"
        if isinstance(e, ResultQuantifier):
            d = e._child_
            sel = ' '.join(self.show_term(v) for v in d.selected_variables)
            return f"(sub ({sel}) {self.show_cond(d._child_)})"
        if isinstance(e, QueryObjectDescriptor):
            sel = ' '.join(self.show_term(v) for v in e.selected_variables)
            return f"(sub ({sel}) {self.show_cond(e._child_)})"
        return f"(?cond {type(e).__name__})"

    def show_tree(self):
        d = self.q._child_
        return self.show_cond(d._child_) if d._child_ is not None else '-'

    def row(self, r):
        if self.case.get('entity', len(self.sel) == 1):
            return (self.encode(r),)
        return tuple(self.encode(r[s]) for s in self.sel)

    def run_an(self):
        return [self.row(r) for r in self.q.evaluate()]

    def run_the(self):
        try:
            return ('ok', self.row(self.q.evaluate()))
        except MultipleSolutionFound:
            return ('multi',)
        except NoSolutionFound:
            return ('none',)


def suspended(case):
    """Half of the abandoned evaluations (case['pre_take']) are left SUSPENDED instead of closed; decided by the case id
    (no random choice, so every other choice of the generators stays what it was); case['pre_suspend'] overrides."""
    if case.get('pre_suspend') is not None:
        return bool(case['pre_suspend'])
    import zlib
    return (zlib.crc32(str(case.get('id')).encode()) + int(case.get('pre_take') or 0)) % 2 == 0


def reset_library_state():
    """Drop the process-global state the library keeps between cases."""
    for c in list(Variable._cache_.values()):
        c.clear()
    Variable._cache_.clear()


def run_case(case, caching=True, evaluations=1, tree_out=None, ambient=None):
    """Build the case on the implementation and evaluate it; returns a list of outcomes."""
    reset_library_state()
    # 'built_under_caching' (round 18): the query is BUILT with the switch on and, in the cache-off configuration, the switch
    # is turned off only after it was built - the run-time switch is read when a query is evaluated, not when it is written
    build_on = caching or bool(case.get('built_under_caching'))
    (enable_caching if build_on else disable_caching)()
    held = []
    try:
        b = Built(case)
        if case.get('share_terms'):
            b.share_terms = {}           # structurally equal attribute / index / call terms are ONE expression object
        if case.get('share_conds'):
            b.share_conds = {}           # structurally equal comparisons are ONE condition object
        snapshot = [{k: (list(v) if isinstance(v, list) else v) for k, v in vars(o).items()} for o in b.objs]
        b.query()
        if build_on and not caching:
            disable_caching()
        outs = []
        if tree_out is not None:
            try:
                tree_out.append(b.show_tree())
            except Exception as e:
                tree_out.append(f'(?tree {type(e).__name__}: {e})')
        import contextlib
        # 'split:<mode>': the result iterator is STARTED outside any block (first result pulled there) and the remaining
        # results are pulled inside a block of that mode
        split = isinstance(ambient, str) and ambient.startswith('split:')
        inner = ambient.split(':', 1)[1] if split else ambient
        # 'query+q' / 'rule+q': the block is opened WITH the query itself as its context (symbolic_mode(q) / rule_mode(q),
        # the block in which a rule's conclusions are added) and evaluate() is called inside it
        ctx = {None: contextlib.nullcontext, 'query': symbolic_mode, 'rule': rule_mode,
               'query+q': lambda: symbolic_mode(b.q), 'rule+q': lambda: rule_mode(b.q)}[inner]
        if split and case['quant'] != 'the':
            for _ in range(evaluations):
                it = iter(b.q.evaluate())
                rows_ = []
                try:
                    rows_.append(b.row(next(it)))
                    with ctx():
                        for r in it:
                            rows_.append(b.row(r))
                except StopIteration:
                    pass
                outs.append(('rows', rows_))
            return outs
        if case.get('pre_take') is not None and case['quant'] != 'the':
            # an ABANDONED evaluation first: take k results, close the iterator (must not change what follows)
            with ctx():
                it = iter(b.q.evaluate())
                try:
                    for _ in range(case['pre_take']):
                        next(it)
                except StopIteration:
                    outs.append(('pre_completed',))     # it ran to the end after all: stripped by the caller
                if suspended(case):
                    # the abandoned iterator is NOT closed: it stays suspended (a live reference) while the evaluations
                    # that follow run - `first = next(it)` with `it` still in scope
                    held.append(it)
                else:
                    it.close()
        for _ in range(evaluations):
            with ctx():
                if case['quant'] == 'the':
                    outs.append(b.run_the())
                else:
                    outs.append(('rows', b.run_an()))
        # evaluation never modifies the user's objects (their attribute values, the contents of their lists)
        after = [{k: (list(v) if isinstance(v, list) else v) for k, v in vars(o).items()} for o in b.objs]
        if any(set(x) != set(y) or any(x[k] is not y[k] and x[k] != y[k] for k in x) for x, y in zip(snapshot, after)):
            outs.append(('data_modified',))
        while held:
            held.pop().close()       # closing an abandoned iterator must not raise (an exception here is reported)
        return outs
    except Exception as e:  # reported, never swallowed silently
        return [('exc', type(e).__name__, str(e)[:200])]
    finally:
        for it in held:
            try:
                it.close()
            except Exception:
                pass
        enable_caching()
        reset_library_state()
