"""
Shared machinery of the checks: build + audit of the Lean project, the driver, worker pool,
evidence, verdicts, known findings.
"""
import hashlib
import json
import multiprocessing as mp
import os
import re
import subprocess
import sys
import time

VERIF = os.path.dirname(os.path.dirname(os.path.abspath(__file__)))
LEAN_DIR = os.path.join(VERIF, 'lean')
DRIVER = os.path.join(LEAN_DIR, '.lake', 'build', 'bin', 'driver')
REPO = os.environ.get('EQL_REPO', '/repo')
REPO_SRC = os.path.join(REPO, 'src')
ACCEPTED_AXIOMS = {'propext', 'Classical.choice', 'Quot.sound'}
FORBIDDEN = re.compile(r'\b(sorry|admit|native_decide|bv_decide|implemented_by|maxHeartbeats\s+0)\b|^\s*axiom\s|\bunsafe\s',
                       re.M)

TRUSTED_BASE = [
    "Lean 4.33.0 kernel (thorough tier: also leanchecker on the compiled Props modules)",
    "axioms accepted in property theorems: propext, Classical.choice, Quot.sound (audited with #print axioms on every run)",
    "statements in lean/EqlModel/Props/*.lean and the specification in Spec.lean / Build.lean (sdenote)",
    "hand-written model (Eval/Build/Cache/Mode/Registry/Rules/Machine .lean) tied to /repo by the sampled correspondence check of this run",
    "harness/translate.py (strict ast patterns) regenerating lean/EqlModel/Gen/Tables.lean from /repo/src on every run",
    "harness generators, canonicalisation and diff; PyPrim.lean's encoding of Python comparison (validated against CPython per run, not used by theorems)",
    "CPython generator/contextvars semantics as modelled (DESIGN.md section 6)",
]


class HarnessError(Exception):
    """Trouble of the machinery itself (exit 2, never a VIOLATION)."""


def sh(cmd, cwd=None, timeout=None, input=None):
    p = subprocess.run(cmd, cwd=cwd, capture_output=True, text=True, timeout=timeout, input=input)
    return p.returncode, p.stdout, p.stderr


# ------------------------------------------------------------------ Lean: build, audit

def strip_comments(src):
    src = re.sub(r'/-.*?-/', '', src, flags=re.S)
    return re.sub(r'--.*', '', src)


def grep_forbidden():
    hits = []
    for root, _, files in os.walk(os.path.join(LEAN_DIR, 'EqlModel')):
        for f in files:
            if f.endswith('.lean'):
                p = os.path.join(root, f)
                for m in FORBIDDEN.finditer(strip_comments(open(p).read())):
                    hits.append((os.path.relpath(p, LEAN_DIR), m.group(0).strip()))
    return hits


def lake_build(targets, timeout=1500):
    rc, out, err = sh(['lake', 'build'] + targets, cwd=LEAN_DIR, timeout=timeout)
    return rc == 0, (out + err)[-6000:]


def theorems_in(module_file):
    """Fully qualified names of the theorems stated in a Lean file (tracks namespace nesting)."""
    src = strip_comments(open(module_file).read())
    stack, names = [], []
    for line in src.splitlines():
        m = re.match(r'^\s*namespace\s+(\S+)', line)
        if m:
            stack.append(m.group(1))
            continue
        m = re.match(r'^\s*end\s+(\S+)\s*$', line)
        if m and stack and stack[-1] == m.group(1):
            stack.pop()
            continue
        m = re.match(r'^\s*(?:private\s+|protected\s+)?theorem\s+([A-Za-z_][\w\.\']*)', line)
        if m and not re.match(r'^\s*private', line):
            names.append('.'.join(stack + [m.group(1)]))
    return names


def audit_axioms(module, names, timeout=900):
    """#print axioms for each theorem; returns {name: [axioms]} (None when the theorem is absent)."""
    if not names:
        return {}
    body = f"import {module}\n" + ''.join(f"#print axioms {n}\n" for n in names)
    tmp = os.path.join(LEAN_DIR, f'.audit_{module.replace(".", "_")}_{os.getpid()}.lean')
    with open(tmp, 'w') as fh:
        fh.write(body)
    try:
        rc, out, err = sh(['lake', 'env', 'lean', tmp], cwd=LEAN_DIR, timeout=timeout)
    finally:
        try:
            os.remove(tmp)
        except OSError:
            pass
    text = out + err
    res = {}
    for n in names:
        m = re.search(r"'" + re.escape(n) + r"' depends on axioms: \[(.*?)\]", text, flags=re.S)
        if m:
            res[n] = [a.strip() for a in m.group(1).replace('\n', ' ').split(',') if a.strip()]
        elif re.search(r"'" + re.escape(n) + r"' does not depend on any axioms", text):
            res[n] = []
        else:
            res[n] = None
    return res


class ProofStatus:
    def __init__(self):
        self.translator = 'ok'
        self.translator_detail = ''
        self.model_built = False
        self.props_built = False
        self.build_log = ''
        self.obligations = 0
        self.discharged = 0
        self.failed = []          # theorem names / reasons not discharged
        self.axioms = {}
        self.forbidden = []
        self.modules = []

    @property
    def ok(self):
        return (self.translator == 'ok' and self.model_built and self.props_built and not self.forbidden
                and self.obligations > 0 and self.discharged == self.obligations)

    def broken_what(self):
        if self.translator != 'ok':
            return f"translator: {self.translator} {self.translator_detail}"
        if not self.model_built:
            return "the Lean model no longer builds against the regenerated tables"
        if not self.props_built:
            return "property theorems no longer check: " + ', '.join(self.failed[:6])
        if self.forbidden:
            return f"forbidden construct in proofs: {self.forbidden[:3]}"
        if self.discharged != self.obligations:
            return "theorems not discharged: " + ', '.join(self.failed[:6])
        return ''


def leancheck(modules, timeout=1800):
    """Thorough tier: re-check the compiled .olean files of the property modules with leanchecker."""
    rc, out, err = sh(['lake', 'env', 'leanchecker'] + list(modules), cwd=LEAN_DIR, timeout=timeout)
    return rc == 0, (out + err)[-1500:]


def prepare_driver():
    """Regenerate the tables from /repo's current source and rebuild the driver BEFORE any case is run, so that the
    correspondence never runs a driver built from an earlier state of the source (a failed build is reported by
    `prove`, which runs afterwards; the previous driver, if any, is then what the correspondence uses)."""
    from . import translate
    try:
        translate.regenerate()
    except translate.Untranslatable:
        return
    lake_build(['driver'])


def prove(prop_modules, tier='quick'):
    """Regenerate tables, build model + driver + the property's theorem modules, audit axioms."""
    from . import translate
    st = ProofStatus()
    st.modules = list(prop_modules)
    try:
        translate.regenerate()
    except translate.Untranslatable as e:
        st.translator = 'untranslatable'
        st.translator_detail = str(e)
    ok, log = lake_build(['EqlModel', 'driver'])
    st.model_built = ok
    st.build_log = log
    if not ok:
        # which module failed?  try the model without Props to keep the driver usable
        ok2, _ = lake_build(['driver'])
        st.model_built = ok2
    oks = []
    for m in prop_modules:
        okm, logm = lake_build([m])
        oks.append(okm)
        if not okm:
            st.build_log += logm
            st.failed.append(m + ' (does not build)')
    st.props_built = all(oks) if oks else False
    st.forbidden = grep_forbidden()
    for m, okm in zip(prop_modules, oks):
        path = os.path.join(LEAN_DIR, *m.split('.')) + '.lean'
        names = theorems_in(path)
        st.obligations += len(names)
        if not okm:
            continue
        ax = audit_axioms(m, names)
        st.axioms.update(ax)
        for n in names:
            a = ax.get(n)
            if a is not None and set(a) <= ACCEPTED_AXIOMS:
                st.discharged += 1
            else:
                st.failed.append(f"{n} (axioms: {a})")
    st.leanchecker = None
    if tier == 'thorough' and st.props_built:
        okc, logc = leancheck(prop_modules)
        st.leanchecker = 'ok' if okc else 'FAILED: ' + logc
        if not okc:
            st.failed.append('leanchecker rejected the compiled modules')
            st.discharged = 0
    return st


# ------------------------------------------------------------------ driver

def run_driver(lines, timeout=600):
    if not os.path.exists(DRIVER):
        raise HarnessError('driver executable missing (lake build failed?)')
    rc, out, err = sh([DRIVER], input='\n'.join(lines) + '\n', timeout=timeout)
    if rc != 0:
        raise HarnessError(f'driver crashed rc={rc}: {err[-500:]}')
    res = out.splitlines()
    if len(res) != len(lines):
        raise HarnessError(f'driver returned {len(res)} lines for {len(lines)} cases')
    return res


# ------------------------------------------------------------------ workers

def _init_worker():
    sys.setrecursionlimit(10000)


def pmap(fn, items, procs=None, chunk=8, maxtasks=5):
    """Map in worker processes that are recycled (the library keeps every node it ever built, and what a process holds
    grows faster than linearly with the number of cases it has run: measured 127 MB after 100 C09 cases under one
    configuration, 670 MB under seven, 3.2 GB after 200 - a worker therefore lives for 5 chunks = 40 cases)."""
    procs = procs or min(16, os.cpu_count() or 4)
    if len(items) <= 2 or os.environ.get('EQL_VERIF_SERIAL'):
        return [fn(x) for x in items]
    ctx = mp.get_context('fork')
    with ctx.Pool(procs, initializer=_init_worker, maxtasksperchild=maxtasks) as pool:
        return pool.map(fn, items, chunksize=chunk)


# ------------------------------------------------------------------ known findings

def load_findings():
    p = os.path.join(VERIF, 'known_findings.json')
    if not os.path.exists(p):
        return {'findings': [], 'fixed': []}
    return json.load(open(p))


# ------------------------------------------------------------------ evidence + verdict

def source_hashes():
    out = {}
    d = os.path.join(REPO_SRC, 'entity_query_language')
    for f in sorted(os.listdir(d)):
        if f.endswith('.py'):
            out[f] = hashlib.sha256(open(os.path.join(d, f), 'rb').read()).hexdigest()[:16]
    return out


class Report:
    """Collects what one check run covered and decides the exit code."""

    def __init__(self, pid, tier, seed):
        self.pid, self.tier, self.seed = pid, tier, seed
        self.t0 = time.time()
        self.evaluations = 0
        self.nontrivial = set()
        self.samples = []
        self.dist = {}
        self.violations = []          # (what, replay_payload)
        self.known = {}               # finding id -> count
        self.known_text = {}
        self.corr_disagreements = []  # model != impl on observables
        self.notes = []
        self.extra = {}
        self.rule = ''
        self.traces = 0
        self.level = 'proof'

    def count(self, key, n=1):
        self.dist[key] = self.dist.get(key, 0) + n

    def add_sample(self, s, limit=4):
        if len(self.samples) < limit:
            self.samples.append(s)

    def write_replay(self, payload, tag='v'):
        d = os.path.join(VERIF, 'replays')
        os.makedirs(d, exist_ok=True)
        n = len(os.listdir(d))
        path = os.path.join(d, f'{self.pid}-{self.seed}-{tag}{n}.json')
        payload = dict(payload)
        payload.setdefault('property', self.pid)
        payload.setdefault('seed', self.seed)
        payload.setdefault('replay_cmd', f'./check {self.pid} --replay {os.path.relpath(path, VERIF)}')
        with open(path, 'w') as fh:
            json.dump(payload, fh, indent=1, default=str)
        return os.path.relpath(path, VERIF)

    def finish(self, proof, assumptions=(), checker_cmd=None):
        """Write evidence, print verdict lines, return exit code."""
        wall = time.time() - self.t0
        lines = []
        exit_code = 0
        for fid, n in sorted(self.known.items()):
            lines.append(f"KNOWN-FINDING: property={self.pid} {fid} {self.known_text.get(fid, '')} (reproduced on {n} case(s))")
        if self.violations:
            exit_code = 1
            for what, payload in self.violations[:5]:
                path = self.write_replay(payload)
                lines.append(f"VIOLATION property={self.pid} replay={path}")
        elif proof is not None and (not proof.ok or self.corr_disagreements):
            # a proof obligation or the correspondence is broken and no failing input was found
            exit_code = 1
            what = proof.broken_what() if not proof.ok else 'Tier-A correspondence (model vs implementation) disagrees'
            payload = {'broken': what, 'theorems_failed': proof.failed[:20],
                       'build_log_tail': proof.build_log[-3000:],
                       'first_correspondence_disagreement': (self.corr_disagreements or [None])[0],
                       'note': 'no input on which the implementation violates the property was found within the search budget'}
            path = self.write_replay(payload, tag='broken')
            lines.append(f"VIOLATION property={self.pid} replay={path} no-failing-input-found")
        level = self.level
        cov = {
            'evaluations': self.evaluations,
            'distinct_nontrivial': len(self.nontrivial),
            'rule': self.rule,
            'samples': self.samples or ['(no case generated)'],
            'traces_validated_against_impl': self.traces,
            'programs': self.evaluations,
            'disagreements_checked': len(self.corr_disagreements) + len(self.violations) + sum(self.known.values()),
            'input_distribution': self.dist,
            'source_hashes': source_hashes(),
            'known_findings_reproduced': self.known,
            'notes': self.notes,
        }
        cov.update(self.extra)
        if proof is not None:
            cov.update({
                'obligations': proof.obligations,
                'discharged': proof.discharged,
                'checker_cmd': checker_cmd or ('cd lean && lake build ' + ' '.join(['EqlModel', 'driver'] + proof.modules)
                                               + ' && lake env lean <#print axioms of every theorem in ' + ', '.join(proof.modules) + '>'),
                'trusted_base': TRUSTED_BASE,
                'theorem_axioms': proof.axioms,
                'translator': proof.translator,
                'proof_modules': proof.modules,
                'not_discharged': proof.failed,
                'leanchecker': getattr(proof, 'leanchecker', None),
            })
            if not proof.ok:
                level = 'translation_validation'
        ev = {
            'property_id': self.pid, 'tier': self.tier, 'seed': self.seed, 'level': level,
            'coverage': cov, 'assumptions': list(assumptions), 'wall_s': round(wall, 2),
            'violations': len(self.violations) if self.violations else (1 if exit_code == 1 else 0),
        }
        os.makedirs(os.path.join(VERIF, 'evidence'), exist_ok=True)
        with open(os.path.join(VERIF, 'evidence', f'{self.pid}.json'), 'w') as fh:
            json.dump(ev, fh, indent=1, default=str)
        for l in lines:
            print(l)
        print(f"[{self.pid}] tier={self.tier} seed={self.seed} evaluations={self.evaluations} "
              f"nontrivial={len(self.nontrivial)} obligations={getattr(proof, 'obligations', 0)} "
              f"discharged={getattr(proof, 'discharged', 0)} known={sum(self.known.values())} "
              f"violations={len(self.violations)} wall={wall:.1f}s exit={exit_code}")
        return exit_code
