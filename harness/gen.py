"""
Random surface cases.  Every choice derives from one `random.Random`, so (seed, index) replays.
"""
import random
from .surface import CMP_OPS

FALSY = [('i', 0), ('s',), ('n',), ('b', 0), ('l',), ('t',)]


class Cfg:
    def __init__(self, **kw):
        self.n_vars = (1, 1)          # min, max number of variables
        self.n_objs = (0, 6)
        self.depth = 3
        self.falsy = 0.0              # probability that an int attribute holds a falsy non-int value
        self.preds = True
        self.membership = True
        self.calls = True
        self.index = True
        self.negation = True
        self.share_domain = 0.3
        self.subclasses = 0.3
        self.select_terms = 0.0       # probability that a selected expression is an attribute term
        self.select_all = 0.5
        self.dup_domain = 0.0
        self.subqueries = 0.0
        self.flatten = 0.0
        self.quant = 'an'
        self.int_range = (0, 4)
        self.empty_domain = 0.06
        self.single_top = 0.8            # probability that entity()/set_of() gets ONE condition (else 2-3, chained by and_)
        self.closed = 0.0                # probability that a leaf is a comparison / membership test over CONSTANTS only
        self.__dict__.update(kw)


def gen_dataset(rng, cfg):
    """Classes, objects."""
    classes = [('A', '-')]
    if rng.random() < cfg.subclasses:
        classes.append(('B', 'A'))
        if rng.random() < 0.5:
            classes.append(('C', 'B'))
    n = rng.randint(*cfg.n_objs)
    objs = []
    lo, hi = cfg.int_range
    for i in range(n):
        cls = rng.choice(classes)[0]
        def ival():
            return ('i', rng.randint(lo, hi))
        attrs = {
            'a': ival(),
            'b': ival(),
            's': ('s',) if (cfg.falsy and rng.random() < 0.25) else ('s', rng.choice(['ab', 'abc', 'b', 'ca'])),
            'flag': ('b', rng.randint(0, 1)),
            'items': ('l',) + tuple(('i', rng.randint(lo, hi)) for _ in range(rng.randint(0, 3))),
            't': ('t', ('i', rng.randint(lo, hi)), ('i', rng.randint(lo, hi))),
            'ref': ('o', rng.randrange(n)),
        }
        if cfg.falsy and rng.random() < cfg.falsy:
            # 'b' is the attribute used as a *value* of arbitrary type (compared with ==/!=, selected, passed on)
            attrs['b'] = rng.choice(FALSY)
        if cfg.falsy:
            # 'd' is a DICT {0: v0, 1: v1} whose entries are often falsy (None included); only ever indexed: x.d[k]
            attrs['d'] = ('dm',) + tuple(rng.choice(FALSY + [('n',), ('i', 1), ('i', 2)]) for _ in range(2))
        objs.append((i, cls, attrs))
    return classes, objs


def gen_vars(rng, cfg, classes, objs):
    nv = rng.randint(*cfg.n_vars)
    all_objs = [('o', i) for i, _, _ in objs]
    vars_ = []
    shared = None
    for vid in range(nv):
        cls = rng.choice(classes)[0] if rng.random() < 0.4 else 'A'
        if shared is not None and rng.random() < cfg.share_domain:
            raw = list(shared)
        else:
            n_all = len(all_objs)
            if rng.random() < cfg.empty_domain:
                k = 0
            else:
                k = rng.randint(min(n_all, max(1, n_all - 2)), n_all)
            raw = rng.sample(all_objs, k)
            if rng.random() < 0.5:
                raw.sort()
        if cfg.dup_domain and raw and rng.random() < cfg.dup_domain:
            raw.insert(rng.randrange(len(raw) + 1), rng.choice(raw))
        if shared is None:
            shared = raw
        vars_.append((vid, cls, raw))
    return vars_


class CondGen:
    def __init__(self, rng, cfg, var_ids):
        self.rng, self.cfg, self.var_ids = rng, cfg, var_ids
        self.next_flat = 100

    def var(self):
        return ('var', self.rng.choice(self.var_ids))

    def obj_term(self):
        """A term whose value is an object."""
        t = self.var()
        while self.rng.random() < 0.15:
            t = ('attr', 'ref', t)
        return t

    def int_term(self):
        """A term whose value is an int (never raises)."""
        r = self.rng.random()
        o = self.obj_term()
        if r < 0.55:
            return ('attr', 'a', o)
        if r < 0.65 and self.cfg.index:
            return ('idx', ('i', self.rng.randint(0, 1)), ('attr', 't', o))
        if r < 0.8 and self.cfg.calls:
            return ('call', 'plus', (('i', self.rng.randint(0, 2)),), o)
        return ('attr', 'a', o)

    def lit_int(self):
        lo, hi = self.cfg.int_range
        return ('lit', ('i', self.rng.randint(lo, hi)))

    def any_value_term(self):
        """The attribute that may hold any value (falsy ones included): only ==, != and membership."""
        return ('attr', 'b', self.obj_term())

    def closed_leaf(self):
        """A leaf that mentions no variable: in_(k, [..]), contains([..], k)."""
        rng = self.rng
        k = ('lit', ('i', rng.randint(0, 3)))
        lst = ('lit', ('l',) + tuple(('i', rng.randint(0, 3)) for _ in range(rng.randint(0, 3))))
        # (k op k' between two Python constants is evaluated by Python itself and is not an expression: not generated)
        return ('in', k, lst) if rng.random() < 0.55 else ('contains', lst, k)

    def atom(self):
        rng, cfg = self.rng, self.cfg
        if cfg.closed and rng.random() < cfg.closed:
            return self.closed_leaf()
        r = rng.random()
        if r < 0.45:
            op = rng.choice(CMP_OPS)
            l = self.int_term()
            rr = rng.random()
            if rr < 0.5:
                rt = self.lit_int()
            else:
                rt = self.int_term()
            if rng.random() < 0.25 and rt[0] == 'lit':
                l, rt = rt, l                      # literal on the left: reflected comparison
            return ('cmp', op, l, rt)
        if r < 0.55:
            op = rng.choice(('eq', 'ne'))
            l = self.any_value_term()
            rt = rng.choice([self.any_value_term(), ('lit', rng.choice(FALSY + [('i', 1), ('i', 2)]))])
            if rng.random() < 0.3 and rt[0] == 'lit':
                l, rt = rt, l
            return ('cmp', op, l, rt)
        if r < 0.62:
            return ('cmp', rng.choice(('eq', 'ne')), self.obj_term(), self.obj_term())
        if r < 0.72 and cfg.membership:
            item = rng.choice([self.int_term(), self.lit_int()])
            cont = rng.choice([('attr', 'items', self.obj_term()), ('attr', 't', self.obj_term())])
            if item[0] == 'lit' and rng.random() < 0.5:
                cont = ('attr', 'items', self.obj_term())
            return ('in', item, cont) if rng.random() < 0.5 else ('contains', cont, item)
        if r < 0.76 and cfg.membership:
            sub = ('lit', rng.choice([('s', 'a'), ('s', 'b'), ('s', 'c'), ('s', 'ab'), ('s',)]))      # '' included
            cont = ('attr', 's', self.obj_term())
            return ('in', sub, cont) if rng.random() < 0.5 else ('contains', cont, sub)
        if r < 0.84:
            return ('truth', rng.choice([('attr', 'flag', self.obj_term()),
                                         ('call', 'gt', (('i', rng.randint(0, 3)),), self.obj_term()),
                                         ('call', 'is_even', (), self.obj_term())]))
        if r < 0.94 and cfg.preds:
            kind = rng.choice(('pred', 'predc'))
            name = rng.choice(('is_big', 'lt', 'same_b'))
            if name == 'is_big':
                return (kind, name, self.obj_term())
            if name == 'lt':
                if rng.random() < 0.25:
                    return (kind, name, self.lit_int(), self.int_term())       # the constant argument comes first
                return (kind, name, self.int_term(), rng.choice([self.int_term(), self.lit_int()]))
            return (kind, name, self.obj_term(), self.obj_term())
        return ('cmp', rng.choice(CMP_OPS), self.int_term(), self.lit_int())

    def cond(self, depth, under_not=False):
        rng, cfg = self.rng, self.cfg
        if depth <= 0 or rng.random() < 0.3:
            return self.atom()
        r = rng.random()
        if r < 0.35:
            n = 2 if rng.random() < 0.75 else 3
            return ('and',) + tuple(self.cond(depth - 1, under_not) for _ in range(n))
        if r < 0.7:
            n = 2 if rng.random() < 0.75 else 3
            return ('or',) + tuple(self.cond(depth - 1, under_not) for _ in range(n))
        if r < 0.9 and cfg.negation:
            return ('not', self.cond(depth - 1, True))
        if cfg.subqueries and not under_not and rng.random() < cfg.subqueries:
            # (negating a quantified sub-query raises NotImplementedError in the library: never generated)
            return ('sub', (self.var(),), self.cond(depth - 1))
        return self.atom()


def gen_case(rng, cfg, cid):
    classes, objs = gen_dataset(rng, cfg)
    vars_ = gen_vars(rng, cfg, classes, objs)
    ids = [v[0] for v in vars_]
    g = CondGen(rng, cfg, ids)
    n_top = 1 if rng.random() < cfg.single_top else rng.choice((2, 2, 3))
    cond = [g.cond(rng.randint(0, cfg.depth)) for _ in range(n_top)]
    if len(ids) == 1:
        sel = [('var', ids[0])]
        ent = True
    else:
        if rng.random() < cfg.select_all:
            chosen = list(ids)
        else:
            chosen = rng.sample(ids, rng.randint(1, len(ids)))
        rng.shuffle(chosen)
        sel = [('var', v) for v in chosen]
        ent = len(sel) == 1 and rng.random() < 0.5
    if cfg.select_terms and rng.random() < cfg.select_terms:
        # a selected attribute expression: of a selected variable (next to it, or INSTEAD of it) or of a variable that
        # is not selected at all
        v = ('var', rng.choice(ids))
        term = ('attr', rng.choice(['a', 'b']), v)
        if v in sel and rng.random() < 0.5:
            sel = [term if t == v else t for t in sel]
        else:
            sel = sel + [term]
            rng.shuffle(sel)
        ent = len(sel) == 1 and rng.random() < 0.5
    case = {'id': cid, 'classes': classes, 'objs': objs, 'vars': vars_, 'quant': cfg.quant,
            'sel': sel, 'cond': cond, 'entity': ent}
    if cfg.preds and rng.random() < 0.3:
        case['pred_kw'] = True          # two-argument predicates are called with their last argument by keyword
    return case


def apply_or_template(rng, cfg, case):
    """Template: a disjunction that binds a NON-selected variable as an EARLIER (or later) conjunct, another conjunct
    constraining that variable: several outputs of the disjunction agree on the selected variables, only some pass."""
    ids = [v[0] for v in case['vars']]
    if len(ids) < 2:
        return case
    x, z = rng.sample(ids, 2)
    g = CondGen(rng, cfg, ids)

    def join(f1, f2):
        return ('cmp', rng.choice(('eq', 'ne', 'le', 'gt')), ('attr', f1, ('var', x)), ('attr', f2, ('var', z)))
    g.var_ids = [x]
    ax = g.atom()
    g.var_ids = [z]
    az = g.atom()
    variant = rng.choice((0, 1, 2, 3, 3, 4, 4))
    if variant == 0:
        disj = ('or', join('a', 'a'), rng.choice([join('b', 'a'), join('a', 'b'), ax]))
        case['cond'] = [rng.choice([('and', disj, az), ('and', az, disj)])] if rng.random() < 0.5 else \
            ([disj, az] if rng.random() < 0.7 else [az, disj])
    else:
        # the non-selected variable z is bound UPSTREAM, a de-duplicating operand that does not mention it comes in
        # between, and a later operand needs it again (explicitly nested, not the flat chain)
        g.var_ids = [x]
        px, qx = g.atom(), g.atom()
        g.var_ids = [z]
        yz = g.atom()
        if variant == 4:
            # a disjunction over (x, z) inside the LEFT operand of a conjunction that is itself the left side of a
            # disjunction whose other side needs the non-selected z again: or_(and_(or_(P(x), A(z)), Q(x)), Y(z)) - a true
            # output of the inner disjunction does not decide the conjunction
            case['cond'] = [('or', ('and', ('or', px, az), qx), yz)]
        elif variant == 1:
            case['cond'] = [('and', join('a', 'a'), ('and', ('or', px, qx), yz))]
        elif variant == 2:
            case['cond'] = [('and', az, ('or', ('and', px, qx), join('b', 'b')))]
        else:
            # a conjunction of TWO disjunctions that both use the join variable z, which is not selected
            g.var_ids = [z]
            yz2 = g.atom()
            case['cond'] = [('and', ('or', px, join('a', 'b')), ('or', yz, yz2))]
    case['sel'] = [('var', x)] if rng.random() < 0.7 else [('var', v) for v in ids if v != z]
    case['entity'] = len(case['sel']) == 1 and rng.random() < 0.5
    return case


def apply_three_var_template(rng, cfg, case):
    """Templates over THREE variables, all selected: (0) a conjunct over one variable and a disjunction whose sides mention
    two OTHER, unrelated variables - and_(A(a), or_(G(b), H(c))): the right operand of the conjunction shares no variable
    with the left one and its cache entries mix full and partial bindings; (1) a disjunction of two joins over different
    variable pairs followed by a conjunct over one of the pairs - and_(or_(J(a, c), J(a, b)), K(a, b))."""
    ids = [v[0] for v in case['vars']]
    if len(ids) < 3:
        return case
    a, b, c = rng.sample(ids, 3)
    g = CondGen(rng, cfg, ids)

    def single(v):
        g.var_ids = [v]
        if rng.random() < 0.5:
            return ('truth', ('attr', 'flag', ('var', v)))
        return g.atom()

    def join(u, w, f1=None, f2=None):
        return ('cmp', rng.choice(('eq', 'eq', 'le', 'ne')), ('attr', f1 or rng.choice('ab'), ('var', u)),
                ('attr', f2 or rng.choice('ab'), ('var', w)))
    if rng.random() < 0.3:
        # (2) a disjunction whose FIRST side joins a selected variable with a variable that is NOT selected and whose second
        # side is over a third variable only: or_(J(a, c), G(b)), selecting a and b
        case['cond'] = [('or', join(a, c, 'a', 'a'), single(b))]
        case['sel'] = [('var', a), ('var', b)] if rng.random() < 0.7 else [('var', b), ('var', a)]
        case['entity'] = False
        return case
    if rng.random() < 0.5:
        disj = ('or', single(b), single(c))
        # (the conjunct over a is often true for every a, so that the right operand is asked again for the second a)
        first = single(a) if rng.random() < 0.4 else ('cmp', 'ge', ('attr', 'a', ('var', a)), ('lit', ('i', 0)))
        pair = [first, disj]
    else:
        disj = ('or', join(a, c), join(a, b))
        if rng.random() < 0.3:
            disj = ('or', disj[2], disj[1])
        pair = [disj, join(a, b)]
    if rng.random() < 0.25:
        pair.reverse()
    case['cond'] = [('and',) + tuple(pair)] if rng.random() < 0.7 else pair
    case['sel'] = [('var', v) for v in rng.sample(ids, len(ids))]
    case['entity'] = False
    return case


def apply_truth_operand_template(rng, case):
    """Template: ONE attribute used twice in the same condition tree, as a bare truthiness condition (possibly negated)
    and as a comparison operand - the two roles must not influence each other."""
    v0 = case['vars'][0][0]
    f = rng.choice(('b', 'b', 'flag', 'a'))
    xa = ('attr', f, ('var', v0))
    truth = ('truth', xa) if rng.random() < 0.7 else ('not', ('truth', xa))
    if f == 'a':
        cmpc = ('cmp', rng.choice(('ge', 'gt', 'eq')), xa, ('lit', ('i', rng.randint(0, 2))))
    else:
        cmpc = ('cmp', rng.choice(('eq', 'ne')), xa, ('lit', rng.choice(FALSY[:3] + [('i', 0), ('i', 1)])))
    pair = [truth, cmpc]
    rng.shuffle(pair)
    case['cond'] = [rng.choice([('and',) + tuple(pair), ('or',) + tuple(pair),
                                ('and', truth, ('not', truth)), ('or', truth, ('not', truth))])]
    return case

