"""
Handlers for C03, C06, C15, C18, C19 (query-shaped properties).
"""
import copy
import random

from . import gen, surface
from .props_q import QueryJudge, n_cases, nontrivial_filter, note_distribution, sample_of
from .qcheck import run_query_cases, canon, all_selected, eval_case, parse_driver_line
from .common import pmap, run_driver, HarnessError


# ------------------------------------------------------------------------------------------- C03

def has_not(c):
    if c[0] == 'not':
        return True
    if c[0] in ('and', 'or'):
        return any(has_not(x) for x in c[1:])
    return False


def c03(report, rng, tier, findings):
    n = n_cases(tier, 150, 1800)
    cases = []
    for i in range(n):
        nv = rng.choice((1, 1, 2, 2, 3))
        cfg = gen.Cfg(n_vars=(nv, nv), n_objs=(2, 5 if nv == 1 else 3), depth=3 if nv < 3 else 2,
                      select_all=1.0, empty_domain=0.0)
        base = gen.gen_case(rng, cfg, f'c{i}')
        conj = base['cond'][0] if len(base['cond']) == 1 else ('and',) + tuple(base['cond'])
        if nv >= 2 and rng.random() < 0.2:
            # template: a conjunction that will be NEGATED under outer bindings; its first conjunct is a boolean call /
            # attribute / predicate on a variable not bound outside, its second conjunct uses the outer variable only
            cfg = gen.Cfg(n_vars=(2, 2), n_objs=(3, 5), depth=1, select_all=1.0, empty_domain=0.0, share_domain=0.5)
            base = gen.gen_case(rng, cfg, f'c{i}')
            ids_ = [v[0] for v in base['vars']]
            p_, s_ = rng.sample(ids_, 2)
            g_ = gen.CondGen(rng, cfg, ids_)
            g_.var_ids = [p_]
            a1, a2 = g_.atom(), g_.atom()
            first = rng.choice([('truth', ('call', 'is_even', (), ('var', s_))), ('truth', ('attr', 'flag', ('var', s_))),
                                ('pred', 'is_big', ('var', s_))])
            conj = rng.choice([('or', a1, ('and', first, a2)), ('and', a1, ('not', ('and', first, a2))),
                               ('or', ('and', first, a2), a1)])
            base['sel'] = [('var', v) for v in ids_]
            report.count('template_negated_conjunction_under_outer_bindings')
        if i % 5 == 4:
            # a leaf in condition position whose VALUE is truthy / falsy without being a bool: a number (0, 2, 3), a list
            # (empty or not), a tuple, a string - its negation is the negation of its truth
            v_ = rng.choice([w[0] for w in base['vars']])
            leaf = ('truth', ('attr', rng.choice(('a', 'a', 'items', 'items', 's', 't')), ('var', v_)))     # (not an object: sized classes)
            conj = rng.choice([leaf, ('and', conj, leaf), ('or', leaf, conj), ('and', leaf, conj), ('or', conj, ('not', leaf))])
            report.count('non_boolean_value_in_condition_position')
        for tag, c in (('p', conj), ('n', ('not', conj)), ('nn', ('not', ('not', conj)))):
            v = dict(base)
            v['id'] = f'c{i}{tag}'
            v['cond'] = [c]
            cases.append(v)
    report.rule = ("for each random condition c (1-3 variables, all selected, non-empty domains; not_ at every depth, all six "
                   "operators, membership both directions, boolean calls, both predicate kinds) three queries are run: c, "
                   "not_(c), not_(not_(c)); each is compared with the oracle (rows(not c) = product - rows(c), "
                   "rows(not not c) = rows(c)) and the constructed tree is compared with the model's `build`/`neg`; "
                   "non-trivial = condition neither constantly true nor false")
    judge = QueryJudge(report, findings, 'C03', nontrivial=nontrivial_filter, check_tree=True)
    run_query_cases(report, cases, {'caching': (False, True), 'evals': 2}, judge)
    return ['EqlModel.Props.C03'], [
        "comparison operators behave as on ordinary Python values (World.Lawful: complementary pairs, mirrored spellings)",
        "not_ over a quantified sub-query (NotImplementedError), over for_all, and a condition object reused in two places are outside the statement",
        "every non-selected variable has a non-empty domain"]


# ------------------------------------------------------------------------------------------- C06

def the_expected(case, res):
    rows = sorted(set(res['spec']))
    if len(res['spec']) == 0:
        return ('none',)
    if len(res['spec']) == 1:
        return ('ok', res['spec'][0])
    return ('multi',)


def c06(report, rng, tier, findings):
    n = n_cases(tier, 240, 3000)
    buckets = {0: [], 1: [], 2: []}
    tries = 0
    while min(len(b) for b in buckets.values()) < n // 3 and tries < n * 40:
        tries += 1
        nv = rng.choice((1, 1, 2))
        cfg = gen.Cfg(n_vars=(nv, nv), n_objs=(1, 4), depth=2, select_all=1.0, empty_domain=0.05, quant='the')
        case = gen.gen_case(rng, cfg, f'c{tries}')
        if nv == 1 and rng.random() < 0.15:
            # VALUE-EQUAL TWINS: the class compares by value (dataclass eq=True) and the domain holds two distinct objects
            # with equal fields: they are == but two solutions (MultipleSolutionFound when both satisfy)
            vid, cls, raw = case['vars'][0]
            objs_ = [(j, c_, {**at, 'ref': ('n',)}) for j, c_, at in case['objs']]
            j0 = rng.randrange(len(objs_))
            twin = (len(objs_), objs_[j0][1], dict(objs_[j0][2]))
            objs_.append(twin)
            X = ('var', vid)
            at0 = objs_[j0][2]
            conds_ = [('cmp', 'eq', ('attr', 'a', X), ('lit', at0['a']))] if rng.random() < 0.6 else \
                [('cmp', rng.choice(('ge', 'le', 'ne')), ('attr', 'a', X), ('lit', ('i', rng.randint(0, 2))))]
            case = {**case, 'objs': objs_, 'vars': [(vid, cls, [('o', j) for j in range(len(objs_)) if objs_[j][1] == objs_[j0][1]
                                                                 or rng.random() < 0.5] )],
                    'sel': [X], 'cond': conds_, 'entity': True, 'value_eq': True}
            case['vars'] = [(vid, objs_[j0][1], sorted(set(case['vars'][0][2]) | {('o', j0), ('o', len(objs_) - 1)}))]
            case.pop('explicit', None)
        elif nv == 1 and rng.random() < 0.3:
            # the description given in predicate form, the quantifier applied straight to it: the(T(From(d), f=v, ...))
            vid, cls, raw = case['vars'][0]
            kw, eqs = [], []
            for f in rng.sample(['a', 'b'], rng.randint(0, 2)):
                lit = ('i', rng.randint(0, 2))
                kw.append((f, ('lit', lit)))
                eqs.append(('cmp', 'eq', ('attr', f, ('var', vid)), ('lit', lit)))
            explicit = dict(case)
            explicit['sel'] = [('var', vid)]
            explicit['cond'] = eqs or None
            case = dict(explicit)
            case['cond'] = None
            case['pform'] = {vid: {'pos': [], 'kw': kw}}
            case['direct'] = True
            case['explicit'] = explicit
        try:
            k = len(surface.Oracle(case.get('explicit', case)).rows())
        except Exception:
            continue
        b = min(k, 2)
        if len(buckets[b]) < n // 3:
            buckets[b].append(case)
            if case.get('direct'):
                report.count('quantifier_applied_to_a_predicate_form_term')
            if case.get('value_eq'):
                report.count('value_equal_twins_in_the_domain')
    cases = buckets[0] + buckets[1] + buckets[2]
    for b, l in buckets.items():
        report.count(f'solutions_{b}{"+" if b == 2 else ""}', len(l))
    report.rule = ("random queries with every variable selected, rejection-sampled so that 0, 1 and >=2 satisfying "
                   "assignments are equally frequent; the(...).evaluate() is run twice under caching on and off and its outcome "
                   "class (value / NoSolutionFound / MultipleSolutionFound) and value are compared with the oracle and the "
                   "model's runThe; non-trivial = every case (the three classes are balanced)")
    judge = QueryJudge(report, findings, 'C06', expected=the_expected)
    run_query_cases(report, cases, {'caching': (False, True), 'evals': 2}, judge)
    return ['EqlModel.Props.C06'], ["every variable of the query is selected", "distinct objects in each domain"]


# ------------------------------------------------------------------------------------------- C19

def shared_twin_stream(report, findings, cases, flag, finding_id, counter, label, caching=(False, True)):
    """Every case is evaluated with the objects named by `flag` SHARED and with separate objects.  A deviation of the shared
    run while the run with separate objects is right is the known finding `finding_id` (if it is listed as open), anything
    else is a violation."""
    from .qcheck import eval_case
    fnd = {f['id']: f for f in findings.get('findings', []) if f.get('status', 'open') == 'open'}
    jobs = [({**c, flag: sh}, {'caching': caching, 'evals': 2}) for c in cases for sh in (True, False)]
    res3 = pmap(eval_case, jobs)
    for ci, case in enumerate(cases):
        r_sh, r_un = res3[2 * ci], res3[2 * ci + 1]
        if 'spec_exc' in r_sh:
            continue
        report.evaluations += 1
        report.count(counter)
        want = sorted(r_sh['spec'])

        def wrong(r):
            for key, run in r['impl'].items():
                for ev, out in enumerate(run['outs']):
                    if out[0] != 'rows' or sorted(set(out[1])) != sorted(set(want)):
                        return f'caching {key}, evaluation {ev + 1}: {out}'
            return None
        w_un, w_sh = wrong(r_un), wrong(r_sh)
        report.traces += 8
        if w_un:
            what = f'rows differ from the specification (separate expression objects; {w_un}; expected {want})'
            report.violations.append((what, {'what': what, 'case': {**case, flag: False}, 'expected': want}))
        elif w_sh:
            if finding_id in fnd:
                report.known[finding_id] = report.known.get(finding_id, 0) + 1
                report.known_text[finding_id] = fnd[finding_id]['what']
            else:
                what = (f'{label}: {w_sh}; expected {want} (the same query with separate expression objects is right)')
                report.violations.append((what, {'what': what, 'case': {**case, flag: True}, 'expected': want}))


def shared_expression_pools(report, rng, n):
    """ONE expression object (val = x.b) reused by two queries, in condition position in one and in value position in the
    other, evaluated one after the other in both orders (used by C19 and by C04)."""
    pools = []
    for i in range(max(20, n // 6)):
        cfg = gen.Cfg(n_vars=(1, 1), n_objs=(3, 6), depth=1, falsy=0.6, int_range=(0, 2), empty_domain=0.0)
        base = gen.gen_case(rng, cfg, f's{i}')
        base['vars'] = [(vid, 'A', raw) for vid, _, raw in base['vars']]
        val = ('attr', 'b', ('var', 0))
        lit = ('lit', rng.choice(gen.FALSY + [('i', 1)]))
        qs = [{'sel': [('var', 0)], 'cond': [('truth', val)]},
              {'sel': [('var', 0)], 'cond': [rng.choice([('cmp', 'eq', val, lit), ('cmp', 'ne', val, lit),
                                                         ('in', val, ('lit', ('l', ('i', 0), ('n',), ('i', 2))))])]}]
        if rng.random() < 0.5:
            qs.reverse()         # (the queries are BUILT in pool order: the use as a value first, the use as a condition later)
            report.count('shared_expression_condition_use_built_last')
        order = [0, 1] if rng.random() < 0.5 else [1, 0]
        pools.append({**base, 'pool': qs, 'hist': [('full', order[0]), ('full', order[1]), ('full', order[0])],
                      'share_terms_pool': True})
    res = pmap(c04_impl, [(c, {'caching': (False, True), 'share_terms': True}) for c in pools])
    for case, r in zip(pools, res):
        if 'spec_exc' in r:
            continue
        report.evaluations += 1
        report.count('shared_expression_pools')
        for key, run in r['runs'].items():
            if 'exc' in run:
                report.violations.append((f'implementation raised {run["exc"]}', {'what': run['exc'], 'case': case}))
                continue
            for si, (kind, qi, rows_) in enumerate(run['steps']):
                report.traces += 1
                if sorted(rows_) != sorted(r['specs'][qi]):
                    what = (f'a shared expression object (val = x.b) used as a condition in one query and as a value in another: '
                            f'step {si + 1} ({case["hist"][si]}, caching {key}) returned {sorted(rows_)}, expected {sorted(r["specs"][qi])}')
                    report.violations.append((what, {'what': what, 'case': case, 'steps': run['steps'],
                                                     'fresh_answers': r['specs']}))
                    break


def c19(report, rng, tier, findings):
    n = n_cases(tier, 360, 4000)
    cases = []
    for i in range(n):
        nv = rng.choice((1, 1, 2))
        cfg = gen.Cfg(n_vars=(nv, nv), n_objs=(2, 5 if nv == 1 else 3), depth=2, falsy=0.6, select_terms=0.5,
                      int_range=(0, 2), empty_domain=0.0)
        case = gen.gen_case(rng, cfg, f'c{i}')
        if rng.random() < 0.2:
            # a membership test whose ITEM is a (often falsy) attribute value, evaluated after the item's variable is bound:
            # as a later conjunct, or alone
            v0 = case['vars'][0][0]
            pool_ = gen.FALSY + [('i', 1), ('i', 2)]
            k_ = 0 if rng.random() < 0.3 else rng.randint(0, len(pool_))
            cont = ('lit', ('l',) + tuple(rng.sample(pool_, k_)))       # often EMPTY
            if rng.random() < 0.3:
                cont = ('attr', 'items', ('var', v0))          # the object's own (possibly empty) collection
            mem = ('in', ('attr', 'b', ('var', v0)), cont) if rng.random() < 0.7 else ('contains', cont, ('attr', 'b', ('var', v0)))
            if rng.random() < 0.3:
                # STRING containment, the empty string included on either side ('' in '' is True)
                sub = ('lit', rng.choice([('s',), ('s',), ('s', 'a'), ('s', 'b')]))
                cs = ('attr', 's', ('var', v0))
                mem = rng.choice([('in', sub, cs), ('contains', cs, sub), ('in', cs, cs)])
            if rng.random() < 0.45:
                mem = ('not', mem)
            g_ = gen.CondGen(rng, cfg, [v[0] for v in case['vars']])
            case['cond'] = [rng.choice([('and', g_.atom(), mem), ('and', mem, g_.atom()), mem, ('or', g_.atom(), mem)])]
            report.count('membership_of_a_falsy_item')
        elif rng.random() < 0.15:
            gen.apply_truth_operand_template(rng, case)
            report.count('one_attribute_as_condition_and_as_operand')
        elif rng.random() < 0.15:
            # a USER PREDICATE used as a VALUE: val_b(x) == k (decorated function or Predicate subclass; its output - often
            # falsy - is an operand / a membership item / a selected output, not a condition); the explicit twin reads x.b
            v0 = case['vars'][0][0]
            X = ('var', v0)
            f_ = rng.choice('ab')
            kind_ = rng.choice(('fnv', 'fnv', 'fnvc'))
            fv, tw = (kind_, 'val_' + f_, X), ('attr', f_, X)
            lit_ = ('lit', rng.choice(gen.FALSY + [('i', 0), ('i', 1), ('i', 2)]))

            def mk(t_):
                c_ = ('cmp', rng_op, t_, lit_) if not swap_ else ('cmp', rng_op, lit_, t_)
                return ('not', c_) if neg_ else c_
            rng_op, swap_, neg_ = rng.choice(('eq', 'ne')), rng.random() < 0.3, rng.random() < 0.25
            g_ = gen.CondGen(rng, cfg, [v[0] for v in case['vars']])
            other = g_.atom()
            form = rng.choice(('alone', 'and1', 'and2', 'or'))
            wrap = {'alone': lambda c_: c_, 'and1': lambda c_: ('and', other, c_), 'and2': lambda c_: ('and', c_, other),
                    'or': lambda c_: ('or', c_, other)}[form]
            case['cond'] = [wrap(mk(fv))]
            case['sel'] = [t for t in case['sel'] if t[0] == 'var'] or [X]
            case['entity'] = len(case['sel']) == 1
            case['explicit'] = {**case, 'cond': [wrap(mk(tw))]}
            report.count('user_predicate_used_as_a_value')
        elif rng.random() < 0.2:
            # CHAINS through an attribute VALUE (often falsy: 0, '', [], ()): an attribute of the value (x.a.real), a
            # method of the value (x.items.count(k), x.s.upper()) - as comparison operand, membership item, selected output
            v0 = case['vars'][0][0]
            X = ('var', v0)
            chains = [('attr', 'real', ('attr', 'a', X)),
                      ('call', 'count', (('i', rng.randint(0, 2)),), ('attr', 'items', X)),
                      ('call', 'count', (('i', 0),), ('attr', 't', X)),
                      ('call', 'upper', (), ('attr', 's', X))]
            ch = rng.choice(chains)
            if ch[1] == 'upper':
                lit_ = ('lit', rng.choice([('s',), ('s', 'AB'), ('s', 'B'), ('s', 'ABC')]))
                cmp_ = ('cmp', rng.choice(('eq', 'ne')), ch, lit_)
            else:
                cmp_ = ('cmp', rng.choice(('eq', 'ne', 'ge', 'lt')), ch, ('lit', ('i', rng.randint(0, 2))))
                if rng.random() < 0.3:
                    cmp_ = ('in', ch, ('lit', ('l', ('i', 0), ('i', 2))))
            g_ = gen.CondGen(rng, cfg, [v[0] for v in case['vars']])
            case['cond'] = [rng.choice([cmp_, ('and', g_.atom(), cmp_), ('or', cmp_, g_.atom()), ('not', cmp_)])]
            if rng.random() < 0.4:
                case['sel'] = [ch] + [t for t in case['sel'] if t[0] == 'var'][:1]
                case['entity'] = len(case['sel']) == 1
            report.count('chain_through_an_attribute_value')
        elif rng.random() < 0.15:
            # a FIELD CONSTRAINT with a falsy constant: the variable is written in predicate form T(From(d), b=<0, '', None,
            # False, [], ()>) - the constant constrains the field like any other value; the explicit twin writes x.b == const
            v0 = case['vars'][0][0]
            X = ('var', v0)
            lit_ = ('lit', rng.choice(gen.FALSY + gen.FALSY + [('i', 1), ('i', 2)]))
            g_ = gen.CondGen(rng, cfg, [v[0] for v in case['vars']])
            extra_ = [g_.atom()] if rng.random() < 0.5 else []
            plain = {**case, 'sel': [X] + [t for t in case['sel'] if t[0] == 'var' and t != X]}     # the term is selected
            plain['entity'] = len(plain['sel']) == 1
            case = {**plain, 'cond': extra_ or None, 'pform': {v0: {'pos': [], 'kw': [('b', lit_)]}}}
            case['explicit'] = {**plain, 'cond': [('cmp', 'eq', ('attr', 'b', X), lit_)] + extra_}
            report.count('field_constraint_with_a_falsy_constant')
        elif rng.random() < 0.2:
            # an ENTRY OF A DICT attribute (x.d[k], often None / 0 / '' / [] / ()) as a value: comparison operand, membership
            # item, selected output
            v0 = case['vars'][0][0]
            X = ('var', v0)
            ent = ('idx', ('i', rng.randint(0, 1)), ('attr', 'd', X))
            lit_ = ('lit', rng.choice(gen.FALSY + [('n',), ('i', 1), ('i', 2)]))
            r_ = rng.random()
            if r_ < 0.5:
                cmp_ = ('cmp', rng.choice(('eq', 'ne')), ent, lit_) if rng.random() < 0.7 else ('cmp', rng.choice(('eq', 'ne')), lit_, ent)
            elif r_ < 0.8:
                cmp_ = ('in', ent, ('lit', ('l',) + tuple(rng.sample(gen.FALSY + [('i', 1), ('i', 2)], rng.randint(0, 4)))))
            else:
                cmp_ = ('cmp', rng.choice(('eq', 'ne')), ent, ('attr', 'b', X))
            g_ = gen.CondGen(rng, cfg, [v[0] for v in case['vars']])
            case['cond'] = [rng.choice([cmp_, ('and', g_.atom(), cmp_), ('or', cmp_, g_.atom()), ('not', cmp_), g_.atom()])]
            if rng.random() < 0.5:
                case['sel'] = [ent] + [t for t in case['sel'] if t[0] == 'var'][:1]
                case['entity'] = len(case['sel']) == 1
            report.count('entry_of_a_dict_attribute')
        cases.append(case)
    report.rule = ("the generators of C01/C02 on datasets where 60% of the objects carry a falsy value (0, '', None, False, [], ()) "
                   "in the attribute used as a value and ints are drawn from 0..2: falsy values as comparison operands, membership "
                   "items, predicate arguments and selected outputs; rows compared with the oracle; non-trivial = the dataset "
                   "contains a falsy value and the condition is neither constantly true nor false")
    def nontriv(case, res):
        has_falsy = any(attrs['b'] in gen.FALSY or attrs['a'] == ('i', 0) for _, _, attrs in case['objs'])
        return has_falsy and nontrivial_filter(case, res)
    judge = QueryJudge(report, findings, 'C19', nontrivial=nontriv)
    run_query_cases(report, cases, {'caching': (False, True), 'evals': 1}, judge)
    shared_expression_pools(report, rng, n)
    # third stream: ONE expression object (val = x.b) used TWICE IN ONE QUERY, once as a bare condition and once as an
    # operand.  Every case is evaluated with the object shared and with two separate objects; a deviation of the shared
    # run while the run with separate objects is right is the known finding C19-F1 (the per-evaluation state of an
    # expression - its flag, its evaluating parent, its negation - lives on the object), anything else is a violation.
    fnd = {f['id']: f for f in findings.get('findings', []) if f.get('status', 'open') == 'open'}
    shared_cases = []
    for i in range(max(20, n // 8)):
        cfg = gen.Cfg(n_vars=(1, 1), n_objs=(3, 6), depth=1, falsy=0.6, int_range=(0, 2), empty_domain=0.0)
        base = gen.gen_case(rng, cfg, f'u{i}')
        base['vars'] = [(vid, 'A', raw) for vid, _, raw in base['vars']]
        val = ('attr', 'b', ('var', base['vars'][0][0]))
        lit = ('lit', rng.choice(gen.FALSY + [('i', 1), ('i', 2)]))
        cmp_ = rng.choice([('cmp', 'eq', val, lit), ('cmp', 'ne', val, lit),
                           ('in', val, ('lit', ('l', ('i', 0), ('n',), ('i', 2), ('s',))))])
        tr = ('truth', val)
        cond = rng.choice([('and', cmp_, tr), ('and', tr, cmp_), ('or', tr, cmp_), ('or', cmp_, tr)])
        base.update({'sel': [('var', base['vars'][0][0])], 'entity': True, 'cond': [cond], 'quant': 'an'})
        base.pop('pre_take', None)
        shared_cases.append(base)
    shared_twin_stream(report, findings, shared_cases, 'share_terms', 'C19-F1',
                       'one_expression_object_as_condition_and_operand_of_one_query',
                       'one expression object used as a condition and as an operand of the same query')
    return ['EqlModel.Props.C19'], ["falsy values in field constraints / constructor arguments are exercised by the C11/C13 checks",
                                    "an expression object other than a variable stands in ONE place of a query (sharing one object between a "
                                    "condition position and an operand position of the same query is known finding C19-F1)"]


# ------------------------------------------------------------------------------------------- C15

def inline_subs(c):
    k = c[0]
    if k == 'sub':
        parts = [inline_subs(x) for x in c[2:]]
        return parts[0] if len(parts) == 1 else ('and',) + tuple(parts)
    if k in ('and', 'or'):
        return (k,) + tuple(inline_subs(x) for x in c[1:])
    if k == 'not':
        return ('not', inline_subs(c[1]))
    return c


def has_sub(c):
    if c[0] == 'sub':
        return True
    if c[0] in ('and', 'or'):
        return any(has_sub(x) for x in c[1:])
    if c[0] == 'not':
        return has_sub(c[1])
    return False


def gen_c15_cond(rng, g, depth):
    """Conditions dense in sub-queries: sub-queries as operands of and_/or_ at every level, selecting a variable
    while their conditions may bind OTHER variables that the enclosing query uses again."""
    if depth <= 0:
        c = g.atom()
    else:
        k = rng.choice(('and', 'or', 'or', 'and', 'atom'))
        if k == 'atom':
            c = g.atom()
        else:
            c = (k,) + tuple(gen_c15_cond(rng, g, depth - 1) for _ in range(rng.choice((2, 2, 3))))
    if rng.random() < 0.4:
        c = ('sub', (g.var(),), c)
    return c


def c15(report, rng, tier, findings):
    n = n_cases(tier, 200, 2500)
    cases = []
    i = 0
    while len(cases) < 2 * n and i < 20 * n:
        i += 1
        nv = rng.choice((1, 2, 2, 2, 3))
        cfg = gen.Cfg(n_vars=(nv, nv), n_objs=(2, 4 if nv == 1 else 3), depth=3, subqueries=0.8, empty_domain=0.0)
        base = gen.gen_case(rng, cfg, f'c{i}')
        r_ = rng.random()
        if r_ < 0.35 and nv >= 2:
            # template: a sub-query over v whose conditions bind ANOTHER variable w that it does not select, combined
            # by & with another condition, the conjunction being the left side of | whose right side uses w again
            cfg2 = gen.Cfg(n_vars=(2, 2), n_objs=(3, 5), depth=1, empty_domain=0.0, share_domain=0.5, preds=False)
            base = gen.gen_case(rng, cfg2, f'c{i}')
            v, w = rng.sample([0, 1], 2)
            gv, gw, gvw = (gen.CondGen(rng, cfg2, ids) for ids in ([v], [w], [v, w]))

            def join():
                return ('cmp', rng.choice(('eq', 'ne', 'lt', 'ge')), ('attr', rng.choice('ab'), ('var', v)),
                        ('attr', rng.choice('ab'), ('var', w)))
            if i % 4 == 1:
                # the sub-query over v comes AFTER a condition that binds v (it is evaluated with v bound) and its own
                # condition joins the other variable w, which the enclosing query selects: every w of every v counts
                first = gv.atom()
                subq = ('sub', (('var', v),), rng.choice([join(), ('and', join(), gw.atom()), ('or', join(), join())]))
                base['cond'] = [('and', first, subq)] if rng.random() < 0.6 else [first, subq]
                if rng.random() < 0.3:
                    base['cond'] = [('and', base['cond'][0], gw.atom())] if len(base['cond']) == 1 else base['cond'] + [gw.atom()]
                report.count('template_subquery_evaluated_with_its_variable_bound')
            elif rng.random() < 0.6:
                inner = ('and', join(), gv.atom()) if rng.random() < 0.7 else join()
                left = ('and', ('sub', (('var', v),), inner), rng.choice([gv.atom(), ('sub', (('var', v),), gv.atom())]))
                right = rng.choice([join(), ('and', join(), gw.atom()), gvw.atom()])
                base['cond'] = [('or', left, right) if rng.random() < 0.8 else ('or', right, left)]
            else:
                # the sub-query is the LEFT operand of & / |; it contains a disjunction (resp. a conjunction) that binds
                # w, which it does not select, and the right operand depends on w
                if rng.random() < 0.6:
                    inner = rng.choice([('or', join(), gv.atom()), ('or', gv.atom(), join()), ('or', join(), join())])
                    base['cond'] = [('and', ('sub', (('var', v),), inner), rng.choice([gw.atom(), join()]))]
                else:
                    inner = ('and', join(), gv.atom())
                    base['cond'] = [('or', ('sub', (('var', v),), inner), rng.choice([gw.atom(), join(),
                                                                                       ('sub', (('var', v),), join())]))]
            base['sel'] = [('var', v)] if rng.random() < 0.6 else [('var', v), ('var', w)]
            if i % 4 == 1:
                base['sel'] = [('var', v), ('var', w)] if rng.random() < 0.8 else [('var', w)]
            base['entity'] = len(base['sel']) == 1
        elif r_ < 0.8:
            g = gen.CondGen(rng, cfg, [v[0] for v in base['vars']])
            base['cond'] = [gen_c15_cond(rng, g, rng.randint(1, 3))]
        if not any(has_sub(c) for c in base['cond']):
            continue
        flat = dict(base)
        flat['id'] = base['id'] + 'f'
        flat['cond'] = [inline_subs(c) for c in base['cond']]
        cases.append(base)
        cases.append(flat)
    report.rule = ("random queries in which sub-queries an(entity(v, c)) stand in condition position, combined by and_/or_ "
                   "(& and |) with conditions and other sub-queries, sharing or not sharing variables with the enclosing query; each "
                   "composed query and its flattened form (c written in place) are both compared with the oracle; non-trivial = "
                   "condition neither constantly true nor false")
    judge = QueryJudge(report, findings, 'C15', nontrivial=nontrivial_filter, check_tree=True)
    run_query_cases(report, cases, {'caching': (False, True), 'evals': 1}, judge)
    # sub-queries (an / the) as OPERANDS of a comparison: the operand is restricted to the sub-query's solutions.
    # The implementation builds the real operand form; oracle and model get the flattened explicit twin.
    ocases = []
    tries = 0
    while len(ocases) < max(60, n) and tries < 40 * n:
        tries += 1
        cfg = gen.Cfg(n_vars=(2, 2), n_objs=(2, 5), depth=1, empty_domain=0.0, preds=False, share_domain=0.5,
                      int_range=(0, 2))
        base = gen.gen_case(rng, cfg, f'o{tries}')
        base['vars'] = [(vid, 'A', raw) for vid, _, raw in base['vars']]
        x, z = 0, 1
        gz = gen.CondGen(rng, cfg, [z])
        gx = gen.CondGen(rng, cfg, [x])
        # the sub-query's own condition: atoms, or a small and/or/not tree (several solutions per disjunct)
        r_in = rng.random()
        inner = [gz.atom() for _ in range(rng.choice((1, 1, 2)))] if r_in < 0.35 else \
            [('or', gz.atom(), gz.atom())] if r_in < 0.7 else [gz.cond(rng.randint(1, 2))]
        quant = rng.choice(('an', 'an', 'the'))
        if quant == 'the':
            try:
                k = len(surface.Oracle({**base, 'sel': [('var', z)], 'cond': inner, 'quant': 'an'}).rows())
            except Exception:
                continue
            if k != 1:
                continue
        if tries % 5 == 2:
            # a CORRELATED an(...) whose own variable is what the enclosing query selects, the outer variable (bound by the
            # comparison's other operand) is not selected: x.f op an(entity(z, (z.a == x.a) | c(z))).g, rows are z
            corr = ('cmp', rng.choice(('eq', 'eq', 'ne', 'lt')), ('attr', rng.choice('ab'), ('var', z)),
                    ('attr', rng.choice('ab'), ('var', x)))
            inner_c = rng.choice([('or', corr, gz.atom()), ('or', gz.atom(), corr), ('and', corr, gz.atom()), corr,
                                  ('or', corr, ('and', gz.atom(), gz.atom())), ('or', corr, gz.atom()), ('or', gz.atom(), corr),
                                  ('or', corr, ('cmp', 'ge', ('attr', 'a', ('var', z)), ('lit', ('i', 0))))])
            f, g_ = rng.choice('ab'), rng.choice('ab')
            op = rng.choice(('eq', 'eq', 'ne', 'lt', 'ge'))
            sqc = ('subq', 'an', z, inner_c)
            atom_i = ('cmp', op, ('attr', f, ('var', x)), ('attr', g_, sqc))
            atom_e = ('cmp', op, ('attr', f, ('var', x)), ('attr', g_, ('var', z)))
            if rng.random() < 0.3:
                atom_i = ('cmp', MIRROR_OP[op], atom_i[3], atom_i[2])
                atom_e = ('cmp', MIRROR_OP[op], atom_e[3], atom_e[2])
            sel_ = [('var', z)] if rng.random() < 0.85 else [('var', z), ('var', x)]
            case = dict(base)
            case.update({'sel': sel_, 'entity': len(sel_) == 1, 'cond': [atom_i],
                         'explicit': {**base, 'sel': sel_, 'entity': len(sel_) == 1, 'cond': [inner_c, atom_e]},
                         'operand_quant': 'an_correlated_rows_are_its_own_variable'})
            ocases.append(case)
            continue
        if rng.random() < 0.25:
            # a CORRELATED the(...): the sub-query mentions the outer variable, which an earlier conjunct has bound, and
            # has exactly one solution per outer value (z.ref is a permutation of the objects): x.f op the(entity(z, z.ref == x)).g
            n_o = len(base['objs'])
            perm = list(range(n_o))
            rng.shuffle(perm)
            base['objs'] = [(j, c_, {**attrs, 'ref': ('o', perm[j])}) for j, c_, attrs in base['objs']]
            all_o = [('o', j) for j in range(n_o)]
            base['vars'] = [(x, 'A', list(all_o)), (z, 'A', list(all_o))]
            link = ('cmp', 'eq', ('attr', 'ref', ('var', z)), ('var', x))
            if rng.random() < 0.5:
                link = ('cmp', 'eq', ('var', x), ('attr', 'ref', ('var', z)))
            first = gx.atom() if rng.random() < 0.5 else ('cmp', 'ge', ('attr', 'a', ('var', x)), ('lit', ('i', 0)))
            f, g_ = rng.choice('ab'), rng.choice('ab')
            op = rng.choice(('eq', 'ne', 'lt', 'ge'))
            sqc = ('subq', 'the', z, link)
            atom_i = ('cmp', op, ('attr', f, ('var', x)), ('attr', g_, sqc))
            atom_e = ('cmp', op, ('attr', f, ('var', x)), ('attr', g_, ('var', z)))
            if tries % 3 == 0:
                # the the(...) ITSELF is the right operand (objects are compared), and the comparison is the FIRST condition:
                # the outer variable is bound by the comparison's own left operand, not by an earlier conjunct
                op = rng.choice(('eq', 'ne'))
                atom_i = ('cmp', op, ('attr', 'ref', ('var', x)), sqc)
                atom_e = ('cmp', op, ('attr', 'ref', ('var', x)), ('var', z))
                case = dict(base)
                case.update({'sel': [('var', x)], 'entity': True, 'cond': [atom_i, first],
                             'explicit': {**base, 'sel': [('var', x)], 'entity': True, 'cond': [link, atom_e, first]},
                             'operand_quant': 'the_correlated_first_condition'})
                ocases.append(case)
                continue
            case = dict(base)
            case.update({'sel': [('var', x)], 'entity': True, 'cond': [first, atom_i],
                         'explicit': {**base, 'sel': [('var', x)], 'entity': True, 'cond': [first, link, atom_e]},
                         'operand_quant': 'the_correlated'})
            ocases.append(case)
            continue
        sq = ('subq', quant, z) + tuple(inner)
        shape = rng.choice(('attr', 'attr', 'obj', 'expr', 'expr'))
        if shape == 'expr':
            # the sub-query SELECTS AN EXPRESSION: x.a op an(entity(z.a, inner))
            f = rng.choice('ab')
            sqe = ('subq', quant, ('attr', f, ('var', z))) + tuple(inner)
            op = rng.choice(('eq', 'ne', 'lt', 'ge'))
            atom_i = ('cmp', op, ('attr', 'a', ('var', x)), sqe)
            atom_e = ('cmp', op, ('attr', 'a', ('var', x)), ('attr', f, ('var', z)))
        elif shape == 'attr':
            op = rng.choice(('eq', 'ne', 'lt', 'ge'))
            atom_i = ('cmp', op, ('attr', 'a', ('var', x)), ('attr', 'a', sq))
            atom_e = ('cmp', op, ('attr', 'a', ('var', x)), ('attr', 'a', ('var', z)))
        else:
            op = rng.choice(('eq', 'ne'))
            atom_i = ('cmp', op, ('attr', 'ref', ('var', x)), sq)
            atom_e = ('cmp', op, ('attr', 'ref', ('var', x)), ('var', z))
        if rng.random() < 0.3:
            atom_i = ('cmp', atom_i[1], atom_i[3], atom_i[2]) if atom_i[1] in ('eq', 'ne') else atom_i
            atom_e = ('cmp', atom_e[1], atom_e[3], atom_e[2]) if atom_e[1] in ('eq', 'ne') else atom_e
        extra = [gx.atom()] if rng.random() < 0.4 else []
        case = dict(base)
        if quant == 'an' and tries % 7 == 3:
            # the comparison with a CORRELATED sub-query operand is the LEFT side of a disjunction: under an outer value for
            # which the sub-query has no solution the comparison is false, the right side decides
            corr = ('cmp', rng.choice(('eq', 'eq', 'lt', 'ne')), ('attr', rng.choice('ab'), ('var', z)),
                    ('attr', rng.choice('ab'), ('var', x)))
            inner_c = rng.choice([corr, ('and', corr, gz.atom())])
            op = rng.choice(('eq', 'ne', 'lt', 'ge'))
            g_ = rng.choice('ab')
            if rng.random() < 0.5:
                sqc, rhs_e = ('subq', 'an', ('attr', g_, ('var', z)), inner_c), ('attr', g_, ('var', z))
                atom_i = ('cmp', op, ('attr', 'a', ('var', x)), sqc)
            else:
                sqc, rhs_e = ('subq', 'an', z, inner_c), ('attr', g_, ('var', z))
                atom_i = ('cmp', op, ('attr', 'a', ('var', x)), ('attr', g_, sqc))
            atom_e = ('cmp', op, ('attr', 'a', ('var', x)), rhs_e)
            other = gx.atom()
            case = dict(base)
            case.update({'sel': [('var', x)], 'entity': True, 'cond': [('or', atom_i, other)],
                         'explicit': {**base, 'sel': [('var', x)], 'entity': True,
                                      'cond': [('or', ('and', inner_c, atom_e), other)]},
                         'operand_quant': 'an_correlated_left_of_a_disjunction'})
            # (attribution of known finding C15-F1: the outer values under which the sub-query has NO solution)
            try:
                orc = surface.Oracle({**base, 'sel': [('var', x), ('var', z)], 'entity': False, 'cond': [inner_c], 'quant': 'an'})
                with_sol = {r[0] for r in orc.rows()}
                case['f1_without_solution'] = [v for v in base['vars'][x][2] if tuple(v) not in {tuple(w) for w in with_sol}]
            except Exception:
                continue
            ocases.append(case)
            continue
        if quant == 'an' and rng.random() < 0.3:
            # the comparison with the sub-query operand is the LEFT side of a disjunction (its false outputs are asked for)
            other = gx.atom()
            conj_ = lambda ps: ps[0] if len(ps) == 1 else ('and',) + tuple(ps)     # noqa: E731
            case.update({'sel': [('var', x)], 'entity': True, 'cond': [('or', atom_i, other)],
                         'explicit': {**base, 'sel': [('var', x)], 'entity': True,
                                      'cond': [('or', conj_(list(inner) + [atom_e]), other)]},
                         'operand_quant': 'an_left_of_a_disjunction'})
            ocases.append(case)
            continue
        case.update({'sel': [('var', x)], 'entity': True, 'cond': [atom_i] + extra,
                     'explicit': {**base, 'sel': [('var', x)], 'entity': True, 'cond': inner + [atom_e] + extra},
                     'operand_quant': quant + ('_selecting_an_expression' if shape == 'expr' else '')})
        ocases.append(case)

    class OJ(QueryJudge):
        def __call__(self, case, res, drv):
            self.report.count('operand_subquery_' + case['operand_quant'])
            # no tree/L2 claim for the operand form: compare rows with the oracle of the flattened twin only
            drv = {**drv}
            drv.pop('l2', None)
            super().__call__(case, res, drv)

        def violation(self, what, case, **kw):
            # known finding C15-F1: exactly the outer values under which the correlated sub-query operand has no solution are
            # lost (anything else - a wrong row, another value missing - is reported)
            if case.get('operand_quant') == 'an_correlated_left_of_a_disjunction' and what.startswith('rows differ') and \
                    isinstance(kw.get('observed'), list) and isinstance(kw.get('expected'), list):
                obs, want = kw['observed'], kw['expected']
                empty = {f'o{v[1]}' for v in case.get('f1_without_solution', ())}
                missing = [r for r in want if r not in obs]
                if missing and all(r in want for r in obs) and all(r in empty for r in missing) and self.known('C15-F1'):
                    return
            super().violation(what, case, **kw)
    run_query_cases(report, ocases, {'caching': (False, True), 'evals': 1},
                    OJ(report, findings, 'C15', nontrivial=nontrivial_filter))
    # the sub-query constrains a FLATTENED element that it does not select and the enclosing query does (C16's vocabulary)
    fcases = []
    for j in range(max(40, n // 4)):
        objs = gen_nested_case(rng, j, container_elements=False)
        raw = [('o', k_) for k_ in range(len(objs))]
        P, E = ('var', 0), ('flat', 100, ('attr', 'items', ('var', 0)))
        pc = ('cmp', rng.choice(('gt', 'le', 'eq', 'ne')), ('attr', 'a', P), ('lit', ('i', rng.randint(0, 3))))
        ec = ('cmp', rng.choice(('gt', 'le', 'eq', 'ne', 'lt', 'ge')), E, ('lit', ('i', rng.randint(0, 4))))
        case = {'id': f'f{j}', 'classes': [('A', '-')], 'objs': objs, 'vars': [(0, 'A', raw)], 'quant': 'an'}
        fcases.append(subquery_over_flatten(rng, case, P, E, pc, ec))
        report.count('subquery_constrains_a_flattened_element_it_does_not_select')
    import harness.qcheck as qc
    import harness.props_q as pq_
    orig = qc.all_selected
    qc.all_selected = pq_.all_selected = strict_all_selected(orig)
    try:
        run_query_cases(report, fcases, {'caching': (False, True), 'evals': 1},
                        QueryJudge(report, findings, 'C15', nontrivial=lambda c, r: True))
    finally:
        qc.all_selected = pq_.all_selected = orig
    return ['EqlModel.Props.C15'], [
        "sub-queries as comparison operands and as constructor arguments are covered by the C13/C11 correspondence streams, not by a theorem",
        "every non-selected variable has a non-empty domain"]


# ------------------------------------------------------------------------------------------- C18

MIRROR = {'lt': 'gt', 'gt': 'lt', 'le': 'ge', 'ge': 'le', 'eq': 'eq', 'ne': 'ne'}


def rewrite_cond(rng, c, log):
    k = c[0]
    if k in ('and', 'or'):
        kids = [rewrite_cond(rng, x, log) for x in c[1:]]
        r = rng.random()
        if r < 0.35:
            kids.reverse()
            log.append('swap_' + k)
        if len(kids) >= 3 and rng.random() < 0.5:
            if rng.random() < 0.5:
                kids = [(k,) + tuple(kids[:2])] + kids[2:]
                log.append('assoc_left_' + k)
            else:
                kids = kids[:-2] + [(k,) + tuple(kids[-2:])]
                log.append('assoc_right_' + k)
        elif len(kids) == 2 and kids[1][0] == k and rng.random() < 0.5:
            kids = [kids[0]] + list(kids[1][1:])
            log.append('flatten_' + k)
        elif len(kids) == 2 and kids[0][0] == k and rng.random() < 0.5:
            kids = list(kids[0][1:]) + [kids[1]]
            log.append('flatten_' + k)
        return (k,) + tuple(kids)
    if k == 'not':
        return ('not', rewrite_cond(rng, c[1], log))
    if k == 'cmp' and rng.random() < 0.5:
        log.append('mirror_' + c[1])
        return ('cmp', MIRROR[c[1]], c[3], c[2])
    if k == 'in' and rng.random() < 0.5:
        log.append('in_to_contains')
        return ('contains', c[2], c[1])
    if k == 'contains' and rng.random() < 0.5:
        log.append('contains_to_in')
        return ('in', c[2], c[1])
    return c


def rewrite_case(rng, case):
    log = []
    new = copy.deepcopy(case)
    conds = [rewrite_cond(rng, c, log) for c in case['cond']]
    if len(conds) >= 2 and rng.random() < 0.5:
        conds = [('and',) + tuple(conds)]
        log.append('entity_conditions_to_and')
    elif len(conds) == 1 and conds[0][0] == 'and' and rng.random() < 0.5:
        conds = list(conds[0][1:])
        log.append('and_to_entity_conditions')
    new['cond'] = conds
    perm = list(range(len(case['sel'])))
    if len(perm) > 1 and rng.random() < 0.5:
        rng.shuffle(perm)
        log.append('select_order')
    new['sel'] = [case['sel'][i] for i in perm]
    new['sel_perm'] = perm
    if rng.random() < 0.5:
        order = [v[0] for v in case['vars']]
        rng.shuffle(order)
        new['decl_order'] = order
        log.append('declaration_order')
    if rng.random() < 0.5:
        new['vars'] = [(vid, cls, rng.sample(raw, len(raw))) for vid, cls, raw in case['vars']]
        log.append('domain_permutation')
    new['rewrites'] = log
    return new


def c18(report, rng, tier, findings):
    n = n_cases(tier, 400, 4000)
    cases = []
    pairs = []
    for i in range(n):
        nv = rng.choice((1, 2, 2, 3))
        cfg = gen.Cfg(n_vars=(nv, nv), n_objs=(2, 4 if nv < 3 else 3), depth=3 if nv < 3 else 2, empty_domain=0.0,
                      select_all=0.3, single_top=0.4)
        base = gen.gen_case(rng, cfg, f'c{i}')
        if nv >= 2 and rng.random() < 0.25:
            gen.apply_or_template(rng, cfg, base)
            report.count('template_disjunction_binds_unselected_variable')
        elif nv >= 3 and i % 2 == 1:
            gen.apply_three_var_template(random.Random(i * 17 + 3), cfg, base)
            report.count('template_three_variables')
        if len(base['sel']) == 1:
            base['entity'] = True
        rw = rewrite_case(rng, base)
        for _ in range(rng.randint(0, 2)):
            more = rewrite_case(rng, rw)
            more['sel_perm'] = [rw['sel_perm'][j] for j in more['sel_perm']]
            more['rewrites'] = rw['rewrites'] + more['rewrites']
            rw = more
        rw['id'] = f'c{i}r'
        rw['entity'] = base.get('entity', len(base['sel']) == 1)
        cases += [base, rw]
        pairs.append((base, rw))
    report.rule = ("each random query q is rewritten by a random composition of: swapping and_/or_ operands, re-associating / "
                   "flattening chains, several entity conditions <-> one and_, mirroring comparisons (a<b <-> b>a, literal on either "
                   "side), contains <-> in_, declaration order, selection order, domain permutation; the result SETS of q and its "
                   "rewrite are compared with each other and with the oracle, caching on and off; non-trivial = at least one rewrite "
                   "applied and the condition is neither constantly true nor false")
    results = {}

    def judge_factory():
        inner = QueryJudge(report, findings, 'C18', nontrivial=lambda c, r: False)

        def judge(case, res, drv):
            results[case['id']] = (case, res)
            inner(case, res, drv)
        return inner, judge
    inner, judge = judge_factory()
    run_query_cases(report, cases, {'caching': (False, True), 'evals': 1}, judge)
    for base, rw in pairs:
        if base['id'] not in results or rw['id'] not in results:
            continue
        for r in rw['rewrites']:
            report.count('rewrite_' + r)
        (_, rb), (_, rr) = results[base['id']], results[rw['id']]
        if rw['rewrites'] and nontrivial_filter(base, rb):
            report.nontrivial.add(surface.case_sexp({**rw, 'id': 'x'}))
        perm = rw['sel_perm']
        for cfgname in rb['impl']:
            ob, orw = rb['impl'][cfgname]['outs'][0], rr['impl'][cfgname]['outs'][0]
            if ob[0] != 'rows' or orw[0] != 'rows':
                continue
            sb = {tuple(r.split(',')) for r in ob[1]}
            sr = set()
            for r in orw[1]:
                parts = r.split(',')
                inv = [None] * len(parts)
                for pos, src in enumerate(perm):
                    inv[src] = parts[pos]
                sr.add(tuple(inv))
            if sb != sr:
                # both were already compared with the oracle; a difference here that the oracle comparison did not
                # explain (known finding) is a violation of the invariance itself
                nb, nr = rb['impl'][cfgname]['nonuniform'], rr['impl'][cfgname]['nonuniform']
                spec_b = {tuple(r.split(',')) for r in rb['spec']}
                if cfgname == 'on' and (nb or nr) and inner.known('C05-F1'):
                    continue
                if inner.attributed and ((base['id'], cfgname) in inner.attributed or (rw['id'], cfgname) in inner.attributed):
                    # one member's deviation from the oracle was already attributed to C05-F1 (the L2 machine, which
                    # transliterates the cache code, returns exactly its rows): not a second, separate violation
                    continue
                if (sb != spec_b) or True:
                    report.violations.append((f'result set changed under rewrites {rw["rewrites"]} (caching {cfgname})',
                                              {'what': 'result set not invariant', 'case': base, 'rewritten': rw,
                                               'case_sexp': surface.case_sexp(base),
                                               'rewritten_sexp': surface.case_sexp(rw),
                                               'rows': sorted(sb), 'rows_rewritten': sorted(sr)}))
    return ['EqlModel.Props.C18'], [
        "comparison operators behave as on ordinary Python values (World.Lawful)",
        "every non-selected variable has a non-empty domain",
        "caching on: a difference is attributed to C05-F1 only when a result cache was not prefix-uniform during one of the "
        "runs or the L2 machine reproduces the deviating member's rows"]


# ------------------------------------------------------------------------------------------- C09

def has_pred(c):
    k = c[0]
    if k in ('pred', 'predc'):
        return True
    if k in ('and', 'or'):
        return any(has_pred(x) for x in c[1:])
    if k == 'not':
        return has_pred(c[1])
    if k == 'sub':
        return any(has_pred(x) for x in c[2:])
    return False


def subst_var(x, old, new):
    """Rename a variable in a surface term / condition."""
    if isinstance(x, tuple):
        if len(x) == 2 and x[0] == 'var' and x[1] == old:
            return ('var', new)
        return tuple(subst_var(y, old, new) for y in x)
    return x


def c09(report, rng, tier, findings):
    n = n_cases(tier, 160, 2000)
    cases = []
    i = 0
    while len(cases) < n and i < 30 * n:
        i += 1
        nv = rng.choice((1, 1, 2))
        quant = rng.choice(('an', 'the'))
        cfg = gen.Cfg(n_vars=(nv, nv), n_objs=(1, 4), depth=2, select_all=1.0, empty_domain=0.0, quant=quant)
        case = gen.gen_case(rng, cfg, f'c{i}')
        if not any(has_pred(c) for c in case['cond']):
            continue
        if rng.random() < 0.4:
            # the predicate-bearing conditions over the first variable move into a sub-query that supplies its DOMAIN:
            # x = let(T, domain=an(entity(z, conds(z)))); the explicit twin keeps them as conditions on x
            v0 = case['vars'][0][0]
            own = [c for c in case['cond'] if surface.cond_vars(c) <= {v0} and has_pred(c)]
            if not own:
                own = [(rng.choice(('pred', 'predc')), 'is_big', ('var', v0))]
            if own:
                # the enclosing query keeps only predicate-free conditions (its own tree has no predicate)
                rest = [c for c in case['cond'] if c not in own and not has_pred(c)]
                case = {**case, 'cond': own + rest}
                twin = dict(case)
                case = dict(case)
                case['cond'] = rest or None
                case['domq'] = {v0: [subst_var(c, v0, 60 + v0) for c in own]}
                case['explicit'] = twin
        elif rng.random() < 0.45:
            # the first variable is declared WITHOUT a domain, by keywords only (`T(a=1)`): it ranges over every instance
            # of its class and its constraints are attached lazily, during the evaluation; the explicit twin ranges over
            # all objects and carries the equality as a condition
            v0, cls0, _ = case['vars'][0]
            all_objs = [('o', j) for j, _, _ in case['objs']]
            lit = ('i', rng.randint(0, 2))
            kws = [('a', ('lit', lit))] if rng.random() < 0.8 else []
            eqs = [('cmp', 'eq', ('attr', 'a', ('var', v0)), ('lit', lit))] if kws else []
            twin = dict(case)
            twin['vars'] = [(v0, cls0, all_objs)] + list(case['vars'][1:])
            twin['cond'] = eqs + list(case['cond'])
            case = dict(case)
            case['vars'] = twin['vars']
            case['pform'] = {v0: {'pos': [], 'kw': kws}}
            case['nodom'] = [v0]
            case['explicit'] = twin
        if rng.random() < 0.35:
            case = dict(case)
            case['nested_eval'] = True
        if quant == 'the':
            try:
                k = len(surface.Oracle(case.get('explicit', case)).rows())
            except Exception:
                continue
            if k != 1 and rng.random() < 0.7:
                continue
        cases.append(case)
    report.rule = ("random an/the queries that use @predicate functions and Predicate subclasses (with negation, conjunction, "
                   "disjunction), each evaluated OUTSIDE any block, inside symbolic_mode(), inside rule_mode(), and with the result iterator started outside a block and continued inside one of either kind, caching on and "
                   "off, twice; every outcome is compared with the oracle (so the three ambient modes agree with each other); "
                   "40% take the first variable's domain from a sub-query, 25% declare it without a domain by keywords only "
                   "(constraints attached lazily during evaluation), in 35% every predicate body runs a nested evaluate() and "
                   "constructs / calls a Predicate subclass concretely (must be ordinary Python whatever the ambient mode); "
                   "rule inference under the three ambient modes is exercised by the C11 check; non-trivial = every case (each "
                   "contains a predicate)")
    judge = QueryJudge(report, findings, 'C09',
                       expected=lambda case, res: the_expected(case, res) if case['quant'] == 'the'
                       else canon(res['spec'], case))
    for c in cases:
        report.count('quant_' + c['quant'])
        report.count('domain_from_subquery' if c.get('domq') else 'no_domain_keywords_only' if c.get('nodom')
                     else 'plain_domain')
        if c.get('nested_eval'):
            report.count('predicate_bodies_run_a_nested_evaluation')
    run_query_cases(report, cases, {'caching': (False, True), 'evals': 2,
                                    'ambients': (None, 'query', 'rule', 'split:query', 'split:rule', 'query+q', 'rule+q')}, judge)
    return ['EqlModel.Props.C09', 'EqlModel.Props.C08'], [
        "the mode is read only by the patched constructors / predicate wrappers (hybrid_new, predicate.wrapper)",
        "single thread"]


# ------------------------------------------------------------------------------------------- C16 / C17

def gen_nested_case(rng, cid, scalars=True, container_elements=False):
    """Parents with inner collections of different lengths (empty, overlapping, scalar, falsy elements).
    `container_elements`: some ELEMENTS are containers themselves (pairs, empty tuples, lists): UNNEST opens one level."""
    n = rng.randint(1, 5)
    objs = []
    pool = [('i', k) for k in range(0, 5)]
    for i in range(n):
        r = rng.random()
        if r < 0.15:
            items = ('l',)
        elif r < 0.27 and scalars:
            items = rng.choice(pool)               # a non-iterable value: counts as a single element
        else:
            k = rng.randint(1, 3)
            kind_ = 't' if rng.random() < 0.25 else 'l'          # a quarter of the inner collections are TUPLES
            if rng.random() < 0.8:
                items = (kind_,) + tuple(rng.sample(pool, k))     # no repeated element inside one collection
            else:
                items = (kind_,) + tuple(rng.choice(pool) for _ in range(k))
        if container_elements and items[0] in ('l', 't') and len(items) > 1 and rng.random() < 0.7:
            els = list(items[1:])
            for j in range(len(els)):
                if rng.random() < 0.5:
                    els[j] = rng.choice([('t', ('i', 1), ('i', 2)), ('t',), ('l', ('i', 3)), ('t', els[j], els[j])])
            items = (items[0],) + tuple(els)
        objs.append((i, 'A', {'a': ('i', rng.randint(0, 3)), 'b': ('i', rng.randint(0, 2)), 's': ('s', 'ab'),
                              'flag': ('b', rng.randint(0, 1)), 'items': items,
                              't': ('t', ('i', 0), ('i', 1)), 'ref': ('o', rng.randrange(n))}))
    return objs


MIRROR_OP = {'lt': 'gt', 'gt': 'lt', 'le': 'ge', 'ge': 'le', 'eq': 'eq', 'ne': 'ne'}


def subquery_over_flatten(rng, case, P, E, pc, ec):
    """The condition on the flattened element stands INSIDE a sub-query over the parent that does not select the element, while
    the enclosing query selects it: an(set_of([p, e], an(entity(p, e op k)))) means the condition written in place."""
    inner = rng.choice([ec, ('and', pc, ec), ('or', ec, ('cmp', 'eq', E, ('lit', ('i', rng.randint(0, 4)))))])
    sq = ('sub', (P,), inner)
    shape = rng.choice(('alone', 'and', 'and_sub', 'or_sub'))
    pc2 = ('cmp', rng.choice(('ge', 'le', 'ne')), ('attr', 'a', P), ('lit', ('i', rng.randint(0, 3))))
    if shape == 'alone':
        ci, ce = [sq], [inner]
    elif shape == 'and':
        ci, ce = [('and', sq, pc2)], [('and', inner, pc2)]
    elif shape == 'and_sub':
        ci, ce = [('and', sq, ('sub', (P,), pc2))], [('and', inner, pc2)]
    else:
        ci, ce = [('or', sq, ('sub', (P,), pc2))], [('or', inner, pc2)]
    sel_ = rng.choice(([P, E], [E, P], [P, E]))
    case = {**case, 'sel': sel_, 'cond': ci, 'entity': False}
    case['explicit'] = {**case, 'cond': ce}
    return case


def strict_all_selected(orig):
    """canonical form of rows with a flattened element: multiset only when (parent, element) are both selected and no inner
    collection repeats an element"""
    def strict(case):
        if not orig(case):
            return False
        if not any(t[0] == 'flat' for t in case['sel']):
            return False
        for _, _, a in case['objs']:
            it = a['items']
            if it[0] in ('l', 't') and len(set(it[1:])) != len(it[1:]):
                return False
        return True
    return strict


def c16(report, rng, tier, findings):
    n = n_cases(tier, 300, 4000)
    cases = []
    for i in range(n):
        cont_el = rng.random() < 0.12
        objs = gen_nested_case(rng, i, container_elements=cont_el)
        raw = [('o', j) for j in range(len(objs))]
        if rng.random() < 0.3:
            rng.shuffle(raw)
        P, E = ('var', 0), ('flat', 100, ('attr', 'items', ('var', 0)))
        sel = rng.choice(([P, E], [P, E], [E], [E, P]))
        conds = []
        r = rng.random()
        pc = ('cmp', rng.choice(('gt', 'le', 'eq', 'ne')), ('attr', 'a', P), ('lit', ('i', rng.randint(0, 3))))
        ec = ('cmp', rng.choice(('gt', 'le', 'eq', 'ne', 'lt', 'ge')), E, ('lit', ('i', rng.randint(0, 4))))
        pe = ('cmp', rng.choice(('lt', 'le', 'eq', 'ne', 'gt', 'ge')), ('attr', 'a', P), E)
        if rng.random() < 0.5:
            pe = ('cmp', MIRROR_OP[pe[1]], E, ('attr', 'a', P))
        if rng.random() < 0.25:
            pe = rng.choice([('in', E, ('attr', 't', P)), ('contains', ('attr', 't', P), E), ('not', ('in', E, ('attr', 't', P)))])
        if r < 0.2:
            conds = []
        elif r < 0.3:
            # the element compared with an attribute of ITS OWN parent (both operands symbolic, one variable)
            conds = [rng.choice([pe, ('and', pc, pe), ('and', pe, pc)])]
        elif r < 0.45:
            conds = [pc]
        elif r < 0.7:
            conds = [ec]
        elif r < 0.85:
            conds = [('and', pc, ec)]
        else:
            conds = [('or', ec, ('cmp', 'eq', E, ('lit', ('i', rng.randint(0, 4)))))]
        if not cont_el and rng.random() < 0.1:
            # TWO flattens over the SAME expression object (items = p.items; e1 = flatten(items); e2 = flatten(items)): two
            # independent unnests - every PAIR of elements of one parent
            E2 = ('flat', 101, ('attr', 'items', ('var', 0)))
            sel = rng.choice(([P, E, E2], [E, E2], [E2, P, E]))
            conds = rng.choice([[], [('cmp', rng.choice(('lt', 'ne', 'eq', 'le')), E, E2)], [pc]])
            case = {'id': f'c{i}', 'classes': [('A', '-')], 'objs': objs, 'vars': [(0, 'A', raw)], 'quant': 'an',
                    'sel': sel, 'cond': conds or None, 'entity': False, 'share_terms': True}
            report.count('two_flattens_over_one_expression_object')
            cases.append(case)
            continue
        if not cont_el and rng.random() < 0.1:
            # a PREDICATE (function or class form) whose two arguments are BOTH the flattened element (round 18): the second
            # argument is evaluated under the binding the first one made, so it is the SAME element - lt(e, e) never holds;
            # re-unnesting it would pair every element with its siblings
            pl = (rng.choice(('pred', 'predc')), 'lt', E, E)
            conds = rng.choice([[pl], [('or', pl, ec)], [('not', pl)], [('and', pc, ('not', pl))], [('or', ec, pl)]])
            report.count('predicate_with_two_arguments_from_the_element')
        if cont_el:
            # elements that are containers themselves are not ordered against numbers: no condition, or one on the parent
            conds = rng.choice([[], [pc]])
            report.count('elements_that_are_containers')
        case = {'id': f'c{i}', 'classes': [('A', '-')], 'objs': objs, 'vars': [(0, 'A', raw)], 'quant': 'an',
                'sel': sel, 'cond': conds or None, 'entity': len(sel) == 1}
        if rng.random() < 0.3 and not cont_el:
            # ANOTHER variable joined with the flattened element: in each row it keeps the binding that goes with the element
            npar = len(objs)
            extra = rng.randint(1, 3)
            objs = list(objs)
            for j in range(extra):
                objs.append((npar + j, 'B', {'a': ('i', rng.randint(0, 4)), 'b': ('i', 0), 's': ('s', 'ab'), 'flag': ('b', 0),
                                             'items': ('l',), 't': ('t', ('i', 0), ('i', 1)), 'ref': ('o', 0)}))
            Y = ('var', 1)
            ya = ('attr', 'a', Y)
            op = rng.choice(('eq', 'eq', 'ne', 'lt', 'ge'))
            join = ('cmp', op, E, ya) if rng.random() < 0.5 else ('cmp', MIRROR_OP[op], ya, E)
            conds2 = [join] if rng.random() < 0.6 else [rng.choice([('and', pc, join), ('and', join, pc), ('or', join, ec)])]
            if rng.random() < 0.15:
                conds2 = conds            # the other variable is unrelated: combined freely
            sel2 = [t for t in (P, E, Y) if t in (E,) or rng.random() < 0.6]
            rng.shuffle(sel2)
            case = {'id': f'c{i}', 'classes': [('A', '-'), ('B', '-')], 'objs': objs,
                    'vars': [(0, 'A', raw), (1, 'B', [('o', npar + j) for j in range(extra)])], 'quant': 'an',
                    'sel': sel2, 'cond': conds2 or None, 'entity': len(sel2) == 1, 'two_vars': True}
            report.count('with_a_second_variable')
        if i % 9 == 4:
            # the PARENT is a query result that is not selected: flatten(an(entity(p, p.a op k)).items), the element alone
            # (optionally with a condition on it); the explicit twin ranges over the parents that satisfy the condition
            pq = ('cmp', rng.choice(('ge', 'le', 'ne', 'eq')), ('attr', 'a', P), ('lit', ('i', rng.randint(0, 3))))
            base_ = {'id': f'c{i}', 'classes': case['classes'], 'objs': objs, 'vars': [(0, 'A', raw)], 'quant': 'an'}
            keep = [v for v in raw if surface.Oracle({**base_, 'sel': [P], 'cond': None}).holds(pq, {0: v})]
            Es = ('flat', 100, ('attr', 'items', ('subq', 'an', 0, pq)))
            with_c = rng.random() < 0.5
            case = {**base_, 'sel': [Es], 'cond': [('cmp', ec[1], Es, ec[3])] if with_c else None, 'entity': True}
            case['explicit'] = {**base_, 'vars': [(0, 'A', keep)], 'sel': [E], 'cond': [ec] if with_c else None, 'entity': True}
            report.count('parent_is_an_unselected_query_result')
        if i % 9 == 7 and not cont_el and not case.get('two_vars'):
            case = subquery_over_flatten(rng, case, P, E, pc, ec)
            report.count('element_constrained_inside_a_subquery_that_does_not_select_it')
        cases.append(case)
        if rng.random() < 0.4:
            cases[-1]['pre_take'] = rng.randint(1, 4)
            report.count('after_an_abandoned_evaluation')
    report.rule = ("1-5 parents whose inner collections are empty, overlapping, scalar (non-iterable) or carry repeated / falsy "
                   "elements; flatten(p.items) selected alone, with the parent (either order); no condition, a condition on the "
                   "parent, on the element, both, a disjunction on the element, or a comparison / membership test between the element and an attribute of its own parent; 40% of the cases are evaluated after an "
                   "evaluation of the same query that was abandoned after 1-4 rows; rows compared with the UNNEST oracle as a multiset "
                   "when parent and element are selected and no collection repeats an element, as a set otherwise; non-trivial = at "
                   "least two parents with non-empty collections; 30% of the cases have a second variable joined (or not) with the "
                   "flattened element and selected or not")

    def nontriv(case, res):
        return sum(1 for _, _, a in case['objs'] if a['items'] != ('l',)) >= 2

    class J(QueryJudge):
        pass
    judge = QueryJudge(report, findings, 'C16', nontrivial=nontriv)
    # canonical form: multiset only when (parent, element) are both selected and no inner collection repeats an element
    import harness.qcheck as qc
    orig = qc.all_selected

    def strict(case):
        if not orig(case):
            return False
        if not any(t[0] == 'flat' for t in case['sel']):
            return False
        for _, _, a in case['objs']:
            it = a['items']
            if it[0] in ('l', 't') and len(set(it[1:])) != len(it[1:]):
                return False
        return True
    qc.all_selected = strict
    import harness.props_q as pq
    pq.all_selected = strict
    try:
        run_query_cases(report, cases, {'caching': (False, True), 'evals': 2}, judge)
    finally:
        qc.all_selected = orig
        pq.all_selected = orig
    return ['EqlModel.Props.C16', 'EqlModel.Lemmas.Flat', 'EqlModel.Lemmas.FlatAdm'], [
        "theorems: list equalities for the shapes [p, e] / [e] without condition, with a condition on the parent, with a comparison "
        "on the element; set-level soundness/completeness for every condition and selection with flatten nodes, the equivalence "
        "c16_unnest_rows_iff for uniform disjunctions; multiplicities of disjunctions and [e, p] order are covered by correspondence",
        "multiset equality is claimed for inner collections without a repeated element inside one collection"]


def uses_concat_twice(case):
    in_sel = any(t[0] == 'concat' for t in case['sel'])
    return in_sel and 'concat' in str(case.get('cond'))

class J17(QueryJudge):
    """QueryJudge + attribution of known finding C05-F5 (concatenate used twice, caching on)."""
    def __call__(self, case, res, drv):
        n_before = len(self.report.violations)
        super().__call__(case, res, drv)
        new = self.report.violations[n_before:]
        if new and uses_concat_twice(case) and 'C05-F5' in self.findings:
            # known finding C05-F5: caching on, the concatenation is used by a condition AND selected: the cached
            # comparison gives back the operand's variable (bound to the aggregated list) but not the value of the
            # Concatenate node, which is then re-evaluated under that binding and raises
            off_ok = all(canon(o[1], case, True) == canon(res['spec'], case, True)
                         for k, cfg in res['impl'].items() if k.startswith('off') for o in cfg['outs'] if o[0] == 'rows') \
                and all(o[0] == 'rows' for k, cfg in res['impl'].items() if k.startswith('off') for o in cfg['outs'])
            keep = []
            for what, payload in new:
                if off_ok and '(caching on' in what and 'raised AttributeError' in what:
                    self.known('C05-F5')
                else:
                    keep.append((what, payload))
            self.report.violations[n_before:] = keep


def c17(report, rng, tier, findings):
    n = n_cases(tier, 300, 4000)
    cases = []
    for i in range(n):
        # 15 %: some ELEMENTS of the inner collections are containers themselves (the concatenation holds them as they
        # are: one level is opened, not two)
        cont_el = rng.random() < 0.15
        if cont_el:
            report.count('container_elements')
        objs = gen_nested_case(rng, i, container_elements=cont_el)
        npar = len(objs)
        # outer objects whose attribute a is tested for membership
        extra = rng.randint(1, 4)
        for j in range(extra):
            objs.append((npar + j, 'B', {'a': ('i', rng.randint(0, 5)), 'b': ('i', 0), 's': ('s', 'ab'), 'flag': ('b', 0),
                                         'items': ('l',), 't': ('t', ('i', 0), ('i', 1)), 'ref': ('o', 0)}))
        praw = [('o', j) for j in range(npar)]
        oraw = [('o', npar + j) for j in range(extra)]
        if rng.random() < 0.08:
            # NO parent at all: the supplied collection holds no instance of the parent class (the concatenation of
            # nothing is the empty list: still exactly one row, nothing is a member)
            praw = list(oraw)
            report.count('no_parent_in_the_domain')
        C = ('concat', 200, ('attr', 'items', ('var', 0)))
        kind = rng.choice(('value', 'member', 'notmember', 'contains', 'compound', 'compound', 'select_both'))
        if kind == 'value':
            case = {'sel': [C], 'cond': None, 'entity': True, 'vars': [(0, 'A', praw)]}
        elif kind in ('compound', 'select_both'):
            # the membership test (or its negation) combined with a condition on the OUTER variable by and_/or_, in
            # either order (the outer variable is then bound before or after the concatenation is evaluated); or the
            # concatenation selected next to the outer variable
            item = ('attr', 'a', ('var', 1))
            mem = ('in', item, C) if rng.random() < 0.7 else ('contains', C, item)
            if rng.random() < 0.35:
                mem = ('not', mem)
            atom = ('cmp', rng.choice(('gt', 'le', 'ne', 'eq')), item, ('lit', ('i', rng.randint(0, 5))))
            pair = [mem, atom]
            if rng.random() < 0.5:
                pair.reverse()
            cond = (rng.choice(('and', 'or')),) + tuple(pair)
            if rng.random() < 0.2:
                cond = ('not', cond)
            if kind == 'compound':
                case = {'sel': [('var', 1)], 'cond': [cond], 'entity': True, 'vars': [(0, 'A', praw), (1, 'B', oraw)]}
            else:
                sel = [('var', 1), C] if rng.random() < 0.5 else [C, ('var', 1)]
                case = {'sel': sel, 'cond': [rng.choice([atom, cond, mem])], 'entity': False,
                        'vars': [(0, 'A', praw), (1, 'B', oraw)]}
        else:
            item = ('attr', 'a', ('var', 1))
            cond = ('in', item, C) if kind != 'contains' else ('contains', C, item)
            if kind == 'notmember':
                cond = ('not', cond)
            case = {'sel': [('var', 1)], 'cond': [cond], 'entity': True, 'vars': [(0, 'A', praw), (1, 'B', oraw)]}
        case.update({'id': f'c{i}', 'classes': [('A', '-'), ('B', '-')], 'objs': objs, 'quant': 'an', 'kind': kind})
        if i % 9 == 4 and kind in ('value', 'member', 'notmember', 'contains') and praw and praw[0][1] < npar:
            # the PARENT is restricted by a sub-query: concatenate(an(entity(p, p.a op k)).items) ranges over the selected
            # parents only; the explicit twin ranges over the parents that satisfy the condition
            pc = ('cmp', rng.choice(('ge', 'le', 'ne', 'eq')), ('attr', 'a', ('var', 0)), ('lit', ('i', rng.randint(0, 3))))
            o_ = surface.Oracle({**case, 'sel': [('var', 0)], 'cond': None})
            keep = [v for v in praw if o_.holds(pc, {0: v})]
            Cs = ('concat', 200, ('attr', 'items', ('subq', 'an', 0, pc)))

            def swap(t):
                if t == C:
                    return Cs
                return tuple(swap(y) if isinstance(y, tuple) else y for y in t) if isinstance(t, tuple) else t
            twin = {**case, 'vars': [(0, 'A', keep)] + list(case['vars'][1:])}
            case = {**case, 'sel': [swap(t) for t in case['sel']], 'cond': [swap(c) for c in case['cond']] if case.get('cond') else None}
            case['explicit'] = twin
            report.count('parent_restricted_by_a_subquery')
        if i % 9 == 6 and kind in ('member', 'contains') and praw and praw[0][1] < npar:
            # the parent is restricted by an EARLIER CONJUNCT (the operand's variable is bound when the concatenation is
            # reached): and_(p.a op k, in_(o.a, concatenate(p.items))) selects the outer values that are in the collections
            # of the parents that satisfy the conjunct; the explicit twin ranges over those parents only
            pc = ('cmp', rng.choice(('ge', 'le', 'ne', 'eq')), ('attr', 'a', ('var', 0)), ('lit', ('i', rng.randint(0, 3))))
            o_ = surface.Oracle({**case, 'sel': [('var', 0)], 'cond': None})
            keep = [v for v in praw if o_.holds(pc, {0: v})]
            twin = {**case, 'vars': [(0, 'A', keep)] + list(case['vars'][1:])}
            case = {**case, 'cond': [('and', pc, case['cond'][0])]}
            case['explicit'] = twin
            case['set_level'] = True       # (one row per qualifying parent that holds the value: compared as a SET)
            report.count('parent_restricted_by_an_earlier_conjunct')
        if rng.random() < 0.4:
            case['pre_take'] = rng.randint(1, 2)       # after an evaluation of the same query abandoned at its k-th row
            report.count('after_an_abandoned_evaluation')
        cases.append(case)
    report.rule = ("1-5 parents (empty, overlapping, repeated, scalar inner collections); concatenate(p.items) evaluated alone (the "
                   "single value compared as a SEQUENCE) and as the container of in_/contains/not_(in_) tests of another variable's "
                   "attribute, 1-4 outer objects, members and non-members; the membership test also combined by and_/or_ (either "
                   "order, possibly negated) with a comparison on the outer variable, and the concatenation selected next to the "
                   "outer variable; two evaluations, 40% of the cases after an evaluation of "
                   "the same query that was abandoned at its first or second row; compared with the oracle; non-trivial = at "
                   "least two parents with elements")

    def nontriv(case, res):
        return sum(1 for _, c, a in case['objs'] if c == 'A' and a['items'] != ('l',)) >= 2
    judge = J17(report, findings, 'C17', nontrivial=nontriv, ordered=True)
    for c in cases:
        report.count('kind_' + c['kind'])
    run_query_cases(report, [c for c in cases if not c.get('set_level')], {'caching': (False, True), 'evals': 2, 'ordered': True}, judge)
    run_query_cases(report, [c for c in cases if c.get('set_level')], {'caching': (False, True), 'evals': 2},
                    J17(report, findings, 'C17', nontrivial=nontriv))
    return ['EqlModel.Props.C17'], ["the parent domain is non-empty in the generated cases (with no parent the single row has no value)",
                                    "membership is tested on an attribute of the outer variable (values), not on the objects themselves"]


# ------------------------------------------------------------------------------------------- C10

def nonuniform_or(c):
    """Does the condition contain a disjunction whose sides mention different variable sets?"""
    k = c[0]
    if k == 'or':
        sets = [frozenset(surface.cond_vars(x)) for x in c[1:]]
        if len(set(sets)) > 1:
            return True
        return any(nonuniform_or(x) for x in c[1:])
    if k == 'and':
        return any(nonuniform_or(x) for x in c[1:])
    if k == 'not':
        # negation turns a conjunction into a disjunction: treat and/or alike below a not
        inner = c[1]
        if inner[0] in ('and', 'or'):
            sets = [frozenset(surface.cond_vars(x)) for x in inner[1:]]
            return len(set(sets)) > 1 or any(nonuniform_or(('not', x)) for x in inner[1:])
        return nonuniform_or(inner)
    return False


def fa_entries(case):
    return [([case['forall'][0]], case['forall'][1])] if case.get('forall') else list(case['foralls'])



class J10(QueryJudge):
    """QueryJudge + attribution of the known findings C05-F3 and C10-F1."""
    def __call__(self, case, res, drv):
        n_before = len(self.report.violations)
        super().__call__(case, res, drv)
        # known finding C10-F1: disjunctions over different variable sets (the intersection compares bindings of
        # different shapes) - attributed only if the model (which transliterates ForAll) reproduces the answer
        new = self.report.violations[n_before:]
        entries = fa_entries(case)
        if new and (case.get('cond') or len(entries) > 1) and 'C05-F3' in self.findings:
            keep = []
            for what, payload in new:
                off_ok = all(canon(o[1], case) == payload.get('expected') for k, cfg in res['impl'].items()
                             if k.startswith('off') for o in cfg['outs'] if o[0] == 'rows')
                if '(caching on' in what and off_ok:
                    self.known('C05-F3')
                else:
                    keep.append((what, payload))
            self.report.violations[n_before:] = keep
            new = keep
        if new and any(nonuniform_or(c) for _, cs in entries for c in cs) and 'C10-F1' in self.findings:
            model = drv['model']
            model_obs = canon(model[1], case) if model[0] == 'rows' else model
            # with the cache disabled the implementation gives exactly the (defective) answer of the transliterated model
            off_is_model = all(canon(o[1], case) == model_obs for k, cfg in res['impl'].items() if k.startswith('off')
                               for o in cfg['outs'] if o[0] == 'rows')
            keep = []
            for what, payload in new:
                if payload.get('observed') == model_obs or ('(caching on' in what and off_is_model and model_obs != payload.get('expected')):
                    # the input is inside the finding's scope and reproduces it; what the result cache makes of the
                    # already wrong intersection is not a separate finding
                    self.known('C10-F1')
                else:
                    keep.append((what, payload))
            self.report.violations[n_before:] = keep


def c10(report, rng, tier, findings):
    n = n_cases(tier, 300, 4000)
    cases = []
    for i in range(n):
        nfree = rng.choice((1, 1, 2))
        forced = i % 6 == 5        # a fixed share of the cases is built around one shape (see below)
        if forced:
            nfree = 2
        nv = nfree + 1
        u = nfree                      # the universal variable is declared last (ids 0..nfree-1 are free)
        cfg = gen.Cfg(n_vars=(nv, nv), n_objs=(2, 4), depth=2, preds=False, share_domain=0.3, empty_domain=0.0,
                      int_range=(0, 3), falsy=0.4)
        base = gen.gen_case(rng, cfg, f'c{i}')
        free_ids = list(range(nfree))
        mode = rng.choice(('both', 'both', 'both', 'free_only', 'u_only'))
        if forced:
            mode = 'both'
        ids = {'both': list(range(nv)), 'free_only': free_ids, 'u_only': [u]}[mode]
        g = gen.CondGen(rng, cfg, ids)
        body = g.cond(rng.randint(0, 2))
        outer = []
        if rng.random() < 0.35:
            og = gen.CondGen(rng, cfg, free_ids)
            outer = [og.cond(rng.randint(0, 1))]
        # universal domain: 1-4 values, possibly with two objects carrying equal attribute values
        sel = [('var', v) for v in free_ids]
        rng.shuffle(sel)
        case = dict(base)
        # the universal variable ranges over a non-empty domain of the root class
        all_objs = [('o', j) for j, _, _ in base['objs']]
        uraw = rng.sample(all_objs, rng.randint(1 if rng.random() < 0.2 else 2, min(4, len(all_objs))))
        case['vars'] = [v if v[0] != u else (u, 'A', uraw) for v in base['vars']]
        case.update({'sel': sel, 'cond': outer or None, 'forall': (u, [body]), 'entity': len(sel) == 1,
                     'fa_mode': mode})
        # the universal argument may be an EXPRESSION over the universal variable (its values, falsy ones
        # included, are values, not conditions); it quantifies over the same objects
        shape = rng.choice(('single',) * 6 + ('two_same', 'two_same', 'nested', 'nested', 'fa_first', 'free_after',
                                              'flat_in_fa', 'flat_in_fa'))
        if forced:
            shape = 'single' if i % 12 == 5 else 'fa_first'
        case['fa_shape'] = shape
        if forced and i % 12 == 11:
            # template: the for_all is the first / only condition, BOTH free variables are still unbound, and a disjunction
            # chosen by the universal value binds them in opposite orders:
            # for_all(u, or_(and_(u.a == k, x.a < y.a), and_(u.a != k, y.b < x.a)))
            x_, y_ = free_ids
            U_ = ('var', u)
            k_ = ('lit', ('i', rng.randint(0, 3)))
            body = ('or', ('and', ('cmp', 'eq', ('attr', 'a', U_), k_),
                           ('cmp', rng.choice(('lt', 'le', 'ne')), ('attr', 'a', ('var', x_)), ('attr', 'a', ('var', y_)))),
                    ('and', ('cmp', 'ne', ('attr', 'a', U_), k_),
                     ('cmp', rng.choice(('lt', 'le', 'ne')), ('attr', 'a', ('var', y_)), ('attr', 'a', ('var', x_)))))
            case['forall'] = (u, [body])
            case['cond'] = None
            outer = []
            report.count('template_disjunction_binds_the_free_variables_in_opposite_orders')
        elif forced or (nfree == 2 and mode == 'both' and shape in ('single', 'fa_first') and i % 2 == 0):
            # one of the free variables of the for_all's condition is NOT selected (and no other conjunct mentions it unless
            # the outer condition happens to): f is kept iff SOME g makes the condition true for EVERY universal value
            case['sel'] = sel[:1]
            case['entity'] = True
            report.count('a_free_variable_of_the_condition_is_not_selected')
            if forced or i % 8 != 2:
                # template: the unselected g is tied to the selected f and compared with the universal value, so that
                # "for every u some g" and "some g for every u" differ: g.b == f.b and g.a != u.a
                f_, g_ = sel[0][1], [v for v in free_ids if v != sel[0][1]][0]
                tie = ('cmp', rng.choice(('eq', 'eq', 'ne')), ('attr', 'b', ('var', g_)), ('attr', 'b', ('var', f_)))   # b: any value
                vs = ('cmp', rng.choice(('ne', 'ne', 'lt', 'gt')), ('attr', 'a', ('var', g_)), ('attr', 'a', ('var', u)))
                body = ('and', tie, vs) if rng.random() < 0.7 else ('and', vs, tie)
                case['forall'] = (u, [body])
                case['cond'] = None
        if shape == 'single':
            r_u = rng.random()
            if r_u < 0.35:
                case['forall_expr'] = rng.choice([('attr', 'b', ('var', u)), ('attr', 'a', ('var', u)),
                                                  ('attr', 'ref', ('var', u)), ('attr', 'flag', ('var', u))])
            elif r_u < 0.6:
                # the universal variable is a CONSTRAINED variable, written in predicate form A(From(d), a=k): it ranges
                # over the members of d with a == k (kept non-empty); the explicit twin ranges over exactly those
                objs_by = {j: at for j, _, at in base['objs']}
                vals = sorted({objs_by[o[1]]['a'] for o in uraw}, key=repr)
                kval = rng.choice(vals)
                keep = [o for o in uraw if objs_by[o[1]]['a'] == kval]
                twin = dict(case)
                twin['vars'] = [v if v[0] != u else (u, 'A', keep) for v in case['vars']]
                if not case.get('cond') and rng.random() < 0.7:
                    # ... usually after a conjunct that binds the free variables
                    cnd = [gen.CondGen(rng, cfg, free_ids).cond(rng.randint(0, 1))]
                    case['cond'] = cnd
                    twin['cond'] = cnd
                case['pform'] = {u: {'pos': [], 'kw': [('a', ('lit', kval))]}}
                case['explicit'] = twin
                report.count('universal_variable_in_predicate_form')
        else:
            # several for_all conjuncts / a for_all whose condition is a for_all / the for_all written first
            del case['forall']
            g2 = gen.CondGen(rng, cfg, ids)
            if shape == 'two_same':
                case['foralls'] = [([u], [body]), ([u], [g2.cond(rng.randint(0, 1))])]
                case['fafirst'] = rng.random() < 0.5
            elif shape == 'nested':
                v = nv                   # a second universal variable, declared after the first
                vraw = rng.sample(all_objs, rng.randint(1 if rng.random() < 0.2 else 2, min(3, len(all_objs))))
                case['vars'] = case['vars'] + [(v, 'A', vraw)]
                g3 = gen.CondGen(rng, cfg, list(range(nv + 1)) if rng.random() < 0.7 else free_ids + [v])
                inner = g3.cond(rng.randint(0, 1))
                case['foralls'] = [([u, v], [('and', body, inner) if rng.random() < 0.5 else inner])]
                case['fafirst'] = rng.random() < 0.5
            elif shape == 'flat_in_fa':
                # a FLATTENED collection inside the for_all's condition: several elements of one free object may satisfy
                # it for one universal value (the condition then yields the same kept binding more than once), written
                # first or alone so that the free variable is still unbound
                x0 = free_ids[0]
                el = ('flat', 150, ('attr', 'items', ('var', x0)))
                opx = rng.choice(('ge', 'le', 'ne', 'eq', 'gt'))
                fbody = ('cmp', opx, el, ('attr', 'a', ('var', u)))
                if rng.random() < 0.3:
                    fbody = ('cmp', MIRROR_OP[opx], ('attr', 'a', ('var', u)), el)
                if rng.random() < 0.3:
                    fbody = ('and', gen.CondGen(rng, cfg, [x0]).atom(), fbody)
                case['foralls'] = [([u], [fbody])]
                case['fafirst'] = True
                case['sel'] = [('var', x0)]
                case['entity'] = True
                case['vars'] = [v for v in case['vars'] if v[0] in (x0, u)]
                case['cond'] = [gen.CondGen(rng, cfg, [x0]).cond(rng.randint(0, 1))] if rng.random() < 0.4 else None
            elif shape == 'fa_first':
                case['foralls'] = [([u], [body])]
                case['fafirst'] = True
                if not outer:
                    case['cond'] = [gen.CondGen(rng, cfg, free_ids).cond(rng.randint(0, 1))]
            else:
                # the universal variable is also mentioned, free, by a conjunct AFTER the for_all
                case['foralls'] = [([u], [body])]
                case['fafirst'] = True
                case['cond'] = [gen.CondGen(rng, cfg, list(range(nv))).cond(rng.randint(0, 1))]
        cases.append(case)
    report.rule = ("queries an(set_of(free, [outer,] for_all(u, c))) with 1-2 free variables and a universal variable over 1-4 "
                   "objects; c mentions the universal and the free variables, only the free ones, or only the universal one; "
                   "optionally conjoined with an outer condition; half of the cases: two for_all conjuncts over the same "
                   "universal variable, a for_all whose condition is a for_all over a second universal variable, the for_all "
                   "written BEFORE the other conjunct, or a later conjunct that mentions the universal variable free; compared with {f | all(c(f,u) for u in U)}; caching on and off, "
                   "two evaluations; non-trivial = the universal domain has >= 2 values and the answer is neither empty nor everything")

    def nontriv(case, res):
        us = {u_ for us_, _ in fa_entries(case) for u_ in us_}
        if case.get('fa_shape') == 'free_after':
            us = set()
        return all(res['dom_sizes'].get(u_, 0) >= 2 for u_ in us) and nontrivial_filter(
            {**case, 'vars': [v for v in case['vars'] if v[0] not in us]},
            {**res, 'dom_sizes': {k: v for k, v in res['dom_sizes'].items() if k not in us}})

    judge = J10(report, findings, 'C10', nontrivial=nontriv)
    for c in cases:
        report.count('mode_' + c['fa_mode'])
        report.count('universal_expression' if c.get('forall_expr') else 'universal_variable')
        report.count('shape_' + c['fa_shape'])
    run_query_cases(report, cases, {'caching': (False, True), 'evals': 2}, judge)
    return ['EqlModel.Props.C10'], [
        "non-empty universal domain",
        "the theorem covers conditions whose disjunctions mention the same variables on both sides (every true output binds "
        "all variables of the condition); other shapes: known finding C10-F1",
        "a conjunct that mentions a universal variable free, and a flattened collection inside a for_all's condition (some "
        "element must satisfy it for every universal value): model + correspondence, no theorem",
        "caching on: covered by correspondence, subject to C05-F1 / C05-F3"]


# ------------------------------------------------------------------------------------------- C13

C13_FIELDS = ('a', 'b', 's', 'flag', 'items', 't', 'ref')      # constructor parameter order of every generated class


def c13(report, rng, tier, findings):
    n = n_cases(tier, 300, 4000)
    cases = []
    for i in range(n):
        nv = rng.choice((1, 1, 2))
        cfg = gen.Cfg(n_vars=(nv, nv), n_objs=(2, 5), depth=1, subclasses=0.7, empty_domain=0.0, falsy=0.3,
                      int_range=(0, 2), select_all=1.0)
        base = gen.gen_case(rng, cfg, f'c{i}')
        # make domains mixed-type: every variable ranges over a random class, domain = all objects
        all_objs = [('o', j) for j, _, _ in base['objs']]
        classes = [c for c, _ in base['classes']]
        # ... or (half of the time) a random subset of them, so that instances of the class exist OUTSIDE the supplied domain
        base['vars'] = [(vid, rng.choice(classes),
                         rng.sample(all_objs, len(all_objs) if rng.random() < 0.5 else rng.randint(0, len(all_objs))))
                        for vid, _, _ in base['vars']]
        if rng.random() < 0.3:
            # some subclasses are NOT decorated with @symbol (they inherit the machinery of their decorated ancestor)
            subs = [c for c, b_ in base['classes'] if b_ != '-']
            if subs:
                base['undecorated'] = rng.sample(subs, rng.randint(1, len(subs)))
                report.count('undecorated_subclasses')
        if len(base['vars']) == 2 and rng.random() < 0.35:
            # both variables range over the SAME collection, given as one shared From(...) object
            v0_, v1_ = base['vars']
            base['vars'] = [v0_, (v1_[0], v1_[1], list(v0_[2]))]
            base['share_from'] = True
            report.count('one_From_object_shared_by_two_variables')
        extra = base['cond'] if rng.random() < 0.4 else []
        pform, eq_by_var, nested = {}, {}, False
        ovars = list(base['vars'])
        for vid, cls, raw in base['vars']:
            if rng.random() < 0.85:
                k = rng.randint(0, 2)
                fields = rng.sample(['a', 'b', 'ref'], k)
                style = rng.choice(('kw', 'pos'))
                spec = {'pos': [], 'kw': []}
                eqs = []
                if style == 'pos' and fields:
                    # positional values bind the leading constructor parameters, in order
                    fields = [f for f in C13_FIELDS[:rng.randint(1, 2)]]
                for f in fields:
                    if f == 'ref':
                        r = rng.random()
                        if r < 0.4 and vid > 0:
                            val, eq = ('var', vid - 1), ('cmp', 'eq', ('attr', 'ref', ('var', vid)), ('var', vid - 1))
                        elif r < 0.75:
                            o = rng.choice(all_objs)
                            val, eq = ('lit', o), ('cmp', 'eq', ('attr', 'ref', ('var', vid)), ('lit', o))
                        else:
                            z = 50 + vid
                            zc = rng.choice(classes)
                            lit = ('i', rng.randint(0, 2))
                            val = ('nested', zc, list(all_objs), [('a', lit)])
                            eq = ('and', ('cmp', 'eq', ('attr', 'ref', ('var', vid)), ('var', z)),
                                  ('cmp', 'eq', ('attr', 'a', ('var', z)), ('lit', lit)))
                            ovars.append((z, zc, list(all_objs)))
                            nested = True
                    else:
                        lit = rng.choice([('i', rng.randint(0, 2))] * 3 + gen.FALSY) if f == 'b' else ('i', rng.randint(0, 2))
                        val, eq = ('lit', lit), ('cmp', 'eq', ('attr', f, ('var', vid)), ('lit', lit))
                    (spec['pos'] if style == 'pos' else spec['kw']).append(val if style == 'pos' else (f, val))
                    eqs.append(eq)
                pform[vid] = spec
                if eqs:
                    eq_by_var[vid] = ('sub', (('var', vid),)) + tuple(eqs)
        # entity()/set_of() put the quantified selected expressions first, in selection order
        eq_conds = [eq_by_var[t[1]] for t in base['sel'] if t[0] == 'var' and t[1] in eq_by_var]
        explicit = dict(base)
        explicit['cond'] = (eq_conds + list(extra)) or None
        explicit['vars'] = ovars
        case = dict(base)
        case['cond'] = list(extra) or None
        case['pform'] = pform
        case['explicit'] = explicit
        case['nested'] = nested
        if len(base['vars']) == 1 and not case.get('share_from') and not nested and rng.random() < 0.2:
            # the domain is supplied by ANOTHER VARIABLE, or by a sub-query, that ranges over the ROOT class (a broader
            # type): only its members of the variable's own type count; the variable is written with let(T, domain=..)
            # or T(From(..)) without fields
            vid0, cls0, raw0 = base['vars'][0]
            root = base['classes'][0][0]
            zc = [] if rng.random() < 0.4 else [('cmp', rng.choice(('ge', 'le', 'ne')), ('attr', 'a', ('var', 60 + vid0)),
                                                  ('lit', ('i', rng.randint(0, 2))))]
            case = dict(base)
            case['cond'] = list(extra) or None
            case['domq'] = {vid0: zc}
            case['domq_cls'] = {vid0: root}
            case['domq_form'] = rng.choice(('let', 'from'))
            case['nested'] = True                 # no tree claim: the explicit twin has the conditions inline
            case['pform'] = {}
            case['explicit'] = {**base, 'cond': ([subst_var(c, 60 + vid0, vid0) for c in zc] + list(extra)) or None}
            report.count('domain_supplied_by_a_' + ('variable' if not zc else 'subquery') + '_of_a_broader_type')
            cases.append(case)
            continue
        if not case.get('share_from') and rng.random() < 0.4:
            # the supplied collection is a tuple, a generator expression or a plain iterator (one-shot, not sized)
            case['dom_kind'] = rng.choice(('tuple', 'gen', 'gen', 'iter'))
            report.count('domain_given_as_' + case['dom_kind'])
        elif not case.get('share_from') and rng.random() < 0.2 and all(raw for _, _, raw in case['vars']):
            # the supplied domain is a SINGLE OBJECT, not a collection (the library takes it as a one-member domain): it is
            # in the variable's range iff it is an instance of the variable's type
            case['dom_kind'] = 'single'
            one = [(vid, cls, [rng.choice(raw)]) for vid, cls, raw in case['vars']]
            case['vars'] = one
            explicit['vars'] = one
            report.count('domain_given_as_a_single_object')
        if len(base['vars']) == 1 and not extra and base['sel'] == [('var', base['vars'][0][0])] and rng.random() < 0.5:
            case['direct'] = True               # an(T(From(d), ...)) rather than an(entity(T(From(d), ...)))
            vid0 = base['vars'][0][0]
            explicit['cond'] = (list(eq_by_var[vid0][2:]) if vid0 in eq_by_var else None)    # the term IS the query
            report.count('quantifier_applied_to_the_term')
        cases.append(case)
    report.rule = ("queries whose variables are declared in predicate form T(From(d), ...) over MIXED-TYPE domains of a generated "
                   "hierarchy (the variable's class is a random class; subclasses must be kept, other classes dropped), with 0-2 "
                   "fields given by keyword or positionally after the domain, values: constants (falsy ones included), a variable "
                   "declared earlier, a nested predicate-form term; compared with the explicit query over let(T, d) with one equality "
                   "per field (rows vs oracle, constructed tree vs the model for non-nested values); non-trivial = at least one field "
                   "given and the domain contains objects that are not instances of the variable's class")

    def nontriv(case, res):
        has_field = any(sp['pos'] or sp['kw'] for sp in case['pform'].values())
        filtered = any(res['dom_sizes'][v] < res['raw_sizes'][v] for v in res['dom_sizes'])
        return has_field and filtered

    class J(QueryJudge):
        def __call__(self, case, res, drv):
            self.check_tree = not case['nested']
            super().__call__(case, res, drv)
    judge = J(report, findings, 'C13', nontrivial=nontriv, check_tree=True)
    for c in cases:
        report.count('nested' if c['nested'] else 'flat')
        for sp in c['pform'].values():
            report.count('positional_values', len(sp['pos']))
            report.count('keyword_values', len(sp['kw']))
    run_query_cases(report, cases, {'caching': (False, True), 'evals': 1}, judge)
    return ['EqlModel.Props.C13'], [
        "nested predicate-form values (sub-queries as operands): rows compared with the flattened explicit query, no theorem",
        "constructor parameter order is read with inspect.signature (trusted)"]


# ------------------------------------------------------------------------------------------- C04

def c04_impl(job):
    """A pool of queries over shared variables; a history of full / partial / raising evaluations; every
    evaluation that runs to completion must return what a fresh evaluation of that query returns."""
    case, opts = job
    from . import impl
    from entity_query_language import an, the, entity, set_of, symbolic_mode
    from entity_query_language.cache_data import enable_caching, disable_caching
    out = {'id': case['id'], 'runs': {}}
    specs = []
    try:
        vars_ = case['vars']
        dom_of = case.get('dom_of')      # (y, k): the variable y ranges over the results of the k-th query of the pool
        if dom_of:
            qk = case['pool'][dom_of[1]]
            inner_rows = surface.Oracle({**case, 'sel': qk['sel'], 'cond': qk['cond'], 'quant': 'an'}).rows()
            vars_ = [(vid, cls, [r[0] for r in inner_rows] if vid == dom_of[0] else raw) for vid, cls, raw in vars_]
        for qd in case['pool']:
            qc = {**case, 'vars': vars_, 'sel': qd['sel'], 'cond': qd['cond'], 'quant': 'an'}
            specs.append([surface.render_row(r) for r in surface.Oracle(qc).rows()])
        out['specs'] = specs
    except Exception as e:
        out['spec_exc'] = str(e)
        return out
    for caching in opts.get('caching', (False, True)):
        impl.reset_library_state()
        (enable_caching if caching else disable_caching)()
        key = 'on' if caching else 'off'
        steps = []
        held = []
        from .qcheck import CacheProbe
        probe = CacheProbe()
        probe.__enter__()
        try:
            b = impl.Built(case)
            if opts.get('share_terms') or case.get('share_terms_pool'):
                b.share_terms = {}
            # snapshot of the user's data
            raws = {vid: [b.decode(v) for v in raw] for vid, _, raw in case['vars']}
            snap_objs = [dict(vars(o)) for o in b.objs]
            with symbolic_mode():
                from entity_query_language import let
                for vid, cls, raw in case['vars']:
                    if dom_of and vid == dom_of[0]:
                        continue
                    b.vars[vid] = let(b.classes[cls], raws[vid], name=f"v{vid}")

                def mk_query(qd):
                    sel = [b.term(t) for t in qd['sel']]
                    conds = [b.cond(c) for c in qd['cond']]
                    desc = entity(sel[0], *conds) if len(sel) == 1 else set_of(sel, *conds)
                    return (an(desc), sel)
                queries = [None] * len(case['pool'])
                if dom_of:
                    # a variable whose DOMAIN is another query of the pool (the query object itself)
                    queries[dom_of[1]] = mk_query(case['pool'][dom_of[1]])
                    ycls = [cls for vid, cls, _ in case['vars'] if vid == dom_of[0]][0]
                    b.vars[dom_of[0]] = let(b.classes[ycls], domain=queries[dom_of[1]][0])
                for qi_, qd in enumerate(case['pool']):
                    if queries[qi_] is None:
                        queries[qi_] = mk_query(qd)

            def row(sel, r):
                return surface.render_row((b.encode(r),) if len(sel) == 1 else tuple(b.encode(r[s_]) for s_ in sel))
            for op in case['hist']:
                qi = op[1]
                q, sel = queries[qi]
                b.counter.raise_at = None
                if op[0] == 'full':
                    steps.append(('full', qi, [row(sel, r) for r in q.evaluate()]))
                elif op[0] in ('take', 'hold'):
                    it = q.evaluate()
                    got = []
                    try:
                        for _ in range(op[2]):
                            got.append(row(sel, next(it)))
                    except StopIteration:
                        pass
                    if op[0] == 'hold':
                        held.append(it)      # abandoned WITHOUT being closed: stays suspended to the end of the history
                    else:
                        it.close()
                    steps.append(('take', qi, got))
                elif op[0] == 'raise':
                    b.counter.raise_at = b.counter.calls + op[2]
                    try:
                        rows_ = [row(sel, r) for r in q.evaluate()]
                        steps.append(('noraise', qi, rows_))     # fewer than j predicate calls: ran to completion
                    except impl.UserRaise:
                        steps.append(('raised', qi, None))
                    finally:
                        b.counter.raise_at = None
            while held:
                held.pop().close()   # closing an abandoned iterator must not raise (an exception here is reported)
            unchanged = all([id(x) for x in raws[vid]] == [id(b.decode(v)) for v in raw] for vid, _, raw in case['vars']) \
                and snap_objs == [dict(vars(o)) for o in b.objs]
            out['runs'][key] = {'steps': steps, 'data_unchanged': unchanged, 'nonuniform': probe.nonuniform}
        except Exception as e:
            out['runs'][key] = {'exc': f'{type(e).__name__}: {str(e)[:200]}', 'steps': steps}
        finally:
            for it_ in held:
                try:
                    it_.close()
                except Exception:
                    pass
            probe.__exit__()
            enable_caching()
            impl.reset_library_state()
    return out


def c04(report, rng, tier, findings):
    n = n_cases(tier, 200, 3000)
    cases = []
    for i in range(n):
        nv = rng.choice((1, 1, 2, 2))
        cfg = gen.Cfg(n_vars=(nv, nv), n_objs=(2, 5 if nv == 1 else 3), depth=2, empty_domain=0.0,
                      dup_domain=0.35, select_all=1.0, closed=0.04)
        base = gen.gen_case(rng, cfg, f'h{i}')
        # every variable ranges over the root class: no (type-filtered) empty domain (that is C02-F1's territory)
        base['vars'] = [(vid, 'A', raw) for vid, _, raw in base['vars']]
        ids = [v[0] for v in base['vars']]
        # 15%: one variable has an EMPTY domain (while instances of its class exist); every query of the pool then selects
        # every variable, so that the answer is the empty product (a non-selected empty variable is C02-F1's territory)
        empty_var = None
        if rng.random() < 0.15:
            empty_var = rng.choice(ids)
            base['vars'] = [(vid, cls, [] if vid == empty_var else raw) for vid, cls, raw in base['vars']]
        pool = []
        for _ in range(rng.randint(1, 3)):
            g = gen.CondGen(rng, cfg, ids)
            cond = [g.cond(rng.randint(0, 2))]
            if rng.random() < 0.7:          # a user predicate, so that a raising evaluation is possible
                cond.append((rng.choice(('pred', 'predc')), 'is_big', ('var', rng.choice(ids))))
            k = rng.randint(1, len(ids)) if empty_var is None else len(ids)
            sel = [('var', v) for v in rng.sample(ids, k)]
            pool.append({'sel': sel, 'cond': cond})
        if empty_var is None and rng.random() < 0.25:
            # ONE user predicate applied, in two queries of the pool, to two DIFFERENT values derived from the same
            # object (x.a and x.plus(d)): what it answered for one must not be remembered for the other
            X0 = ('var', ids[0])
            kk, dd = rng.randint(1, 3), rng.randint(1, 3)
            two = [{'sel': [X0], 'cond': [('pred', 'lt', ('attr', 'a', X0), ('lit', ('i', kk)))]},
                   {'sel': [X0], 'cond': [('pred', 'lt', ('call', 'plus', (('i', dd),), X0), ('lit', ('i', kk)))]}]
            rng.shuffle(two)
            pool = two + pool[:1]
            report.count('one_predicate_on_two_values_of_one_object')
        if empty_var is None and rng.random() < 0.2:
            # a query that aggregates the objects' own list attributes (the user's lists must stay what they are)
            pool.append({'sel': [('concat', 300, ('attr', 'items', ('var', ids[0])))], 'cond': []})
        dom_of = None
        if empty_var is None and i % 7 == 3:
            # a variable y whose DOMAIN is a query of the pool (the first one, over x), and a query over y: abandoning
            # the query over y leaves the inner query part-way evaluated too
            X0, yv = ('var', ids[0]), 70
            gx = gen.CondGen(random.Random(i * 31 + 5), cfg, [ids[0]])
            gy = gen.CondGen(random.Random(i * 31 + 6), cfg, [yv])
            pool = [{'sel': [X0], 'cond': [gx.cond(1)]}] + pool[:1] + [{'sel': [('var', yv)], 'cond': [gy.cond(1)]}]
            base['vars'] = list(base['vars']) + [(yv, 'A', [])]
            dom_of = (yv, 0)
            report.count('a_variable_ranging_over_a_query_of_the_pool')
        hist = []
        for _ in range(rng.randint(2, 6 if tier == 'quick' else 10)):
            qi = rng.randrange(len(pool))
            r = rng.random()
            if r < 0.35:
                hist.append(('full', qi))
            elif r < 0.7:
                hist.append(('take', qi, rng.randint(0, 3)))
            else:
                hist.append(('raise', qi, rng.randint(1, 4)))
        hist.append(('full', rng.randrange(len(pool))))
        # a third of the abandoned evaluations are abandoned WITHOUT closing the iterator (it stays suspended, a live
        # reference, while the rest of the history runs); chosen by position, not by the generator's random stream
        hist = [('hold',) + op[1:] if op[0] == 'take' and op[2] > 0 and (i + j) % 3 == 0 else op for j, op in enumerate(hist)]
        if any(op[0] == 'hold' for op in hist):
            report.count('abandoned_without_closing')
        case = {**base, 'pool': pool, 'hist': hist}
        if dom_of:
            case['dom_of'] = dom_of
        cases.append(case)
    results = pmap(c04_impl, [(c, {'caching': (False, True)}) for c in cases])
    fnd = {f['id']: f for f in findings.get('findings', []) if f.get('status', 'open') == 'open'}
    report.rule = ("a pool of 1-3 queries over 1-2 SHARED variables (35% of the domains list an object twice, 15% of the cases "
                   "have a variable with an empty domain), and a history "
                   "of 2-6 (thorough 10) operations - evaluate fully, take k results then close, evaluate while a user predicate "
                   "raises at its j-th call - ending with a full evaluation; EVERY evaluation that runs to completion is compared "
                   "with the fresh answer of that query (oracle), partial ones must be a prefix-consistent subset; the user's "
                   "domain lists and object attributes are snapshotted before and compared after; caching on and off; non-trivial = "
                   "an abandoned or raising evaluation is followed by a full one of a query with a non-constant answer")
    for case, res in zip(cases, results):
        if 'spec_exc' in res:
            report.count('skipped_oracle_raises')
            continue
        report.evaluations += 1
        for op in case['hist']:
            report.count('op_' + op[0])
        report.add_sample({'pool': case['pool'], 'history': case['hist'],
                           'domains': [(v[0], len(v[2])) for v in case['vars']]}, limit=3)
        kinds = [op[0] for op in case['hist']]
        if any(k in ('take', 'hold', 'raise') for k in kinds[:-1]) and any(0 < len(s_) for s_ in res['specs']):
            report.nontrivial.add(str((case['pool'], case['hist'], case['vars'], [o[2] for o in case['objs']])))
        for key, run in res['runs'].items():
            if 'exc' in run:
                report.violations.append((f'implementation raised {run["exc"]} ({key})',
                                          {'what': run['exc'], 'case': case, 'config': key}))
                continue
            if not run['data_unchanged']:
                report.violations.append(('evaluation modified the user\'s domain collections or objects',
                                          {'what': 'user data modified', 'case': case, 'config': key}))
                continue
            for si, (kind, qi, rows_) in enumerate(run['steps']):
                report.traces += 1
                spec = res['specs'][qi]
                allsel = len(case['pool'][qi]['sel']) == len(case['vars'])
                canon_ = (lambda x: sorted(x)) if allsel else (lambda x: sorted(set(x)))
                bad = None
                if kind in ('full', 'noraise') and canon_(rows_) != canon_(spec):
                    bad = f'step {si + 1} ({case["hist"][si]}): a full evaluation returned {canon_(rows_)}, fresh answer {canon_(spec)}'
                elif kind == 'take' and not set(rows_) <= set(spec):
                    bad = f'step {si + 1} ({case["hist"][si]}): a partial evaluation returned rows outside the fresh answer'
                if bad:
                    if key == 'on' and 'C05-F1' in fnd and len(case['vars']) > 1 and run.get('nonuniform') and \
                            'off' in res['runs'] and 'exc' not in res['runs']['off'] and \
                            all(k not in ('full', 'noraise') or
                                canon_(r) == canon_(res['specs'][q_]) for k, q_, r in res['runs']['off']['steps']):
                        report.known['C05-F1'] = report.known.get('C05-F1', 0) + 1
                        report.known_text['C05-F1'] = fnd['C05-F1']['what']
                    else:
                        report.violations.append((bad, {'what': bad, 'case': case, 'config': 'caching ' + key,
                                                        'steps': run['steps'], 'fresh_answers': res['specs']}))
                    break
    # one expression object shared by two queries of a pool (condition position in one, value position in the other)
    shared_expression_pools(report, rng, n)
    return ['EqlModel.Props.C04', 'EqlModel.Props.C07'], [
        "single thread; an abandoned iterator may stay suspended (never closed) while later evaluations run, but it is never RESUMED "
        "after another evaluation of its query started (interleaved advancing of two iterators of one query is outside the "
        "property's operation list)",
        "caching on, multi-variable queries: subject to known finding C05-F1 (attributed only when the same history is right "
        "with caching off)",
        "the per-node state (de-dup sets, caches) is modelled by its life-cycle only; that a clean state gives the fresh answer "
        "is the L1 semantics, tied to the code by this correspondence"]


# ------------------------------------------------------------------------------------------- C05

def c05(report, rng, tier, findings):
    """Caching on vs off vs oracle over every query shape: joins over 2-4 variables, disjunctions over equal and over
    different variable sets, negation, for_all, nested queries, flatten, rule trees."""
    from . import props_q, props_r
    n = n_cases(tier, 240, 3000)
    # stream 1: multi-variable joins (up to 4 variables: where the caches stop being prefix-uniform)
    cases = []
    for i in range(n):
        nv = rng.choice((1, 2, 3, 3, 4))
        cfg = gen.Cfg(n_vars=(nv, nv), n_objs=(2, 4 if nv <= 2 else 3), depth=2 if nv >= 3 else 3,
                      select_terms=0.1, subqueries=0.2, empty_domain=0.0, preds=nv < 4)
        case = gen.gen_case(rng, cfg, f'j{i}')
        if nv >= 3 and i % 2 == 1:
            gen.apply_three_var_template(random.Random(i * 17 + 3), cfg, case)
            report.count('template_three_variables')
        if rng.random() < 0.5:
            order = [v[0] for v in case['vars']]
            rng.shuffle(order)
            case['decl_order'] = order          # declaration order decides the cache key order
        if i % 3 == 2:
            # the switch is flipped AFTER the query was written (built with caching on, evaluated with caching off)
            case['built_under_caching'] = True
            report.count('switch_turned_off_after_the_query_was_built')
        cases.append(case)
    judge = QueryJudge(report, findings, 'C05', nontrivial=lambda c, r: True)
    # a third of the join cases are evaluated after an evaluation of the same query abandoned after 1-3 rows: the caches
    # an abandoned evaluation leaves behind must not change what the cached configuration returns
    run_query_cases(report, cases, {'caching': (False, True), 'evals': 2, 'abandon': 0.35}, judge)
    hits_joins = report.dist.get('cache_hits_on', 0)
    # the other shapes reuse the streams of their own properties (smaller), same judge logic
    sub = lambda k: (k // 4 if tier == 'quick' else k // 4)     # noqa: E731
    for handler in (c10, c15, c16, props_r.c12):
        saved = n_cases
        try:
            globals()['n_cases'] = lambda t, q, th: max(40, sub(q if t == 'quick' else th))
            props_r.n_cases = globals()['n_cases']
            handler(report, rng, tier, findings)
        finally:
            globals()['n_cases'] = saved
            props_r.n_cases = saved
    report.nontrivial = {x for x in report.nontrivial}
    report.extra['cache_hits_taken_with_caching_on'] = report.dist.get('cache_hits_on', 0)
    report.extra['cache_hits_taken_with_caching_off'] = report.dist.get('cache_hits_off', 0)
    report.rule = ("every case is evaluated twice with the result caches enabled and twice with them disabled, and all four answers "
                   "are compared with the oracle: joins over 1-4 variables with shuffled declaration order (cache key order), "
                   "disjunctions over equal and over different variable sets, negation, sub-queries, then the streams of C10 "
                   "(for_all), C15 (nested queries), C16 (flatten) and C12 (rule trees); the number of cache hits actually taken is "
                   "reported (non-vacuity); a difference is attributed to a known finding only inside its scope and only when the "
                   "cache-off answer is the specified one; non-trivial = every case in which at least one cache hit was taken is "
                   "counted through the per-stream rules")
    if report.extra['cache_hits_taken_with_caching_on'] == 0:
        report.notes.append('no cache hit was taken: the comparison is vacuous')
    return ['EqlModel.Props.C05', 'EqlModel.Props.C20', 'EqlModel.Lemmas.MachineTree', 'EqlModel.Lemmas.MachineTreeTop'], [
        "proved: the cache index (C20), prefix-uniformity of single-key caches, and THE EVALUATOR with the cache enabled for "
        "every single-variable and/or tree (c05_single_variable_tree: L2 machine = L1 rows on every evaluation); for several "
        "variables, flatten, for_all, sub-queries and rule trees the evaluator's use of the index is decided by this "
        "differential check (caching on vs off vs oracle vs the L2 machine)",
        "known findings C05-F1 (non-prefix-uniform tries), C05-F2 (flatten conditions), C05-F3 (and_ with for_all over the "
        "universal variable only), C05-F4 (re-evaluated rule trees with alternatives)"]


HANDLERS = {'C05': c05, 'C04': c04, 'C13': c13, 'C10': c10, 'C16': c16, 'C17': c17, 'C09': c09, 'C03': c03, 'C06': c06, 'C15': c15, 'C18': c18, 'C19': c19}


# judges with check-specific known-finding attribution, also used by ./check --replay
REPLAY_JUDGES = {
    'C10': lambda report, findings: J10(report, findings, 'C10'),
    'C17': lambda report, findings: J17(report, findings, 'C17', ordered=True),
}
